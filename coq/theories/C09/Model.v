(* C09 model: POSIX path algebra on component lists; split_remote_path (utils.py), the three
   naming strategies and chain_strategies (naming.py), calculate_download_path, and the
   reservation of the chosen name in _prepare_download_path (transfer/manager.py).
   Strings are lists of code points (N).  Paths are lists of components below a model root
   (the harness' temp dir); the file system is a finite set of existing entries.
   Definitions only; executable (vm_compute).  Not modelled: symlinks, case-insensitive or
   Windows path semantics. *)
From Coq Require Import NArith List Bool.
From Coq Require DecimalN.
From SlskGen Require Import NamingGen.
Import ListNotations.
Open Scope N_scope.

Definition str := list N.
Definition SLASH : N := 47.  Definition BSLASH : N := 92.  Definition DOT : N := 46.
Definition SP : N := 32.  Definition LP : N := 40.  Definition RP : N := 41.
Definition AT : N := 64.  Definition COLON : N := 58.

Fixpoint str_eqb (a b : str) : bool :=
  match a, b with
  | [], [] => true
  | x :: a', y :: b' => andb (N.eqb x y) (str_eqb a' b')
  | _, _ => false
  end.

(* SEPARATORS is GENERATED from constants.PATH_SEPERATOR_PATTERN *)
Definition is_sep (c : N) : bool := existsb (N.eqb c) SEPARATORS.

(* re.split(r"[\\/]+", path) with the empty parts dropped = split at every separator, drop empties *)
Fixpoint split_at_seps (cur : str) (s : str) : list str :=
  match s with
  | [] => [rev cur]
  | c :: r => if is_sep c then rev cur :: split_at_seps [] r else split_at_seps (c :: cur) r
  end.
Definition nonempty (s : str) : bool := match s with [] => false | _ => true end.
Definition dot : str := [DOT].  Definition dotdot : str := [DOT; DOT].
(* parts kept by split_remote_path: `if part and part not in ('.', '..')` *)
(* SPLIT_DROPS is GENERATED from utils.split_remote_path *)
Definition keep_part (s : str) : bool := andb (nonempty s) (negb (existsb (str_eqb s) SPLIT_DROPS)).
Definition split_remote_path (s : str) : list str := filter keep_part (split_at_seps [] s).

(* ---------- file system ------------------------------------------------------------------ *)
Inductive kind := KDir | KFile.
Definition path := list str.
Definition fsys := list (path * kind).

Fixpoint path_eqb (a b : path) : bool :=
  match a, b with
  | [], [] => true
  | x :: a', y :: b' => andb (str_eqb x y) (path_eqb a' b')
  | _, _ => false
  end.

Fixpoint lookup (fs : fsys) (p : path) : option kind :=
  match p with
  | [] => Some KDir                      (* the model root *)
  | _ => match fs with
         | [] => None
         | (q, k) :: r => if path_eqb q p then Some k else lookup r p
         end
  end.

(* kernel path walk without symlinks: every component is looked up in a directory *)
Fixpoint resolve (fs : fsys) (cur : path) (comps : list str) : option path :=
  match comps with
  | [] => Some cur
  | c :: r =>
      match lookup fs cur with
      | Some KDir =>
          if orb (str_eqb c []) (str_eqb c dot) then resolve fs cur r
          else if str_eqb c dotdot then resolve fs (removelast cur) r
          else resolve fs (cur ++ [c]) r
      | _ => None
      end
  end.

(* os.path.exists of the joined components *)
Definition pexists (fs : fsys) (p : path) : bool :=
  match resolve fs [] p with
  | Some q => match lookup fs q with Some _ => true | None => false end
  | None => false
  end.

(* names directly below directory q *)
Fixpoint children (fs : fsys) (q : path) : list str :=
  match fs with
  | [] => []
  | (p, _) :: r =>
      match rev p with
      | n :: rq => if path_eqb (rev rq) q then n :: children r q else children r q
      | [] => children r q
      end
  end.

(* os.listdir; None = raises *)
Definition listdir (fs : fsys) (p : path) : option (list str) :=
  match resolve fs [] p with
  | Some q => match lookup fs q with Some KDir => Some (children fs q) | _ => None end
  | None => None
  end.

(* ---------- os.path.splitext (posixpath, names without '/') ---------------------------------- *)
(* last dot with a non-dot character somewhere before it *)
Fixpoint split_last_dot (s : str) : option (str * str) :=   (* (before the last dot, from the last dot) *)
  match s with
  | [] => None
  | c :: r =>
      match split_last_dot r with
      | Some (a, b) => Some (c :: a, b)
      | None => if N.eqb c DOT then Some ([], c :: r) else None
      end
  end.
Definition all_dots (s : str) : bool := forallb (N.eqb DOT) s.
Definition splitext (s : str) : str * str :=
  match split_last_dot s with
  | Some (a, b) => if all_dots a then (s, []) else (a, b)
  | None => (s, [])
  end.

(* ---------- NumberDuplicateStrategy -------------------------------------------------------- *)
(* \d / int(): every Unicode decimal digit; DIGIT_ZEROS is GENERATED from the interpreter's unicodedata *)
Definition digit_zero (c : N) : option N :=
  if N.ltb c 58 then (if N.leb 48 c then find (N.eqb 48) DIGIT_ZEROS else None)      (* fast path for ASCII; 48 is in the table *)
  else find (fun z => andb (N.leb z c) (N.ltb c (z + 10))) (tl DIGIT_ZEROS).
Definition is_digit (c : N) : bool := match digit_zero c with Some _ => true | None => false end.
Definition dval (c : N) : N := match digit_zero c with Some z => c - z | None => 0 end.
Fixpoint strip_prefix (pre s : str) : option str :=
  match pre, s with
  | [], _ => Some s
  | x :: pre', y :: s' => if N.eqb x y then strip_prefix pre' s' else None
  | _, [] => None
  end.
Fixpoint take_digits (s : str) : str * str :=
  match s with
  | c :: r => if is_digit c then let '(d, t) := take_digits r in (c :: d, t) else ([], s)
  | [] => ([], [])
  end.
Fixpoint uint_of_digits (d : str) : Decimal.uint :=
  match d with
  | [] => Decimal.Nil
  | c :: r =>
      let u := uint_of_digits r in
      match dval c with
      | 0 => Decimal.D0 u | 1 => Decimal.D1 u | 2 => Decimal.D2 u | 3 => Decimal.D3 u | 4 => Decimal.D4 u
      | 5 => Decimal.D5 u | 6 => Decimal.D6 u | 7 => Decimal.D7 u | 8 => Decimal.D8 u | _ => Decimal.D9 u
      end
  end.
Fixpoint digits_of_uint (u : Decimal.uint) : str :=
  match u with
  | Decimal.Nil => []
  | Decimal.D0 u => 48 :: digits_of_uint u | Decimal.D1 u => 49 :: digits_of_uint u | Decimal.D2 u => 50 :: digits_of_uint u
  | Decimal.D3 u => 51 :: digits_of_uint u | Decimal.D4 u => 52 :: digits_of_uint u | Decimal.D5 u => 53 :: digits_of_uint u
  | Decimal.D6 u => 54 :: digits_of_uint u | Decimal.D7 u => 55 :: digits_of_uint u | Decimal.D8 u => 56 :: digits_of_uint u
  | Decimal.D9 u => 57 :: digits_of_uint u
  end.
Definition int_of_digits (d : str) : N := N.of_uint (uint_of_digits d).
Definition dec (n : N) : str := digits_of_uint (N.to_uint n).          (* str(int) *)

(* re.match(re.escape(stem) + r' \((\d+)\)' + re.escape(ext), name): a PREFIX match *)
Definition match_index (stem ext name : str) : option N :=
  match strip_prefix (stem ++ [SP; LP]) name with
  | Some r =>
      let '(d, t) := take_digits r in
      match d with
      | [] => None
      | _ => match strip_prefix (RP :: ext) t with Some _ => Some (int_of_digits d) | None => None end
      end
  | None => None
  end.

Fixpoint indices (stem ext : str) (names : list str) : list N :=
  match names with
  | [] => []
  | n :: r => match match_index stem ext n with Some k => k :: indices stem ext r | None => indices stem ext r end
  end.

Definition memn (x : N) (l : list N) : bool := existsb (N.eqb x) l.
Fixpoint gap_from (fuel : nat) (k : N) (l : list N) : N :=
  match fuel with
  | O => k
  | S f => if memn k l then gap_from f (k + 1) l else k
  end.
Definition minl (l : list N) : N := match l with [] => 0 | x :: r => fold_left N.min r x end.
(* min(set(range(min, max + 2)) - set(indices)): the lowest free index above the smallest one *)
Definition next_index (inds : list N) : N :=
  match inds with [] => 1 | _ => gap_from (S (length inds)) (minl inds) inds end.

Definition number_name (stem ext : str) (k : N) : str := stem ++ [SP; LP] ++ dec k ++ [RP] ++ ext.

(* ---------- strategies ----------------------------------------------------------------------- *)
Inductive strat := Default | KeepDir | NumDup.

Definition is_alpha (c : N) : bool := orb (andb (N.leb 65 c) (N.leb c 90)) (andb (N.leb 97 c) (N.leb c 122)).
Definition starts_atat (s : str) : bool := match s with a :: b :: _ => andb (N.eqb a AT) (N.eqb b AT) | _ => false end.
Definition is_drive (s : str) : bool := match s with a :: b :: _ => andb (is_alpha a) (N.eqb b COLON) | _ => false end.

(* UNNAMED (DefaultNamingStrategy.FALLBACK_FILENAME), default_has_fallback, keepdir_guard_le: GENERATED from naming.py *)

(* None = the strategy raises (no shipped strategy does any more; NumDup would if listdir failed) *)
Definition apply_strat (fs : fsys) (remote : str) (st : strat) (p : path) (f : str) : option (path * str) :=
  let parts := split_remote_path remote in
  match st with
  | Default => match rev parts with l :: _ => Some (p, l) | [] => if default_has_fallback then Some (p, UNNAMED) else None end
  | KeepDir =>
      match rev parts with
      | [_] => Some (p, f)
      | _ :: c :: _ => if orb (starts_atat c) (is_drive c) then Some (p, f) else Some (p ++ [c], f)
      | [] => if keepdir_guard_le then Some (p, f) else None
      end
  | NumDup =>
      if pexists fs (p ++ [f]) then
        let '(stem, ext) := splitext f in
        match listdir fs p with
        | Some names => Some (p, number_name stem ext (next_index (indices stem ext names)))
        | None => None
        end
      else Some (p, f)
  end.

Fixpoint chain_from (fs : fsys) (remote : str) (ch : list strat) (p : path) (f : str) : option (path * str) :=
  match ch with
  | [] => Some (p, f)
  | st :: r => match apply_strat fs remote st p f with Some (p', f') => chain_from fs remote r p' f' | None => None end
  end.
Definition chain (fs : fsys) (remote : str) (ch : list strat) (dl : path) : option (path * str) :=
  chain_from fs remote ch dl [].

Definition strat_of_code (c : N) : strat := match c with 0 => Default | 1 => KeepDir | _ => NumDup end.
(* GENERATED from SharesManager.__init__ *)
Definition default_chain : list strat := map strat_of_code DEFAULT_CHAIN_CODES.

(* ---------- the property's predicates ------------------------------------------------------- *)
(* lexical normalisation (= realpath without symlinks) *)
Fixpoint norm_from (acc : path) (comps : list str) : path :=
  match comps with
  | [] => acc
  | c :: r => if orb (str_eqb c []) (str_eqb c dot) then norm_from acc r
              else if str_eqb c dotdot then norm_from (removelast acc) r
              else norm_from (acc ++ [c]) r
  end.
Definition norm (p : path) : path := norm_from [] p.

Definition inside (dl full : path) : Prop := exists rest, rest <> [] /\ norm full = dl ++ rest.
Fixpoint prefix_restb (a b : path) : option path :=
  match a, b with
  | [], _ => Some b
  | x :: a', y :: b' => if str_eqb x y then prefix_restb a' b' else None
  | _, [] => None
  end.
Definition insideb (dl full : path) : bool :=
  match prefix_restb dl (norm full) with Some (_ :: _) => true | _ => false end.

Definition nosep (f : str) : Prop := forall c, In c f -> is_sep c = false.
Definition regular_name (f : str) : Prop := f <> [] /\ f <> dot /\ f <> dotdot /\ nosep f.
Definition regular_nameb (f : str) : bool :=
  andb (nonempty f) (andb (negb (str_eqb f dot)) (andb (negb (str_eqb f dotdot)) (forallb (fun c => negb (is_sep c)) f))).

(* the download directory itself: plain component names *)
Definition dl_ok (dl : path) : Prop := Forall regular_name dl.

(* ---------- concurrency: Prepare k = _prepare_download_path (choice + makedirs + reservation of the
   name by creating the empty file, all before the first suspension point); Create k = the later
   aiofiles.open(..., 'ab') ------------------------------------------------------------------- *)
Inductive dev := Prepare (k : nat) | Create (k : nat).
Record dstate := mkD { d_fs : fsys; d_paths : list (nat * (path * str)) }.

Fixpoint find_path (l : list (nat * (path * str))) (k : nat) : option (path * str) :=
  match l with [] => None | (j, x) :: r => if Nat.eqb j k then Some x else find_path r k end.

(* makedirs(p, exist_ok=True) along existing directories; creating file f when it does not exist *)
Fixpoint mkdirs (fs : fsys) (cur : path) (comps : list str) : fsys :=
  match comps with
  | [] => fs
  | c :: r => let nxt := cur ++ [c] in
              match lookup fs nxt with
              | Some _ => mkdirs fs nxt r
              | None => mkdirs (fs ++ [(nxt, KDir)]) nxt r
              end
  end.
Definition create_file (fs : fsys) (p : path) (f : str) : fsys :=
  match resolve fs [] (p ++ [f]) with
  | Some q => match lookup fs q with Some _ => fs | None => fs ++ [(q, KFile)] end
  | None => fs
  end.

Definition dstep (ch : list strat) (dl : path) (remotes : nat -> str) (s : dstate) (e : dev) : dstate :=
  match e with
  | Prepare k =>
      match find_path (d_paths s) k with
      | Some _ => s                                     (* local_path already set *)
      | None => match chain (d_fs s) (remotes k) ch dl with
                | Some (p, f) =>
                    if prepare_reserves then      (* GENERATED from _prepare_download_path *)
                      let fs2 := create_file (mkdirs (d_fs s) [] (norm p)) p f in
                      (* OSError from makedirs/open: local_path stays unset *)
                      if pexists fs2 (p ++ [f]) then mkD fs2 ((k, (p, f)) :: d_paths s) else mkD fs2 (d_paths s)
                    else mkD (mkdirs (d_fs s) [] (norm p)) ((k, (p, f)) :: d_paths s)
                | None => s
                end
      end
  | Create k =>
      match find_path (d_paths s) k with
      | Some (p, f) => mkD (create_file (d_fs s) p f) (d_paths s)
      | None => s
      end
  end.
Definition drun (ch : list strat) (dl : path) (remotes : nat -> str) (s : dstate) (evs : list dev) : dstate :=
  fold_left (dstep ch dl remotes) evs s.

Definition full_path (x : path * str) : path := norm (fst x ++ [snd x]).
Fixpoint distinct_paths (l : list (nat * (path * str))) : bool :=
  match l with
  | [] => true
  | (_, x) :: r => andb (negb (existsb (fun y => path_eqb (full_path x) (full_path (snd y))) r)) (distinct_paths r)
  end.

Definition joined (x : nat * (path * str)) : path := fst (snd x) ++ [snd (snd x)].
