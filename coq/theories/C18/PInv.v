(* C18 proofs, part PInv.v *)
From Slsk Require Import Base.Tac.
From SlskGen Require Import TicketGen.
From Slsk Require Import C18.Model C18.PBase.
Open Scope Z_scope.

(* ---------------------------------------------------------------- the basic invariant *)
Definition obs_bounded (g : Z) (o : obs) : Prop :=
  match o with
  | ORemoveKeyErr _ => True
  | OSent k _ _ | OResult k _ | ORemoved k _ | OErrKey k _ | ORemoveOk k => k <= g
  end.

Record Inv (s : state) : Prop := mkInv {
  i_req : forall tk, In tk (requests s) -> tk <= gen s;
  i_task : forall i, (i < ntasks s)%nat -> owner (tasks s i) <= gen s /\ has_timer s (owner (tasks s i)) = true;
  i_timer : forall tk, has_timer s tk = true -> tk <= gen s;
  i_log : forall o, In o (log s) -> obs_bounded (gen s) o;
  i_handle : forall tk i, handle s tk = Some i -> (i < ntasks s)%nat /\ owner (tasks s i) = tk
}.

Definition okstep (s : state) (e : event) : Prop := is_issue e = true -> gen s < MAXT.

Lemma gen_step : forall s e, okstep s e -> gen (step s e) = gen s + (if is_issue e then 1 else 0).
Proof.
  intros s e H. unfold okstep in H.
  destruct e; cbn [is_issue] in *; try specialize (H eq_refl); unf; proj; brk; proj; try lia;
  rewrite ticket_step_spec; destruct (Z.ltb_spec MAXT (gen s + 1)); lia.
Qed.

Lemma obs_bounded_mono : forall g g' o, g <= g' -> obs_bounded g o -> obs_bounded g' o.
Proof. intros. destruct o; cbn in *; lia. Qed.

Lemma Inv_init : Inv init.
Proof. constructor; cbn; intros; try tauto; try discriminate; try lia. Qed.

Lemma Inv_step : forall s e, Inv s -> okstep s e -> Inv (step s e).
Proof.
  intros s e [I1 I2 I3 I4 I5] Hok.
  assert (Hnew : is_issue e = true -> ticket_step TICKET_INITIAL (gen s) = gen s + 1).
  { intros Hi. specialize (Hok Hi). rewrite ticket_step_spec. destruct (Z.ltb_spec MAXT (gen s + 1)); lia. }
  stepsplit s e ltac:(cbn [is_issue] in Hnew; try specialize (Hnew eq_refl)).
  all: constructor; proj; rewrite ?Hnew;
  [ (* requests *)
    intros tkx; cbn [In]; intros Hin; try (apply In_delz in Hin); try (destruct Hin as [<-|Hin]); try (apply I1 in Hin); lia
  | (* tasks *)
    intros ix; updsplit; intros Hi; subst;
      try match goal with |- context [tasks ?s0 ?k] => assert (Hk : (k < ntasks s0)%nat) by lia; destruct (I2 k Hk) end;
      first [ split; [lia| first [assumption | reflexivity]] | lia | split; [apply I3; assumption | assumption] | idtac "T" ]
  | (* has_timer *)
    intros tkx; updsplit; intros Hi; subst; first [discriminate | apply I3 in Hi; lia | lia | idtac "H" ]
  | (* log *)
    intros o Hin; cbn [In] in Hin;
    first [ destruct Hin as [<-|Hin]; [cbn [obs_bounded]; first [lia | exact I | match goal with E : memz _ _ = true |- _ => apply memz_In in E; apply I1 in E; lia end | match goal with H : (?i < ntasks ?s0)%nat |- _ => destruct (I2 i H); lia end] | apply I4 in Hin; eapply obs_bounded_mono; [|exact Hin]; lia]
          | apply I4 in Hin; eapply obs_bounded_mono; [|exact Hin]; lia ]
  | (* handles *)
    intros tkx ix; updsplit; intros Hi; subst;
      try discriminate; try (inv Hi); try (split; [lia|reflexivity]);
      try match goal with H : handle ?s0 ?k = Some ?j |- _ => destruct (I5 k j H) end; try (split; [lia|congruence]); try (exfalso; lia)
  ].
Qed.

(* invariants along histories that do not wrap the generator *)
Lemma run_inv : forall (P : state -> Prop) (allowed : event -> bool),
  (forall s e, Inv s -> P s -> okstep s e -> allowed e = true -> P (step s e)) ->
  forall evs s, Inv s -> P s -> gen s + issues evs <= MAXT -> forallb allowed evs = true ->
  P (run s evs) /\ Inv (run s evs) /\ gen (run s evs) = gen s + issues evs.
Proof.
  intros P allowed Hstep. induction evs; intros s HI HP Hg Ha.
  - unfold run, issues. cbn [fold_left filter length]. split; [assumption|split; [assumption|]]. change (Z.of_nat 0) with 0. lia.
  - cbn [run fold_left]. rewrite issues_cons in *. cbn [forallb] in Ha. apply andb_prop in Ha. destruct Ha as (Ha1 & Ha2).
    pose proof (issues_nonneg evs).
    assert (Hok : okstep s a). { unfold okstep. intros Hi. rewrite Hi in Hg. lia. }
    pose proof (gen_step s a Hok) as Hgs.
    destruct (IHevs (step s a)) as (H1 & H2 & H3); try assumption.
    + apply Inv_step; assumption.
    + apply Hstep; assumption.
    + rewrite Hgs. lia.
    + split; [assumption|split; [assumption|]]. fold (run (step s a) evs). rewrite H3, Hgs. lia.
Qed.

Definition anyev (e : event) := true.
Lemma forallb_any : forall evs, forallb anyev evs = true. Proof. induction evs; cbn; auto. Qed.

Lemma reach_inv : forall evs, nowrap evs -> Inv (run init evs) /\ gen (run init evs) = TICKET_INITIAL + issues evs.
Proof.
  intros evs H. destruct (run_inv (fun _ => True) anyev (fun _ _ _ _ _ _ => I) evs init Inv_init I H (forallb_any evs)) as (_ & H1 & H2).
  split; assumption.
Qed.

Lemma nowrap_app_l : forall a b, nowrap (a ++ b) -> nowrap a.
Proof. unfold nowrap. intros. rewrite issues_app in H. pose proof (issues_nonneg b). lia. Qed.

Lemma nowrap_okstep : forall evs e, nowrap (evs ++ [e]) -> okstep (run init evs) e.
Proof.
  intros evs e H. pose proof (nowrap_app_l _ _ H) as H1. destruct (reach_inv evs H1) as (_ & Hg).
  unfold okstep. intros Hi. unfold nowrap in H. rewrite issues_app, issues_cons, Hi in H. change (issues []) with 0 in H. lia.
Qed.

