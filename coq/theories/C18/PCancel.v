(* C18 proofs, part PCancel.v *)
From Slsk Require Import Base.Tac.
From SlskGen Require Import TicketGen.
From Slsk Require Import C18.Model C18.PBase C18.PInv C18.PHandle.
Open Scope Z_scope.

(* E: cancel / remove / re-arm make every task of the timer harmless *)
Definition CN (tk : Z) (s : state) : Prop :=
  tk <= gen s /\ forall i, (i < ntasks s)%nat -> owner (tasks s i) = tk -> status (tasks s i) <> Pend false.

Lemma CN_step : forall tk s e, Inv s -> CN tk s -> okstep s e -> noresched tk e = true -> CN tk (step s e).
Proof.
  intros tk s e HI (Hb & HC) Hok Ha.
  assert (Hnew : is_issue e = true -> ticket_step TICKET_INITIAL (gen s) = gen s + 1).
  { intros Hi. specialize (Hok Hi). rewrite ticket_step_spec. destruct (Z.ltb_spec MAXT (gen s + 1)); lia. }
  pose proof (gen_step s e Hok) as Hg.
  split. { destruct (is_issue e); lia. }
  intros i. stepsplit s e ltac:(cbn [is_issue noresched resched_on] in *; try specialize (Hnew eq_refl)); updsplit;
    intros Hi Oi; try (apply HC; assumption || lia); try discriminate; try lia.
  all: try (exfalso; unfold noresched, resched_on in Ha; subst; rewrite Z.eqb_refl in Ha; discriminate).
  all: try (subst; apply HC; solve [assumption | lia]).
Qed.

Lemma cancel_timer_CN : forall tk s, Inv s -> HP s -> tk <= gen s ->
  tk <= gen (cancel_timer s tk) /\
  forall i, (i < ntasks (cancel_timer s tk))%nat -> owner (tasks (cancel_timer s tk) i) = tk -> status (tasks (cancel_timer s tk) i) <> Pend false.
Proof.
  intros tk s HI H Hb. split. { unf; proj; brk; proj; assumption. }
  intros i. unf; proj; brk; proj; intros Hi Oi Si; try discriminate.
  all: try (pose proof (H i Hi Si) as HH; rewrite Oi in HH; congruence).
Qed.

Lemma cancel_makes_CN : forall tk s, Inv s -> HP s -> tk <= gen s -> CN tk (step s (Cancel tk)).
Proof.
  intros tk s HI H Hb. cbn [step]. destruct (has_timer s tk) eqn:Ht.
  - apply cancel_timer_CN; assumption.
  - split; [assumption|]. intros i Hi Oi _. destruct (i_task s HI i Hi) as (_ & HT). rewrite Oi in HT. congruence.
Qed.

Lemma forallb_app_inv : forall (f : event -> bool) a b, forallb f (a ++ b) = true -> forallb f a = true /\ forallb f b = true.
Proof. intros. rewrite forallb_app in H. apply andb_prop in H. exact H. Qed.

(* full statement: after cancel() - as long as the user does not re-arm the timer - nothing fires *)
Lemma cancel_effective : forall evs1 evs2 e tk t0 tau,
  nowrap (evs1 ++ Cancel tk :: evs2 ++ [e]) -> no_resched tk evs2 ->
  In (OSent tk t0 tau) (log (run init evs1)) ->
  forall o, In o (new_obs (run init (evs1 ++ Cancel tk :: evs2)) e) -> fires_for tk o = false.
Proof.
  intros evs1 evs2 e tk t0 tau Hnw Hnr2 Hsent o Ho.
  unfold nowrap in Hnw. rewrite issues_app, issues_cons, issues_app, issues_cons in Hnw. cbn [is_issue] in Hnw. change (issues []) with 0 in Hnw.
  pose proof (issues_nonneg evs1). pose proof (issues_nonneg evs2).
  assert (Hnw1 : nowrap evs1) by (unfold nowrap; destruct (is_issue e); lia).
  destruct (reach_HP evs1 Hnw1) as (HH & HI & Hg).
  set (s1 := run init evs1) in *.
  assert (Hb : tk <= gen s1). { apply (i_log s1 HI) in Hsent. exact Hsent. }
  assert (Hok : okstep s1 (Cancel tk)) by (intros Hx; discriminate).
  pose proof (cancel_makes_CN tk s1 HI HH Hb) as HC. pose proof (Inv_step s1 _ HI Hok) as HI2.
  pose proof (gen_step s1 _ Hok) as Hg2. cbn [is_issue] in Hg2.
  destruct (run_inv (CN tk) (noresched tk) (CN_step tk) evs2 (step s1 (Cancel tk)) HI2 HC) as (HC3 & HI3 & _).
  { rewrite Hg2, Hg. destruct (is_issue e); lia. }
  { exact Hnr2. }
  assert (Es : run init (evs1 ++ Cancel tk :: evs2) = run (step s1 (Cancel tk)) evs2) by (rewrite run_app; reflexivity).
  rewrite Es in *.
  destruct (fires_for tk o) eqn:Hf; [exfalso|reflexivity].
  destruct (fire_inv _ _ _ _ Ho Hf) as (i & _ & Hi & Oi & Si & _). destruct HC3 as (_ & HC3). exact (HC3 i Hi Oi Si).
Qed.

(* remove_request cancels the timer: afterwards no task of the request can wake up (until the user re-arms it) *)
Lemma remove_cancels_timer : forall evs1 evs2 tk,
  nowrap (evs1 ++ Remove tk :: evs2) -> no_resched tk evs2 -> memz tk (requests (run init evs1)) = true ->
  forall i, (i < ntasks (run init (evs1 ++ Remove tk :: evs2)))%nat ->
    owner (tasks (run init (evs1 ++ Remove tk :: evs2)) i) = tk -> status (tasks (run init (evs1 ++ Remove tk :: evs2)) i) <> Pend false.
Proof.
  intros evs1 evs2 tk Hnw Hnr2 Hm.
  unfold nowrap in Hnw. rewrite issues_app, issues_cons in Hnw. cbn [is_issue] in Hnw.
  pose proof (issues_nonneg evs1). pose proof (issues_nonneg evs2).
  assert (Hnw1 : nowrap evs1) by (unfold nowrap; lia).
  destruct (reach_HP evs1 Hnw1) as (HH & HI & Hg).
  set (s1 := run init evs1) in *.
  assert (Hb : tk <= gen s1). { apply (i_req s1 HI). apply memz_In. exact Hm. }
  assert (Hok : okstep s1 (Remove tk)) by (intros Hx; discriminate).
  assert (HC : CN tk (step s1 (Remove tk))).
  { cbn [step]. unfold SearchGen.remove_cancels_timer. rewrite Hm.
    set (s' := emit (set_requests s1 (delz tk (requests s1))) (ORemoveOk tk)).
    assert (HI' : Inv s'). { pose proof (Inv_step s1 (Remove tk) HI Hok) as X. cbn [step] in X. unfold SearchGen.remove_cancels_timer in X. rewrite Hm in X. fold s' in X.
      destruct (has_timer s' tk) eqn:Ht in X.
      - (* Inv of s' itself: rebuild from s1 *) constructor; unfold s'; unf; proj.
        + intros k Hk. apply In_delz in Hk. apply (i_req s1 HI). exact Hk.
        + apply (i_task s1 HI).
        + apply (i_timer s1 HI).
        + intros o [<-|Ho]; [exact Hb|apply (i_log s1 HI); exact Ho].
        + apply (i_handle s1 HI).
      - exact X. }
    assert (HH' : HP s') by exact HH.
    destruct (has_timer s' tk) eqn:Ht.
    - apply cancel_timer_CN; assumption.
    - split; [exact Hb|]. intros i Hi Oi _. destruct (i_task s' HI' i Hi) as (_ & HT). rewrite Oi in HT. congruence. }
  pose proof (Inv_step s1 _ HI Hok) as HI2. pose proof (gen_step s1 _ Hok) as Hg2. cbn [is_issue] in Hg2.
  destruct (run_inv (CN tk) (noresched tk) (CN_step tk) evs2 (step s1 (Remove tk)) HI2 HC) as (HC3 & _).
  { rewrite Hg2, Hg. lia. }
  { exact Hnr2. }
  assert (Es : run init (evs1 ++ Remove tk :: evs2) = run (step s1 (Remove tk)) evs2) by (rewrite run_app; reflexivity).
  rewrite Es. exact (proj2 HC3).
Qed.

(* first re-arm (no earlier reschedule): only the new deadline can fire *)
Definition SS (tk D : Z) (s : state) : Prop :=
  tk <= gen s /\ forall i, (i < ntasks s)%nat -> owner (tasks s i) = tk -> status (tasks s i) = Pend false -> deadline (tasks s i) = D.

Lemma SS_step : forall tk D s e, Inv s -> SS tk D s -> okstep s e -> noresched tk e = true -> SS tk D (step s e).
Proof.
  intros tk D s e HI (Hb & HC) Hok Ha.
  assert (Hnew : is_issue e = true -> ticket_step TICKET_INITIAL (gen s) = gen s + 1).
  { intros Hi. specialize (Hok Hi). rewrite ticket_step_spec. destruct (Z.ltb_spec MAXT (gen s + 1)); lia. }
  pose proof (gen_step s e Hok) as Hg.
  split. { destruct (is_issue e); lia. }
  intros i. stepsplit s e ltac:(cbn [is_issue noresched resched_on] in *; try specialize (Hnew eq_refl)); updsplit;
    intros Hi Oi Si; try (apply HC; assumption || lia); try discriminate; try lia.
  all: try (exfalso; unfold noresched, resched_on in Ha; subst; rewrite Z.eqb_refl in Ha; discriminate).
  all: try (subst; apply HC; solve [assumption | lia]).
Qed.

Lemma resched_makes_SS : forall tk tau s, Inv s -> HP s -> tk <= gen s -> has_timer s tk = true ->
  SS tk (now s + Z.max (match tau with Some t => t | None => tmo s tk end) 0) (step s (Resched tk tau)).
Proof.
  intros tk tau s HI H Hb Ht. pose proof (i_task s HI) as IT. pose proof (i_handle s HI) as IH.
  split. { unf; proj; brk; proj; assumption. }
  intros i. unf; proj; rewrite Ht; destruct tau; proj; brk; proj; intros Hi Oi Si; try discriminate; try congruence; try lia.
  all: try (assert (Hi' : (i < ntasks s)%nat) by lia; pose proof (H i Hi' Si) as HH; rewrite Oi in HH; congruence).
Qed.

(* full statement: after ANY re-arm - until the next one - the timer only fires once the new deadline is reached *)
Lemma superseded_never_fires : forall evs1 evs2 e tk tau t0 tau0,
  nowrap (evs1 ++ Resched tk tau :: evs2 ++ [e]) -> no_resched tk evs2 ->
  In (OSent tk t0 tau0) (log (run init evs1)) ->
  forall o, In o (new_obs (run init (evs1 ++ Resched tk tau :: evs2)) e) -> fires_for tk o = true ->
  now (run init evs1) + Z.max (match tau with Some t => t | None => tmo (run init evs1) tk end) 0
    <= now (run init (evs1 ++ Resched tk tau :: evs2)).
Proof.
  intros evs1 evs2 e tk tau t0 tau0 Hnw Hnr2 Hsent o Ho Hf.
  unfold nowrap in Hnw. rewrite issues_app, issues_cons, issues_app, issues_cons in Hnw. cbn [is_issue] in Hnw. change (issues []) with 0 in Hnw.
  pose proof (issues_nonneg evs1). pose proof (issues_nonneg evs2).
  assert (Hnw1 : nowrap evs1) by (unfold nowrap; destruct (is_issue e); lia).
  destruct (reach_HP evs1 Hnw1) as (HH & HI & Hg).
  set (s1 := run init evs1) in *.
  assert (Hb : tk <= gen s1). { apply (i_log s1 HI) in Hsent. exact Hsent. }
  assert (Hok : okstep s1 (Resched tk tau)) by (intros Hx; discriminate).
  set (D := now s1 + Z.max (match tau with Some t => t | None => tmo s1 tk end) 0).
  assert (HC : SS tk D (step s1 (Resched tk tau))).
  { destruct (has_timer s1 tk) eqn:Ht.
    - apply resched_makes_SS; assumption.
    - assert (E : step s1 (Resched tk tau) = s1) by (cbn [step]; rewrite Ht; reflexivity). rewrite E.
      split; [assumption|]. intros i Hi Oi _. destruct (i_task s1 HI i Hi) as (_ & HT). rewrite Oi in HT. congruence. }
  pose proof (Inv_step s1 _ HI Hok) as HI2. pose proof (gen_step s1 _ Hok) as Hg2. cbn [is_issue] in Hg2.
  destruct (run_inv (SS tk D) (noresched tk) (SS_step tk D) evs2 (step s1 (Resched tk tau)) HI2 HC) as (HC3 & HI3 & _).
  { rewrite Hg2, Hg. destruct (is_issue e); lia. }
  { exact Hnr2. }
  assert (Es : run init (evs1 ++ Resched tk tau :: evs2) = run (step s1 (Resched tk tau)) evs2) by (rewrite run_app; reflexivity).
  rewrite Es in *.
  destruct (fire_inv _ _ _ _ Ho Hf) as (i & _ & Hi & Oi & Si & Hd & _). destruct HC3 as (_ & HC3).
  rewrite (HC3 i Hi Oi Si) in Hd. exact Hd.
Qed.

