(* C18 proofs, part PNR.v *)
From Slsk Require Import Base.Tac.
From SlskGen Require Import TicketGen.
From Slsk Require Import C18.Model C18.PBase C18.PInv.
Open Scope Z_scope.

(* ---------------------------------------------------------------- C/E: timers that were never re-armed *)
Record NR (tk : Z) (s : state) : Prop := mkNR {
  nr_uniq : forall i j, (i < ntasks s)%nat -> (j < ntasks s)%nat -> owner (tasks s i) = tk -> owner (tasks s j) = tk -> i = j;
  nr_handle : forall i, (i < ntasks s)%nat -> owner (tasks s i) = tk -> status (tasks s i) = Pend false -> handle s tk = Some i;
  nr_nofire : forall i, (i < ntasks s)%nat -> owner (tasks s i) = tk -> (exists c, status (tasks s i) = Pend c) ->
              forall o, In o (log s) -> fires_for tk o = false;
  nr_deadline : forall i, (i < ntasks s)%nat -> owner (tasks s i) = tk ->
              exists t0 tau, In (OSent tk t0 tau) (log s) /\ tau <> 0 /\ deadline (tasks s i) = t0 + Z.max tau 0
}.


Lemma NR_init : forall tk, NR tk init.
Proof. intros. constructor; cbn; intros; lia. Qed.

Lemma fires_bounded : forall s tk o, Inv s -> In o (log s) -> fires_for tk o = true -> tk <= gen s.
Proof. intros s tk o HI Hin Hf. apply (i_log s HI) in Hin. destruct o; cbn in *; try discriminate; apply Z.eqb_eq in Hf; subst; assumption. Qed.

Lemma NR_step : forall tk s e, Inv s -> NR tk s -> okstep s e -> noresched tk e = true -> NR tk (step s e).
Proof.
  intros tk s e HI [U H Q D] Hok Ha.
  assert (Hnew : is_issue e = true -> ticket_step TICKET_INITIAL (gen s) = gen s + 1).
  { intros Hi. specialize (Hok Hi). rewrite ticket_step_spec. destruct (Z.ltb_spec MAXT (gen s + 1)); lia. }
  pose proof (i_task s HI) as IT. pose proof (i_handle s HI) as IH.
  constructor.
  - (* uniqueness *)
    intros i j. stepsplit s e ltac:(cbn [is_issue noresched resched_on] in *; try specialize (Hnew eq_refl)); updsplit;
      intros Hi Hj Oi Oj; try (apply U; assumption || lia); try lia; try discriminate.
    all: try (exfalso; match goal with H : context [owner (tasks ?s0 ?k)] |- _ => destruct (IT k ltac:(lia)); lia end).
    all: try (subst; apply U; solve [assumption | lia]).
    all: try (exfalso; unfold noresched, resched_on in Ha; subst; rewrite Z.eqb_refl in Ha; discriminate).
  - (* handle *)
    intros i. stepsplit s e ltac:(cbn [is_issue noresched resched_on] in *; try specialize (Hnew eq_refl)); updsplit;
      intros Hi Oi Si; try (apply H; assumption || lia); try lia; try discriminate; try reflexivity.
    all: try (exfalso; match goal with H : context [owner (tasks ?s0 ?k)] |- _ => destruct (IT k ltac:(lia)); lia end).
    all: try (exfalso; unfold noresched, resched_on in Ha; subst; rewrite Z.eqb_refl in Ha; discriminate).
    all: try (subst; apply H; solve [assumption | lia]).
    all: try (subst; reflexivity).
    all: try (exfalso; pose proof (H i Hi Oi Si) as HH; subst; congruence).
    all: try (exfalso; apply n; apply U; solve [assumption | lia | congruence]).
  - (* no fire while pending *)
    intros i Hi Oi (c & Si) o Hin.
    assert (Hb : forall o, In o (log s) -> fires_for tk o = true -> tk <= gen s) by (intros; eapply fires_bounded; eassumption).
    revert Hi Oi Si Hin.
    stepsplit s e ltac:(cbn [is_issue noresched resched_on] in *; try specialize (Hnew eq_refl)); updsplit;
      intros Hi Oi Si Hin; cbn [In] in Hin;
      repeat match goal with H : _ \/ _ |- _ => destruct H | H : False |- _ => destruct H end; subst o || idtac;
      try reflexivity; try discriminate; try lia;
      try (eapply Q; [| | | eassumption]; [eassumption || lia| assumption | eexists; eassumption]).
    all: try (match goal with H1 : In ?o (log ?s0) |- fires_for ?k ?o = false =>
                 destruct (fires_for k o) eqn:F; [exfalso; pose proof (Hb o H1 F); lia | reflexivity] end).
    all: try (eapply (Q i); [lia | eassumption | eexists; eassumption | eassumption]).
    all: try (eapply (Q n); [lia | eassumption | eexists; eassumption | eassumption]).
    all: try (exfalso; unfold noresched, resched_on in Ha; subst; rewrite Z.eqb_refl in Ha; discriminate).
    all: cbn [fires_for]; match goal with |- (?a =? ?b) = false => destruct (Z.eqb_spec a b); [|reflexivity] end;
         exfalso; apply n; apply U; solve [assumption | lia].
  - (* deadline *)
    intros i.
    stepsplit s e ltac:(cbn [is_issue noresched resched_on] in *; try specialize (Hnew eq_refl)); updsplit;
      intros Hi Oi;
      try (destruct (D i ltac:(lia) Oi) as (t0 & tau0 & D1 & D2 & D3); exists t0, tau0; split; [first [assumption | right; assumption] | split; assumption]).
    all: try (exfalso; unfold noresched, resched_on in Ha; subst; rewrite Z.eqb_refl in Ha; discriminate).
    all: try (eexists _, _; split; [left; subst; reflexivity | split; [| reflexivity]]; lia).
    all: try congruence.
    all: try (match goal with Oi : owner (tasks ?s0 ?k) = _ |- _ =>
                destruct (D k ltac:(lia) Oi) as (t0 & tau0 & D1 & D2 & D3); exists t0, tau0;
                split; [first [assumption | right; assumption] | split; assumption] end).
Qed.

Lemma reach_NR : forall evs tk, nowrap evs -> no_resched tk evs ->
  NR tk (run init evs) /\ Inv (run init evs).
Proof.
  intros evs tk Hnw Hnr.
  destruct (run_inv (NR tk) (noresched tk) (NR_step tk) evs init Inv_init (NR_init tk) Hnw) as (H1 & H2 & _).
  - unfold no_resched in Hnr. exact Hnr.
  - split; assumption.
Qed.


(* C: at most once, and not before the timeout *)
Lemma timeout_at_most_once : forall evs e tk o, nowrap (evs ++ [e]) -> no_resched tk evs ->
  In o (new_obs (run init evs) e) -> fires_for tk o = true ->
  forall o', In o' (log (run init evs)) -> fires_for tk o' = false.
Proof.
  intros evs e tk o Hnw Hnr Ho Hf. destruct (reach_NR evs tk (nowrap_app_l _ _ Hnw) Hnr) as (HN & HI).
  destruct (fire_inv _ _ _ _ Ho Hf) as (i & -> & Hi & Oi & Si & _).
  eapply (nr_nofire tk _ HN i); try eassumption. eexists; eassumption.
Qed.

Lemma timeout_not_before : forall evs e tk o, nowrap (evs ++ [e]) -> no_resched tk evs ->
  In o (new_obs (run init evs) e) -> fires_for tk o = true ->
  exists t0 tau, In (OSent tk t0 tau) (log (run init evs)) /\ tau <> 0 /\ t0 + Z.max tau 0 <= now (run init evs) /\
                 o = ORemoved tk (now (run init evs)).
Proof.
  intros evs e tk o Hnw Hnr Ho Hf. destruct (reach_NR evs tk (nowrap_app_l _ _ Hnw) Hnr) as (HN & HI).
  destruct (fire_inv _ _ _ _ Ho Hf) as (i & -> & Hi & Oi & Si & Hd & Ho' & _).
  destruct (nr_deadline tk _ HN i Hi Oi) as (t0 & tau & D1 & D2 & D3). exists t0, tau. repeat split; try assumption. lia.
Qed.

