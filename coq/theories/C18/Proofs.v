(* C18 proofs. *)
From Slsk Require Import Base.Tac.
From SlskGen Require Import TicketGen.
From Slsk Require Import C18.Model.
Open Scope Z_scope.

(* ---------------------------------------------------------------- generator *)
Lemma ticket_step_spec : forall x, ticket_step TICKET_INITIAL x = if Z.ltb MAXT (x + 1) then 1 else x + 1.
Proof. intros. unfold ticket_step, ticket_step_pair, TICKET_INITIAL, MAXT. cbn. destruct (Z.ltb_spec 4294967295 (x+1)); reflexivity. Qed.

Definition nth_ticket (n : nat) : Z := Nat.iter n (ticket_step TICKET_INITIAL) TICKET_INITIAL.

Lemma ticket_closed_form : forall n, nth_ticket n = Z.of_nat n mod MAXT + 1.
Proof.
  induction n.
  - reflexivity.
  - unfold nth_ticket in *. change (Nat.iter (S n) (ticket_step TICKET_INITIAL) TICKET_INITIAL) with (ticket_step TICKET_INITIAL (Nat.iter n (ticket_step TICKET_INITIAL) TICKET_INITIAL)). rewrite IHn, ticket_step_spec. unfold MAXT.
    rewrite Nat2Z.inj_succ. destruct (Z.ltb_spec 4294967295 (Z.of_nat n mod 4294967295 + 1 + 1)); lia.
Qed.

Lemma tickets_distinct : forall i j : nat, (i < j)%nat -> Z.of_nat j - Z.of_nat i < MAXT -> nth_ticket i <> nth_ticket j.
Proof. intros i j H1 H2. rewrite !ticket_closed_form. unfold MAXT in *. lia. Qed.

Lemma tickets_range : forall n, 1 <= nth_ticket n <= MAXT.
Proof. intros. rewrite ticket_closed_form. unfold MAXT. lia. Qed.

(* ---------------------------------------------------------------- small facts *)
Lemma memz_In : forall x l, memz x l = true <-> In x l.
Proof. intros. unfold memz. rewrite existsb_exists. split.
  - intros (y & Hy & E). apply Z.eqb_eq in E. subst. assumption.
  - intros. exists x. split; [assumption|apply Z.eqb_refl]. Qed.

Lemma memz_delz_same : forall x l, memz x (delz x l) = false.
Proof. intros. destruct (memz x (delz x l)) eqn:E; [|reflexivity]. apply memz_In in E. unfold delz in E.
  apply filter_In in E. destruct E as (_ & E). rewrite Z.eqb_refl in E. discriminate. Qed.

Lemma memz_delz_other : forall x y l, x <> y -> memz x (delz y l) = memz x l.
Proof. intros. destruct (memz x l) eqn:E.
  - apply memz_In. apply memz_In in E. unfold delz. apply filter_In. split; [assumption|].
    destruct (Z.eqb_spec y x); [congruence|reflexivity].
  - destruct (memz x (delz y l)) eqn:E2; [|reflexivity]. apply memz_In in E2. unfold delz in E2. apply filter_In in E2.
    destruct E2 as (E2 & _). apply memz_In in E2. congruence. Qed.

Lemma In_delz : forall x y l, In x (delz y l) -> In x l.
Proof. intros. unfold delz in H. apply filter_In in H. tauto. Qed.

Lemma run_app : forall a b s, run s (a ++ b) = run (run s a) b.
Proof. intros. unfold run. apply fold_left_app. Qed.

Lemma issues_app : forall a b, issues (a ++ b) = issues a + issues b.
Proof. intros. unfold issues. rewrite filter_app, app_length. lia. Qed.
Lemma issues_cons : forall e r, issues (e :: r) = (if is_issue e then 1 else 0) + issues r.
Proof. intros. unfold issues. cbn [filter]. destruct (is_issue e); cbn [length]; lia. Qed.
Lemma issues_nonneg : forall l, 0 <= issues l. Proof. intros. unfold issues. lia. Qed.

Ltac unf := unfold step, register, cancel_timer, cancel_task, start_timer, finish_task, emit, set_requests, set_gen,
  set_handle, set_tasks, set_now, set_interval, upd, updn in *.
Ltac proj := cbn [now gen interval requests has_timer tmo handle ntasks tasks log owner deadline status] in *.
Ltac projg := cbn [now gen interval requests has_timer tmo handle ntasks tasks log owner deadline status].
Ltac brk :=
  repeat match goal with
  | |- context [match ?x with _ => _ end] =>
      lazymatch x with
      | Z.eqb ?a ?b => destruct (Z.eqb_spec a b)
      | Nat.eqb ?a ?b => destruct (Nat.eqb_spec a b)
      | Nat.ltb ?a ?b => destruct (Nat.ltb_spec a b)
      | Z.ltb ?a ?b => destruct (Z.ltb_spec a b)
      | Z.leb ?a ?b => destruct (Z.leb_spec a b)
      | _ => let E := fresh "E" in destruct x eqn:E
      end; projg
  end.

(* the log only grows, at the head *)
Lemma step_log : forall s e, log (step s e) = new_obs s e ++ log s.
Proof.
  intros. unfold new_obs.
  assert (exists l, log (step s e) = l ++ log s) as (l & H).
  { destruct e; unf; proj; brk; proj;
      first [ now (exists []) | now (eexists [_]) ]. }
  rewrite H. rewrite app_length. replace (length l + length (log s) - length (log s))%nat with (length l) by lia.
  rewrite firstn_app. rewrite Nat.sub_diag. cbn [firstn]. rewrite firstn_all. rewrite app_nil_r. reflexivity.
Qed.

Definition delta (s : state) (e : event) : list obs :=
  match e with
  | Search tau => [OSent (ticket_step TICKET_INITIAL (gen s)) (now s) (if Z.ltb 0 tau then tau else 0)]
  | Wish setting => let tau := wishlist_timeout setting (interval s) in
                    [OSent (ticket_step TICKET_INITIAL (gen s)) (now s) (if negb (Z.eqb tau 0) then tau else 0)]
  | Reply tk id => if memz tk (requests s) then [OResult tk id] else []
  | Remove tk => if memz tk (requests s) then [ORemoveOk tk] else [ORemoveKeyErr tk]
  | Step i =>
      if Nat.ltb i (ntasks s) then
        match status (tasks s i) with
        | Pend false =>
            if Z.leb (deadline (tasks s i)) (now s) then
              if memz (owner (tasks s i)) (requests s) then [ORemoved (owner (tasks s i)) (now s)]
              else [OErrKey (owner (tasks s i)) (now s)]
            else []
        | _ => []
        end
      else []
  | _ => []
  end.

Lemma new_obs_delta : forall s e, new_obs s e = delta s e.
Proof.
  intros. apply (app_inv_tail (log s)). rewrite <- step_log.
  destruct e; unfold delta; unf; proj; brk; proj; try reflexivity; try lia.
Qed.

(* ---------------------------------------------------------------- A: results *)
Lemma result_only_if_live : forall s e tk id,
  In (OResult tk id) (new_obs s e) <-> (e = Reply tk id /\ memz tk (requests s) = true).
Proof.
  intros. rewrite new_obs_delta. split.
  - destruct e; unfold delta; brk; cbn [In]; intros Hi; try tauto; try (destruct Hi as [Hi|[]]; try discriminate).
    inv Hi. split; [reflexivity|assumption].
  - intros (-> & Hm). cbn [delta]. rewrite Hm. left. reflexivity.
Qed.

Lemma requests_live_step : forall s e,
  (forall tk, memz tk (requests s) = live_in_log tk (log s)) ->
  (forall tk, memz tk (requests (step s e)) = live_in_log tk (log (step s e))).
Proof.
  intros s e H tk.
  destruct e; unf; proj; brk; proj; cbn [live_in_log memz existsb]; fold (memz tk (requests s));
    rewrite <- ?H; brk; subst;
    try reflexivity; try lia;
    rewrite ?memz_delz_same, ?orb_false_l; try reflexivity;
    try (rewrite memz_delz_other by congruence; reflexivity);
    try (rewrite Z.eqb_sym; destruct (Z.eqb_spec tk (ticket_step TICKET_INITIAL (gen s))); subst; cbn; congruence).
  all: try assumption.
  all: match goal with n : ?a <> ?b |- _ => destruct (Z.eqb_spec b a); [congruence|reflexivity] end.
Qed.

Lemma requests_live_gen : forall evs s, (forall tk, memz tk (requests s) = live_in_log tk (log s)) ->
  forall tk, memz tk (requests (run s evs)) = live_in_log tk (log (run s evs)).
Proof.
  induction evs; intros s H; [exact H|]. cbn [run fold_left]. apply IHevs. apply requests_live_step. exact H.
Qed.
Lemma requests_live : forall evs tk, memz tk (requests (run init evs)) = live_in_log tk (log (run init evs)).
Proof. intros evs. apply requests_live_gen. reflexivity. Qed.

Lemma result_iff_live_ticket : forall evs e tk id,
  In (OResult tk id) (new_obs (run init evs) e) <->
  (e = Reply tk id /\ live_in_log tk (log (run init evs)) = true).
Proof. intros. rewrite result_only_if_live, requests_live. reflexivity. Qed.

(* ---------------------------------------------------------------- the basic invariant *)
Definition obs_bounded (g : Z) (o : obs) : Prop :=
  match o with
  | ORemoveKeyErr _ => True
  | OSent k _ _ | OResult k _ | ORemoved k _ | OErrKey k _ | ORemoveOk k => k <= g
  end.

Record Inv (s : state) : Prop := mkInv {
  i_req : forall tk, In tk (requests s) -> tk <= gen s;
  i_task : forall i, (i < ntasks s)%nat -> owner (tasks s i) <= gen s /\ has_timer s (owner (tasks s i)) = true;
  i_timer : forall tk, has_timer s tk = true -> tk <= gen s;
  i_log : forall o, In o (log s) -> obs_bounded (gen s) o;
  i_handle : forall tk i, handle s tk = Some i -> (i < ntasks s)%nat /\ owner (tasks s i) = tk
}.

Definition okstep (s : state) (e : event) : Prop := is_issue e = true -> gen s < MAXT.

Lemma gen_step : forall s e, okstep s e -> gen (step s e) = gen s + (if is_issue e then 1 else 0).
Proof.
  intros s e H. unfold okstep in H.
  destruct e; cbn [is_issue] in *; try specialize (H eq_refl); unf; proj; brk; proj; try lia;
  rewrite ticket_step_spec; destruct (Z.ltb_spec MAXT (gen s + 1)); lia.
Qed.

Lemma obs_bounded_mono : forall g g' o, g <= g' -> obs_bounded g o -> obs_bounded g' o.
Proof. intros. destruct o; cbn in *; lia. Qed.

Lemma Inv_init : Inv init.
Proof. constructor; cbn; intros; try tauto; try discriminate; try lia. Qed.

Lemma Inv_step : forall s e, Inv s -> okstep s e -> Inv (step s e).
Proof.
  intros s e [I1 I2 I3 I4 I5] Hok.
  pose proof (gen_step s e Hok) as Hg.
  assert (Hnew : is_issue e = true -> ticket_step TICKET_INITIAL (gen s) = gen s + 1).
  { intros Hi. specialize (Hok Hi). rewrite ticket_step_spec. destruct (Z.ltb_spec MAXT (gen s + 1)); lia. }
  constructor.
  - (* requests *)
    intros tk. destruct e; cbn [is_issue] in *; try specialize (Hnew eq_refl); unf; proj; brk; proj; cbn [In];
      intros Hin; try (apply In_delz in Hin); try (destruct Hin as [<-|Hin]); try (apply I1 in Hin); try lia.
  - (* tasks *)
    intros i. destruct e; cbn [is_issue] in *; try specialize (Hnew eq_refl); unf; proj; brk; proj; intros Hi; subst;
      try match goal with |- context [tasks s ?k] => assert (Hk : (k < ntasks s)%nat) by lia; destruct (I2 k Hk) end;
      try (split; [lia| first [assumption | reflexivity]]); try lia.
    all: try (split; [apply I3; assumption | assumption]).
  - (* has_timer *)
    intros tk. destruct e; cbn [is_issue] in *; try specialize (Hnew eq_refl); unf; proj; brk; proj; intros Hi; subst;
      try discriminate; try (apply I3 in Hi); try lia.
  - (* log *)
    intros o. rewrite step_log, new_obs_delta. intros Hin. apply in_app_or in Hin. destruct Hin as [Hin|Hin].
    2:{ apply I4 in Hin. eapply obs_bounded_mono; [|exact Hin]. destruct (is_issue e); lia. }
    destruct e; cbn [is_issue] in *; try specialize (Hnew eq_refl); unfold delta in Hin; cbn zeta in Hin;
      repeat match type of Hin with context [if ?c then _ else _] => let E := fresh "E" in destruct c eqn:E
                                | context [match ?c with _ => _ end] => let E := fresh "E" in destruct c eqn:E end;
      cbn [In] in Hin; try tauto; destruct Hin as [<-|[]]; cbn [obs_bounded]; try lia.
    all: rewrite Hg; try (apply memz_In in E; apply I1 in E; lia).
    all: match goal with E : (?i <? ntasks ?s)%nat = true |- _ => apply Nat.ltb_lt in E; destruct (I2 i E); lia end.
  - (* handles *)
    intros tk i. destruct e; cbn [is_issue] in *; try specialize (Hnew eq_refl); unf; proj; brk; proj; intros Hi; subst;
      try discriminate; try (inv Hi); try (split; [lia|reflexivity]);
      try match goal with H : handle s ?k = Some ?j |- _ => destruct (I5 k j H) end; try (split; [lia|congruence]).
    all: try (exfalso; lia).
Qed.

(* invariants along histories that do not wrap the generator *)
Lemma run_inv : forall (P : state -> Prop) (allowed : event -> bool),
  (forall s e, Inv s -> P s -> okstep s e -> allowed e = true -> P (step s e)) ->
  forall evs s, Inv s -> P s -> gen s + issues evs <= MAXT -> forallb allowed evs = true ->
  P (run s evs) /\ Inv (run s evs) /\ gen (run s evs) = gen s + issues evs.
Proof.
  intros P allowed Hstep. induction evs; intros s HI HP Hg Ha.
  - unfold run, issues. cbn [fold_left filter length]. split; [assumption|split; [assumption|]]. change (Z.of_nat 0) with 0. lia.
  - cbn [run fold_left]. rewrite issues_cons in *. cbn [forallb] in Ha. apply andb_prop in Ha. destruct Ha as (Ha1 & Ha2).
    pose proof (issues_nonneg evs).
    assert (Hok : okstep s a). { unfold okstep. intros Hi. rewrite Hi in Hg. lia. }
    pose proof (gen_step s a Hok) as Hgs.
    destruct (IHevs (step s a)) as (H1 & H2 & H3); try assumption.
    + apply Inv_step; assumption.
    + apply Hstep; assumption.
    + rewrite Hgs. lia.
    + split; [assumption|split; [assumption|]]. fold (run (step s a) evs). rewrite H3, Hgs. lia.
Qed.

Definition anyev (e : event) := true.
Lemma forallb_any : forall evs, forallb anyev evs = true. Proof. induction evs; cbn; auto. Qed.

Lemma reach_inv : forall evs, nowrap evs -> Inv (run init evs) /\ gen (run init evs) = TICKET_INITIAL + issues evs.
Proof.
  intros evs H. destruct (run_inv (fun _ => True) anyev (fun _ _ _ _ _ _ => I) evs init Inv_init I H (forallb_any evs)) as (_ & H1 & H2).
  split; assumption.
Qed.

Lemma nowrap_app_l : forall a b, nowrap (a ++ b) -> nowrap a.
Proof. unfold nowrap. intros. rewrite issues_app in H. pose proof (issues_nonneg b). lia. Qed.

Lemma nowrap_okstep : forall evs e, nowrap (evs ++ [e]) -> okstep (run init evs) e.
Proof.
  intros evs e H. pose proof (nowrap_app_l _ _ H) as H1. destruct (reach_inv evs H1) as (_ & Hg).
  unfold okstep. intros Hi. unfold nowrap in H. rewrite issues_app, issues_cons, Hi in H. change (issues []) with 0 in H. lia.
Qed.

(* ---------------------------------------------------------------- B: tickets of live requests *)
Definition sent_tickets (l : list obs) : list Z :=
  flat_map (fun o => match o with OSent k _ _ => [k] | _ => [] end) l.

Lemma sent_tickets_bounded : forall l g k, (forall o, In o l -> obs_bounded g o) -> In k (sent_tickets l) -> k <= g.
Proof.
  intros l g k H Hin. unfold sent_tickets in Hin. apply in_flat_map in Hin. destruct Hin as (o & Ho & Hk).
  destruct o; cbn in Hk; try tauto. destruct Hk as [<-|[]]. apply (H _ Ho).
Qed.

Lemma sent_nodup_step : forall s e, Inv s -> NoDup (sent_tickets (log s)) -> okstep s e -> anyev e = true ->
  NoDup (sent_tickets (log (step s e))).
Proof.
  intros s e HI HN Hok _. rewrite step_log, new_obs_delta.
  assert (Hnew : is_issue e = true -> ticket_step TICKET_INITIAL (gen s) = gen s + 1).
  { intros Hi. specialize (Hok Hi). rewrite ticket_step_spec. destruct (Z.ltb_spec MAXT (gen s + 1)); lia. }
  assert (Hfresh : ~ In (gen s + 1) (sent_tickets (log s))).
  { intros Hin. apply (sent_tickets_bounded _ (gen s)) in Hin; [lia|]. apply (i_log s HI). }
  destruct e; cbn [is_issue] in *; try specialize (Hnew eq_refl); unfold delta; cbn zeta; brk; cbn [app sent_tickets flat_map];
    try assumption; fold (sent_tickets (log s)); rewrite Hnew; constructor; assumption.
Qed.

Lemma sent_tickets_distinct : forall evs, nowrap evs -> NoDup (sent_tickets (log (run init evs))).
Proof.
  intros evs H. apply (run_inv (fun s => NoDup (sent_tickets (log s))) anyev sent_nodup_step evs init Inv_init); try assumption.
  - constructor.
  - apply forallb_any.
Qed.

(* a Sent observation always registers: the request is live right after it *)

(* ---------------------------------------------------------------- D: manual removal *)
Definition removed_dead (tk : Z) (s : state) : Prop := In (ORemoveOk tk) (log s) -> memz tk (requests s) = false.

Lemma removed_dead_step : forall tk s e, Inv s -> removed_dead tk s -> okstep s e -> anyev e = true -> removed_dead tk (step s e).
Proof.
  intros tk s e HI HP Hok _. unfold removed_dead in *. rewrite step_log, new_obs_delta. intros Hin.
  assert (Hnew : is_issue e = true -> ticket_step TICKET_INITIAL (gen s) = gen s + 1).
  { intros Hi. specialize (Hok Hi). rewrite ticket_step_spec. destruct (Z.ltb_spec MAXT (gen s + 1)); lia. }
  assert (Hb : In (ORemoveOk tk) (log s) -> tk <= gen s). { intros Hl. apply (i_log s HI) in Hl. exact Hl. }
  apply in_app_or in Hin.
  destruct e; cbn [is_issue] in *; try specialize (Hnew eq_refl); unfold delta in Hin; cbn zeta in Hin; unf; proj; brk; proj;
    cbn [In] in Hin;
    repeat match goal with H : _ \/ _ |- _ => destruct H | H : False |- _ => destruct H end; try discriminate;
    try (apply HP; assumption);
    try match goal with H : ORemoveOk _ = ORemoveOk _ |- _ => inv H end;
    try apply memz_delz_same.
  all: try (cbn [memz existsb];
         match goal with H : In (ORemoveOk ?k) (log ?s0) |- _ => fold (memz k (requests s0)); rewrite (HP H); apply Hb in H;
         destruct (Z.eqb_spec k (ticket_step TICKET_INITIAL (gen s0))); [lia|reflexivity] end).
  all: try (match goal with |- memz ?k (delz ?o _) = false => destruct (Z.eq_dec k o); [subst; apply memz_delz_same| rewrite memz_delz_other by assumption; apply HP; assumption] end).
Qed.

Lemma removed_silent_partial : forall evs e tk, nowrap (evs ++ [e]) -> In (ORemoveOk tk) (log (run init evs)) ->
  forall o, In o (new_obs (run init evs) e) -> result_for tk o = false /\ removed_ev_for tk o = false.
Proof.
  intros evs e tk Hnw Hin o Ho. pose proof (nowrap_app_l _ _ Hnw) as Hnw1.
  destruct (run_inv (removed_dead tk) anyev (removed_dead_step tk) evs init Inv_init) as (HP & HI & _);
    [intros H; destruct H | exact Hnw1 | apply forallb_any |].
  specialize (HP Hin). rewrite new_obs_delta in Ho. set (s := run init evs) in *.
  destruct e; unfold delta in Ho; cbn zeta in Ho;
    repeat match type of Ho with context [if ?c then _ else _] => let E := fresh "E" in destruct c eqn:E
                              | context [match ?c with _ => _ end] => let E := fresh "E" in destruct c eqn:E end;
    cbn [In] in Ho; try tauto; destruct Ho as [<-|[]]; cbn [result_for removed_ev_for]; split; try reflexivity;
    match goal with |- (?a =? ?b) = false => destruct (Z.eqb_spec a b); [subst; congruence|reflexivity] end.
Qed.

Definition no_timer_inv (tk : Z) (s : state) : Prop := (exists t0, In (OSent tk t0 0) (log s)) -> has_timer s tk = false.

Lemma no_timer_step : forall tk s e, Inv s -> no_timer_inv tk s -> okstep s e -> anyev e = true -> no_timer_inv tk (step s e).
Proof.
  intros tk s e HI HP Hok _. unfold no_timer_inv in *. rewrite step_log, new_obs_delta. intros (t0 & Hin).
  assert (Hnew : is_issue e = true -> ticket_step TICKET_INITIAL (gen s) = gen s + 1).
  { intros Hi. specialize (Hok Hi). rewrite ticket_step_spec. destruct (Z.ltb_spec MAXT (gen s + 1)); lia. }
  assert (Hb : forall t0, In (OSent tk t0 0) (log s) -> tk <= gen s). { intros t1 Hl. apply (i_log s HI) in Hl. exact Hl. }
  apply in_app_or in Hin.
  destruct e; cbn [is_issue] in *; try specialize (Hnew eq_refl); unfold delta in Hin; cbn zeta in Hin; unf; proj; brk; proj;
    cbn [In] in Hin;
    repeat match goal with H : _ \/ _ |- _ => destruct H | H : False |- _ => destruct H end; try discriminate;
    try (apply HP; eexists; eassumption);
    try match goal with H : OSent _ _ _ = OSent _ _ _ |- _ => inv H end; try lia; try congruence.
  all: try match goal with H : In (OSent _ _ 0) _ |- _ => apply Hb in H; lia end.
Qed.

Lemma removed_silent_no_timer : forall evs e tk t0, nowrap (evs ++ [e]) -> In (OSent tk t0 0) (log (run init evs)) ->
  forall o, In o (new_obs (run init evs) e) -> fires_for tk o = false.
Proof.
  intros evs e tk t0 Hnw Hin o Ho. pose proof (nowrap_app_l _ _ Hnw) as Hnw1.
  destruct (run_inv (no_timer_inv tk) anyev (no_timer_step tk) evs init Inv_init) as (HP & HI & _);
    [intros (t & H); destruct H | exact Hnw1 | apply forallb_any |].
  assert (Hf : has_timer (run init evs) tk = false) by (apply HP; eexists; eassumption).
  rewrite new_obs_delta in Ho. set (s := run init evs) in *.
  destruct e; unfold delta in Ho; cbn zeta in Ho;
    repeat match type of Ho with context [if ?c then _ else _] => let E := fresh "E" in destruct c eqn:E
                              | context [match ?c with _ => _ end] => let E := fresh "E" in destruct c eqn:E end;
    cbn [In] in Ho; try tauto; destruct Ho as [<-|[]]; cbn [fires_for]; try reflexivity;
    match goal with |- (?a =? ?b) = false => destruct (Z.eqb_spec a b); [|reflexivity] end;
    apply Nat.ltb_lt in E; destruct (i_task s HI i E); congruence.
Qed.

Lemma removed_silent_refuted : exists evs e tk o, nowrap (evs ++ [e]) /\ In (ORemoveOk tk) (log (run init evs)) /\
  In o (new_obs (run init evs) e) /\ fires_for tk o = true.
Proof.
  exists [Search 5; Remove 2; Advance 5], (Step 0%nat), 2, (OErrKey 2 5).
  split; [unfold nowrap, MAXT; vm_compute; discriminate|]. split; [vm_compute; tauto|]. split; [vm_compute; tauto|reflexivity].
Qed.

