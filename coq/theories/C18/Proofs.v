(* C18 proofs. *)
From Slsk Require Import Base.Tac.
From SlskGen Require Import TicketGen.
From Slsk Require Import C18.Model.
Open Scope Z_scope.

(* ---------------------------------------------------------------- generator *)
Lemma ticket_step_spec : forall x, ticket_step TICKET_INITIAL x = if Z.ltb MAXT (x + 1) then 1 else x + 1.
Proof. intros. unfold ticket_step, ticket_step_pair, TICKET_INITIAL, MAXT. cbn. destruct (Z.ltb_spec 4294967295 (x+1)); reflexivity. Qed.

Definition nth_ticket (n : nat) : Z := Nat.iter n (ticket_step TICKET_INITIAL) TICKET_INITIAL.

Lemma ticket_closed_form : forall n, nth_ticket n = Z.of_nat n mod MAXT + 1.
Proof.
  induction n.
  - reflexivity.
  - unfold nth_ticket in *. change (Nat.iter (S n) (ticket_step TICKET_INITIAL) TICKET_INITIAL) with (ticket_step TICKET_INITIAL (Nat.iter n (ticket_step TICKET_INITIAL) TICKET_INITIAL)). rewrite IHn, ticket_step_spec. unfold MAXT.
    rewrite Nat2Z.inj_succ. destruct (Z.ltb_spec 4294967295 (Z.of_nat n mod 4294967295 + 1 + 1)); lia.
Qed.

Lemma tickets_distinct : forall i j : nat, (i < j)%nat -> Z.of_nat j - Z.of_nat i < MAXT -> nth_ticket i <> nth_ticket j.
Proof. intros i j H1 H2. rewrite !ticket_closed_form. unfold MAXT in *. lia. Qed.

Lemma tickets_range : forall n, 1 <= nth_ticket n <= MAXT.
Proof. intros. rewrite ticket_closed_form. unfold MAXT. lia. Qed.

(* ---------------------------------------------------------------- small facts *)
Lemma memz_In : forall x l, memz x l = true <-> In x l.
Proof. intros. unfold memz. rewrite existsb_exists. split.
  - intros (y & Hy & E). apply Z.eqb_eq in E. subst. assumption.
  - intros. exists x. split; [assumption|apply Z.eqb_refl]. Qed.

Lemma memz_delz_same : forall x l, memz x (delz x l) = false.
Proof. intros. destruct (memz x (delz x l)) eqn:E; [|reflexivity]. apply memz_In in E. unfold delz in E.
  apply filter_In in E. destruct E as (_ & E). rewrite Z.eqb_refl in E. discriminate. Qed.

Lemma memz_delz_other : forall x y l, x <> y -> memz x (delz y l) = memz x l.
Proof. intros. destruct (memz x l) eqn:E.
  - apply memz_In. apply memz_In in E. unfold delz. apply filter_In. split; [assumption|].
    destruct (Z.eqb_spec y x); [congruence|reflexivity].
  - destruct (memz x (delz y l)) eqn:E2; [|reflexivity]. apply memz_In in E2. unfold delz in E2. apply filter_In in E2.
    destruct E2 as (E2 & _). apply memz_In in E2. congruence. Qed.

Lemma In_delz : forall x y l, In x (delz y l) -> In x l.
Proof. intros. unfold delz in H. apply filter_In in H. tauto. Qed.

Lemma run_app : forall a b s, run s (a ++ b) = run (run s a) b.
Proof. intros. unfold run. apply fold_left_app. Qed.

Lemma issues_app : forall a b, issues (a ++ b) = issues a + issues b.
Proof. intros. unfold issues. rewrite filter_app, app_length. lia. Qed.
Lemma issues_cons : forall e r, issues (e :: r) = (if is_issue e then 1 else 0) + issues r.
Proof. intros. unfold issues. cbn [filter]. destruct (is_issue e); cbn [length]; lia. Qed.
Lemma issues_nonneg : forall l, 0 <= issues l. Proof. intros. unfold issues. lia. Qed.

Ltac unf := unfold step, register, cancel_timer, cancel_task, start_timer, finish_task, emit, set_requests, set_gen,
  set_handle, set_tasks, set_now, set_interval, upd, updn in *.
Ltac proj := cbn [now gen interval requests has_timer tmo handle ntasks tasks log owner deadline status] in *.
Ltac projg := cbn [now gen interval requests has_timer tmo handle ntasks tasks log owner deadline status].
Ltac brk :=
  repeat match goal with
  | |- context [match ?x with _ => _ end] =>
      lazymatch x with
      | Z.eqb ?a ?b => destruct (Z.eqb_spec a b)
      | Nat.eqb ?a ?b => destruct (Nat.eqb_spec a b)
      | Nat.ltb ?a ?b => destruct (Nat.ltb_spec a b)
      | Z.ltb ?a ?b => destruct (Z.ltb_spec a b)
      | Z.leb ?a ?b => destruct (Z.leb_spec a b)
      | _ => let E := fresh "E" in destruct x eqn:E
      end; projg
  end.

(* the log only grows, at the head *)
Lemma step_log : forall s e, log (step s e) = new_obs s e ++ log s.
Proof.
  intros. unfold new_obs.
  assert (exists l, log (step s e) = l ++ log s) as (l & H).
  { destruct e; unf; proj; brk; proj;
      first [ now (exists []) | now (eexists [_]) ]. }
  rewrite H. rewrite app_length. replace (length l + length (log s) - length (log s))%nat with (length l) by lia.
  rewrite firstn_app. rewrite Nat.sub_diag. cbn [firstn]. rewrite firstn_all. rewrite app_nil_r. reflexivity.
Qed.

Definition delta (s : state) (e : event) : list obs :=
  match e with
  | Search tau => [OSent (ticket_step TICKET_INITIAL (gen s)) (now s) (if Z.ltb 0 tau then tau else 0)]
  | Wish setting => let tau := wishlist_timeout setting (interval s) in
                    [OSent (ticket_step TICKET_INITIAL (gen s)) (now s) (if negb (Z.eqb tau 0) then tau else 0)]
  | Reply tk id => if memz tk (requests s) then [OResult tk id] else []
  | Remove tk => if memz tk (requests s) then [ORemoveOk tk] else [ORemoveKeyErr tk]
  | Step i =>
      if Nat.ltb i (ntasks s) then
        match status (tasks s i) with
        | Pend false =>
            if Z.leb (deadline (tasks s i)) (now s) then
              if memz (owner (tasks s i)) (requests s) then [ORemoved (owner (tasks s i)) (now s)]
              else []
            else []
        | _ => []
        end
      else []
  | _ => []
  end.

Lemma new_obs_delta : forall s e, new_obs s e = delta s e.
Proof.
  intros. apply (app_inv_tail (log s)). rewrite <- step_log.
  destruct e; unfold delta; unf; proj; brk; proj; try reflexivity; try lia.
Qed.

(* ---------------------------------------------------------------- A: results *)
Lemma result_only_if_live : forall s e tk id,
  In (OResult tk id) (new_obs s e) <-> (e = Reply tk id /\ memz tk (requests s) = true).
Proof.
  intros. rewrite new_obs_delta. split.
  - destruct e; unfold delta; brk; cbn [In]; intros Hi; try tauto; try (destruct Hi as [Hi|[]]; try discriminate).
    inv Hi. split; [reflexivity|assumption].
  - intros (-> & Hm). cbn [delta]. rewrite Hm. left. reflexivity.
Qed.

Lemma requests_live_step : forall s e,
  (forall tk, memz tk (requests s) = live_in_log tk (log s)) ->
  (forall tk, memz tk (requests (step s e)) = live_in_log tk (log (step s e))).
Proof.
  intros s e H tk.
  destruct e; unf; proj; brk; proj; cbn [live_in_log memz existsb]; fold (memz tk (requests s));
    rewrite <- ?H; brk; subst;
    try reflexivity; try lia;
    rewrite ?memz_delz_same, ?orb_false_l; try reflexivity;
    try (rewrite memz_delz_other by congruence; reflexivity);
    try (rewrite Z.eqb_sym; destruct (Z.eqb_spec tk (ticket_step TICKET_INITIAL (gen s))); subst; cbn; congruence).
  all: try assumption.
  all: match goal with n : ?a <> ?b |- _ => destruct (Z.eqb_spec b a); [congruence|reflexivity] end.
Qed.

Lemma requests_live_gen : forall evs s, (forall tk, memz tk (requests s) = live_in_log tk (log s)) ->
  forall tk, memz tk (requests (run s evs)) = live_in_log tk (log (run s evs)).
Proof.
  induction evs; intros s H; [exact H|]. cbn [run fold_left]. apply IHevs. apply requests_live_step. exact H.
Qed.
Lemma requests_live : forall evs tk, memz tk (requests (run init evs)) = live_in_log tk (log (run init evs)).
Proof. intros evs. apply requests_live_gen. reflexivity. Qed.

Lemma result_iff_live_ticket : forall evs e tk id,
  In (OResult tk id) (new_obs (run init evs) e) <->
  (e = Reply tk id /\ live_in_log tk (log (run init evs)) = true).
Proof. intros. rewrite result_only_if_live, requests_live. reflexivity. Qed.

(* ---------------------------------------------------------------- the basic invariant *)
Definition obs_bounded (g : Z) (o : obs) : Prop :=
  match o with
  | ORemoveKeyErr _ => True
  | OSent k _ _ | OResult k _ | ORemoved k _ | OErrKey k _ | ORemoveOk k => k <= g
  end.

Record Inv (s : state) : Prop := mkInv {
  i_req : forall tk, In tk (requests s) -> tk <= gen s;
  i_task : forall i, (i < ntasks s)%nat -> owner (tasks s i) <= gen s /\ has_timer s (owner (tasks s i)) = true;
  i_timer : forall tk, has_timer s tk = true -> tk <= gen s;
  i_log : forall o, In o (log s) -> obs_bounded (gen s) o;
  i_handle : forall tk i, handle s tk = Some i -> (i < ntasks s)%nat /\ owner (tasks s i) = tk
}.

Definition okstep (s : state) (e : event) : Prop := is_issue e = true -> gen s < MAXT.

Lemma gen_step : forall s e, okstep s e -> gen (step s e) = gen s + (if is_issue e then 1 else 0).
Proof.
  intros s e H. unfold okstep in H.
  destruct e; cbn [is_issue] in *; try specialize (H eq_refl); unf; proj; brk; proj; try lia;
  rewrite ticket_step_spec; destruct (Z.ltb_spec MAXT (gen s + 1)); lia.
Qed.

Lemma obs_bounded_mono : forall g g' o, g <= g' -> obs_bounded g o -> obs_bounded g' o.
Proof. intros. destruct o; cbn in *; lia. Qed.

Lemma Inv_init : Inv init.
Proof. constructor; cbn; intros; try tauto; try discriminate; try lia. Qed.

Lemma Inv_step : forall s e, Inv s -> okstep s e -> Inv (step s e).
Proof.
  intros s e [I1 I2 I3 I4 I5] Hok.
  pose proof (gen_step s e Hok) as Hg.
  assert (Hnew : is_issue e = true -> ticket_step TICKET_INITIAL (gen s) = gen s + 1).
  { intros Hi. specialize (Hok Hi). rewrite ticket_step_spec. destruct (Z.ltb_spec MAXT (gen s + 1)); lia. }
  constructor.
  - (* requests *)
    intros tk. destruct e; cbn [is_issue] in *; try specialize (Hnew eq_refl); unf; proj; brk; proj; cbn [In];
      intros Hin; try (apply In_delz in Hin); try (destruct Hin as [<-|Hin]); try (apply I1 in Hin); try lia.
  - (* tasks *)
    intros i. destruct e; cbn [is_issue] in *; try specialize (Hnew eq_refl); unf; proj; brk; proj; intros Hi; subst;
      try match goal with |- context [tasks s ?k] => assert (Hk : (k < ntasks s)%nat) by lia; destruct (I2 k Hk) end;
      try (split; [lia| first [assumption | reflexivity]]); try lia.
    all: try (split; [apply I3; assumption | assumption]).
  - (* has_timer *)
    intros tk. destruct e; cbn [is_issue] in *; try specialize (Hnew eq_refl); unf; proj; brk; proj; intros Hi; subst;
      try discriminate; try (apply I3 in Hi); try lia.
  - (* log *)
    intros o. rewrite step_log, new_obs_delta. intros Hin. apply in_app_or in Hin. destruct Hin as [Hin|Hin].
    2:{ apply I4 in Hin. eapply obs_bounded_mono; [|exact Hin]. destruct (is_issue e); lia. }
    destruct e; cbn [is_issue] in *; try specialize (Hnew eq_refl); unfold delta in Hin; cbn zeta in Hin;
      repeat match type of Hin with context [if ?c then _ else _] => let E := fresh "E" in destruct c eqn:E
                                | context [match ?c with _ => _ end] => let E := fresh "E" in destruct c eqn:E end;
      cbn [In] in Hin; try tauto; destruct Hin as [<-|[]]; cbn [obs_bounded]; try lia.
    all: rewrite Hg; try (apply memz_In in E; apply I1 in E; lia).
    all: match goal with E : (?i <? ntasks ?s)%nat = true |- _ => apply Nat.ltb_lt in E; destruct (I2 i E); lia end.
  - (* handles *)
    intros tk i. destruct e; cbn [is_issue] in *; try specialize (Hnew eq_refl); unf; proj; brk; proj; intros Hi; subst;
      try discriminate; try (inv Hi); try (split; [lia|reflexivity]);
      try match goal with H : handle s ?k = Some ?j |- _ => destruct (I5 k j H) end; try (split; [lia|congruence]).
    all: try (exfalso; lia).
Qed.

(* invariants along histories that do not wrap the generator *)
Lemma run_inv : forall (P : state -> Prop) (allowed : event -> bool),
  (forall s e, Inv s -> P s -> okstep s e -> allowed e = true -> P (step s e)) ->
  forall evs s, Inv s -> P s -> gen s + issues evs <= MAXT -> forallb allowed evs = true ->
  P (run s evs) /\ Inv (run s evs) /\ gen (run s evs) = gen s + issues evs.
Proof.
  intros P allowed Hstep. induction evs; intros s HI HP Hg Ha.
  - unfold run, issues. cbn [fold_left filter length]. split; [assumption|split; [assumption|]]. change (Z.of_nat 0) with 0. lia.
  - cbn [run fold_left]. rewrite issues_cons in *. cbn [forallb] in Ha. apply andb_prop in Ha. destruct Ha as (Ha1 & Ha2).
    pose proof (issues_nonneg evs).
    assert (Hok : okstep s a). { unfold okstep. intros Hi. rewrite Hi in Hg. lia. }
    pose proof (gen_step s a Hok) as Hgs.
    destruct (IHevs (step s a)) as (H1 & H2 & H3); try assumption.
    + apply Inv_step; assumption.
    + apply Hstep; assumption.
    + rewrite Hgs. lia.
    + split; [assumption|split; [assumption|]]. fold (run (step s a) evs). rewrite H3, Hgs. lia.
Qed.

Definition anyev (e : event) := true.
Lemma forallb_any : forall evs, forallb anyev evs = true. Proof. induction evs; cbn; auto. Qed.

Lemma reach_inv : forall evs, nowrap evs -> Inv (run init evs) /\ gen (run init evs) = TICKET_INITIAL + issues evs.
Proof.
  intros evs H. destruct (run_inv (fun _ => True) anyev (fun _ _ _ _ _ _ => I) evs init Inv_init I H (forallb_any evs)) as (_ & H1 & H2).
  split; assumption.
Qed.

Lemma nowrap_app_l : forall a b, nowrap (a ++ b) -> nowrap a.
Proof. unfold nowrap. intros. rewrite issues_app in H. pose proof (issues_nonneg b). lia. Qed.

Lemma nowrap_okstep : forall evs e, nowrap (evs ++ [e]) -> okstep (run init evs) e.
Proof.
  intros evs e H. pose proof (nowrap_app_l _ _ H) as H1. destruct (reach_inv evs H1) as (_ & Hg).
  unfold okstep. intros Hi. unfold nowrap in H. rewrite issues_app, issues_cons, Hi in H. change (issues []) with 0 in H. lia.
Qed.

(* ---------------------------------------------------------------- B: tickets of live requests *)
Definition sent_tickets (l : list obs) : list Z :=
  flat_map (fun o => match o with OSent k _ _ => [k] | _ => [] end) l.

Lemma sent_tickets_bounded : forall l g k, (forall o, In o l -> obs_bounded g o) -> In k (sent_tickets l) -> k <= g.
Proof.
  intros l g k H Hin. unfold sent_tickets in Hin. apply in_flat_map in Hin. destruct Hin as (o & Ho & Hk).
  destruct o; cbn in Hk; try tauto. destruct Hk as [<-|[]]. apply (H _ Ho).
Qed.

Lemma sent_nodup_step : forall s e, Inv s -> NoDup (sent_tickets (log s)) -> okstep s e -> anyev e = true ->
  NoDup (sent_tickets (log (step s e))).
Proof.
  intros s e HI HN Hok _. rewrite step_log, new_obs_delta.
  assert (Hnew : is_issue e = true -> ticket_step TICKET_INITIAL (gen s) = gen s + 1).
  { intros Hi. specialize (Hok Hi). rewrite ticket_step_spec. destruct (Z.ltb_spec MAXT (gen s + 1)); lia. }
  assert (Hfresh : ~ In (gen s + 1) (sent_tickets (log s))).
  { intros Hin. apply (sent_tickets_bounded _ (gen s)) in Hin; [lia|]. apply (i_log s HI). }
  destruct e; cbn [is_issue] in *; try specialize (Hnew eq_refl); unfold delta; cbn zeta; brk; cbn [app sent_tickets flat_map];
    try assumption; fold (sent_tickets (log s)); rewrite Hnew; constructor; assumption.
Qed.

Lemma sent_tickets_distinct : forall evs, nowrap evs -> NoDup (sent_tickets (log (run init evs))).
Proof.
  intros evs H. apply (run_inv (fun s => NoDup (sent_tickets (log s))) anyev sent_nodup_step evs init Inv_init); try assumption.
  - constructor.
  - apply forallb_any.
Qed.

(* a Sent observation always registers: the request is live right after it *)

(* ---------------------------------------------------------------- D: manual removal *)
Definition removed_dead (tk : Z) (s : state) : Prop := In (ORemoveOk tk) (log s) -> memz tk (requests s) = false.

Lemma removed_dead_step : forall tk s e, Inv s -> removed_dead tk s -> okstep s e -> anyev e = true -> removed_dead tk (step s e).
Proof.
  intros tk s e HI HP Hok _. unfold removed_dead in *. rewrite step_log, new_obs_delta. intros Hin.
  assert (Hnew : is_issue e = true -> ticket_step TICKET_INITIAL (gen s) = gen s + 1).
  { intros Hi. specialize (Hok Hi). rewrite ticket_step_spec. destruct (Z.ltb_spec MAXT (gen s + 1)); lia. }
  assert (Hb : In (ORemoveOk tk) (log s) -> tk <= gen s). { intros Hl. apply (i_log s HI) in Hl. exact Hl. }
  apply in_app_or in Hin.
  destruct e; cbn [is_issue] in *; try specialize (Hnew eq_refl); unfold delta in Hin; cbn zeta in Hin; unf; proj; brk; proj;
    cbn [In] in Hin;
    repeat match goal with H : _ \/ _ |- _ => destruct H | H : False |- _ => destruct H end; try discriminate;
    try (apply HP; assumption);
    try match goal with H : ORemoveOk _ = ORemoveOk _ |- _ => inv H end;
    try apply memz_delz_same.
  all: try (cbn [memz existsb];
         match goal with H : In (ORemoveOk ?k) (log ?s0) |- _ => fold (memz k (requests s0)); rewrite (HP H); apply Hb in H;
         destruct (Z.eqb_spec k (ticket_step TICKET_INITIAL (gen s0))); [lia|reflexivity] end).
  all: try (match goal with |- memz ?k (delz ?o _) = false => destruct (Z.eq_dec k o); [subst; apply memz_delz_same| rewrite memz_delz_other by assumption; apply HP; assumption] end).
Qed.

Lemma removed_silent_full : forall evs e tk, nowrap (evs ++ [e]) -> In (ORemoveOk tk) (log (run init evs)) ->
  forall o, In o (new_obs (run init evs) e) -> result_for tk o = false /\ fires_for tk o = false.
Proof.
  intros evs e tk Hnw Hin o Ho. pose proof (nowrap_app_l _ _ Hnw) as Hnw1.
  destruct (run_inv (removed_dead tk) anyev (removed_dead_step tk) evs init Inv_init) as (HP & HI & _);
    [intros H; destruct H | exact Hnw1 | apply forallb_any |].
  specialize (HP Hin). rewrite new_obs_delta in Ho. set (s := run init evs) in *.
  destruct e; unfold delta in Ho; cbn zeta in Ho;
    repeat match type of Ho with context [if ?c then _ else _] => let E := fresh "E" in destruct c eqn:E
                              | context [match ?c with _ => _ end] => let E := fresh "E" in destruct c eqn:E end;
    cbn [In] in Ho; try tauto; destruct Ho as [<-|[]]; cbn [result_for fires_for]; split; try reflexivity;
    match goal with |- (?a =? ?b) = false => destruct (Z.eqb_spec a b); [subst; congruence|reflexivity] end.
Qed.

(* no exception ever escapes a timer task *)
Lemma no_task_errors : forall s e o tk t, In o (new_obs s e) -> o <> OErrKey tk t.
Proof.
  intros s e o tk t Ho. rewrite new_obs_delta in Ho.
  destruct e; unfold delta in Ho; cbn zeta in Ho;
    repeat match type of Ho with context [if ?c then _ else _] => let E := fresh "E" in destruct c eqn:E
                              | context [match ?c with _ => _ end] => let E := fresh "E" in destruct c eqn:E end;
    cbn [In] in Ho; try tauto; destruct Ho as [<-|[]]; discriminate.
Qed.

Definition no_timer_inv (tk : Z) (s : state) : Prop := (exists t0, In (OSent tk t0 0) (log s)) -> has_timer s tk = false.

Lemma no_timer_step : forall tk s e, Inv s -> no_timer_inv tk s -> okstep s e -> anyev e = true -> no_timer_inv tk (step s e).
Proof.
  intros tk s e HI HP Hok _. unfold no_timer_inv in *. rewrite step_log, new_obs_delta. intros (t0 & Hin).
  assert (Hnew : is_issue e = true -> ticket_step TICKET_INITIAL (gen s) = gen s + 1).
  { intros Hi. specialize (Hok Hi). rewrite ticket_step_spec. destruct (Z.ltb_spec MAXT (gen s + 1)); lia. }
  assert (Hb : forall t0, In (OSent tk t0 0) (log s) -> tk <= gen s). { intros t1 Hl. apply (i_log s HI) in Hl. exact Hl. }
  apply in_app_or in Hin.
  destruct e; cbn [is_issue] in *; try specialize (Hnew eq_refl); unfold delta in Hin; cbn zeta in Hin; unf; proj; brk; proj;
    cbn [In] in Hin;
    repeat match goal with H : _ \/ _ |- _ => destruct H | H : False |- _ => destruct H end; try discriminate;
    try (apply HP; eexists; eassumption);
    try match goal with H : OSent _ _ _ = OSent _ _ _ |- _ => inv H end; try lia; try congruence.
  all: try match goal with H : In (OSent _ _ 0) _ |- _ => apply Hb in H; lia end.
Qed.

Lemma removed_silent_no_timer : forall evs e tk t0, nowrap (evs ++ [e]) -> In (OSent tk t0 0) (log (run init evs)) ->
  forall o, In o (new_obs (run init evs) e) -> fires_for tk o = false.
Proof.
  intros evs e tk t0 Hnw Hin o Ho. pose proof (nowrap_app_l _ _ Hnw) as Hnw1.
  destruct (run_inv (no_timer_inv tk) anyev (no_timer_step tk) evs init Inv_init) as (HP & HI & _);
    [intros (t & H); destruct H | exact Hnw1 | apply forallb_any |].
  assert (Hf : has_timer (run init evs) tk = false) by (apply HP; eexists; eassumption).
  rewrite new_obs_delta in Ho. set (s := run init evs) in *.
  destruct e; unfold delta in Ho; cbn zeta in Ho;
    repeat match type of Ho with context [if ?c then _ else _] => let E := fresh "E" in destruct c eqn:E
                              | context [match ?c with _ => _ end] => let E := fresh "E" in destruct c eqn:E end;
    cbn [In] in Ho; try tauto; destruct Ho as [<-|[]]; cbn [fires_for]; try reflexivity;
    match goal with |- (?a =? ?b) = false => destruct (Z.eqb_spec a b); [|reflexivity] end;
    apply Nat.ltb_lt in E; destruct (i_task s HI i E); congruence.
Qed.


(* ---------------------------------------------------------------- the handle points to the armed task *)
(* (repaired Timer._unset_task) a task that can still fire is the one its Timer's handle refers to *)
Definition HP (s : state) : Prop :=
  forall i, (i < ntasks s)%nat -> status (tasks s i) = Pend false -> handle s (owner (tasks s i)) = Some i.

Lemma HP_step : forall s e, Inv s -> HP s -> okstep s e -> anyev e = true -> HP (step s e).
Proof.
  intros s e HI H Hok _.
  assert (Hnew : is_issue e = true -> ticket_step TICKET_INITIAL (gen s) = gen s + 1).
  { intros Hi. specialize (Hok Hi). rewrite ticket_step_spec. destruct (Z.ltb_spec MAXT (gen s + 1)); lia. }
  pose proof (i_task s HI) as IT. pose proof (i_handle s HI) as IH.
  intros i. destruct e; cbn [is_issue] in *; try specialize (Hnew eq_refl); unf; proj; brk; proj;
    intros Hi Si; try (apply H; assumption || lia); try lia; try discriminate; try reflexivity; try congruence.
  all: try (exfalso; match goal with H : context [owner (tasks ?s0 ?k)] |- _ => destruct (IT k ltac:(lia)); lia end).
  all: try (exfalso; pose proof (H i ltac:(lia) Si) as HH; subst; congruence).
  all: try (subst; reflexivity).
  all: try (exfalso; pose proof (H i ltac:(lia) Si) as HH; rewrite e in HH; congruence).
Qed.

Lemma reach_HP : forall evs, nowrap evs -> HP (run init evs) /\ Inv (run init evs) /\ gen (run init evs) = TICKET_INITIAL + issues evs.
Proof.
  intros evs H. apply (run_inv HP anyev HP_step evs init Inv_init); [intros i Hi; cbn in Hi; lia|exact H|apply forallb_any].
Qed.


(* ---------------------------------------------------------------- C/E: timers that were never re-armed *)
Record NR (tk : Z) (s : state) : Prop := mkNR {
  nr_uniq : forall i j, (i < ntasks s)%nat -> (j < ntasks s)%nat -> owner (tasks s i) = tk -> owner (tasks s j) = tk -> i = j;
  nr_handle : forall i, (i < ntasks s)%nat -> owner (tasks s i) = tk -> status (tasks s i) = Pend false -> handle s tk = Some i;
  nr_nofire : forall i, (i < ntasks s)%nat -> owner (tasks s i) = tk -> (exists c, status (tasks s i) = Pend c) ->
              forall o, In o (log s) -> fires_for tk o = false;
  nr_deadline : forall i, (i < ntasks s)%nat -> owner (tasks s i) = tk ->
              exists t0 tau, In (OSent tk t0 tau) (log s) /\ tau <> 0 /\ deadline (tasks s i) = t0 + Z.max tau 0
}.

Definition noresched (tk : Z) (e : event) : bool := negb (resched_on tk e).

Lemma NR_init : forall tk, NR tk init.
Proof. intros. constructor; cbn; intros; lia. Qed.

Lemma fires_bounded : forall s tk o, Inv s -> In o (log s) -> fires_for tk o = true -> tk <= gen s.
Proof. intros s tk o HI Hin Hf. apply (i_log s HI) in Hin. destruct o; cbn in *; try discriminate; apply Z.eqb_eq in Hf; subst; assumption. Qed.

Lemma NR_step : forall tk s e, Inv s -> NR tk s -> okstep s e -> noresched tk e = true -> NR tk (step s e).
Proof.
  intros tk s e HI [U H Q D] Hok Ha.
  assert (Hnew : is_issue e = true -> ticket_step TICKET_INITIAL (gen s) = gen s + 1).
  { intros Hi. specialize (Hok Hi). rewrite ticket_step_spec. destruct (Z.ltb_spec MAXT (gen s + 1)); lia. }
  pose proof (i_task s HI) as IT. pose proof (i_handle s HI) as IH.
  constructor.
  - (* uniqueness *)
    intros i j. destruct e; cbn [is_issue noresched resched_on] in *; try specialize (Hnew eq_refl); unf; proj; brk; proj;
      intros Hi Hj Oi Oj; try (apply U; assumption || lia); try lia; try discriminate.
    all: try (exfalso; match goal with H : context [owner (tasks ?s0 ?k)] |- _ => destruct (IT k ltac:(lia)); lia end).
    all: try (subst; apply U; solve [assumption | lia]).
    all: try (exfalso; unfold noresched, resched_on in Ha; subst; rewrite Z.eqb_refl in Ha; discriminate).
  - (* handle *)
    intros i. destruct e; cbn [is_issue noresched resched_on] in *; try specialize (Hnew eq_refl); unf; proj; brk; proj;
      intros Hi Oi Si; try (apply H; assumption || lia); try lia; try discriminate; try reflexivity.
    all: try (exfalso; match goal with H : context [owner (tasks ?s0 ?k)] |- _ => destruct (IT k ltac:(lia)); lia end).
    all: try (exfalso; unfold noresched, resched_on in Ha; subst; rewrite Z.eqb_refl in Ha; discriminate).
    all: try (subst; apply H; solve [assumption | lia]).
    all: try (subst; reflexivity).
    all: try (exfalso; pose proof (H i Hi Oi Si) as HH; subst; congruence).
    all: try (exfalso; apply n; apply U; solve [assumption | lia | congruence]).
  - (* no fire while pending *)
    intros i Hi Oi (c & Si) o. rewrite step_log, new_obs_delta. intros Hin. apply in_app_or in Hin.
    assert (Hb : forall o, In o (log s) -> fires_for tk o = true -> tk <= gen s) by (intros; eapply fires_bounded; eassumption).
    revert Hi Oi Si Hin.
    destruct e; cbn [is_issue noresched resched_on] in *; try specialize (Hnew eq_refl); unfold delta; cbn zeta; unf; proj; brk; proj;
      intros Hi Oi Si Hin; cbn [In] in Hin;
      repeat match goal with H : _ \/ _ |- _ => destruct H | H : False |- _ => destruct H end; subst o || idtac;
      try reflexivity; try discriminate; try lia;
      try (eapply Q; [| | | eassumption]; [eassumption || lia| assumption | eexists; eassumption]).
    all: try (match goal with H1 : In ?o (log ?s0) |- fires_for ?k ?o = false =>
                 destruct (fires_for k o) eqn:F; [exfalso; pose proof (Hb o H1 F); lia | reflexivity] end).
    all: try (eapply (Q i); [lia | eassumption | eexists; eassumption | eassumption]).
    all: try (eapply (Q n); [lia | eassumption | eexists; eassumption | eassumption]).
    all: try (exfalso; unfold noresched, resched_on in Ha; subst; rewrite Z.eqb_refl in Ha; discriminate).
    all: cbn [fires_for]; match goal with |- (?a =? ?b) = false => destruct (Z.eqb_spec a b); [|reflexivity] end;
         exfalso; apply n; apply U; solve [assumption | lia].
  - (* deadline *)
    intros i.
    destruct e; cbn [is_issue noresched resched_on] in *; try specialize (Hnew eq_refl); unf; proj; brk; proj;
      intros Hi Oi;
      try (destruct (D i ltac:(lia) Oi) as (t0 & tau0 & D1 & D2 & D3); exists t0, tau0; split; [first [assumption | right; assumption] | split; assumption]).
    all: try (exfalso; unfold noresched, resched_on in Ha; subst; rewrite Z.eqb_refl in Ha; discriminate).
    all: try (eexists _, _; split; [left; subst; reflexivity | split; [| reflexivity]]; lia).
    all: try congruence.
    all: try (match goal with Oi : owner (tasks ?s0 ?k) = _ |- _ =>
                destruct (D k ltac:(lia) Oi) as (t0 & tau0 & D1 & D2 & D3); exists t0, tau0;
                split; [first [assumption | right; assumption] | split; assumption] end).
Qed.

Lemma reach_NR : forall evs tk, nowrap evs -> no_resched tk evs ->
  NR tk (run init evs) /\ Inv (run init evs).
Proof.
  intros evs tk Hnw Hnr.
  destruct (run_inv (NR tk) (noresched tk) (NR_step tk) evs init Inv_init (NR_init tk) Hnw) as (H1 & H2 & _).
  - unfold no_resched in Hnr. exact Hnr.
  - split; assumption.
Qed.

(* a step reports a timer expiry for tk only through a task of tk whose sleep is over *)
(* a step reports a timer expiry for tk only through a task of tk whose sleep is over *)
Lemma fire_inv : forall s e tk o, In o (new_obs s e) -> fires_for tk o = true ->
  exists i, e = Step i /\ (i < ntasks s)%nat /\ owner (tasks s i) = tk /\ status (tasks s i) = Pend false /\
            deadline (tasks s i) <= now s /\ o = ORemoved tk (now s) /\ memz tk (requests s) = true.
Proof.
  intros s e tk o Ho Hf. rewrite new_obs_delta in Ho.
  destruct e; unfold delta in Ho; cbn zeta in Ho;
    repeat match type of Ho with context [if ?c then _ else _] => let E := fresh "E" in destruct c eqn:E
                              | context [match ?c with _ => _ end] => let E := fresh "E" in destruct c eqn:E end;
    cbn [In] in Ho; try tauto; destruct Ho as [<-|[]]; cbn [fires_for] in Hf; try discriminate;
    apply Z.eqb_eq in Hf; exists i;
    repeat match goal with H : (_ <? _)%nat = true |- _ => apply Nat.ltb_lt in H | H : (_ <=? _) = true |- _ => apply Z.leb_le in H end;
    subst; repeat split; auto.
Qed.

(* C: at most once, and not before the timeout *)
Lemma timeout_at_most_once : forall evs e tk o, nowrap (evs ++ [e]) -> no_resched tk evs ->
  In o (new_obs (run init evs) e) -> fires_for tk o = true ->
  forall o', In o' (log (run init evs)) -> fires_for tk o' = false.
Proof.
  intros evs e tk o Hnw Hnr Ho Hf. destruct (reach_NR evs tk (nowrap_app_l _ _ Hnw) Hnr) as (HN & HI).
  destruct (fire_inv _ _ _ _ Ho Hf) as (i & -> & Hi & Oi & Si & _).
  eapply (nr_nofire tk _ HN i); try eassumption. eexists; eassumption.
Qed.

Lemma timeout_not_before : forall evs e tk o, nowrap (evs ++ [e]) -> no_resched tk evs ->
  In o (new_obs (run init evs) e) -> fires_for tk o = true ->
  exists t0 tau, In (OSent tk t0 tau) (log (run init evs)) /\ tau <> 0 /\ t0 + Z.max tau 0 <= now (run init evs) /\
                 o = ORemoved tk (now (run init evs)).
Proof.
  intros evs e tk o Hnw Hnr Ho Hf. destruct (reach_NR evs tk (nowrap_app_l _ _ Hnw) Hnr) as (HN & HI).
  destruct (fire_inv _ _ _ _ Ho Hf) as (i & -> & Hi & Oi & Si & Hd & Ho' & _).
  destruct (nr_deadline tk _ HN i Hi Oi) as (t0 & tau & D1 & D2 & D3). exists t0, tau. repeat split; try assumption. lia.
Qed.

(* E: cancel / remove / re-arm make every task of the timer harmless *)
Definition CN (tk : Z) (s : state) : Prop :=
  tk <= gen s /\ forall i, (i < ntasks s)%nat -> owner (tasks s i) = tk -> status (tasks s i) <> Pend false.

Lemma CN_step : forall tk s e, Inv s -> CN tk s -> okstep s e -> noresched tk e = true -> CN tk (step s e).
Proof.
  intros tk s e HI (Hb & HC) Hok Ha.
  assert (Hnew : is_issue e = true -> ticket_step TICKET_INITIAL (gen s) = gen s + 1).
  { intros Hi. specialize (Hok Hi). rewrite ticket_step_spec. destruct (Z.ltb_spec MAXT (gen s + 1)); lia. }
  pose proof (gen_step s e Hok) as Hg.
  split. { destruct (is_issue e); lia. }
  intros i. destruct e; cbn [is_issue noresched resched_on] in *; try specialize (Hnew eq_refl); unf; proj; brk; proj;
    intros Hi Oi; try (apply HC; assumption || lia); try discriminate; try lia.
  all: try (exfalso; unfold noresched, resched_on in Ha; subst; rewrite Z.eqb_refl in Ha; discriminate).
  all: try (subst; apply HC; solve [assumption | lia]).
Qed.

Lemma cancel_timer_CN : forall tk s, Inv s -> HP s -> tk <= gen s ->
  tk <= gen (cancel_timer s tk) /\
  forall i, (i < ntasks (cancel_timer s tk))%nat -> owner (tasks (cancel_timer s tk) i) = tk -> status (tasks (cancel_timer s tk) i) <> Pend false.
Proof.
  intros tk s HI H Hb. split. { unf; proj; brk; proj; assumption. }
  intros i. unf; proj; brk; proj; intros Hi Oi Si; try discriminate.
  all: try (pose proof (H i Hi Si) as HH; rewrite Oi in HH; congruence).
Qed.

Lemma cancel_makes_CN : forall tk s, Inv s -> HP s -> tk <= gen s -> CN tk (step s (Cancel tk)).
Proof.
  intros tk s HI H Hb. cbn [step]. destruct (has_timer s tk) eqn:Ht.
  - apply cancel_timer_CN; assumption.
  - split; [assumption|]. intros i Hi Oi _. destruct (i_task s HI i Hi) as (_ & HT). rewrite Oi in HT. congruence.
Qed.

Lemma forallb_app_inv : forall (f : event -> bool) a b, forallb f (a ++ b) = true -> forallb f a = true /\ forallb f b = true.
Proof. intros. rewrite forallb_app in H. apply andb_prop in H. exact H. Qed.

(* full statement: after cancel() - as long as the user does not re-arm the timer - nothing fires *)
Lemma cancel_effective : forall evs1 evs2 e tk t0 tau,
  nowrap (evs1 ++ Cancel tk :: evs2 ++ [e]) -> no_resched tk evs2 ->
  In (OSent tk t0 tau) (log (run init evs1)) ->
  forall o, In o (new_obs (run init (evs1 ++ Cancel tk :: evs2)) e) -> fires_for tk o = false.
Proof.
  intros evs1 evs2 e tk t0 tau Hnw Hnr2 Hsent o Ho.
  unfold nowrap in Hnw. rewrite issues_app, issues_cons, issues_app, issues_cons in Hnw. cbn [is_issue] in Hnw. change (issues []) with 0 in Hnw.
  pose proof (issues_nonneg evs1). pose proof (issues_nonneg evs2).
  assert (Hnw1 : nowrap evs1) by (unfold nowrap; destruct (is_issue e); lia).
  destruct (reach_HP evs1 Hnw1) as (HH & HI & Hg).
  set (s1 := run init evs1) in *.
  assert (Hb : tk <= gen s1). { apply (i_log s1 HI) in Hsent. exact Hsent. }
  assert (Hok : okstep s1 (Cancel tk)) by (intros Hx; discriminate).
  pose proof (cancel_makes_CN tk s1 HI HH Hb) as HC. pose proof (Inv_step s1 _ HI Hok) as HI2.
  pose proof (gen_step s1 _ Hok) as Hg2. cbn [is_issue] in Hg2.
  destruct (run_inv (CN tk) (noresched tk) (CN_step tk) evs2 (step s1 (Cancel tk)) HI2 HC) as (HC3 & HI3 & _).
  { rewrite Hg2, Hg. destruct (is_issue e); lia. }
  { exact Hnr2. }
  assert (Es : run init (evs1 ++ Cancel tk :: evs2) = run (step s1 (Cancel tk)) evs2) by (rewrite run_app; reflexivity).
  rewrite Es in *.
  destruct (fires_for tk o) eqn:Hf; [exfalso|reflexivity].
  destruct (fire_inv _ _ _ _ Ho Hf) as (i & _ & Hi & Oi & Si & _). destruct HC3 as (_ & HC3). exact (HC3 i Hi Oi Si).
Qed.

(* remove_request cancels the timer: afterwards no task of the request can wake up (until the user re-arms it) *)
Lemma remove_cancels_timer : forall evs1 evs2 tk,
  nowrap (evs1 ++ Remove tk :: evs2) -> no_resched tk evs2 -> memz tk (requests (run init evs1)) = true ->
  forall i, (i < ntasks (run init (evs1 ++ Remove tk :: evs2)))%nat ->
    owner (tasks (run init (evs1 ++ Remove tk :: evs2)) i) = tk -> status (tasks (run init (evs1 ++ Remove tk :: evs2)) i) <> Pend false.
Proof.
  intros evs1 evs2 tk Hnw Hnr2 Hm.
  unfold nowrap in Hnw. rewrite issues_app, issues_cons in Hnw. cbn [is_issue] in Hnw.
  pose proof (issues_nonneg evs1). pose proof (issues_nonneg evs2).
  assert (Hnw1 : nowrap evs1) by (unfold nowrap; lia).
  destruct (reach_HP evs1 Hnw1) as (HH & HI & Hg).
  set (s1 := run init evs1) in *.
  assert (Hb : tk <= gen s1). { apply (i_req s1 HI). apply memz_In. exact Hm. }
  assert (Hok : okstep s1 (Remove tk)) by (intros Hx; discriminate).
  assert (HC : CN tk (step s1 (Remove tk))).
  { cbn [step]. rewrite Hm.
    set (s' := emit (set_requests s1 (delz tk (requests s1))) (ORemoveOk tk)).
    assert (HI' : Inv s'). { pose proof (Inv_step s1 (Remove tk) HI Hok) as X. cbn [step] in X. rewrite Hm in X. fold s' in X.
      destruct (has_timer s' tk) eqn:Ht in X.
      - (* Inv of s' itself: rebuild from s1 *) constructor; unfold s'; unf; proj.
        + intros k Hk. apply In_delz in Hk. apply (i_req s1 HI). exact Hk.
        + apply (i_task s1 HI).
        + apply (i_timer s1 HI).
        + intros o [<-|Ho]; [exact Hb|apply (i_log s1 HI); exact Ho].
        + apply (i_handle s1 HI).
      - exact X. }
    assert (HH' : HP s') by exact HH.
    destruct (has_timer s' tk) eqn:Ht.
    - apply cancel_timer_CN; assumption.
    - split; [exact Hb|]. intros i Hi Oi _. destruct (i_task s' HI' i Hi) as (_ & HT). rewrite Oi in HT. congruence. }
  pose proof (Inv_step s1 _ HI Hok) as HI2. pose proof (gen_step s1 _ Hok) as Hg2. cbn [is_issue] in Hg2.
  destruct (run_inv (CN tk) (noresched tk) (CN_step tk) evs2 (step s1 (Remove tk)) HI2 HC) as (HC3 & _).
  { rewrite Hg2, Hg. lia. }
  { exact Hnr2. }
  assert (Es : run init (evs1 ++ Remove tk :: evs2) = run (step s1 (Remove tk)) evs2) by (rewrite run_app; reflexivity).
  rewrite Es. exact (proj2 HC3).
Qed.

(* first re-arm (no earlier reschedule): only the new deadline can fire *)
Definition SS (tk D : Z) (s : state) : Prop :=
  tk <= gen s /\ forall i, (i < ntasks s)%nat -> owner (tasks s i) = tk -> status (tasks s i) = Pend false -> deadline (tasks s i) = D.

Lemma SS_step : forall tk D s e, Inv s -> SS tk D s -> okstep s e -> noresched tk e = true -> SS tk D (step s e).
Proof.
  intros tk D s e HI (Hb & HC) Hok Ha.
  assert (Hnew : is_issue e = true -> ticket_step TICKET_INITIAL (gen s) = gen s + 1).
  { intros Hi. specialize (Hok Hi). rewrite ticket_step_spec. destruct (Z.ltb_spec MAXT (gen s + 1)); lia. }
  pose proof (gen_step s e Hok) as Hg.
  split. { destruct (is_issue e); lia. }
  intros i. destruct e; cbn [is_issue noresched resched_on] in *; try specialize (Hnew eq_refl); unf; proj; brk; proj;
    intros Hi Oi Si; try (apply HC; assumption || lia); try discriminate; try lia.
  all: try (exfalso; unfold noresched, resched_on in Ha; subst; rewrite Z.eqb_refl in Ha; discriminate).
  all: try (subst; apply HC; solve [assumption | lia]).
Qed.

Lemma resched_makes_SS : forall tk tau s, Inv s -> HP s -> tk <= gen s -> has_timer s tk = true ->
  SS tk (now s + Z.max (match tau with Some t => t | None => tmo s tk end) 0) (step s (Resched tk tau)).
Proof.
  intros tk tau s HI H Hb Ht. pose proof (i_task s HI) as IT. pose proof (i_handle s HI) as IH.
  split. { unf; proj; brk; proj; assumption. }
  intros i. unf; proj; rewrite Ht; destruct tau; proj; brk; proj; intros Hi Oi Si; try discriminate; try congruence; try lia.
  all: try (assert (Hi' : (i < ntasks s)%nat) by lia; pose proof (H i Hi' Si) as HH; rewrite Oi in HH; congruence).
Qed.

(* full statement: after ANY re-arm - until the next one - the timer only fires once the new deadline is reached *)
Lemma superseded_never_fires : forall evs1 evs2 e tk tau t0 tau0,
  nowrap (evs1 ++ Resched tk tau :: evs2 ++ [e]) -> no_resched tk evs2 ->
  In (OSent tk t0 tau0) (log (run init evs1)) ->
  forall o, In o (new_obs (run init (evs1 ++ Resched tk tau :: evs2)) e) -> fires_for tk o = true ->
  now (run init evs1) + Z.max (match tau with Some t => t | None => tmo (run init evs1) tk end) 0
    <= now (run init (evs1 ++ Resched tk tau :: evs2)).
Proof.
  intros evs1 evs2 e tk tau t0 tau0 Hnw Hnr2 Hsent o Ho Hf.
  unfold nowrap in Hnw. rewrite issues_app, issues_cons, issues_app, issues_cons in Hnw. cbn [is_issue] in Hnw. change (issues []) with 0 in Hnw.
  pose proof (issues_nonneg evs1). pose proof (issues_nonneg evs2).
  assert (Hnw1 : nowrap evs1) by (unfold nowrap; destruct (is_issue e); lia).
  destruct (reach_HP evs1 Hnw1) as (HH & HI & Hg).
  set (s1 := run init evs1) in *.
  assert (Hb : tk <= gen s1). { apply (i_log s1 HI) in Hsent. exact Hsent. }
  assert (Hok : okstep s1 (Resched tk tau)) by (intros Hx; discriminate).
  set (D := now s1 + Z.max (match tau with Some t => t | None => tmo s1 tk end) 0).
  assert (HC : SS tk D (step s1 (Resched tk tau))).
  { destruct (has_timer s1 tk) eqn:Ht.
    - apply resched_makes_SS; assumption.
    - assert (E : step s1 (Resched tk tau) = s1) by (cbn [step]; rewrite Ht; reflexivity). rewrite E.
      split; [assumption|]. intros i Hi Oi _. destruct (i_task s1 HI i Hi) as (_ & HT). rewrite Oi in HT. congruence. }
  pose proof (Inv_step s1 _ HI Hok) as HI2. pose proof (gen_step s1 _ Hok) as Hg2. cbn [is_issue] in Hg2.
  destruct (run_inv (SS tk D) (noresched tk) (SS_step tk D) evs2 (step s1 (Resched tk tau)) HI2 HC) as (HC3 & HI3 & _).
  { rewrite Hg2, Hg. destruct (is_issue e); lia. }
  { exact Hnr2. }
  assert (Es : run init (evs1 ++ Resched tk tau :: evs2) = run (step s1 (Resched tk tau)) evs2) by (rewrite run_app; reflexivity).
  rewrite Es in *.
  destruct (fire_inv _ _ _ _ Ho Hf) as (i & _ & Hi & Oi & Si & Hd & _). destruct HC3 as (_ & HC3).
  rewrite (HC3 i Hi Oi Si) in Hd. exact Hd.
Qed.

(* ---------------------------------------------------------------- exactly at the deadline (lag-free loop) *)
(* without loop lag no pending task is ever overdue: time only advances up to the next deadline *)
Definition LF (s : state) : Prop :=
  forall i, (i < ntasks s)%nat -> (exists c, status (tasks s i) = Pend c) -> now s <= deadline (tasks s i).
Definition nolag (e : event) : bool := negb (is_lag e).

Lemma quiet_until_spec : forall s t n, quiet_until s t n = true -> forall i, (i < n)%nat ->
  forall c, status (tasks s i) = Pend c -> t <= deadline (tasks s i).
Proof.
  induction n; intros H i Hi c Hs; [lia|]. cbn [quiet_until] in H. apply andb_prop in H. destruct H as (H1 & H2).
  destruct (Nat.eq_dec i n) as [->|Hne].
  - rewrite Hs in H1. apply andb_prop in H1. destruct H1 as (_ & H1). apply Z.leb_le in H1. exact H1.
  - eapply IHn; [exact H2| lia | exact Hs].
Qed.

Lemma LF_step : forall s e, Inv s -> LF s -> okstep s e -> nolag e = true -> LF (step s e).
Proof.
  intros s e HI H Hok Ha.
  intros i. destruct e; cbn [nolag is_lag negb] in Ha; try discriminate; unf; proj; brk; proj;
    intros Hi (c & Si); try (apply H; [lia|eexists; eassumption]); try lia; try discriminate.
  all: try (apply H; [lia|eexists; eassumption]).
  all: try (match goal with E : quiet_until _ _ _ = true |- _ => eapply (quiet_until_spec _ _ _ E); [|eassumption]; lia end).
  apply andb_prop in E. destruct E as (_ & E). eapply (quiet_until_spec _ _ _ E); eassumption.
Qed.


(* tasks are never removed or re-owned; a step creates at most one task *)
Lemma step_tasks : forall s e i, (i < ntasks s)%nat ->
  (i < ntasks (step s e))%nat /\ owner (tasks (step s e) i) = owner (tasks s i) /\ deadline (tasks (step s e) i) = deadline (tasks s i).
Proof.
  intros s e i Hi. destruct e; unf; proj; brk; proj; repeat split; try lia; try reflexivity; subst; try reflexivity; try lia.
Qed.

Lemma step_new_task : forall s e i, okstep s e -> (ntasks s <= i)%nat -> (i < ntasks (step s e))%nat ->
  i = ntasks s /\
  ((exists tau, tau <> 0 /\ delta s e = [OSent (gen s + 1) (now s) tau] /\ owner (tasks (step s e) i) = gen s + 1 /\
                deadline (tasks (step s e) i) = now s + Z.max tau 0) \/
   (exists tk tau, e = Resched tk tau /\ owner (tasks (step s e) i) = tk)).
Proof.
  intros s e i Hok Hge Hlt.
  assert (Hnew : is_issue e = true -> ticket_step TICKET_INITIAL (gen s) = gen s + 1).
  { intros Hi. specialize (Hok Hi). rewrite ticket_step_spec. destruct (Z.ltb_spec MAXT (gen s + 1)); lia. }
  revert Hlt. destruct e; cbn [is_issue] in *; try specialize (Hnew eq_refl); unfold delta; cbn zeta; unf; proj; brk; proj; intros Hlt; try lia;
    (split; [lia|]); try (right; eexists _, _; split; [reflexivity|]; brk; proj; try reflexivity; lia).
  all: try (left; eexists; rewrite ?Hnew; brk; proj; repeat split; try reflexivity; try lia; try congruence).
Qed.

Lemma delta_sent : forall s e tk t0 tau, okstep s e -> In (OSent tk t0 tau) (delta s e) -> tau <> 0 ->
  tk = gen s + 1 /\ t0 = now s /\ ntasks (step s e) = S (ntasks s).
Proof.
  intros s e tk t0 tau Hok Hin Ht.
  assert (Hnew : is_issue e = true -> ticket_step TICKET_INITIAL (gen s) = gen s + 1).
  { intros Hi. specialize (Hok Hi). rewrite ticket_step_spec. destruct (Z.ltb_spec MAXT (gen s + 1)); lia. }
  destruct e; cbn [is_issue] in *; try specialize (Hnew eq_refl); unfold delta in Hin; cbn zeta in Hin;
    repeat match type of Hin with context [if ?c then _ else _] => let E := fresh "E" in destruct c eqn:E
                               | context [match ?c with _ => _ end] => let E := fresh "E" in destruct c eqn:E end;
    cbn [In] in Hin; try tauto; destruct Hin as [Hin|[]]; try discriminate; inv Hin; try congruence;
    (split; [assumption|split; [reflexivity|]]); unf; proj; rewrite ?E; proj; try reflexivity.
Qed.

(* per request whose timer the user never touches: where its (unique) task stands *)
Definition untouched_ev (tk : Z) (e : event) : bool := andb (negb (timer_op_on tk e)) (negb (is_lag e)).

Record J (tk : Z) (s : state) : Prop := mkJ {
  j_pend : forall i, (i < ntasks s)%nat -> owner (tasks s i) = tk -> status (tasks s i) = Pend false -> memz tk (requests s) = true;
  j_canc : forall i, (i < ntasks s)%nat -> owner (tasks s i) = tk -> status (tasks s i) = Pend true -> In (ORemoveOk tk) (log s);
  j_fin : forall i cb, (i < ntasks s)%nat -> owner (tasks s i) = tk -> status (tasks s i) = Fin cb ->
          In (ORemoveOk tk) (log s) \/ In (ORemoved tk (deadline (tasks s i))) (log s);
  j_ex : forall t0 tau, In (OSent tk t0 tau) (log s) -> tau <> 0 -> exists i, (i < ntasks s)%nat /\ owner (tasks s i) = tk;
  j_dl : forall i t0 tau, (i < ntasks s)%nat -> owner (tasks s i) = tk -> In (OSent tk t0 tau) (log s) -> tau <> 0 ->
          deadline (tasks s i) = t0 + Z.max tau 0;
  j_rm : forall t, In (ORemoved tk t) (log s) -> exists i, (i < ntasks s)%nat /\ owner (tasks s i) = tk /\ t = deadline (tasks s i)
}.

Lemma J_init : forall tk, J tk init.
Proof. intros. constructor; cbn; intros; try lia; tauto. Qed.

Lemma J_step : forall tk s e, Inv s -> HP s -> LF s -> NR tk s -> J tk s -> okstep s e -> untouched_ev tk e = true -> J tk (step s e).
Proof.
  intros tk s e HI HH HL HN [J1 J2 J3 J4 J5 J6] Hok Ha.
  assert (Hnew : is_issue e = true -> ticket_step TICKET_INITIAL (gen s) = gen s + 1).
  { intros Hi. specialize (Hok Hi). rewrite ticket_step_spec. destruct (Z.ltb_spec MAXT (gen s + 1)); lia. }
  pose proof (i_task s HI) as IT. pose proof (i_handle s HI) as IH. pose proof (i_log s HI) as IL.
  unfold untouched_ev in Ha. apply andb_prop in Ha. destruct Ha as (Ha1 & Ha2).
  constructor.
  - (* pending => registered *)
    intros i. destruct e; cbn [is_issue timer_op_on is_lag negb] in *; try discriminate; try specialize (Hnew eq_refl); unf; proj; brk; proj;
      intros Hi Oi Si; try discriminate; try (apply (J1 i); solve [assumption | lia]).
    all: try (subst; assumption).
    all: try (cbn [memz existsb]; apply orb_true_iff; first [left; apply Z.eqb_eq; congruence | right; apply (J1 i); solve [assumption|lia]]).
    all: try (exfalso; match goal with H : context [owner (tasks ?s0 ?k)] |- _ => destruct (IT k ltac:(lia)); lia end).
    all: try (match goal with |- memz ?tk0 (delz ?k _) = true => destruct (Z.eq_dec tk0 k) as [Eq|Ne];
                [exfalso | rewrite memz_delz_other by assumption; apply (J1 i); solve [assumption|lia]] end).
    all: try (pose proof (HH i Hi Si) as X; rewrite Oi in X; subst; congruence).
    all: try (destruct (IT i Hi) as (_ & X); rewrite Oi in X; subst; congruence).
    all: try (match goal with n : ?a <> ?k |- False => apply n; apply (nr_uniq tk s HN); solve [assumption | lia | congruence] end).
  - (* cancelled => removed by the user *)
    intros i. destruct e; cbn [is_issue timer_op_on is_lag negb] in *; try discriminate; try specialize (Hnew eq_refl); unf; proj; brk; proj;
      intros Hi Oi Si; try discriminate;
      try (first [apply (J2 i); solve [assumption | lia] | right; apply (J2 i); solve [assumption | lia]]).
    all: try (exfalso; match goal with H : context [owner (tasks ?s0 ?k)] |- _ => destruct (IT k ltac:(lia)); lia end).
    all: try (match goal with E1 : handle ?s0 ?k = Some ?n |- _ => destruct (IH k n E1) as (_ & X) end; subst;
              first [left; congruence | exfalso; rewrite Z.eqb_refl in Ha1; discriminate | exfalso; rewrite X, Z.eqb_refl in Ha1; discriminate]).
  - (* finished => removed by the user or reported removed at the deadline *)
    intros i cb. destruct e; cbn [is_issue timer_op_on is_lag negb] in *; try discriminate; try specialize (Hnew eq_refl); unf; proj; brk; proj;
      intros Hi Oi Si; try discriminate;
      try (destruct (J3 i cb ltac:(lia) Oi Si) as [A|B]; [left|right]; first [assumption | right; assumption]).
    all: try (exfalso; match goal with H : context [owner (tasks ?s0 ?k)] |- _ => destruct (IT k ltac:(lia)); lia end).
    all: try (left; apply (J2 i0); solve [assumption | lia | congruence]).
    all: try (right; left; f_equal; [congruence|];
              assert (now s <= deadline (tasks s i0)) by (apply HL; [assumption|eexists; eassumption]); lia).
    all: try (exfalso; match goal with E1 : memz _ _ = false |- _ => rewrite Oi in E1; rewrite (J1 i0) in E1; [discriminate|assumption|reflexivity|congruence] end).
    all: try (match goal with E : status (tasks ?s0 ?k) = Fin ?c |- _ => destruct (J3 k c ltac:(lia) ltac:(congruence) E) as [A|B]; [left|right]; first [assumption | right; assumption] end).
    exfalso. pose proof (J1 i0 H Oi E) as X. rewrite Oi in E1. congruence.
  - (* a task exists for every request sent with a timeout *)
    intros t0 tau Hin Ht. rewrite step_log, new_obs_delta in Hin. apply in_app_or in Hin. destruct Hin as [Hin|Hin].
    + destruct (delta_sent _ _ _ _ _ Hok Hin Ht) as (-> & -> & Hn).
      destruct (step_new_task s e (ntasks s) Hok ltac:(lia) ltac:(lia)) as (_ & [(tau' & _ & _ & Ho & _)|(tk' & tau' & -> & _)]).
      * exists (ntasks s). split; [lia|exact Ho].
      * cbn [delta] in Hin. destruct Hin.
    + destruct (J4 t0 tau Hin Ht) as (i & Hi & Oi). destruct (step_tasks s e i Hi) as (A & B & _). exists i. split; [exact A|congruence].
  - (* its deadline is registration time + timeout *)
    intros i t0 tau Hi Oi Hin Ht. rewrite step_log, new_obs_delta in Hin. apply in_app_or in Hin.
    destruct (lt_dec i (ntasks s)) as [Hlt|Hge].
    + destruct (step_tasks s e i Hlt) as (_ & B & C). rewrite B in Oi. rewrite C. destruct Hin as [Hin|Hin].
      * destruct (delta_sent _ _ _ _ _ Hok Hin Ht) as (-> & _). destruct (IT i Hlt). lia.
      * eapply J5; eassumption.
    + destruct (step_new_task s e i Hok ltac:(lia) Hi) as (-> & [(tau' & Ht' & Hd & Ho & Hdl)|(tk' & tau' & -> & Ho)]).
      * rewrite Ho in Oi. subst tk. destruct Hin as [Hin|Hin].
        -- rewrite Hd in Hin. destruct Hin as [Hin|[]]. inv Hin. exact Hdl.
        -- apply IL in Hin. cbn in Hin. lia.
      * exfalso. rewrite Ho in Oi. subst tk'. cbn [timer_op_on] in Ha1. rewrite Z.eqb_refl in Ha1. discriminate.
  - (* every reported removal happened at the task's deadline *)
    intros t Hin. rewrite step_log in Hin. apply in_app_or in Hin. destruct Hin as [Hin|Hin].
    + destruct (fire_inv s e tk (ORemoved tk t) Hin) as (i0 & -> & Hi & Oi & Si & Hd & Ho & _); [cbn; apply Z.eqb_refl|].
      inv Ho. destruct (step_tasks s (Step i0) i0 Hi) as (A & B & C). exists i0. split; [exact A|]. split; [congruence|].
      rewrite C. assert (now s <= deadline (tasks s i0)) by (apply HL; [assumption|eexists; eassumption]). lia.
    + destruct (J6 t Hin) as (i & Hi & Oi & Et). destruct (step_tasks s e i Hi) as (A & B & C). exists i. split; [exact A|]. split; congruence.
Qed.

Lemma untouched_noresched : forall tk e, untouched_ev tk e = true -> noresched tk e = true /\ nolag e = true.
Proof.
  intros tk e H. unfold untouched_ev in H. apply andb_prop in H. destruct H as (H1 & H2). split; [|exact H2].
  unfold noresched. destruct e; cbn in *; try reflexivity. exact H1.
Qed.

Definition PX (tk : Z) (s : state) : Prop := NR tk s /\ HP s /\ LF s /\ J tk s.

Lemma PX_step : forall tk s e, Inv s -> PX tk s -> okstep s e -> untouched_ev tk e = true -> PX tk (step s e).
Proof.
  intros tk s e HI (A & B & C & D) Hok Ha. destruct (untouched_noresched tk e Ha) as (H1 & H2).
  split; [apply NR_step; assumption|]. split; [apply HP_step; auto|]. split; [apply LF_step; assumption|].
  apply J_step; assumption.
Qed.

(* Exactly at the deadline.  In a history without loop lag and without user operations on the request's
   timer: every reported removal of tk happened at registration time + timeout, and as soon as the clock
   has passed that instant the removal HAS been reported - unless the user removed the request. *)
Lemma timeout_exact : forall evs tk t0 tau, nowrap evs -> forallb (untouched_ev tk) evs = true ->
  In (OSent tk t0 tau) (log (run init evs)) -> tau <> 0 ->
  (forall t, In (ORemoved tk t) (log (run init evs)) -> t = t0 + Z.max tau 0) /\
  (t0 + Z.max tau 0 < now (run init evs) ->
     In (ORemoved tk (t0 + Z.max tau 0)) (log (run init evs)) \/ In (ORemoveOk tk) (log (run init evs))).
Proof.
  intros evs tk t0 tau Hnw Hu Hsent Ht.
  destruct (run_inv (PX tk) (untouched_ev tk) (PX_step tk) evs init Inv_init) as ((HN & HH & HL & HJ) & HI & _); try assumption.
  { split; [apply NR_init|]. split; [intros i Hi; cbn in Hi; lia|]. split; [intros i Hi; cbn in Hi; lia|apply J_init]. }
  set (s := run init evs) in *. split.
  - intros t Hin. destruct (j_rm tk s HJ t Hin) as (i & Hi & Oi & ->). eapply (j_dl tk s HJ); eassumption.
  - intros Hlate. destruct (j_ex tk s HJ t0 tau Hsent Ht) as (i & Hi & Oi).
    pose proof (j_dl tk s HJ i t0 tau Hi Oi Hsent Ht) as Hd.
    destruct (status (tasks s i)) as [c|cb] eqn:Si.
    + exfalso. assert (now s <= deadline (tasks s i)) by (apply HL; [assumption|eexists; eassumption]). lia.
    + destruct (j_fin tk s HJ i cb Hi Oi Si) as [A|B]; [right; exact A|left; rewrite <- Hd; exact B].
Qed.

Example timeout_exact_nonvacuous :
  let evs := [Search 5; Search 0; Step 0%nat; Advance 5; Step 0%nat; DoneCb 0%nat; Advance 3] in
  nowrap evs /\ forallb (untouched_ev 2) evs = true /\ In (OSent 2 0 5) (log (run init evs)) /\
  now (run init evs) = 8 /\ In (ORemoved 2 5) (log (run init evs)).
Proof. unfold nowrap, MAXT. vm_compute. repeat split; try discriminate; tauto. Qed.
