(* C18 proofs: split into parts that build in parallel; this file re-exports them *)
From Slsk Require Export C18.PBase C18.PInv C18.PTickets C18.PHandle C18.PNR C18.PCancel C18.PLag C18.PExact.
