(* C18 proofs, part PHandle.v *)
From Slsk Require Import Base.Tac.
From SlskGen Require Import TicketGen.
From Slsk Require Import C18.Model C18.PBase C18.PInv.
Open Scope Z_scope.

(* ---------------------------------------------------------------- the handle points to the armed task *)
(* (repaired Timer._unset_task) a task that can still fire is the one its Timer's handle refers to *)
Definition HP (s : state) : Prop :=
  forall i, (i < ntasks s)%nat -> status (tasks s i) = Pend false -> handle s (owner (tasks s i)) = Some i.

Lemma HP_step : forall s e, Inv s -> HP s -> okstep s e -> anyev e = true -> HP (step s e).
Proof.
  intros s e HI H Hok _.
  assert (Hnew : is_issue e = true -> ticket_step TICKET_INITIAL (gen s) = gen s + 1).
  { intros Hi. specialize (Hok Hi). rewrite ticket_step_spec. destruct (Z.ltb_spec MAXT (gen s + 1)); lia. }
  pose proof (i_task s HI) as IT. pose proof (i_handle s HI) as IH.
  intros i. stepsplit s e ltac:(cbn [is_issue] in *; try specialize (Hnew eq_refl)); updsplit;
    intros Hi Si; try (apply H; assumption || lia); try lia; try discriminate; try reflexivity; try congruence.
  all: try (exfalso; match goal with H : context [owner (tasks ?s0 ?k)] |- _ => destruct (IT k ltac:(lia)); lia end).
  all: try (exfalso; pose proof (H i ltac:(lia) Si) as HH; subst; congruence).
  all: try (subst; reflexivity).
  all: try (exfalso; pose proof (H i ltac:(lia) Si) as HH; rewrite e in HH; congruence).
Qed.

Lemma reach_HP : forall evs, nowrap evs -> HP (run init evs) /\ Inv (run init evs) /\ gen (run init evs) = TICKET_INITIAL + issues evs.
Proof.
  intros evs H. apply (run_inv HP anyev HP_step evs init Inv_init); [intros i Hi; cbn in Hi; lia|exact H|apply forallb_any].
Qed.


