(* C18 proofs, part PTickets.v *)
From Slsk Require Import Base.Tac.
From SlskGen Require Import TicketGen.
From Slsk Require Import C18.Model C18.PBase C18.PInv.
Open Scope Z_scope.

(* ---------------------------------------------------------------- B: tickets of live requests *)
Definition sent_tickets (l : list obs) : list Z :=
  flat_map (fun o => match o with OSent k _ _ => [k] | _ => [] end) l.

Lemma sent_tickets_bounded : forall l g k, (forall o, In o l -> obs_bounded g o) -> In k (sent_tickets l) -> k <= g.
Proof.
  intros l g k H Hin. unfold sent_tickets in Hin. apply in_flat_map in Hin. destruct Hin as (o & Ho & Hk).
  destruct o; cbn in Hk; try tauto. destruct Hk as [<-|[]]. apply (H _ Ho).
Qed.

Lemma sent_nodup_step : forall s e, Inv s -> NoDup (sent_tickets (log s)) -> okstep s e -> anyev e = true ->
  NoDup (sent_tickets (log (step s e))).
Proof.
  intros s e HI HN Hok _. rewrite step_log, new_obs_delta.
  assert (Hnew : is_issue e = true -> ticket_step TICKET_INITIAL (gen s) = gen s + 1).
  { intros Hi. specialize (Hok Hi). rewrite ticket_step_spec. destruct (Z.ltb_spec MAXT (gen s + 1)); lia. }
  assert (Hfresh : ~ In (gen s + 1) (sent_tickets (log s))).
  { intros Hin. apply (sent_tickets_bounded _ (gen s)) in Hin; [lia|]. apply (i_log s HI). }
  destruct e; cbn [is_issue] in *; try specialize (Hnew eq_refl); unfold delta; cbn zeta; brk; cbn [app sent_tickets flat_map];
    try assumption; fold (sent_tickets (log s)); rewrite Hnew; constructor; assumption.
Qed.

Lemma sent_tickets_distinct : forall evs, nowrap evs -> NoDup (sent_tickets (log (run init evs))).
Proof.
  intros evs H. apply (run_inv (fun s => NoDup (sent_tickets (log s))) anyev sent_nodup_step evs init Inv_init); try assumption.
  - constructor.
  - apply forallb_any.
Qed.

(* a Sent observation always registers: the request is live right after it *)

(* ---------------------------------------------------------------- D: manual removal *)
Definition removed_dead (tk : Z) (s : state) : Prop := In (ORemoveOk tk) (log s) -> memz tk (requests s) = false.

Lemma removed_dead_step : forall tk s e, Inv s -> removed_dead tk s -> okstep s e -> anyev e = true -> removed_dead tk (step s e).
Proof.
  intros tk s e HI HP Hok _. unfold removed_dead in *. rewrite step_log, new_obs_delta. intros Hin.
  assert (Hnew : is_issue e = true -> ticket_step TICKET_INITIAL (gen s) = gen s + 1).
  { intros Hi. specialize (Hok Hi). rewrite ticket_step_spec. destruct (Z.ltb_spec MAXT (gen s + 1)); lia. }
  assert (Hb : In (ORemoveOk tk) (log s) -> tk <= gen s). { intros Hl. apply (i_log s HI) in Hl. exact Hl. }
  apply in_app_or in Hin.
  destruct e; cbn [is_issue] in *; try specialize (Hnew eq_refl); unfold delta in Hin; cbn zeta in Hin; unf; proj; brk; proj;
    cbn [In] in Hin;
    repeat match goal with H : _ \/ _ |- _ => destruct H | H : False |- _ => destruct H end; try discriminate;
    try (apply HP; assumption);
    try match goal with H : ORemoveOk _ = ORemoveOk _ |- _ => inv H end;
    try apply memz_delz_same.
  all: try (cbn [memz existsb];
         match goal with H : In (ORemoveOk ?k) (log ?s0) |- _ => fold (memz k (requests s0)); rewrite (HP H); apply Hb in H;
         destruct (Z.eqb_spec k (ticket_step TICKET_INITIAL (gen s0))); [lia|reflexivity] end).
  all: try (match goal with |- memz ?k (delz ?o _) = false => destruct (Z.eq_dec k o); [subst; apply memz_delz_same| rewrite memz_delz_other by assumption; apply HP; assumption] end).
Qed.

Lemma removed_silent_full : forall evs e tk, nowrap (evs ++ [e]) -> In (ORemoveOk tk) (log (run init evs)) ->
  forall o, In o (new_obs (run init evs) e) -> result_for tk o = false /\ fires_for tk o = false.
Proof.
  intros evs e tk Hnw Hin o Ho. pose proof (nowrap_app_l _ _ Hnw) as Hnw1.
  destruct (run_inv (removed_dead tk) anyev (removed_dead_step tk) evs init Inv_init) as (HP & HI & _);
    [intros H; destruct H | exact Hnw1 | apply forallb_any |].
  specialize (HP Hin). rewrite new_obs_delta in Ho. set (s := run init evs) in *.
  destruct e; unfold delta in Ho; cbn zeta in Ho;
    repeat match type of Ho with context [if ?c then _ else _] => let E := fresh "E" in destruct c eqn:E
                              | context [match ?c with _ => _ end] => let E := fresh "E" in destruct c eqn:E end;
    cbn [In] in Ho; try tauto; destruct Ho as [<-|[]]; cbn [result_for fires_for]; split; try reflexivity;
    match goal with |- (?a =? ?b) = false => destruct (Z.eqb_spec a b); [subst; congruence|reflexivity] end.
Qed.

(* no exception ever escapes a timer task *)
Lemma no_task_errors : forall s e o tk t, In o (new_obs s e) -> o <> OErrKey tk t.
Proof.
  intros s e o tk t Ho. rewrite new_obs_delta in Ho.
  destruct e; unfold delta in Ho; cbn zeta in Ho;
    repeat match type of Ho with context [if ?c then _ else _] => let E := fresh "E" in destruct c eqn:E
                              | context [match ?c with _ => _ end] => let E := fresh "E" in destruct c eqn:E end;
    cbn [In] in Ho; try tauto; destruct Ho as [<-|[]]; discriminate.
Qed.

Definition no_timer_inv (tk : Z) (s : state) : Prop := (exists t0, In (OSent tk t0 0) (log s)) -> has_timer s tk = false.

Lemma no_timer_step : forall tk s e, Inv s -> no_timer_inv tk s -> okstep s e -> anyev e = true -> no_timer_inv tk (step s e).
Proof.
  intros tk s e HI HP Hok _. unfold no_timer_inv in *. rewrite step_log, new_obs_delta. intros (t0 & Hin).
  assert (Hnew : is_issue e = true -> ticket_step TICKET_INITIAL (gen s) = gen s + 1).
  { intros Hi. specialize (Hok Hi). rewrite ticket_step_spec. destruct (Z.ltb_spec MAXT (gen s + 1)); lia. }
  assert (Hb : forall t0, In (OSent tk t0 0) (log s) -> tk <= gen s). { intros t1 Hl. apply (i_log s HI) in Hl. exact Hl. }
  apply in_app_or in Hin.
  destruct e; cbn [is_issue] in *; try specialize (Hnew eq_refl); unfold delta in Hin; cbn zeta in Hin; unf; proj; brk; proj;
    cbn [In] in Hin;
    repeat match goal with H : _ \/ _ |- _ => destruct H | H : False |- _ => destruct H end; try discriminate;
    try (apply HP; eexists; eassumption);
    try match goal with H : OSent _ _ _ = OSent _ _ _ |- _ => inv H end; try lia; try congruence.
  all: try match goal with H : In (OSent _ _ 0) _ |- _ => apply Hb in H; lia end.
Qed.

Lemma removed_silent_no_timer : forall evs e tk t0, nowrap (evs ++ [e]) -> In (OSent tk t0 0) (log (run init evs)) ->
  forall o, In o (new_obs (run init evs) e) -> fires_for tk o = false.
Proof.
  intros evs e tk t0 Hnw Hin o Ho. pose proof (nowrap_app_l _ _ Hnw) as Hnw1.
  destruct (run_inv (no_timer_inv tk) anyev (no_timer_step tk) evs init Inv_init) as (HP & HI & _);
    [intros (t & H); destruct H | exact Hnw1 | apply forallb_any |].
  assert (Hf : has_timer (run init evs) tk = false) by (apply HP; eexists; eassumption).
  rewrite new_obs_delta in Ho. set (s := run init evs) in *.
  destruct e; unfold delta in Ho; cbn zeta in Ho;
    repeat match type of Ho with context [if ?c then _ else _] => let E := fresh "E" in destruct c eqn:E
                              | context [match ?c with _ => _ end] => let E := fresh "E" in destruct c eqn:E end;
    cbn [In] in Ho; try tauto; destruct Ho as [<-|[]]; cbn [fires_for]; try reflexivity;
    match goal with |- (?a =? ?b) = false => destruct (Z.eqb_spec a b); [|reflexivity] end;
    apply Nat.ltb_lt in E; destruct (i_task s HI i E); congruence.
Qed.


