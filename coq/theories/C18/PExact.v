(* C18 proofs, part PExact.v *)
From Slsk Require Import Base.Tac.
From SlskGen Require Import TicketGen SearchGen.
From Slsk Require Import C18.Model C18.PBase C18.PInv C18.PHandle C18.PNR C18.PLag.
Open Scope Z_scope.

(* per request whose timer the user never touches: where its (unique) task stands *)
Definition untouched_ev (tk : Z) (e : event) : bool := andb (negb (timer_op_on tk e)) (negb (is_lag e)).

Record J (tk : Z) (s : state) : Prop := mkJ {
  j_pend : forall i, (i < ntasks s)%nat -> owner (tasks s i) = tk -> status (tasks s i) = Pend false -> memz tk (requests s) = true;
  j_canc : forall i, (i < ntasks s)%nat -> owner (tasks s i) = tk -> status (tasks s i) = Pend true -> In (ORemoveOk tk) (log s);
  j_fin : forall i cb, (i < ntasks s)%nat -> owner (tasks s i) = tk -> status (tasks s i) = Fin cb ->
          In (ORemoveOk tk) (log s) \/ In (ORemoved tk (deadline (tasks s i))) (log s);
  j_ex : forall t0 tau, In (OSent tk t0 tau) (log s) -> tau <> 0 -> exists i, (i < ntasks s)%nat /\ owner (tasks s i) = tk;
  j_dl : forall i t0 tau, (i < ntasks s)%nat -> owner (tasks s i) = tk -> In (OSent tk t0 tau) (log s) -> tau <> 0 ->
          deadline (tasks s i) = t0 + Z.max tau 0;
  j_rm : forall t, In (ORemoved tk t) (log s) -> exists i, (i < ntasks s)%nat /\ owner (tasks s i) = tk /\ t = deadline (tasks s i)
}.

Lemma J_init : forall tk, J tk init.
Proof. intros. constructor; cbn; intros; try lia; tauto. Qed.

Lemma J_step : forall tk s e, Inv s -> HP s -> LF s -> NR tk s -> J tk s -> okstep s e -> untouched_ev tk e = true -> J tk (step s e).
Proof.
  intros tk s e HI HH HL HN [J1 J2 J3 J4 J5 J6] Hok Ha.
  assert (Hnew : is_issue e = true -> ticket_step TICKET_INITIAL (gen s) = gen s + 1).
  { intros Hi. specialize (Hok Hi). rewrite ticket_step_spec. destruct (Z.ltb_spec MAXT (gen s + 1)); lia. }
  pose proof (i_task s HI) as IT. pose proof (i_handle s HI) as IH. pose proof (i_log s HI) as IL.
  unfold untouched_ev in Ha. apply andb_prop in Ha. destruct Ha as (Ha1 & Ha2).
  constructor.
  - (* pending => registered *)
    intros i. stepsplit s e ltac:(cbn [is_issue timer_op_on is_lag negb] in *; try discriminate; try specialize (Hnew eq_refl)); updsplit;
      intros Hi Oi Si; try discriminate; try (apply (J1 i); solve [assumption | lia]).
    all: try (subst; assumption).
    all: try (cbn [memz existsb]; apply orb_true_iff; first [left; apply Z.eqb_eq; congruence | right; apply (J1 i); solve [assumption|lia]]).
    all: try (exfalso; match goal with H : context [owner (tasks ?s0 ?k)] |- _ => destruct (IT k ltac:(lia)); lia end).
    all: try (match goal with |- memz ?tk0 (delz ?k _) = true => destruct (Z.eq_dec tk0 k) as [Eq|Ne];
                [exfalso | rewrite memz_delz_other by assumption; apply (J1 i); solve [assumption|lia]] end).
    all: try (pose proof (HH i Hi Si) as X; rewrite Oi in X; subst; congruence).
    all: try (destruct (IT i Hi) as (_ & X); rewrite Oi in X; subst; congruence).
    all: try (match goal with n : ?a <> ?k |- False => apply n; apply (nr_uniq tk s HN); solve [assumption | lia | congruence] end).
  - (* cancelled => removed by the user *)
    intros i. stepsplit s e ltac:(cbn [is_issue timer_op_on is_lag negb] in *; try discriminate; try specialize (Hnew eq_refl)); updsplit;
      intros Hi Oi Si; try discriminate;
      try (first [apply (J2 i); solve [assumption | lia] | right; apply (J2 i); solve [assumption | lia]]).
    all: try (exfalso; match goal with H : context [owner (tasks ?s0 ?k)] |- _ => destruct (IT k ltac:(lia)); lia end).
    all: try (match goal with E1 : handle ?s0 ?k = Some ?n |- _ => destruct (IH k n E1) as (_ & X) end; subst;
              first [left; congruence | exfalso; rewrite Z.eqb_refl in Ha1; discriminate | exfalso; rewrite X, Z.eqb_refl in Ha1; discriminate]).
  - (* finished => removed by the user or reported removed at the deadline *)
    intros i cb. stepsplit s e ltac:(cbn [is_issue timer_op_on is_lag negb] in *; try discriminate; try specialize (Hnew eq_refl)); updsplit;
      intros Hi Oi Si; try discriminate;
      try (destruct (J3 i cb ltac:(lia) Oi Si) as [A|B]; [left|right]; first [assumption | right; assumption]).
    all: try (exfalso; match goal with H : context [owner (tasks ?s0 ?k)] |- _ => destruct (IT k ltac:(lia)); lia end).
    all: try (left; apply (J2 i0); solve [assumption | lia | congruence]).
    all: try (right; left; f_equal; [congruence|];
              assert (now s <= deadline (tasks s i0)) by (apply HL; [assumption|eexists; eassumption]); lia).
    all: try (exfalso; match goal with E1 : memz _ _ = false |- _ => rewrite Oi in E1; rewrite (J1 i0) in E1; [discriminate|assumption|reflexivity|congruence] end).
    all: try (match goal with E : status (tasks ?s0 ?k) = Fin ?c |- _ => destruct (J3 k c ltac:(lia) ltac:(congruence) E) as [A|B]; [left|right]; first [assumption | right; assumption] end).
    exfalso. pose proof (J1 i0 H Oi E) as X. rewrite Oi in E1. congruence.
  - (* a task exists for every request sent with a timeout *)
    intros t0 tau Hin Ht. rewrite step_log, new_obs_delta in Hin. apply in_app_or in Hin. destruct Hin as [Hin|Hin].
    + destruct (delta_sent _ _ _ _ _ Hok Hin Ht) as (-> & -> & Hn).
      destruct (step_new_task s e (ntasks s) Hok ltac:(lia) ltac:(lia)) as (_ & [(tau' & _ & _ & Ho & _)|(tk' & tau' & -> & _)]).
      * exists (ntasks s). split; [lia|exact Ho].
      * cbn [delta] in Hin. destruct Hin.
    + destruct (J4 t0 tau Hin Ht) as (i & Hi & Oi). destruct (step_tasks s e i Hi) as (A & B & _). exists i. split; [exact A|congruence].
  - (* its deadline is registration time + timeout *)
    intros i t0 tau Hi Oi Hin Ht. rewrite step_log, new_obs_delta in Hin. apply in_app_or in Hin.
    destruct (lt_dec i (ntasks s)) as [Hlt|Hge].
    + destruct (step_tasks s e i Hlt) as (_ & B & C). rewrite B in Oi. rewrite C. destruct Hin as [Hin|Hin].
      * destruct (delta_sent _ _ _ _ _ Hok Hin Ht) as (-> & _). destruct (IT i Hlt). lia.
      * eapply J5; eassumption.
    + destruct (step_new_task s e i Hok ltac:(lia) Hi) as (-> & [(tau' & Ht' & Hd & Ho & Hdl)|(tk' & tau' & -> & Ho)]).
      * rewrite Ho in Oi. subst tk. destruct Hin as [Hin|Hin].
        -- rewrite Hd in Hin. destruct Hin as [Hin|[]]. inv Hin. exact Hdl.
        -- apply IL in Hin. cbn in Hin. lia.
      * exfalso. rewrite Ho in Oi. subst tk'. cbn [timer_op_on] in Ha1. rewrite Z.eqb_refl in Ha1. discriminate.
  - (* every reported removal happened at the task's deadline *)
    intros t Hin. rewrite step_log in Hin. apply in_app_or in Hin. destruct Hin as [Hin|Hin].
    + destruct (fire_inv s e tk (ORemoved tk t) Hin) as (i0 & -> & Hi & Oi & Si & Hd & Ho & _); [cbn; apply Z.eqb_refl|].
      inv Ho. destruct (step_tasks s (Step i0) i0 Hi) as (A & B & C). exists i0. split; [exact A|]. split; [congruence|].
      rewrite C. assert (now s <= deadline (tasks s i0)) by (apply HL; [assumption|eexists; eassumption]). lia.
    + destruct (J6 t Hin) as (i & Hi & Oi & Et). destruct (step_tasks s e i Hi) as (A & B & C). exists i. split; [exact A|]. split; congruence.
Qed.

Lemma untouched_noresched : forall tk e, untouched_ev tk e = true -> noresched tk e = true /\ nolag e = true.
Proof.
  intros tk e H. unfold untouched_ev in H. apply andb_prop in H. destruct H as (H1 & H2). split; [|exact H2].
  unfold noresched. destruct e; cbn in *; try reflexivity. exact H1.
Qed.

Definition PX (tk : Z) (s : state) : Prop := NR tk s /\ HP s /\ LF s /\ J tk s.

Lemma PX_step : forall tk s e, Inv s -> PX tk s -> okstep s e -> untouched_ev tk e = true -> PX tk (step s e).
Proof.
  intros tk s e HI (A & B & C & D) Hok Ha. destruct (untouched_noresched tk e Ha) as (H1 & H2).
  split; [apply NR_step; assumption|]. split; [apply HP_step; auto|]. split; [apply LF_step; assumption|].
  apply J_step; assumption.
Qed.

(* Exactly at the deadline.  In a history without loop lag and without user operations on the request's
   timer: every reported removal of tk happened at registration time + timeout, and as soon as the clock
   has passed that instant the removal HAS been reported - unless the user removed the request. *)
Lemma timeout_exact : forall evs tk t0 tau, nowrap evs -> forallb (untouched_ev tk) evs = true ->
  In (OSent tk t0 tau) (log (run init evs)) -> tau <> 0 ->
  (forall t, In (ORemoved tk t) (log (run init evs)) -> t = t0 + Z.max tau 0) /\
  (t0 + Z.max tau 0 < now (run init evs) ->
     In (ORemoved tk (t0 + Z.max tau 0)) (log (run init evs)) \/ In (ORemoveOk tk) (log (run init evs))).
Proof.
  intros evs tk t0 tau Hnw Hu Hsent Ht.
  destruct (run_inv (PX tk) (untouched_ev tk) (PX_step tk) evs init Inv_init) as ((HN & HH & HL & HJ) & HI & _); try assumption.
  { split; [apply NR_init|]. split; [intros i Hi; cbn in Hi; lia|]. split; [intros i Hi; cbn in Hi; lia|apply J_init]. }
  set (s := run init evs) in *. split.
  - intros t Hin. destruct (j_rm tk s HJ t Hin) as (i & Hi & Oi & ->). eapply (j_dl tk s HJ); eassumption.
  - intros Hlate. destruct (j_ex tk s HJ t0 tau Hsent Ht) as (i & Hi & Oi).
    pose proof (j_dl tk s HJ i t0 tau Hi Oi Hsent Ht) as Hd.
    destruct (status (tasks s i)) as [c|cb] eqn:Si.
    + exfalso. assert (now s <= deadline (tasks s i)) by (apply HL; [assumption|eexists; eassumption]). lia.
    + destruct (j_fin tk s HJ i cb Hi Oi Si) as [A|B]; [right; exact A|left; rewrite <- Hd; exact B].
Qed.

Example timeout_exact_nonvacuous :
  let evs := [Search 5; Search 0; Step 0%nat; Advance 5; Step 0%nat; DoneCb 0%nat; Advance 3] in
  nowrap evs /\ forallb (untouched_ev 2) evs = true /\ In (OSent 2 0 5) (log (run init evs)) /\
  now (run init evs) = 8 /\ In (ORemoved 2 5) (log (run init evs)).
Proof. unfold nowrap, MAXT. vm_compute. repeat split; try discriminate; tauto. Qed.

