(* C18 proofs, part PBase.v *)
From Slsk Require Import Base.Tac.
From SlskGen Require Import TicketGen SearchGen.
From Slsk Require Import C18.Model.
Open Scope Z_scope.

(* ---------------------------------------------------------------- generator *)
Lemma ticket_step_spec : forall x, ticket_step TICKET_INITIAL x = if Z.ltb MAXT (x + 1) then 1 else x + 1.
Proof. intros. unfold ticket_step, ticket_step_pair, TICKET_INITIAL, MAXT. cbn. destruct (Z.ltb_spec 4294967295 (x+1)); reflexivity. Qed.

Definition nth_ticket (n : nat) : Z := Nat.iter n (ticket_step TICKET_INITIAL) TICKET_INITIAL.

Lemma ticket_closed_form : forall n, nth_ticket n = Z.of_nat n mod MAXT + 1.
Proof.
  induction n.
  - reflexivity.
  - unfold nth_ticket in *. change (Nat.iter (S n) (ticket_step TICKET_INITIAL) TICKET_INITIAL) with (ticket_step TICKET_INITIAL (Nat.iter n (ticket_step TICKET_INITIAL) TICKET_INITIAL)). rewrite IHn, ticket_step_spec. unfold MAXT.
    rewrite Nat2Z.inj_succ. destruct (Z.ltb_spec 4294967295 (Z.of_nat n mod 4294967295 + 1 + 1)); lia.
Qed.

Lemma tickets_distinct : forall i j : nat, (i < j)%nat -> Z.of_nat j - Z.of_nat i < MAXT -> nth_ticket i <> nth_ticket j.
Proof. intros i j H1 H2. rewrite !ticket_closed_form. unfold MAXT in *. lia. Qed.

Lemma tickets_range : forall n, 1 <= nth_ticket n <= MAXT.
Proof. intros. rewrite ticket_closed_form. unfold MAXT. lia. Qed.

(* ---------------------------------------------------------------- small facts *)
Lemma memz_In : forall x l, memz x l = true <-> In x l.
Proof. intros. unfold memz. rewrite existsb_exists. split.
  - intros (y & Hy & E). apply Z.eqb_eq in E. subst. assumption.
  - intros. exists x. split; [assumption|apply Z.eqb_refl]. Qed.

Lemma memz_delz_same : forall x l, memz x (delz x l) = false.
Proof. intros. destruct (memz x (delz x l)) eqn:E; [|reflexivity]. apply memz_In in E. unfold delz in E.
  apply filter_In in E. destruct E as (_ & E). rewrite Z.eqb_refl in E. discriminate. Qed.

Lemma memz_delz_other : forall x y l, x <> y -> memz x (delz y l) = memz x l.
Proof. intros. destruct (memz x l) eqn:E.
  - apply memz_In. apply memz_In in E. unfold delz. apply filter_In. split; [assumption|].
    destruct (Z.eqb_spec y x); [congruence|reflexivity].
  - destruct (memz x (delz y l)) eqn:E2; [|reflexivity]. apply memz_In in E2. unfold delz in E2. apply filter_In in E2.
    destruct E2 as (E2 & _). apply memz_In in E2. congruence. Qed.

Lemma In_delz : forall x y l, In x (delz y l) -> In x l.
Proof. intros. unfold delz in H. apply filter_In in H. tauto. Qed.

Lemma run_app : forall a b s, run s (a ++ b) = run (run s a) b.
Proof. intros. unfold run. apply fold_left_app. Qed.

Lemma issues_app : forall a b, issues (a ++ b) = issues a + issues b.
Proof. intros. unfold issues. rewrite filter_app, app_length. lia. Qed.
Lemma issues_cons : forall e r, issues (e :: r) = (if is_issue e then 1 else 0) + issues r.
Proof. intros. unfold issues. cbn [filter]. destruct (is_issue e); cbn [length]; lia. Qed.
Lemma issues_nonneg : forall l, 0 <= issues l. Proof. intros. unfold issues. lia. Qed.

Ltac unf := unfold step, register, remove_cancels_timer, timeout_guarded, unset_only_own, attach_with_timer, wish_with_timer, cancel_timer, cancel_task, start_timer, finish_task, emit, set_requests, set_gen,
  set_handle, set_tasks, set_now, set_interval, upd, updn in *.
Ltac proj := cbn [now gen interval requests has_timer tmo handle ntasks tasks log owner deadline status] in *.
Ltac projg := cbn [now gen interval requests has_timer tmo handle ntasks tasks log owner deadline status].
Ltac brk :=
  repeat match goal with
  | |- context [match ?x with _ => _ end] =>
      lazymatch x with
      | Z.eqb ?a ?b => destruct (Z.eqb_spec a b)
      | Nat.eqb ?a ?b => destruct (Nat.eqb_spec a b)
      | Nat.ltb ?a ?b => destruct (Nat.ltb_spec a b)
      | Z.ltb ?a ?b => destruct (Z.ltb_spec a b)
      | Z.leb ?a ?b => destruct (Z.leb_spec a b)
      | _ => let E := fresh "E" in destruct x eqn:E
      end; projg
  end.

Ltac unfstep := unfold step, register, remove_cancels_timer, timeout_guarded, unset_only_own, attach_with_timer, wish_with_timer, cancel_timer, cancel_task, start_timer, finish_task, emit, set_requests, set_gen,
  set_handle, set_tasks, set_now, set_interval.
(* case analysis of a step on ONE copy of it: the goal mentions [step s e] possibly many times; it is
   named, the conditions of the step are decided on the defining equation only, then it is substituted *)
Ltac stepsplit s e hook :=
  let s' := fresh "s'" in let Hs := fresh "Hs" in
  remember (step s e) as s' eqn:Hs; symmetry in Hs; revert Hs;
  destruct e; hook; unfstep; projg; brk; intros Hs; subst s'; projg.
Ltac nohook := idtac.
Ltac updsplit := unfold upd, updn; proj; brk; proj.

(* the log only grows, at the head *)
Lemma step_log : forall s e, log (step s e) = new_obs s e ++ log s.
Proof.
  intros. unfold new_obs.
  assert (exists l, log (step s e) = l ++ log s) as (l & H).
  { stepsplit s e nohook;
      first [ now (exists []) | now (eexists [_]) ]. }
  rewrite H. rewrite app_length. replace (length l + length (log s) - length (log s))%nat with (length l) by lia.
  rewrite firstn_app. rewrite Nat.sub_diag. cbn [firstn]. rewrite firstn_all. rewrite app_nil_r. reflexivity.
Qed.

Definition delta (s : state) (e : event) : list obs :=
  match e with
  | Search tau => [OSent (ticket_step TICKET_INITIAL (gen s)) (now s) (if Z.ltb 0 tau then tau else 0)]
  | Wish setting => let tau := wishlist_timeout setting (interval s) in
                    [OSent (ticket_step TICKET_INITIAL (gen s)) (now s) (if negb (Z.eqb tau 0) then tau else 0)]
  | Reply tk id => if memz tk (requests s) then [OResult tk id] else []
  | Remove tk => if memz tk (requests s) then [ORemoveOk tk] else [ORemoveKeyErr tk]
  | Step i =>
      if Nat.ltb i (ntasks s) then
        match status (tasks s i) with
        | Pend false =>
            if Z.leb (deadline (tasks s i)) (now s) then
              if memz (owner (tasks s i)) (requests s) then [ORemoved (owner (tasks s i)) (now s)]
              else []
            else []
        | _ => []
        end
      else []
  | _ => []
  end.

Lemma new_obs_delta : forall s e, new_obs s e = delta s e.
Proof.
  intros. apply (app_inv_tail (log s)). rewrite <- step_log.
  destruct e; unfold delta; unf; proj; brk; proj; try reflexivity; try lia.
Qed.

(* ---------------------------------------------------------------- A: results *)
Lemma result_only_if_live : forall s e tk id,
  In (OResult tk id) (new_obs s e) <-> (e = Reply tk id /\ memz tk (requests s) = true).
Proof.
  intros. rewrite new_obs_delta. split.
  - destruct e; unfold delta; brk; cbn [In]; intros Hi; try tauto; try (destruct Hi as [Hi|[]]; try discriminate).
    inv Hi. split; [reflexivity|assumption].
  - intros (-> & Hm). cbn [delta]. rewrite Hm. left. reflexivity.
Qed.

Lemma requests_live_step : forall s e,
  (forall tk, memz tk (requests s) = live_in_log tk (log s)) ->
  (forall tk, memz tk (requests (step s e)) = live_in_log tk (log (step s e))).
Proof.
  intros s e H tk.
  stepsplit s e nohook; proj; cbn [live_in_log memz existsb]; fold (memz tk (requests s));
    rewrite <- ?H; brk; subst;
    try reflexivity; try lia;
    rewrite ?memz_delz_same, ?orb_false_l; try reflexivity;
    try (rewrite memz_delz_other by congruence; reflexivity);
    try (rewrite Z.eqb_sym; destruct (Z.eqb_spec tk (ticket_step TICKET_INITIAL (gen s))); subst; cbn; congruence).
  all: try assumption.
  all: match goal with n : ?a <> ?b |- _ => destruct (Z.eqb_spec b a); [congruence|reflexivity] end.
Qed.

Lemma requests_live_gen : forall evs s, (forall tk, memz tk (requests s) = live_in_log tk (log s)) ->
  forall tk, memz tk (requests (run s evs)) = live_in_log tk (log (run s evs)).
Proof.
  induction evs; intros s H; [exact H|]. cbn [run fold_left]. apply IHevs. apply requests_live_step. exact H.
Qed.
Lemma requests_live : forall evs tk, memz tk (requests (run init evs)) = live_in_log tk (log (run init evs)).
Proof. intros evs. apply requests_live_gen. reflexivity. Qed.

Lemma result_iff_live_ticket : forall evs e tk id,
  In (OResult tk id) (new_obs (run init evs) e) <->
  (e = Reply tk id /\ live_in_log tk (log (run init evs)) = true).
Proof. intros. rewrite result_only_if_live, requests_live. reflexivity. Qed.


Definition noresched (tk : Z) (e : event) : bool := negb (resched_on tk e).

(* a step reports a timer expiry for tk only through a task of tk whose sleep is over *)
(* a step reports a timer expiry for tk only through a task of tk whose sleep is over *)
Lemma fire_inv : forall s e tk o, In o (new_obs s e) -> fires_for tk o = true ->
  exists i, e = Step i /\ (i < ntasks s)%nat /\ owner (tasks s i) = tk /\ status (tasks s i) = Pend false /\
            deadline (tasks s i) <= now s /\ o = ORemoved tk (now s) /\ memz tk (requests s) = true.
Proof.
  intros s e tk o Ho Hf. rewrite new_obs_delta in Ho.
  destruct e; unfold delta in Ho; cbn zeta in Ho;
    repeat match type of Ho with context [if ?c then _ else _] => let E := fresh "E" in destruct c eqn:E
                              | context [match ?c with _ => _ end] => let E := fresh "E" in destruct c eqn:E end;
    cbn [In] in Ho; try tauto; destruct Ho as [<-|[]]; cbn [fires_for] in Hf; try discriminate;
    apply Z.eqb_eq in Hf; exists i;
    repeat match goal with H : (_ <? _)%nat = true |- _ => apply Nat.ltb_lt in H | H : (_ <=? _) = true |- _ => apply Z.leb_le in H end;
    subst; repeat split; auto.
Qed.
