(* C18 proofs, part PLag.v: lag-free loop, frame facts of a step (independent of PNR) *)
From Slsk Require Import Base.Tac.
From SlskGen Require Import TicketGen.
From Slsk Require Import C18.Model C18.PBase C18.PInv.
Open Scope Z_scope.

(* ---------------------------------------------------------------- exactly at the deadline (lag-free loop) *)
(* without loop lag no pending task is ever overdue: time only advances up to the next deadline *)
Definition LF (s : state) : Prop :=
  forall i, (i < ntasks s)%nat -> (exists c, status (tasks s i) = Pend c) -> now s <= deadline (tasks s i).
Definition nolag (e : event) : bool := negb (is_lag e).

Lemma quiet_until_spec : forall s t n, quiet_until s t n = true -> forall i, (i < n)%nat ->
  forall c, status (tasks s i) = Pend c -> t <= deadline (tasks s i).
Proof.
  induction n; intros H i Hi c Hs; [lia|]. cbn [quiet_until] in H. apply andb_prop in H. destruct H as (H1 & H2).
  destruct (Nat.eq_dec i n) as [->|Hne].
  - rewrite Hs in H1. apply andb_prop in H1. destruct H1 as (_ & H1). apply Z.leb_le in H1. exact H1.
  - eapply IHn; [exact H2| lia | exact Hs].
Qed.

Lemma LF_step : forall s e, Inv s -> LF s -> okstep s e -> nolag e = true -> LF (step s e).
Proof.
  intros s e HI H Hok Ha.
  intros i. stepsplit s e ltac:(cbn [nolag is_lag negb] in Ha; try discriminate); updsplit;
    intros Hi (c & Si); try (apply H; [lia|eexists; eassumption]); try lia; try discriminate.
  all: try (apply H; [lia|eexists; eassumption]).
  all: try (match goal with E : quiet_until _ _ _ = true |- _ => eapply (quiet_until_spec _ _ _ E); [|eassumption]; lia end).
  apply andb_prop in E. destruct E as (_ & E). eapply (quiet_until_spec _ _ _ E); eassumption.
Qed.


(* tasks are never removed or re-owned; a step creates at most one task *)
Lemma step_tasks : forall s e i, (i < ntasks s)%nat ->
  (i < ntasks (step s e))%nat /\ owner (tasks (step s e) i) = owner (tasks s i) /\ deadline (tasks (step s e) i) = deadline (tasks s i).
Proof.
  intros s e i Hi. stepsplit s e nohook; updsplit; repeat split; try lia; try reflexivity; subst; try reflexivity; try lia.
Qed.

Lemma step_new_task : forall s e i, okstep s e -> (ntasks s <= i)%nat -> (i < ntasks (step s e))%nat ->
  i = ntasks s /\
  ((exists tau, tau <> 0 /\ delta s e = [OSent (gen s + 1) (now s) tau] /\ owner (tasks (step s e) i) = gen s + 1 /\
                deadline (tasks (step s e) i) = now s + Z.max tau 0) \/
   (exists tk tau, e = Resched tk tau /\ owner (tasks (step s e) i) = tk)).
Proof.
  intros s e i Hok Hge Hlt.
  assert (Hnew : is_issue e = true -> ticket_step TICKET_INITIAL (gen s) = gen s + 1).
  { intros Hi. specialize (Hok Hi). rewrite ticket_step_spec. destruct (Z.ltb_spec MAXT (gen s + 1)); lia. }
  revert Hlt. stepsplit s e ltac:(cbn [is_issue] in *; try specialize (Hnew eq_refl)); unfold delta; cbn zeta; updsplit; intros Hlt; try lia; try congruence;
    (split; [lia|]); try (right; eexists _, _; split; [reflexivity|]; brk; proj; try reflexivity; lia).
  all: try (left; eexists; rewrite ?Hnew; brk; proj; repeat split; try reflexivity; try lia; try congruence).
Qed.

Lemma delta_sent : forall s e tk t0 tau, okstep s e -> In (OSent tk t0 tau) (delta s e) -> tau <> 0 ->
  tk = gen s + 1 /\ t0 = now s /\ ntasks (step s e) = S (ntasks s).
Proof.
  intros s e tk t0 tau Hok Hin Ht.
  assert (Hnew : is_issue e = true -> ticket_step TICKET_INITIAL (gen s) = gen s + 1).
  { intros Hi. specialize (Hok Hi). rewrite ticket_step_spec. destruct (Z.ltb_spec MAXT (gen s + 1)); lia. }
  destruct e; cbn [is_issue] in *; try specialize (Hnew eq_refl); unfold delta in Hin; cbn zeta in Hin;
    repeat match type of Hin with context [if ?c then _ else _] => let E := fresh "E" in destruct c eqn:E
                               | context [match ?c with _ => _ end] => let E := fresh "E" in destruct c eqn:E end;
    cbn [In] in Hin; try tauto; destruct Hin as [Hin|[]]; try discriminate; inv Hin; try congruence;
    (split; [assumption|split; [reflexivity|]]); unf; proj; rewrite ?E; proj; try reflexivity.
Qed.

