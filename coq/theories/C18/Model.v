(* C18 model: SearchManager.requests + Timer objects (tasks.py) + the ticket generator.
   The ticket step and the wishlist-timeout decision are GENERATED (SlskGen.TicketGen, from
   utils.py / search/manager.py / constants.py); the guards and effects of remove_request,
   _timeout_search_request, _attach_request_timer_and_emit, the wishlist loop and Timer._unset_task are
   GENERATED flags (SlskGen.SearchGen); the remaining Timer methods and _on_peer_search_reply are pinned
   literally by the same translator.  Definitions only; executable (vm_compute).

   Atomic segments (asyncio runs everything between two suspension points atomically; none of
   the segments below contains a suspension point when the event listeners are plain
   functions):
     Search/Wish      ticket drawn, request registered, Timer created+started, Sent event
     SearchAborted    ticket drawn, send_server_messages raised: nothing registered
     Reply            _on_peer_search_reply: lookup by ticket, store + SearchResultEvent
     Remove           remove_request(ticket)          (requests.pop(ticket))
     Cancel/Resched   request.timer.cancel() / .reschedule(t) called by the library user
     Step i           task i (Timer.runner) is resumed by the loop: it either processes a pending
                      cancellation, or - if its sleep is over - runs _timeout_search_request
     DoneCb i         the done-callback Timer._unset_task of finished task i runs
     Advance dt       the loop sleeps dt (only possible when nothing is ready or due)
     Lag dt           time passes while work is due (a slow synchronous segment elsewhere)
   A request is identified by its ticket (exact as long as the generator has not wrapped). *)
From Coq Require Import ZArith List Bool.
From SlskGen Require Import TicketGen SearchGen.
Import ListNotations.
Open Scope Z_scope.

Inductive tstatus := Pend (cancelreq : bool) | Fin (cbpending : bool).
Record task := mkTask { owner : Z; deadline : Z; status : tstatus }.

Inductive obs :=
| OSent (tk t0 tau : Z)        (* SearchRequestSentEvent; tau = 0: no timer *)
| OResult (tk id : Z)          (* SearchResultEvent (and results.append) for reply number id *)
| ORemoved (tk t : Z)          (* SearchRequestRemovedEvent at time t *)
| OErrKey (tk t : Z)           (* KeyError escaping a timer task -> loop exception handler (unreachable in the repaired code) *)
| ORemoveOk (tk : Z)           (* remove_request returned *)
| ORemoveKeyErr (tk : Z).      (* remove_request raised KeyError (unknown / already removed) *)

Record state := mkSt {
  now : Z;
  gen : Z;                         (* state of the ticket generator *)
  interval : option Z;             (* SearchManager.wishlist_interval *)
  requests : list Z;               (* keys of SearchManager.requests *)
  has_timer : Z -> bool;           (* request.timer is not None *)
  tmo : Z -> Z;                    (* request.timer.timeout *)
  handle : Z -> option nat;        (* request.timer._task *)
  ntasks : nat;
  tasks : nat -> task;             (* all Timer.runner tasks ever created, by creation index *)
  log : list obs                   (* everything observable so far, newest first *)
}.

Inductive event :=
| Search (tau : Z)                 (* search / search_room / search_user with request_timeout = tau *)
| Wish (setting : Z)               (* one wishlist item with wishlist_request_timeout = setting *)
| SearchAborted
| SetInterval (i : Z)              (* WishlistInterval.Response *)
| Reply (tk id : Z)
| Remove (tk : Z)
| Cancel (tk : Z)
| Resched (tk : Z) (tau : option Z)
| Step (i : nat)
| DoneCb (i : nat)
| Advance (dt : Z)
| Lag (dt : Z).

Definition dummy_task := mkTask 0 0 (Fin false).
Definition init : state :=
  mkSt 0 TICKET_INITIAL None [] (fun _ => false) (fun _ => 0) (fun _ => None) 0 (fun _ => dummy_task) [].

Definition memz (x : Z) (l : list Z) : bool := existsb (Z.eqb x) l.
Definition delz (x : Z) (l : list Z) : list Z := filter (fun y => negb (Z.eqb x y)) l.
Definition upd {A} (f : Z -> A) (k : Z) (v : A) : Z -> A := fun x => if Z.eqb x k then v else f x.
Definition updn {A} (f : nat -> A) (k : nat) (v : A) : nat -> A := fun x => if Nat.eqb x k then v else f x.

Definition set_now s v := mkSt v (gen s) (interval s) (requests s) (has_timer s) (tmo s) (handle s) (ntasks s) (tasks s) (log s).
Definition set_gen s v := mkSt (now s) v (interval s) (requests s) (has_timer s) (tmo s) (handle s) (ntasks s) (tasks s) (log s).
Definition set_interval s v := mkSt (now s) (gen s) v (requests s) (has_timer s) (tmo s) (handle s) (ntasks s) (tasks s) (log s).
Definition set_requests s v := mkSt (now s) (gen s) (interval s) v (has_timer s) (tmo s) (handle s) (ntasks s) (tasks s) (log s).
Definition set_handle s v := mkSt (now s) (gen s) (interval s) (requests s) (has_timer s) (tmo s) v (ntasks s) (tasks s) (log s).
Definition set_tasks s v := mkSt (now s) (gen s) (interval s) (requests s) (has_timer s) (tmo s) (handle s) (ntasks s) v (log s).
Definition emit s o := mkSt (now s) (gen s) (interval s) (requests s) (has_timer s) (tmo s) (handle s) (ntasks s) (tasks s) (o :: log s).

(* Timer.start(): create_task + add_done_callback; asyncio.sleep(t) with t <= 0 is sleep(0) *)
Definition start_timer (s : state) (tk : Z) : state :=
  let n := ntasks s in
  mkSt (now s) (gen s) (interval s) (requests s) (has_timer s) (tmo s) (upd (handle s) tk (Some n)) (S n)
       (updn (tasks s) n (mkTask tk (now s + Z.max (tmo s tk) 0) (Pend false))) (log s).

(* Task.cancel(): a finished task is unaffected; a pending one will see CancelledError at its
   next step, also when its sleep future is already resolved (_must_cancel) *)
Definition cancel_task (s : state) (i : nat) : state :=
  match status (tasks s i) with
  | Pend _ => set_tasks s (updn (tasks s) i (mkTask (owner (tasks s i)) (deadline (tasks s i)) (Pend true)))
  | Fin _ => s
  end.

(* Timer.cancel() *)
Definition cancel_timer (s : state) (tk : Z) : state :=
  match handle s tk with
  | None => s
  | Some i => set_handle (cancel_task s i) (upd (handle s) tk None)
  end.

(* requests[ticket] = request; Timer(...) + start() when [with_timer]; SearchRequestSentEvent *)
Definition register (s : state) (tau : Z) (with_timer : bool) : state :=
  let tk := ticket_step TICKET_INITIAL (gen s) in
  let s := set_gen s tk in
  let s := set_requests s (if memz tk (requests s) then requests s else tk :: requests s) in
  if with_timer then
    let s := mkSt (now s) (gen s) (interval s) (requests s) (upd (has_timer s) tk true) (upd (tmo s) tk tau)
                  (handle s) (ntasks s) (tasks s) (log s) in
    emit (start_timer s tk) (OSent tk (now s) tau)
  else
    let s := mkSt (now s) (gen s) (interval s) (requests s) (upd (has_timer s) tk false) (tmo s)
                  (handle s) (ntasks s) (tasks s) (log s) in
    emit s (OSent tk (now s) 0).

Definition finish_task (s : state) (i : nat) : state :=
  set_tasks s (updn (tasks s) i (mkTask (owner (tasks s i)) (deadline (tasks s i)) (Fin true))).

(* all finished (callbacks run) or sleeping until at least [t] *)
Fixpoint quiet_until (s : state) (t : Z) (n : nat) : bool :=
  match n with
  | O => true
  | S m => andb (match status (tasks s m) with
                 | Fin cb => negb cb
                 | Pend c => andb (negb c) (Z.leb t (deadline (tasks s m)))
                 end) (quiet_until s t m)
  end.

Definition step (s : state) (e : event) : state :=
  match e with
  | Search tau => register s tau (attach_with_timer tau)
  | Wish setting => let tau := wishlist_timeout setting (interval s) in register s tau (wish_with_timer tau)
  | SearchAborted => set_gen s (ticket_step TICKET_INITIAL (gen s))
  | SetInterval i => set_interval s (Some i)
  | Reply tk id => if memz tk (requests s) then emit s (OResult tk id) else s
  | Remove tk =>
      (* requests.pop(ticket); then the popped request's timer (if any) is cancelled *)
      if memz tk (requests s) then
        let s := emit (set_requests s (delz tk (requests s))) (ORemoveOk tk) in
        if remove_cancels_timer then (if has_timer s tk then cancel_timer s tk else s) else s
      else emit s (ORemoveKeyErr tk)
  | Cancel tk => if has_timer s tk then cancel_timer s tk else s
  | Resched tk tau =>
      if has_timer s tk then
        let s := match tau with
                 | Some t => mkSt (now s) (gen s) (interval s) (requests s) (has_timer s) (upd (tmo s) tk t)
                                  (handle s) (ntasks s) (tasks s) (log s)
                 | None => s end in
        start_timer (cancel_timer s tk) tk
      else s
  | Step i =>
      if Nat.ltb i (ntasks s) then
        let t := tasks s i in
        match status t with
        | Pend true => finish_task s i
        | Pend false =>
            if Z.leb (deadline t) (now s) then
              (* _timeout_search_request: nothing when the request is no longer registered;
                 else del self.requests[ticket]; emit Removed *)
              if memz (owner t) (requests s)
              then finish_task (emit (set_requests s (delz (owner t) (requests s))) (ORemoved (owner t) (now s))) i
              else if timeout_guarded then finish_task s i else finish_task (emit s (OErrKey (owner t) (now s))) i
            else s
        | Fin _ => s
        end
      else s
  | DoneCb i =>
      if Nat.ltb i (ntasks s) then
        let t := tasks s i in
        match status t with
        | Fin true =>
            (* Timer._unset_task: self._task = None only when the handle still is this task *)
            let s' := set_tasks s (updn (tasks s) i (mkTask (owner t) (deadline t) (Fin false))) in
            match handle s (owner t) with
            | Some j => if unset_only_own then (if Nat.eqb j i then set_handle s' (upd (handle s) (owner t) None) else s')
                        else set_handle s' (upd (handle s) (owner t) None)
            | None => s'
            end
        | _ => s
        end
      else s
  | Advance dt => if andb (Z.leb 0 dt) (quiet_until s (now s + dt) (ntasks s)) then set_now s (now s + dt) else s
  | Lag dt => if Z.leb 0 dt then set_now s (now s + dt) else s
  end.

Definition run (s : state) (evs : list event) : state := fold_left step evs s.

(* observations a step adds (the log only grows at the head) *)
Definition new_obs (s : state) (e : event) : list obs :=
  firstn (length (log (step s e)) - length (log s)) (log (step s e)).

(* ---------- the event loop's own order, for the correspondence runs ------------------------- *)
(* run_ready until quiet at the current instant: every task that has something to do is stepped,
   then every pending done-callback runs (one round suffices: callbacks create no tasks) *)
Definition settle_events (s : state) : list event :=
  map Step (seq 0 (ntasks s)) ++ map DoneCb (seq 0 (ntasks s)).
Definition settle (s : state) : state := run s (settle_events s).

Fixpoint next_deadline (s : state) (n : nat) : option Z :=
  match n with
  | O => None
  | S m =>
      let r := next_deadline s m in
      match status (tasks s m) with
      | Pend false => match r with None => Some (deadline (tasks s m)) | Some d => Some (Z.min d (deadline (tasks s m))) end
      | _ => r
      end
  end.

(* loop.run_for(dt): settle, jump to the next timer, settle, ... then rest of dt *)
Fixpoint advance_settle (fuel : nat) (s : state) (dt : Z) : state :=
  let s := settle s in
  match fuel with
  | O => s
  | S f =>
      match next_deadline s (ntasks s) with
      | Some d => if Z.leb d (now s + dt)
                  then let d' := Z.max d (now s) in advance_settle f (step s (Advance (d' - now s))) (now s + dt - d')
                  else step s (Advance dt)
      | None => step s (Advance dt)
      end
  end.

Inductive op := OEv (e : event) | OSettle | ORunFor (dt : Z).
Definition op_apply (s : state) (o : op) : state :=
  match o with
  | OEv e => step s e
  | OSettle => settle s
  | ORunFor dt => advance_settle (S (ntasks s)) s dt
  end.

(* what the harness compares after every op: the observations added (any order), the sorted key
   set is compared as a set, the handle state of given tickets, the clock *)
Definition added (s s' : state) : list obs := firstn (length (log s') - length (log s)) (log s').
Definition handle_set (s : state) (tk : Z) : bool := match handle s tk with Some _ => true | None => false end.

(* ---------- decidable helpers used by statements ------------------------------------------- *)
Definition is_issue (e : event) : bool :=
  match e with Search _ | Wish _ | SearchAborted => true | _ => false end.
Definition issues (evs : list event) : Z := Z.of_nat (length (filter is_issue evs)).
Definition MAXT : Z := 4294967295.
(* the generator does not wrap during the history *)
Definition nowrap (evs : list event) : Prop := TICKET_INITIAL + issues evs <= MAXT.
Definition is_lag (e : event) : bool := match e with Lag _ => true | _ => false end.
Definition lagfree (evs : list event) : Prop := forallb (fun e => negb (is_lag e)) evs = true.
Definition timer_op_on (tk : Z) (e : event) : bool :=
  match e with Cancel k | Resched k _ => Z.eqb k tk | _ => false end.
Definition resched_on (tk : Z) (e : event) : bool :=
  match e with Resched k _ => Z.eqb k tk | _ => false end.
Definition untouched (tk : Z) (evs : list event) : Prop := forallb (fun e => negb (timer_op_on tk e)) evs = true.
Definition no_resched (tk : Z) (evs : list event) : Prop := forallb (fun e => negb (resched_on tk e)) evs = true.

(* liveness according to the observable history (newest first): the latest observation about
   the ticket's registration is a Sent *)
Fixpoint live_in_log (tk : Z) (l : list obs) : bool :=
  match l with
  | [] => false
  | OSent k _ _ :: r => if Z.eqb k tk then true else live_in_log tk r
  | ORemoved k _ :: r => if Z.eqb k tk then false else live_in_log tk r
  | ORemoveOk k :: r => if Z.eqb k tk then false else live_in_log tk r
  | _ :: r => live_in_log tk r
  end.

Definition fires_for (tk : Z) (o : obs) : bool :=
  match o with ORemoved k _ | OErrKey k _ => Z.eqb k tk | _ => false end.
Definition result_for (tk : Z) (o : obs) : bool :=
  match o with OResult k _ => Z.eqb k tk | _ => false end.
Definition removed_ev_for (tk : Z) (o : obs) : bool :=
  match o with ORemoved k _ => Z.eqb k tk | _ => false end.
