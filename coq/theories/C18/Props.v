(* C18 property theorems (statements only; proofs are in Proofs.v).
   The machine of C18/Model.v is the REPAIRED code: remove_request cancels the request's timer, the
   timeout handler ignores a request that is no longer registered, and Timer._unset_task only clears
   the handle when it still refers to the finished task.  The ticket step is GENERATED from
   utils.ticket_generator (SlskGen.TicketGen).  `run init evs` ranges over all histories of API calls,
   replies, task steps, done-callbacks and time passing, i.e. over all schedules; `new_obs s e` are the
   observations step e adds in state s; nowrap evs: fewer tickets drawn than the generator's period. *)
From Slsk Require Import Base.Tac.
From SlskGen Require Import TicketGen.
From Slsk Require Import C18.Model C18.Proofs.
Open Scope Z_scope.

(* A result is reported (and stored) by a step iff the step is the arrival of a reply whose ticket is
   live according to the observable history. *)
Theorem C18_result_iff_live_ticket : forall evs e tk id,
  In (OResult tk id) (new_obs (run init evs) e) <->
  (e = Reply tk id /\ live_in_log tk (log (run init evs)) = true).
Proof. exact result_iff_live_ticket. Qed.

Theorem C18_requests_are_live : forall evs tk, memz tk (requests (run init evs)) = live_in_log tk (log (run init evs)).
Proof. exact requests_live. Qed.

(* Ticket generator (generated step) *)
Theorem C18_ticket_closed_form : forall n, nth_ticket n = Z.of_nat n mod 4294967295 + 1.
Proof. exact ticket_closed_form. Qed.
Theorem C18_tickets_distinct : forall i j : nat, (i < j)%nat -> Z.of_nat j - Z.of_nat i < 4294967295 -> nth_ticket i <> nth_ticket j.
Proof. exact tickets_distinct. Qed.
Theorem C18_tickets_range : forall n, 1 <= nth_ticket n <= 4294967295.
Proof. exact tickets_range. Qed.
Theorem C18_sent_tickets_distinct : forall evs, nowrap evs -> NoDup (sent_tickets (log (run init evs))).
Proof. exact sent_tickets_distinct. Qed.

(* Timeout: at most once, not before ... *)
Theorem C18_timeout_at_most_once : forall evs e tk o, nowrap (evs ++ [e]) -> no_resched tk evs ->
  In o (new_obs (run init evs) e) -> fires_for tk o = true ->
  forall o', In o' (log (run init evs)) -> fires_for tk o' = false.
Proof. exact timeout_at_most_once. Qed.
Theorem C18_timeout_not_before : forall evs e tk o, nowrap (evs ++ [e]) -> no_resched tk evs ->
  In o (new_obs (run init evs) e) -> fires_for tk o = true ->
  exists t0 tau, In (OSent tk t0 tau) (log (run init evs)) /\ tau <> 0 /\ t0 + Z.max tau 0 <= now (run init evs) /\
                 o = ORemoved tk (now (run init evs)).
Proof. exact timeout_not_before. Qed.
(* ... and EXACTLY at the deadline: in a history without loop lag and without user operations on the
   request's timer every reported removal carries the time registration + timeout, and once the clock is
   past that instant the removal has been reported, unless the user removed the request. *)
Theorem C18_timeout_exact : forall evs tk t0 tau, nowrap evs -> forallb (untouched_ev tk) evs = true ->
  In (OSent tk t0 tau) (log (run init evs)) -> tau <> 0 ->
  (forall t, In (ORemoved tk t) (log (run init evs)) -> t = t0 + Z.max tau 0) /\
  (t0 + Z.max tau 0 < now (run init evs) ->
     In (ORemoved tk (t0 + Z.max tau 0)) (log (run init evs)) \/ In (ORemoveOk tk) (log (run init evs))).
Proof. exact timeout_exact. Qed.
Example C18_timeout_exact_nonvacuous :
  let evs := [Search 5; Search 0; Step 0%nat; Advance 5; Step 0%nat; DoneCb 0%nat; Advance 3] in
  nowrap evs /\ forallb (untouched_ev 2) evs = true /\ In (OSent 2 0 5) (log (run init evs)) /\
  now (run init evs) = 8 /\ In (ORemoved 2 5) (log (run init evs)).
Proof. exact timeout_exact_nonvacuous. Qed.

(* Manual removal (FULL): after remove_request returned, no step ever produces a result event, a removal
   event or a timer error for that request; no exception escapes a timer task at all; the request's timer
   is cancelled (no task of it can wake up) until the user re-arms it himself. *)
Theorem C18_removed_silent : forall evs e tk, nowrap (evs ++ [e]) -> In (ORemoveOk tk) (log (run init evs)) ->
  forall o, In o (new_obs (run init evs) e) -> result_for tk o = false /\ fires_for tk o = false.
Proof. exact removed_silent_full. Qed.
Theorem C18_no_task_errors : forall s e o tk t, In o (new_obs s e) -> o <> OErrKey tk t.
Proof. exact no_task_errors. Qed.
Theorem C18_remove_cancels_timer : forall evs1 evs2 tk,
  nowrap (evs1 ++ Remove tk :: evs2) -> no_resched tk evs2 -> memz tk (requests (run init evs1)) = true ->
  forall i, (i < ntasks (run init (evs1 ++ Remove tk :: evs2)))%nat ->
    owner (tasks (run init (evs1 ++ Remove tk :: evs2)) i) = tk -> status (tasks (run init (evs1 ++ Remove tk :: evs2)) i) <> Pend false.
Proof. exact remove_cancels_timer. Qed.
Theorem C18_removed_silent_no_timer : forall evs e tk t0, nowrap (evs ++ [e]) -> In (OSent tk t0 0) (log (run init evs)) ->
  forall o, In o (new_obs (run init evs) e) -> fires_for tk o = false.
Proof. exact removed_silent_no_timer. Qed.

(* cancel() (FULL): whatever happened before - including any number of re-arms - after cancel() nothing
   fires for the request until the user re-arms the timer *)
Theorem C18_cancel_effective : forall evs1 evs2 e tk t0 tau,
  nowrap (evs1 ++ Cancel tk :: evs2 ++ [e]) -> no_resched tk evs2 ->
  In (OSent tk t0 tau) (log (run init evs1)) ->
  forall o, In o (new_obs (run init (evs1 ++ Cancel tk :: evs2)) e) -> fires_for tk o = false.
Proof. exact cancel_effective. Qed.

(* re-arming (FULL): after ANY reschedule - until the next one - the timer fires only once the NEW
   deadline is reached: a superseded deadline never fires *)
Theorem C18_superseded_never_fires : forall evs1 evs2 e tk tau t0 tau0,
  nowrap (evs1 ++ Resched tk tau :: evs2 ++ [e]) -> no_resched tk evs2 ->
  In (OSent tk t0 tau0) (log (run init evs1)) ->
  forall o, In o (new_obs (run init (evs1 ++ Resched tk tau :: evs2)) e) -> fires_for tk o = true ->
  now (run init evs1) + Z.max (match tau with Some t => t | None => tmo (run init evs1) tk end) 0
    <= now (run init (evs1 ++ Resched tk tau :: evs2)).
Proof. exact superseded_never_fires. Qed.

(* non-vacuity *)
Example C18_nonvacuous :
  let evs := [Search 5; Search 0; Reply 2 1; Reply 7 2; Advance 5] in
  nowrap (evs ++ [Step 0%nat]) /\ no_resched 2 evs /\
  new_obs (run init evs) (Step 0%nat) = [ORemoved 2 5] /\
  log (run init evs) = [OResult 2 1; OSent 3 0 0; OSent 2 0 5] /\
  live_in_log 2 (log (run init evs)) = true /\ live_in_log 2 (log (run init (evs ++ [Step 0%nat]))) = false.
Proof. unfold nowrap, MAXT. vm_compute. repeat split; try reflexivity; discriminate. Qed.

(* the former F23 history: re-arm, let the old task finish, cancel: nothing fires any more *)
Example C18_cancel_nonvacuous :
  let evs1 := [Search 3; Resched 2 (Some 4); Step 0%nat; DoneCb 0%nat] in let evs2 := [Step 1%nat; DoneCb 1%nat; Advance 9] in
  nowrap (evs1 ++ Cancel 2 :: evs2 ++ [Step 1%nat]) /\ no_resched 2 evs2 /\
  In (OSent 2 0 3) (log (run init evs1)) /\ now (run init (evs1 ++ Cancel 2 :: evs2)) = 9 /\
  log (run init (evs1 ++ Cancel 2 :: evs2 ++ [Step 1%nat])) = [OSent 2 0 3].
Proof. unfold nowrap, MAXT. vm_compute. repeat split; try reflexivity; try discriminate. left. reflexivity. Qed.

(* the former F22 history: remove, wait beyond the deadline: silence *)
Example C18_removed_nonvacuous :
  log (run init [Search 5; Remove 2; Step 0%nat; DoneCb 0%nat; Advance 50; Step 0%nat; Reply 2 1]) = [ORemoveOk 2; OSent 2 0 5].
Proof. vm_compute. reflexivity. Qed.
