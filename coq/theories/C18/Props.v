(* C18 property theorems (statements only; proofs are in Proofs.v).
   The machine of C18/Model.v: SearchManager.requests, Timer objects (task handle, cancellation,
   done-callbacks) and the ticket generator whose step is GENERATED from utils.ticket_generator
   (SlskGen.TicketGen).  `run init evs` ranges over all histories of API calls, replies, task
   steps, done-callbacks and time passing, i.e. over all schedules.  `new_obs s e` are the
   observations the step e adds in state s.  nowrap evs: fewer tickets drawn than the generator's
   period, so that a request is identified by its ticket. *)
From Slsk Require Import Base.Tac.
From SlskGen Require Import TicketGen.
From Slsk Require Import C18.Model C18.Proofs.
Open Scope Z_scope.

(* A result is reported (and stored) by a step iff the step is the arrival of a reply whose ticket
   is live according to the observable history: sent, and since then neither reported removed nor
   removed by the user. *)
Theorem C18_result_iff_live_ticket : forall evs e tk id,
  In (OResult tk id) (new_obs (run init evs) e) <->
  (e = Reply tk id /\ live_in_log tk (log (run init evs)) = true).
Proof. exact result_iff_live_ticket. Qed.

(* the registry is exactly the set of live tickets of the observable history *)
Theorem C18_requests_are_live : forall evs tk, memz tk (requests (run init evs)) = live_in_log tk (log (run init evs)).
Proof. exact requests_live. Qed.

(* Ticket generator (generated step): closed form; any two of fewer than 2^32-1 consecutive issues differ *)
Theorem C18_ticket_closed_form : forall n, nth_ticket n = Z.of_nat n mod 4294967295 + 1.
Proof. exact ticket_closed_form. Qed.
Theorem C18_tickets_distinct : forall i j : nat, (i < j)%nat -> Z.of_nat j - Z.of_nat i < 4294967295 -> nth_ticket i <> nth_ticket j.
Proof. exact tickets_distinct. Qed.
Theorem C18_tickets_range : forall n, 1 <= nth_ticket n <= 4294967295.
Proof. exact tickets_range. Qed.
(* in the machine: no ticket is sent twice before the generator wraps, so live requests have distinct tickets *)
Theorem C18_sent_tickets_distinct : forall evs, nowrap evs -> NoDup (sent_tickets (log (run init evs))).
Proof. exact sent_tickets_distinct. Qed.

(* Timeout: a timer that the user never re-armed fires at most once, whatever the schedule ... *)
Theorem C18_timeout_at_most_once : forall evs e tk o, nowrap (evs ++ [e]) -> no_resched tk evs ->
  In o (new_obs (run init evs) e) -> fires_for tk o = true ->
  forall o', In o' (log (run init evs)) -> fires_for tk o' = false.
Proof. exact timeout_at_most_once. Qed.
(* ... and not before the time of registration plus the timeout (and only for requests that have one) *)
Theorem C18_timeout_not_before : forall evs e tk o, nowrap (evs ++ [e]) -> no_resched tk evs ->
  In o (new_obs (run init evs) e) -> fires_for tk o = true ->
  exists t0 tau, In (OSent tk t0 tau) (log (run init evs)) /\ tau <> 0 /\ t0 + Z.max tau 0 <= now (run init evs) /\
                 (o = ORemoved tk (now (run init evs)) \/ o = OErrKey tk (now (run init evs))).
Proof. exact timeout_not_before. Qed.

(* Manual removal.  Full statement (no further result, no removal event, NO LATER ERROR) is false: F22 *)
Theorem C18_removed_silent_refuted : exists evs e tk o, nowrap (evs ++ [e]) /\ In (ORemoveOk tk) (log (run init evs)) /\
  In o (new_obs (run init evs) e) /\ fires_for tk o = true.
Proof. exact removed_silent_refuted. Qed.
(* what holds: no further result event and no removal event, ever *)
Theorem C18_removed_silent_partial : forall evs e tk, nowrap (evs ++ [e]) -> In (ORemoveOk tk) (log (run init evs)) ->
  forall o, In o (new_obs (run init evs) e) -> result_for tk o = false /\ removed_ev_for tk o = false.
Proof. exact removed_silent_partial. Qed.
(* and requests without a timeout never produce a timer event or error *)
Theorem C18_removed_silent_no_timer : forall evs e tk t0, nowrap (evs ++ [e]) -> In (OSent tk t0 0) (log (run init evs)) ->
  forall o, In o (new_obs (run init evs) e) -> fires_for tk o = false.
Proof. exact removed_silent_no_timer. Qed.

(* cancel(): after it, nothing fires for the request - FALSE in general (F23) ... *)
Theorem C18_cancel_effective_refuted : exists evs1 evs2 e tk t0 tau o,
  nowrap (evs1 ++ Cancel tk :: evs2 ++ [e]) /\ no_resched tk evs2 /\
  In (OSent tk t0 tau) (log (run init evs1)) /\
  In o (new_obs (run init (evs1 ++ Cancel tk :: evs2)) e) /\ fires_for tk o = true.
Proof. exact cancel_effective_refuted. Qed.
(* ... true when the timer was never re-armed (before or after) *)
Theorem C18_cancel_effective_partial : forall evs1 evs2 e tk t0 tau,
  nowrap (evs1 ++ Cancel tk :: evs2 ++ [e]) -> no_resched tk (evs1 ++ Cancel tk :: evs2) ->
  In (OSent tk t0 tau) (log (run init evs1)) ->
  forall o, In o (new_obs (run init (evs1 ++ Cancel tk :: evs2)) e) -> fires_for tk o = false.
Proof. exact cancel_effective_partial. Qed.

(* re-arming: the superseded deadline must not fire - FALSE for a second re-arm (F23): the request is
   removed at time 4 although it was re-armed at time 0 for 9 seconds ... *)
Theorem C18_superseded_never_fires_refuted : exists evs e tk t1 tau' o,
  nowrap (evs ++ [e]) /\ last evs (Lag 0) = Resched tk (Some tau') /\ t1 = now (run init evs) /\
  In o (new_obs (run init (evs ++ [Advance 4])) e) /\ fires_for tk o = true /\
  now (run init (evs ++ [Advance 4])) < t1 + tau'.
Proof. exact superseded_fires_refuted. Qed.
(* ... true for the first re-arm: afterwards the timer only fires once the NEW deadline is reached *)
Theorem C18_superseded_partial : forall evs1 evs2 e tk tau t0 tau0,
  nowrap (evs1 ++ Resched tk tau :: evs2 ++ [e]) -> no_resched tk evs1 -> no_resched tk evs2 ->
  In (OSent tk t0 tau0) (log (run init evs1)) ->
  forall o, In o (new_obs (run init (evs1 ++ Resched tk tau :: evs2)) e) -> fires_for tk o = true ->
  now (run init evs1) + Z.max (match tau with Some t => t | None => tmo (run init evs1) tk end) 0
    <= now (run init (evs1 ++ Resched tk tau :: evs2)).
Proof. exact superseded_partial. Qed.

(* non-vacuity: a history meeting the premises in which the timer does fire, exactly at its deadline *)
Example C18_nonvacuous :
  let evs := [Search 5; Search 0; Reply 2 1; Reply 7 2; Advance 5] in
  nowrap (evs ++ [Step 0%nat]) /\ no_resched 2 evs /\
  new_obs (run init evs) (Step 0%nat) = [ORemoved 2 5] /\
  log (run init evs) = [OResult 2 1; OSent 3 0 0; OSent 2 0 5] /\
  live_in_log 2 (log (run init evs)) = true /\ live_in_log 2 (log (run init (evs ++ [Step 0%nat]))) = false.
Proof. unfold nowrap, MAXT. vm_compute. repeat split; try reflexivity; discriminate. Qed.

Example C18_cancel_nonvacuous :
  let evs1 := [Search 5] in let evs2 := [Step 0%nat; DoneCb 0%nat; Advance 9] in
  nowrap (evs1 ++ Cancel 2 :: evs2 ++ [Step 0%nat]) /\ no_resched 2 (evs1 ++ Cancel 2 :: evs2) /\
  In (OSent 2 0 5) (log (run init evs1)) /\ now (run init (evs1 ++ Cancel 2 :: evs2)) = 9.
Proof. unfold nowrap, MAXT. vm_compute. repeat split; try reflexivity; try discriminate. left. reflexivity. Qed.
