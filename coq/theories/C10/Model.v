(* C10 model (phase 2: the code WITH the repairs F14, F15, F15b, C10-N1 applied).
   One connection of aioslsk (network/connection.py) together with the parts of
   Network (network/network.py) that touch it: registry add (creation / accept), registry
   removal on CLOSED, the init-message handler on_peer_accepted, the attempt coroutines
   _make_direct_connection / _handle_connect_to_peer / connect_server.

   Coroutines are cut at the awaits that can suspend (DESIGN 2.2).  One [event] = one atomic
   segment (or an external stimulus that starts one).  Disabled events are identity steps, so
   the theorems quantify over every [list event].

   Definitions only; executable (the correspondence check runs [run_actions] under vm_compute). *)
From Coq Require Import List Bool Arith.
From SlskGen Require Import C10LifeGen.
Import ListNotations.

Inductive kind := Server | Outgoing | Incoming.
Inductive cst := UNINIT | CONNECTING | CONNECTED | CLOSING | CLOSED.
Inductive rdr := RNone | RRunning | RBlocked | RDone.   (* RBlocked: reader task inside its own disconnect() *)
Inductive pcs := AwaitInit | Established | Negotiating | Transferring.
Inductive wst := WNone | WOpen | WClosing.
Inductive ctype := TP | TF | TD.
Inductive after := ThenRaise | ThenRet | ThenCancel.
(* where the coroutine that owns the connection attempt / the accept handler is suspended *)
Inductive att :=
  | ANone                (* no such coroutine alive *)
  | ACreated             (* object created and registered; connect() entered in the same segment *)
  | AConnecting          (* suspended in asyncio.open_connection (under the connect timeout) *)
  | ASending             (* CONNECTED set, init message written, suspended in drain() *)
  | AAwaitInit           (* accept task suspended reading the init message in on_peer_accepted *)
  | AOwnClose (a : after)(* suspended inside its own disconnect() call (wait_closed) *)
  | AWaitDet (a : after) (* its write failed: _send spawned the detached disconnect task (not yet run) and awaits it, shielded *)
  | AWaitClose (a : after)(* the detached disconnect task is in wait_closed; the coroutine still awaits it, shielded *)
  | ARet.                (* on_peer_accepted has returned (or is about to): accept() ends *)
Inductive ares := ResNone | ResOk | ResFail | ResCancelled.

Inductive initmsg := IPeerInit (t : ctype) | IPierceKnown | IPierceUnknown | IOther
                   | IEof | IPartial | IReadErr | ITimeout | IUndecodable.
Inductive rx := XMsg | XEof | XPartial | XErr | XTimeout | XUndecodable.
Inductive smode := SOk | SFail | STimeout.
Inductive reason := RUnknown | RConnectFailed | RRequested | RReadError | RWriteError | RTimeoutR | REof.

Inductive event :=
  | Create | ConnectStart | ConnectOk | ConnectFail | ConnectTimeout
  | ConnectFailOther             (* open_connection raises something that is not an OSError (OverflowError, UnicodeError, ...) *)
  | Cancel                       (* the attempt task is cancelled where it is suspended *)
  | SendInit (m : smode)         (* drain of the init message returns / raises / times out; ok => _finalize_peer_connection *)
  | StartReader                  (* server only: client.login starts the reader task *)
  | Accept | InitRead (r : initmsg) | AcceptReturns
  | Disconnect (r : reason)      (* first segment of disconnect(): guard, CLOSING, writer.close() *)
  | CloseDone                    (* second segment: wait_closed returned / timed out: CLOSED *)
  | DetachedRun                  (* a detached disconnect task (spawned by _send on a write failure) runs its first segment *)
  | ReaderGets (x : rx)
  | Send (m : smode)
  | QSend (m : smode).           (* queue_message: send_message in its own task, which disconnect() cancels *)

Record conn := mk {
  kd : kind; ty : ctype;
  st : cst;
  rep : list cst;            (* ConnectionStateChangedEvent stream, NEWEST FIRST *)
  in_reg : bool;             (* member of Network.peer_connections *)
  reader : rdr; pc : pcs; writer : wst;
  at_ : att; res : ares;
  closers : nat;             (* disconnect() calls between their CLOSING and their CLOSED *)
  detached : nat;            (* detached disconnect tasks spawned by _send on a write failure, not yet run *)
  delivered : nat;           (* MessageReceivedEvent count *)
  sent : nat;                (* writes that reached the transport *)
  (* ghosts (observers only; no step reads them) *)
  seen_closed : bool;        (* CLOSED was reported at least once *)
  viol : bool;               (* some report did not move forward *)
  twice : bool;              (* CLOSED reported a second time, or something reported after CLOSED (non-server) *)
  bad_deliv : nat;           (* deliveries after CLOSED (non-server) *)
  bad_sent : nat             (* writes after CLOSED (non-server) *)
}.

Definition init (k : kind) (t : ctype) : conn :=
  mk k t UNINIT [] false RNone AwaitInit WNone ANone ResNone 0 0 0 0 false false false 0 0.

(* GENERATED structure (SlskGen.C10LifeGen, from connection.py / network.py): the order of the ConnectionState enum,
   Connection._CLOSING_STATES, the idempotence guard of DataConnection.disconnect, the state on which Network
   unregisters a peer connection, and the presence of the constructs named by the flags used in [step0] below
   (each flag's [else] branch is the behaviour of the code without the construct). *)
Definition rank (s : cst) : nat :=
  match s with UNINIT => RANK_UNINITIALIZED | CONNECTING => RANK_CONNECTING | CONNECTED => RANK_CONNECTED
             | CLOSING => RANK_CLOSING | CLOSED => RANK_CLOSED end.

(* Connection._is_closing after set_state(s) *)
Definition closing (s : cst) : bool :=
  match s with UNINIT => CLOSING_STATE_UNINITIALIZED | CONNECTING => CLOSING_STATE_CONNECTING | CONNECTED => CLOSING_STATE_CONNECTED
             | CLOSING => CLOSING_STATE_CLOSING | CLOSED => CLOSING_STATE_CLOSED end.

(* `if self.state in (...): return` at the top of DataConnection.disconnect *)
Definition guarded (s : cst) : bool :=
  match s with UNINIT => GUARD_UNINITIALIZED | CONNECTING => GUARD_CONNECTING | CONNECTED => GUARD_CONNECTED
             | CLOSING => GUARD_CLOSING | CLOSED => GUARD_CLOSED end.

(* Network._on_peer_connection_state_changed: remove_peer_connection when the new state is ... *)
Definition removes (s : cst) : bool :=
  match s with UNINIT => REGISTRY_REMOVE_ON_UNINITIALIZED | CONNECTING => REGISTRY_REMOVE_ON_CONNECTING
             | CONNECTED => REGISTRY_REMOVE_ON_CONNECTED | CLOSING => REGISTRY_REMOVE_ON_CLOSING | CLOSED => REGISTRY_REMOVE_ON_CLOSED end.
Definition is_server (k : kind) : bool := match k with Server => true | _ => false end.
Definition cst_eqb (a b : cst) : bool := Nat.eqb (rank a) (rank b).

(* may state b be reported right after state a? *)
Definition ok_next (k : kind) (a b : cst) : bool :=
  Nat.ltb (rank a) (rank b) || (is_server k && cst_eqb a CLOSED && cst_eqb b CONNECTING).

(* Connection.set_state + Network.on_state_changed *)
Definition report (s : cst) (c : conn) : conn :=
  mk (kd c) (ty c) s (s :: rep c)
     (if removes s then false else in_reg c)
     (reader c) (pc c) (writer c) (at_ c) (res c) (closers c) (detached c) (delivered c) (sent c)
     (seen_closed c || cst_eqb s CLOSED)
     (viol c || negb (ok_next (kd c) (st c) s))
     (twice c || (negb (is_server (kd c)) && seen_closed c))
     (bad_deliv c) (bad_sent c).

Definition set_reader r c := mk (kd c) (ty c) (st c) (rep c) (in_reg c) r (pc c) (writer c) (at_ c) (res c) (closers c) (detached c)
  (delivered c) (sent c) (seen_closed c) (viol c) (twice c) (bad_deliv c) (bad_sent c).
Definition set_pc p c := mk (kd c) (ty c) (st c) (rep c) (in_reg c) (reader c) p (writer c) (at_ c) (res c) (closers c) (detached c)
  (delivered c) (sent c) (seen_closed c) (viol c) (twice c) (bad_deliv c) (bad_sent c).
Definition set_writer w c := mk (kd c) (ty c) (st c) (rep c) (in_reg c) (reader c) (pc c) w (at_ c) (res c) (closers c) (detached c)
  (delivered c) (sent c) (seen_closed c) (viol c) (twice c) (bad_deliv c) (bad_sent c).
Definition set_att a c := mk (kd c) (ty c) (st c) (rep c) (in_reg c) (reader c) (pc c) (writer c) a (res c) (closers c) (detached c)
  (delivered c) (sent c) (seen_closed c) (viol c) (twice c) (bad_deliv c) (bad_sent c).
Definition set_res r c := mk (kd c) (ty c) (st c) (rep c) (in_reg c) (reader c) (pc c) (writer c) (at_ c) r (closers c) (detached c)
  (delivered c) (sent c) (seen_closed c) (viol c) (twice c) (bad_deliv c) (bad_sent c).
Definition set_closers n c := mk (kd c) (ty c) (st c) (rep c) (in_reg c) (reader c) (pc c) (writer c) (at_ c) (res c) n (detached c)
  (delivered c) (sent c) (seen_closed c) (viol c) (twice c) (bad_deliv c) (bad_sent c).
Definition set_detached n c := mk (kd c) (ty c) (st c) (rep c) (in_reg c) (reader c) (pc c) (writer c) (at_ c) (res c) (closers c) n
  (delivered c) (sent c) (seen_closed c) (viol c) (twice c) (bad_deliv c) (bad_sent c).
Definition set_reg b c := mk (kd c) (ty c) (st c) (rep c) b (reader c) (pc c) (writer c) (at_ c) (res c) (closers c) (detached c)
  (delivered c) (sent c) (seen_closed c) (viol c) (twice c) (bad_deliv c) (bad_sent c).
Definition set_ty t c := mk (kd c) t (st c) (rep c) (in_reg c) (reader c) (pc c) (writer c) (at_ c) (res c) (closers c) (detached c)
  (delivered c) (sent c) (seen_closed c) (viol c) (twice c) (bad_deliv c) (bad_sent c).
Definition bump_delivered c := mk (kd c) (ty c) (st c) (rep c) (in_reg c) (reader c) (pc c) (writer c) (at_ c) (res c) (closers c) (detached c)
  (S (delivered c)) (sent c) (seen_closed c) (viol c) (twice c)
  (if negb (is_server (kd c)) && seen_closed c then S (bad_deliv c) else bad_deliv c)
  (bad_sent c).
Definition bump_sent c := mk (kd c) (ty c) (st c) (rep c) (in_reg c) (reader c) (pc c) (writer c) (at_ c) (res c) (closers c) (detached c)
  (delivered c) (S (sent c)) (seen_closed c) (viol c) (twice c) (bad_deliv c)
  (if negb (is_server (kd c)) && seen_closed c then S (bad_sent c) else bad_sent c)
 .
(* the CLOSED half of disconnect(): set_state(CLOSED); _reader_task = _reader = _writer = None.
   A reader task that is still alive ends at its next loop test (the closed transport fed EOF). *)
Definition finish_close (c : conn) : conn :=
  let c := report CLOSED c in
  let c := set_writer WNone c in
  set_reader (match reader c with RRunning | RBlocked => RDone | r => r end) c.

(* DataConnection.disconnect up to its first suspension.  Result: the new state and whether the
   caller is now suspended in wait_closed (true) or disconnect() has returned (false). *)
Definition do_disconnect (c : conn) : conn * bool :=
  if guarded (st c) then (c, false)
  else
    let c := report CLOSING c in
    match writer c with
    | WNone => (finish_close c, false)
    | _ =>
        (* writer.close(): the transport feeds EOF to a reader task suspended in a read; it wakes,
           finds the connection closing (its own disconnect(EOF) returns at the guard) and ends *)
        let c := set_reader (match reader c with RRunning => RDone | r => r end) c in
        (set_closers (S (closers c)) (set_writer WClosing c), true)
    end.

(* Network._finalize_peer_connection: F connections negotiate (no reader task), others get the
   reader task; a reader task started on a closing connection ends at once. *)
Definition finalize (c : conn) : conn :=
  match ty c with
  | TF => set_pc Negotiating c
  | _ => set_reader (if closing (st c) then RDone else RRunning) (set_pc Established c)
  end.

Definition step0 (c : conn) (e : event) : conn :=
  match e with
  | Create =>
      match kd c, at_ c, st c, rep c, in_reg c with
      | Outgoing, ANone, UNINIT, [], false => set_att ACreated (set_reg true c)
      | _, _, _, _, _ => c
      end
  | ConnectStart =>
      match kd c, at_ c with
      | Outgoing, ACreated => set_att AConnecting (report CONNECTING c)
      | Server, ANone =>
          if (cst_eqb (st c) UNINIT || cst_eqb (st c) CLOSED) && Nat.eqb (closers c) 0
          then set_res ResNone (set_att AConnecting (report CONNECTING c)) else c
      | _, _ => c
      end
  | ConnectOk =>
      match at_ c with
      | AConnecting =>
          match (if CONNECT_RECHECKS_STATE then st c else CONNECTING) with
          | CONNECTING =>
              let c := report CONNECTED (set_writer WOpen c) in
              match kd c with
              | Server => set_res ResOk (set_att ANone c)
              | _ => set_att ASending (bump_sent c)   (* send_message(PeerInit / PeerPierceFirewall): written, drain pending *)
              end
          | _ =>
              (* (repair C10-N1) the connection was disconnected while connecting: connect() closes the fresh
                 socket and raises ConnectionFailedError; nothing is reported *)
              set_res ResFail (set_att ANone c)
          end
      | _ => c
      end
  | ConnectFailOther =>
      match at_ c with
      | AConnecting =>
          if CONNECT_FAILURE_CATCHES_ALL then
            let '(c, blocked) := do_disconnect c in
            if blocked then set_att (AOwnClose ThenRaise) c else set_res ResFail (set_att ANone c)
          else set_res ResFail (set_att ANone c)     (* the exception leaves connect() and the attempt: nothing is closed *)
      | _ => c
      end
  | ConnectFail | ConnectTimeout =>
      match at_ c with
      | AConnecting =>
          let '(c, blocked) := do_disconnect c in
          if blocked then set_att (AOwnClose ThenRaise) c else set_res ResFail (set_att ANone c)
      | _ => c
      end
  | Cancel =>
      match at_ c with
      | AConnecting =>
          (* (repairs F15, F15b) connect() / the attempt coroutine catch CancelledError, run disconnect(), re-raise;
             the server connection has only connect()'s handler *)
          if CONNECT_CLOSES_ON_CANCEL || (ATTEMPT_CLOSES_ON_CANCEL && negb (is_server (kd c))) then
            let '(c, blocked) := do_disconnect c in
            if blocked then set_att (AOwnClose ThenCancel) c else set_res ResCancelled (set_att ANone c)
          else set_res ResCancelled (set_att ANone c)
      | ASending =>
          if ATTEMPT_CLOSES_ON_CANCEL then
            let '(c, blocked) := do_disconnect c in
            if blocked then set_att (AOwnClose ThenCancel) c else set_res ResCancelled (set_att ANone c)
          else set_res ResCancelled (set_att ANone c)
      | AWaitDet _ | AWaitClose _ =>
          (* cancelled while awaiting the shielded detached disconnect: that task goes on; the coroutine's own
             except-CancelledError handler calls disconnect() (a no-op once CLOSING was reported) and re-raises *)
          let '(c, blocked) := do_disconnect c in
          if blocked then set_att (AOwnClose ThenCancel) c else set_res ResCancelled (set_att ANone c)
      | AOwnClose ThenRaise | AOwnClose ThenCancel =>
          (* CancelledError out of wait_closed: the finally clause still runs set_state(CLOSED) *)
          if DISCONNECT_CLOSED_IN_FINALLY
          then set_res ResCancelled (set_att ANone (set_closers (pred (closers c)) (finish_close c)))
          else set_res ResCancelled (set_att ANone (set_closers (pred (closers c)) c))   (* stays CLOSING for ever *)
      | _ => c
      end
  | SendInit m =>
      match at_ c with
      | ASending =>
          match m with
          | SOk => set_res ResOk (set_att ANone (finalize c))
          | _ =>
              (* _send: await shield(ensure_future(disconnect(reason))) -- or disconnect() in the failing segment itself *)
              if SEND_FAILURE_DISCONNECT_DETACHED then set_att (AWaitDet ThenRaise) (set_detached (S (detached c)) c)
              else let '(c, blocked) := do_disconnect c in
                   if blocked then set_att (AOwnClose ThenRaise) c else set_res ResFail (set_att ANone c)
          end
      | _ => c
      end
  | StartReader =>
      match kd c, reader c with
      | Server, RRunning => c
      | Server, _ => match st c with CONNECTED => set_reader RRunning c | _ => c end
      | _, _ => c
      end
  | Accept =>
      match kd c, at_ c, st c, rep c, in_reg c with
      | Incoming, ANone, UNINIT, [], false =>
          (* (repair F14) accept() reports CONNECTED first, then on_peer_accepted registers and reads the init message *)
          if ACCEPT_CONNECTED_BEFORE_HANDLER
          then set_att AAwaitInit (set_reg true (report CONNECTED (set_writer WOpen c)))
          else set_att AAwaitInit (set_reg true (set_writer WOpen c))
      | _, _, _, _, _ => c
      end
  | InitRead r =>
      match at_ c with
      | AAwaitInit =>
          match r with
          | IPeerInit t => set_att ARet (finalize (set_ty t c))
          | IPierceKnown => set_att ARet (finalize c)
          | _ =>
              let '(c, blocked) := do_disconnect c in
              set_att (if blocked then AOwnClose ThenRet else ARet) c
          end
      | _ => c
      end
  | AcceptReturns =>
      match at_ c with
      | ARet =>
          if ACCEPT_CONNECTED_BEFORE_HANDLER then set_res ResOk (set_att ANone c)
          else set_res ResOk (set_att ANone (report CONNECTED c))     (* unconditional set_state(CONNECTED) after the handler *)
      | _ => c
      end
  | Disconnect _ =>
      fst (do_disconnect c)
  | CloseDone =>
      match closers c with
      | O => c
      | S n =>
          let c := set_closers n (finish_close c) in
          match at_ c with
          | AOwnClose ThenRaise | AWaitClose ThenRaise => set_res ResFail (set_att ANone c)
          | AOwnClose ThenCancel | AWaitClose ThenCancel => set_res ResCancelled (set_att ANone c)
          | AOwnClose ThenRet | AWaitClose ThenRet => set_att ARet c
          | _ => c
          end
      end
  | ReaderGets x =>
      match reader c with
      | RRunning =>
          match x with
          | XMsg => if closing (st c) && READER_RECHECKS_CLOSING then set_reader RDone c else bump_delivered c
          | XUndecodable => if closing (st c) then set_reader RDone c else c
          | _ =>
              let '(c, blocked) := do_disconnect c in
              set_reader (if blocked then RBlocked else RDone) c
          end
      | _ => c
      end
  | DetachedRun =>
      match detached c with
      | O => c
      | S n =>
          let '(c, blocked) := do_disconnect (set_detached n c) in
          match at_ c with
          | AWaitDet a =>
              if blocked then set_att (AWaitClose a) c
              else match a with
                   | ThenRet => set_att ARet c
                   | ThenCancel => set_res ResCancelled (set_att ANone c)
                   | ThenRaise => set_res ResFail (set_att ANone c)       (* the disconnect returned at once: the sender raises *)
                   end
          | _ => c
          end
      end
  | Send m | QSend m =>
      (* send_message directly or (QSend) in a task created by queue_message.  A write/drain error or timeout makes
         _send spawn the detached disconnect task and await it shielded: the failing segment itself reports nothing;
         a queued sender cancelled by that disconnect's _cancel_queued_messages does not stop it *)
      if closing (st c) && SEND_SKIPS_WHEN_CLOSING then c     (* send_message returns silently *)
      else match writer c with
      | WNone => c                                (* ConnectionWriteError "connection is not open", nothing else *)
      | w =>
          let c := match w with WOpen => bump_sent c | _ => c end in
          match m, w with
          | SOk, WOpen => c
          | _, _ => if SEND_FAILURE_DISCONNECT_DETACHED then set_detached (S (detached c)) c
                    else fst (do_disconnect c)      (* disconnect() called in the failing segment itself *)
          end
      end
  end.

(* Creation, registration and the entry into connect() (set_state(CONNECTING)) are one atomic
   segment of the attempt coroutine: nothing can interleave between Create and ConnectStart. *)
Definition created_guard (c : conn) (e : event) : bool :=
  match at_ c, e with
  | ACreated, ConnectStart => false
  | ACreated, _ => true
  | _, _ => false
  end.

Definition step (c : conn) (e : event) : conn := if created_guard c e then c else step0 c e.

Definition run (c : conn) (es : list event) : conn := fold_left step es c.

(* chronological stream of reported states *)
Definition reported (c : conn) : list cst := rev (rep c).

(* ---------------- the property text, as predicates ---------------- *)

(* strictly forward; only the server connection may go CLOSED -> CONNECTING *)
Fixpoint chain (k : kind) (l : list cst) : Prop :=
  match l with
  | a :: ((b :: _) as t) => ok_next k a b = true /\ chain k t
  | _ => True
  end.

(* CLOSED at most once and nothing after it *)
Fixpoint closed_last (l : list cst) : Prop :=
  match l with
  | [] => True
  | a :: t => (a = CLOSED -> t = []) /\ closed_last t
  end.

(* no segment is runnable or waiting for a close in progress: every coroutine of the connection
   is finished or waits for the network (connect outcome, init message, drain, next message) *)
Definition quiescent (c : conn) : bool :=
  Nat.eqb (closers c) 0 && Nat.eqb (detached c) 0 &&
  match at_ c with ANone | AConnecting | ASending | AAwaitInit => true | _ => false end.

(* "open, or being opened by a still-running attempt" *)
Definition should_be_registered (c : conn) : bool :=
  negb (is_server (kd c)) &&
  (match writer c with WOpen => true | _ => false end ||
   match at_ c, st c with AConnecting, CONNECTING => true | _, _ => false end).

(* ---------------- actions of the correspondence harness ---------------- *)
(* One harness action = the stimulus event followed by the segments that the event loop runs
   without further stimulus.  [wch]: the transport's wait_closed() hangs (CloseDone then needs the
   DISCONNECT_TIMEOUT timer = explicit action).  All of it is a particular event list, so the
   theorems over all event lists cover every action sequence. *)
Definition implied (wch : bool) (c : conn) : list event :=
  (* a closed transport feeds EOF to a pending init read *)
  (match at_ c, writer c with AAwaitInit, WOpen => [] | AAwaitInit, _ => [InitRead IEof] | _, _ => [] end)
  ++ [AcceptReturns] ++ (if wch then [] else [CloseDone; CloseDone; AcceptReturns]).

Definition settle (wch : bool) (c : conn) : conn :=
  let c1 := run c [DetachedRun; DetachedRun] in run c1 (implied wch c1).

(* a harness action = stimuli, each followed by the implied segments *)
Definition act (wch : bool) (c : conn) (evs : list event) : conn :=
  fold_left (fun c e => settle wch (step c e)) evs c.

(* per action: (state, in registry, number of reports, deliveries) *)
Definition snap (c : conn) : cst * bool * nat * nat := (st c, in_reg c, length (rep c), delivered c).

Fixpoint run_actions (wch : bool) (c : conn) (l : list (list event)) : conn * list (cst * bool * nat * nat) :=
  match l with
  | [] => (c, [])
  | a :: r => let c1 := act wch c a in let '(c2, s) := run_actions wch c1 r in (c2, snap c1 :: s)
  end.
