(* C10 proofs, part 3: the property lemmas. *)
From Slsk Require Import Base.Tac.
From SlskGen Require Import C10LifeGen.
From Slsk Require Import C10.Model C10.Prj C10.ListInv C10.Inv.

Lemma inv2_init k t : inv2 (init k t) = true.
Proof. destruct k; reflexivity. Qed.

Lemma inv2_run k t es : inv2 (run (init k t) es) = true.
Proof. apply run_ind; [apply inv2_init|intros; now apply inv2_step]. Qed.

Lemma inv3_run k t es : inv3 (run (init k t) es) = true.
Proof. apply run_ind; [destruct k; reflexivity|intros; now apply inv3_step]. Qed.

(* ------------------------------------------------------------------ 3. property lemmas *)
Lemma run_facts k t es :
  let c := run (init k t) es in
  viol c = false /\
  (kd c <> Server -> twice c = false /\ bad_deliv c = 0 /\ bad_sent c = 0 /\ (seen_closed c = true -> st c = CLOSED)).
Proof.
  intros c. pose proof (inv2_run k t es) as H. fold c in H. unfold inv2 in H.
  repeat match goal with X : _ && _ = true |- _ => apply andb_true_iff in X; destruct X end.
  split; [now apply negb_true_iff|].
  intros Hk. destruct (kd c); try congruence; cbn in *;
    repeat match goal with X : _ && _ = true |- _ => apply andb_true_iff in X; destruct X end;
    (repeat split; try (now apply negb_true_iff); try (now apply Nat.eqb_eq));
    intros Hs; match goal with X : negb (seen_closed c) || _ = true |- _ => rewrite Hs in X; cbn in X; now apply cst_eqb_eq in X end.
Qed.

Lemma kd_dd c : kd (fst (do_disconnect c)) = kd c.
Proof. destruct (dd_cases c) as [(? & E)|[(? & ? & E)|(? & ? & E)]]; rewrite E; cbn [fst]; norm; reflexivity. Qed.

Lemma kd_step c e : kd (step c e) = kd c.
Proof.
  unfold step. destruct (created_guard c e); [reflexivity|].
  destruct e; cbn [step0]; repeat destr; norm; rewrite ?kd_dd; try reflexivity;
    repeat match goal with
    | E : do_disconnect ?x = (?y, _) |- _ =>
        let H := fresh in pose proof (kd_dd x) as H; rewrite E in H; cbn [fst] in H; clear E
    end; norm; try congruence; repeat destr; norm; congruence.
Qed.

Lemma kd_run k t es : kd (run (init k t) es) = k.
Proof. apply (run_ind (fun c => kd c = k)); [reflexivity|intros; now rewrite kd_step]. Qed.

Lemma monotone k t es : chain k (reported (run (init k t) es)).
Proof.
  destruct (run_facts k t es) as [Hv _].
  pose proof (LI_run k t es) as (_ & _ & H3 & _).
  unfold reported. apply chain_rev_chain. rewrite (kd_run k t es) in H3. now apply H3.
Qed.

Lemma closed_once_last k t es : k <> Server -> closed_last (reported (run (init k t) es)).
Proof.
  intros Hk. destruct (run_facts k t es) as [_ Ht].
  pose proof (kd_run k t es) as Ek. rewrite Ek in Ht. destruct (Ht Hk) as (Ht' & _).
  pose proof (LI_run k t es) as (_ & _ & _ & H4). rewrite Ek in H4.
  unfold reported. apply closed_head_closed_last. now apply H4.
Qed.

(* after CLOSED was reported for a peer connection its state is CLOSED for good *)
Lemma closed_is_final k t es : k <> Server ->
  let c := run (init k t) es in In CLOSED (reported c) -> st c = CLOSED.
Proof.
  intros Hk c Hin. destruct (run_facts k t es) as [_ Ht].
  pose proof (kd_run k t es) as Ek. rewrite Ek in Ht. destruct (Ht Hk) as (_ & _ & _ & Hs).
  apply Hs. pose proof (LI_run k t es) as (_ & H2 & _). apply H2. unfold reported in Hin. now apply in_rev.
Qed.

Lemma ghosts_zero k t es : k <> Server ->
  let c := run (init k t) es in bad_deliv c = 0 /\ bad_sent c = 0.
Proof.
  intros Hk c. destruct (run_facts k t es) as [_ Ht].
  pose proof (kd_run k t es) as Ek. rewrite Ek in Ht. now destruct (Ht Hk) as (_ & ? & ? & _).
Qed.

Lemma registry_exact k t es :
  let c := run (init k t) es in
  quiescent c = true -> in_reg c = should_be_registered c.
Proof.
  intros c Hq. pose proof (inv3_run k t es) as H. fold c in H.
  unfold inv3, quiescent, should_be_registered in *.
  destruct (kd c), (at_ c), (writer c), (in_reg c), (closers c), (detached c), (st c); cbn in *; congruence.
Qed.

(* a state that counts as closing is covered by the guard of disconnect() (both sets are generated) *)
Lemma closing_guarded s : closing s = true -> guarded s = true.
Proof. destruct s; unfold closing, guarded; unflags; intros H; try discriminate; reflexivity. Qed.

(* one-step facts, for EVERY state c (reachable or not) *)
Lemma send_closing_noop c m : closing (st c) = true -> step c (Send m) = c.
Proof. intros H. unfold step. destruct (created_guard c (Send m)); [reflexivity|]. cbn [step0]. rewrite H. unflags. reflexivity. Qed.

Lemma disconnect_idempotent c r : closing (st c) = true ->
  rep (step c (Disconnect r)) = rep c /\ st (step c (Disconnect r)) = st c /\ in_reg (step c (Disconnect r)) = in_reg c.
Proof.
  intros H. unfold step. destruct (created_guard c (Disconnect r)); [tauto|]. cbn [step0].
  unfold do_disconnect. rewrite (closing_guarded _ H). norm; tauto.
Qed.

Lemma no_delivery_while_closing c x : closing (st c) = true -> delivered (step c (ReaderGets x)) = delivered c.
Proof.
  intros H. unfold step. destruct (created_guard c (ReaderGets x)); [reflexivity|]. cbn [step0].
  destruct (reader c); try reflexivity. unfold do_disconnect. rewrite H, (closing_guarded _ H). unflags. destruct x; norm; reflexivity.
Qed.

Lemma closed_unregisters c : in_reg (finish_close c) = false /\ st (finish_close c) = CLOSED /\ writer (finish_close c) = WNone.
Proof. unfold finish_close. norm. cbn. tauto. Qed.

Lemma closing_then_closed c : guarded (st c) = false ->
  let c' := fst (do_disconnect c) in
  (writer c = WNone -> firstn 2 (rep c') = [CLOSED; CLOSING] /\ in_reg c' = false) /\
  (writer c <> WNone -> firstn 1 (rep c') = [CLOSING] /\ closers c' = S (closers c) /\ in_reg c' = in_reg c).
Proof.
  intros H c'. subst c'. destruct (dd_cases c) as [(? & E)|[(? & ? & E)|(? & ? & E)]]; [congruence| |];
    rewrite E; cbn [fst]; norm; cbn; split; intros; try congruence; tauto.
Qed.

