(* C10 proofs, part 3: the property lemmas. *)
From Slsk Require Import Base.Tac.
From Slsk Require Import C10.Model C10.Prj C10.ListInv C10.Inv.

Lemma inv2_init k t : inv2 (init k t) = true.
Proof. destruct k; reflexivity. Qed.

Lemma inv2_run k t es : inv2 (run (init k t) es) = true.
Proof. apply run_ind; [apply inv2_init|intros; now apply inv2_step]. Qed.

(* ------------------------------------------------------------------ 3. property lemmas *)
Lemma nolate_facts k t es :
  let c := run (init k t) es in
  late_accept c = false -> late_connect c = false ->
  viol c = false /\ (kd c <> Server -> twice c = false /\ bad_deliv c = 0 /\ bad_sent c = 0).
Proof.
  intros c Ha Hc. pose proof (inv2_run k t es) as H. fold c in H.
  unfold inv2, nolateb in H. rewrite Ha, Hc in H. cbn in H.
  repeat (apply andb_true_iff in H; destruct H as [H ?]).
  repeat match goal with X : _ && _ = true |- _ => apply andb_true_iff in X; destruct X end.
  split; [now apply negb_true_iff|].
  intros Hk. destruct (kd c); try congruence; cbn in *;
    repeat match goal with X : _ && _ = true |- _ => apply andb_true_iff in X; destruct X end;
    repeat split; try (now apply negb_true_iff); now apply Nat.eqb_eq.
Qed.

Lemma kd_dd c : kd (fst (do_disconnect c)) = kd c.
Proof. destruct (dd_cases c) as [(? & E)|[(? & ? & E)|(? & ? & E)]]; rewrite E; cbn [fst]; norm; reflexivity. Qed.

Lemma kd_step c e : kd (step c e) = kd c.
Proof.
  unfold step. destruct (created_guard c e); [reflexivity|].
  destruct e; cbn [step0]; repeat destr; norm; rewrite ?kd_dd; try reflexivity;
    repeat match goal with
    | E : do_disconnect ?x = (?y, _) |- _ =>
        let H := fresh in pose proof (kd_dd x) as H; rewrite E in H; cbn [fst] in H; clear E
    end; norm; try congruence; repeat destr; norm; congruence.
Qed.

Lemma kd_run k t es : kd (run (init k t) es) = k.
Proof. apply (run_ind (fun c => kd c = k)); [reflexivity|intros; now rewrite kd_step]. Qed.

Lemma monotone_partial k t es :
  let c := run (init k t) es in
  late_accept c = false -> late_connect c = false -> chain k (reported c).
Proof.
  intros c Ha Hc. destruct (nolate_facts k t es Ha Hc) as [Hv _]. fold c in Hv.
  pose proof (LI_run k t es) as (_ & _ & H3 & _). fold c in H3.
  unfold reported. apply chain_rev_chain. rewrite <- (kd_run k t es). now apply H3.
Qed.

Lemma closed_once_last_partial k t es :
  let c := run (init k t) es in
  k <> Server -> late_accept c = false -> late_connect c = false -> closed_last (reported c).
Proof.
  intros c Hk Ha Hc. destruct (nolate_facts k t es Ha Hc) as [_ Ht]. fold c in Ht.
  pose proof (kd_run k t es) as Ek. fold c in Ek. rewrite Ek in Ht. destruct (Ht Hk) as (Ht' & _).
  pose proof (LI_run k t es) as (_ & _ & _ & H4). fold c in H4. rewrite Ek in H4.
  unfold reported. apply closed_head_closed_last. now apply H4.
Qed.

Lemma ghosts_partial k t es :
  let c := run (init k t) es in
  k <> Server -> late_accept c = false -> late_connect c = false -> bad_deliv c = 0 /\ bad_sent c = 0.
Proof.
  intros c Hk Ha Hc. destruct (nolate_facts k t es Ha Hc) as [_ Ht]. fold c in Ht.
  pose proof (kd_run k t es) as Ek. fold c in Ek. rewrite Ek in Ht. now destruct (Ht Hk) as (_ & ? & ?).
Qed.

(* one-step facts, for EVERY state c (reachable or not) *)
Lemma send_closing_noop c m : closing (st c) = true -> step c (Send m) = c.
Proof. intros H. unfold step. destruct (created_guard c (Send m)); [reflexivity|]. cbn [step0]. now rewrite H. Qed.

Lemma disconnect_idempotent c r : closing (st c) = true ->
  rep (step c (Disconnect r)) = rep c /\ st (step c (Disconnect r)) = st c /\ in_reg (step c (Disconnect r)) = in_reg c.
Proof.
  intros H. unfold step. destruct (created_guard c (Disconnect r)); [tauto|]. cbn [step0].
  unfold do_disconnect. rewrite H. destruct (at_ c); norm; tauto.
Qed.

Lemma no_delivery_while_closing c x : closing (st c) = true -> delivered (step c (ReaderGets x)) = delivered c.
Proof.
  intros H. unfold step. destruct (created_guard c (ReaderGets x)); [reflexivity|]. cbn [step0].
  destruct (reader c); try reflexivity. unfold do_disconnect. rewrite H. destruct x; norm; reflexivity.
Qed.

Lemma closed_unregisters c : in_reg (finish_close c) = false /\ st (finish_close c) = CLOSED /\ writer (finish_close c) = WNone.
Proof. unfold finish_close. norm. cbn. tauto. Qed.

Lemma closing_then_closed c : closing (st c) = false ->
  let c' := fst (do_disconnect c) in
  (writer c = WNone -> firstn 2 (rep c') = [CLOSED; CLOSING] /\ in_reg c' = false) /\
  (writer c <> WNone -> firstn 1 (rep c') = [CLOSING] /\ closers c' = S (closers c) /\ in_reg c' = in_reg c).
Proof.
  intros H c'. subst c'. destruct (dd_cases c) as [(? & E)|[(? & ? & E)|(? & ? & E)]]; [congruence| |];
    rewrite E; cbn [fst]; norm; cbn; split; intros; try congruence; tauto.
Qed.

(* witnesses *)
Definition wit_F14 : list event := [Accept; InitRead IEof; CloseDone; AcceptReturns].
Definition wit_F15 : list event := [Create; ConnectStart; Cancel].
Definition wit_N1 : list event := [Create; ConnectStart; Disconnect RRequested; ConnectOk; SendInit SOk; ReaderGets XMsg; Send SOk].

Lemma monotone_refuted : exists k t es, ~ chain k (reported (run (init k t) es)).
Proof. exists Incoming, TP, wit_F14. vm_compute. intros (_ & H & _). discriminate. Qed.

Lemma closed_once_last_refuted : exists k t es, k <> Server /\ ~ closed_last (reported (run (init k t) es)).
Proof. exists Incoming, TP, wit_F14. split; [discriminate|]. vm_compute. intros (_ & H & _). specialize (H eq_refl). discriminate. Qed.

Lemma no_delivery_after_closed_refuted : exists k t es c x,
  k <> Server /\ c = run (init k t) es /\ In CLOSED (reported c) /\ delivered (step c (ReaderGets x)) = S (delivered c).
Proof.
  exists Outgoing, TP, (firstn 5 wit_N1), (run (init Outgoing TP) (firstn 5 wit_N1)), XMsg.
  split; [discriminate|]. split; [reflexivity|]. vm_compute. split; [tauto|reflexivity].
Qed.

Lemma send_after_closed_refuted : exists k t es c,
  k <> Server /\ c = run (init k t) es /\ In CLOSED (reported c) /\ sent (step c (Send SOk)) = S (sent c).
Proof.
  exists Outgoing, TP, (firstn 6 wit_N1), (run (init Outgoing TP) (firstn 6 wit_N1)).
  split; [discriminate|]. split; [reflexivity|]. vm_compute. split; [tauto|reflexivity].
Qed.

Lemma registry_exact_refuted : exists k t es,
  let c := run (init k t) es in quiescent c = true /\ in_reg c <> should_be_registered c.
Proof. exists Outgoing, TP, wit_F15. vm_compute. split; [reflexivity|discriminate]. Qed.

Lemma registry_exact_refuted_N1 : exists k t es,
  let c := run (init k t) es in quiescent c = true /\ in_reg c = false /\ should_be_registered c = true.
Proof. exists Outgoing, TP, wit_N1. vm_compute. repeat split. Qed.

