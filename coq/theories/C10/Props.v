(* C10 property theorems, phase 2: the FULL statements about the repaired code (repairs F14, F15, F15b, C10-N1).
   Statements only; proofs in ListInv.v / Inv.v / Proofs.v.  The state order, the closing set, the guard of disconnect(),
   the unregistering state and the presence of the life-cycle constructs are GENERATED from connection.py / network.py
   (SlskGen.C10LifeGen, translate/tr_c10life.py): the theorems are re-proved against what the source says on every run.
   [run (init k t) es] is the connection machine of Model.v after the event list es; [reported] is the
   chronological ConnectionStateChangedEvent stream.  Every theorem quantifies over EVERY event list. *)
From Slsk Require Import Base.Tac.
From SlskGen Require Import C10LifeGen.
From Slsk Require Import C10.Model C10.Proofs.

(* reported states only move forward; only the server connection may go CLOSED -> CONNECTING *)
Theorem C10_monotone : forall k t es, chain k (reported (run (init k t) es)).
Proof. exact monotone. Qed.

(* CLOSED is reported at most once for a peer connection and nothing is reported after it *)
Theorem C10_closed_once_last : forall k t es, k <> Server -> closed_last (reported (run (init k t) es)).
Proof. exact closed_once_last. Qed.

Theorem C10_closed_is_final : forall k t es, k <> Server ->
  let c := run (init k t) es in In CLOSED (reported c) -> st c = CLOSED.
Proof. exact closed_is_final. Qed.

(* after CLOSED was reported a read delivers nothing ... *)
Theorem C10_no_delivery_after_closed : forall k t es x, k <> Server ->
  let c := run (init k t) es in In CLOSED (reported c) -> delivered (step c (ReaderGets x)) = delivered c.
Proof.
  intros k t es x Hk c Hin. apply no_delivery_while_closing.
  pose proof (closed_is_final k t es Hk Hin) as E. fold c in E. now rewrite E.
Qed.

(* ... and a send is a no-op *)
Theorem C10_send_after_closed_noop : forall k t es m, k <> Server ->
  let c := run (init k t) es in In CLOSED (reported c) -> step c (Send m) = c.
Proof.
  intros k t es m Hk c Hin. apply send_closing_noop.
  pose proof (closed_is_final k t es Hk Hin) as E. fold c in E. now rewrite E.
Qed.

(* the same for every kind of step (also the init message written by the attempt coroutine): the counters of
   deliveries / transport writes made after CLOSED (Model.bump_delivered / bump_sent) stay 0 *)
Theorem C10_nothing_after_closed : forall k t es, k <> Server ->
  let c := run (init k t) es in bad_deliv c = 0 /\ bad_sent c = 0.
Proof. exact ghosts_zero. Qed.

(* in every state whatsoever: while the state is CLOSING/CLOSED a send is a no-op, a read delivers nothing,
   a further disconnect() reports nothing *)
Theorem C10_closing_state_inert : forall c,
  closing (st c) = true ->
  (forall m, step c (Send m) = c) /\
  (forall x, delivered (step c (ReaderGets x)) = delivered c) /\
  (forall r, rep (step c (Disconnect r)) = rep c /\ st (step c (Disconnect r)) = st c /\ in_reg (step c (Disconnect r)) = in_reg c).
Proof.
  intros c H. split; [|split]; intros.
  - now apply send_closing_noop.
  - now apply no_delivery_while_closing.
  - now apply disconnect_idempotent.
Qed.

(* the registry is exact at every quiescent moment: a peer connection is in Network.peer_connections iff it is
   open or is being opened by an attempt that is still in open_connection; the server connection never is *)
Theorem C10_registry_exact : forall k t es,
  let c := run (init k t) es in
  quiescent c = true -> in_reg c = should_be_registered c.
Proof. exact registry_exact. Qed.

Theorem C10_close_unregisters : forall c,
  (in_reg (finish_close c) = false /\ st (finish_close c) = CLOSED /\ writer (finish_close c) = WNone) /\
  (guarded (st c) = false ->
   let c' := fst (do_disconnect c) in
   (writer c = WNone -> firstn 2 (rep c') = [CLOSED; CLOSING] /\ in_reg c' = false) /\
   (writer c <> WNone -> firstn 1 (rep c') = [CLOSING] /\ closers c' = S (closers c) /\ in_reg c' = in_reg c)).
Proof. intros c. split; [apply closed_unregisters|apply closing_then_closed]. Qed.

(* non-vacuity: life cycles incl. the formerly defective histories (F14: EOF before the init message; F15: cancelled
   connect; C10-N1: disconnect during connect, then the socket opens), and a server reconnect *)
Example C10_nonvacuous :
  let o := run (init Outgoing TP) [Create; ConnectStart; ConnectOk; SendInit SOk; ReaderGets XMsg; ReaderGets XEof; CloseDone] in
  let i := run (init Incoming TP) [Accept; InitRead (IPeerInit TD); AcceptReturns; ReaderGets XMsg; Disconnect RRequested; CloseDone] in
  let s := run (init Server TP) [ConnectStart; ConnectOk; StartReader; ReaderGets XEof; CloseDone; ConnectStart; ConnectOk] in
  let f14 := run (init Incoming TP) [Accept; InitRead IEof; CloseDone; AcceptReturns] in
  let f15 := run (init Outgoing TP) [Create; ConnectStart; Cancel] in
  let n1 := run (init Outgoing TP) [Create; ConnectStart; Disconnect RRequested; ConnectOk; SendInit SOk; ReaderGets XMsg; Send SOk] in
  let wf := run (init Outgoing TP) [Create; ConnectStart; ConnectOk; SendInit SOk; QSend SFail; DetachedRun; CloseDone] in
  (reported o = [CONNECTING; CONNECTED; CLOSING; CLOSED] /\ delivered o = 1 /\ quiescent o = true /\ in_reg o = false) /\
  (reported i = [CONNECTED; CLOSING; CLOSED] /\ delivered i = 1 /\ quiescent i = true) /\
  (reported s = [CONNECTING; CONNECTED; CLOSING; CLOSED; CONNECTING; CONNECTED]) /\
  (reported f14 = [CONNECTED; CLOSING; CLOSED] /\ quiescent f14 = true /\ in_reg f14 = false) /\
  (reported f15 = [CONNECTING; CLOSING; CLOSED] /\ quiescent f15 = true /\ in_reg f15 = false /\ res f15 = ResCancelled) /\
  (reported n1 = [CONNECTING; CLOSING; CLOSED] /\ delivered n1 = 0 /\ sent n1 = 0 /\ writer n1 = WNone /\ res n1 = ResFail) /\
  (* a failed (queued) write: _send closes the connection from a detached, shielded task *)
  (reported wf = [CONNECTING; CONNECTED; CLOSING; CLOSED] /\ quiescent wf = true /\ in_reg wf = false).
Proof. vm_compute. repeat split. Qed.
