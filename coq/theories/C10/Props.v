(* C10 property theorems (statements only; proofs in ListInv.v / Inv.v / Inv3.v / Proofs.v).
   [run (init k t) es] is the connection machine of Model.v after the event list es; [reported] is the
   chronological ConnectionStateChangedEvent stream.  Theorems quantify over EVERY event list.

   The statements of the property text are FALSE of the faithful model of today's code (findings F14,
   F15, C10-N1): *_refuted.  What holds is proved as *_partial; the premises are ghost flags that the
   model sets exactly in the three defective steps:
     late_accept  : accept() ran set_state(CONNECTED) on a connection that is CLOSING/CLOSED   (F14)
     late_connect : connect() ran set_state(CONNECTED) on a connection closed meanwhile        (C10-N1)
     race_dc      : an effective disconnect() ran while the attempt was in open_connection     (C10-N1)
     abandoned    : the attempt was cancelled in open_connection on a non-closing connection   (F15) *)
From Slsk Require Import Base.Tac.
From Slsk Require Import C10.Model C10.Proofs.

Theorem C10_monotone_partial : forall k t es,
  let c := run (init k t) es in
  late_accept c = false -> late_connect c = false -> chain k (reported c).
Proof. exact monotone_partial. Qed.

Theorem C10_monotone_refuted : exists k t es, ~ chain k (reported (run (init k t) es)).
Proof. exact monotone_refuted. Qed.

Theorem C10_closed_once_last_partial : forall k t es,
  let c := run (init k t) es in
  k <> Server -> late_accept c = false -> late_connect c = false -> closed_last (reported c).
Proof. exact closed_once_last_partial. Qed.

Theorem C10_closed_once_last_refuted : exists k t es, k <> Server /\ ~ closed_last (reported (run (init k t) es)).
Proof. exact closed_once_last_refuted. Qed.

(* bad_deliv / bad_sent count the MessageReceivedEvent deliveries / transport writes that happen after
   CLOSED was reported (Model.bump_delivered / bump_sent are the only places where delivered / sent grow) *)
Theorem C10_no_delivery_no_send_after_closed_partial : forall k t es,
  let c := run (init k t) es in
  k <> Server -> late_accept c = false -> late_connect c = false -> bad_deliv c = 0 /\ bad_sent c = 0.
Proof. exact ghosts_partial. Qed.

Theorem C10_no_delivery_after_closed_refuted : exists k t es c x,
  k <> Server /\ c = run (init k t) es /\ In CLOSED (reported c) /\ delivered (step c (ReaderGets x)) = S (delivered c).
Proof. exact no_delivery_after_closed_refuted. Qed.

Theorem C10_send_after_closed_noop_refuted : exists k t es c,
  k <> Server /\ c = run (init k t) es /\ In CLOSED (reported c) /\ sent (step c (Send SOk)) = S (sent c).
Proof. exact send_after_closed_refuted. Qed.

(* in every state whatsoever: while the state is CLOSING/CLOSED a send is a no-op, a read delivers nothing,
   a further disconnect() reports nothing *)
Theorem C10_closing_state_inert : forall c,
  closing (st c) = true ->
  (forall m, step c (Send m) = c) /\
  (forall x, delivered (step c (ReaderGets x)) = delivered c) /\
  (forall r, rep (step c (Disconnect r)) = rep c /\ st (step c (Disconnect r)) = st c /\ in_reg (step c (Disconnect r)) = in_reg c).
Proof.
  intros c H. split; [|split]; intros.
  - now apply send_closing_noop.
  - now apply no_delivery_while_closing.
  - now apply disconnect_idempotent.
Qed.

(* registry: every disconnect() that passes its guard reports CLOSING and then CLOSED (at once when there is no
   writer, else after wait_closed), and CLOSED removes the connection from the registry, closes the writer.
   (Exactness of the registry at quiescence over all histories is NOT proved here: it is checked by the
   correspondence runs and the monitor; it is false today: next theorem.) *)
Theorem C10_close_unregisters : forall c,
  (in_reg (finish_close c) = false /\ st (finish_close c) = CLOSED /\ writer (finish_close c) = WNone) /\
  (closing (st c) = false ->
   let c' := fst (do_disconnect c) in
   (writer c = WNone -> firstn 2 (rep c') = [CLOSED; CLOSING] /\ in_reg c' = false) /\
   (writer c <> WNone -> firstn 1 (rep c') = [CLOSING] /\ closers c' = S (closers c) /\ in_reg c' = in_reg c)).
Proof. intros c. split; [apply closed_unregisters|apply closing_then_closed]. Qed.

Theorem C10_registry_exact_refuted : exists k t es,
  let c := run (init k t) es in quiescent c = true /\ in_reg c <> should_be_registered c.
Proof. exact registry_exact_refuted. Qed.

(* non-vacuity: full life cycles that satisfy the premises of the partial theorems, and a server reconnect *)
Example C10_nonvacuous :
  let o := run (init Outgoing TP) [Create; ConnectStart; ConnectOk; SendInit SOk; ReaderGets XMsg; ReaderGets XEof; CloseDone] in
  let i := run (init Incoming TP) [Accept; InitRead (IPeerInit TD); AcceptReturns; ReaderGets XMsg; Disconnect RRequested; CloseDone] in
  let s := run (init Server TP) [ConnectStart; ConnectOk; StartReader; ReaderGets XEof; CloseDone; ConnectStart; ConnectOk] in
  (reported o = [CONNECTING; CONNECTED; CLOSING; CLOSED] /\ late_accept o = false /\ late_connect o = false /\ delivered o = 1 /\
   quiescent o = true /\ abandoned o = false /\ race_dc o = false) /\
  (reported i = [CONNECTED; CLOSING; CLOSED] /\ late_accept i = false /\ late_connect i = false /\ delivered i = 1 /\ quiescent i = true) /\
  (reported s = [CONNECTING; CONNECTED; CLOSING; CLOSED; CONNECTING; CONNECTED] /\ late_connect s = false).
Proof. vm_compute. repeat split. Qed.
