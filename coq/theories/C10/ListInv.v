(* C10 proofs, part 1 (list level).  Structure of the whole:
   1. list-level invariant LI (what the ghosts viol / twice / seen_closed mean for the report stream),
      preserved by [report] and untouched by every other setter;
   2. finite-field invariant InvA (where the coroutines are vs. the state), by case analysis of [step];
   3. the property lemmas. *)
From Slsk Require Import Base.Tac.
From SlskGen Require Import C10LifeGen.
From Slsk Require Import C10.Model C10.Prj.

(* ------------------------------------------------------------------ generic helpers *)
(* the generated constants of SlskGen.C10LifeGen are unfolded wherever a proof computes with the model *)
Ltac unflags :=
  unfold RANK_UNINITIALIZED, RANK_CONNECTING, RANK_CONNECTED, RANK_CLOSING, RANK_CLOSED,
    CLOSING_STATE_UNINITIALIZED, CLOSING_STATE_CONNECTING, CLOSING_STATE_CONNECTED, CLOSING_STATE_CLOSING, CLOSING_STATE_CLOSED,
    GUARD_UNINITIALIZED, GUARD_CONNECTING, GUARD_CONNECTED, GUARD_CLOSING, GUARD_CLOSED,
    REGISTRY_REMOVE_ON_UNINITIALIZED, REGISTRY_REMOVE_ON_CONNECTING, REGISTRY_REMOVE_ON_CONNECTED, REGISTRY_REMOVE_ON_CLOSING,
    REGISTRY_REMOVE_ON_CLOSED, ACCEPT_CONNECTED_BEFORE_HANDLER, CONNECT_CLOSES_ON_CANCEL, CONNECT_RECHECKS_STATE,
    CONNECT_FAILURE_CATCHES_ALL, DISCONNECT_CLOSED_IN_FINALLY, READER_RECHECKS_CLOSING, SEND_SKIPS_WHEN_CLOSING, SEND_FAILURE_DISCONNECT_DETACHED,
    ATTEMPT_CLOSES_ON_CANCEL in *.

Ltac destr :=
  match goal with
  | |- context [match ?x with _ => _ end] => let E := fresh "E" in destruct x eqn:E
  | H : context [match ?x with _ => _ end] |- _ => let E := fresh "E" in destruct x eqn:E
  end.

Lemma cst_eqb_eq a b : cst_eqb a b = true <-> a = b.
Proof. destruct a, b; cbn; split; intros; congruence. Qed.

Lemma run_app c es1 es2 : run (run c es1) es2 = run c (es1 ++ es2).
Proof. unfold run. now rewrite fold_left_app. Qed.

Lemma run_snoc c es e : run c (es ++ [e]) = step (run c es) e.
Proof. unfold run. now rewrite fold_left_app. Qed.

(* induction principle: a property of the initial state preserved by every step holds after every run *)
Lemma run_ind (P : conn -> Prop) c :
  P c -> (forall c e, P c -> P (step c e)) -> forall es, P (run c es).
Proof.
  intros H0 Hs es. revert c H0. induction es as [|e es IH]; intros c H0; cbn; [exact H0|].
  apply IH. apply Hs. exact H0.
Qed.

(* ------------------------------------------------------------------ 1. list level *)
(* newest-first versions *)
Fixpoint chain_rev (k : kind) (l : list cst) : Prop :=
  match l with
  | b :: ((a :: _) as t) => ok_next k a b = true /\ chain_rev k t
  | _ => True
  end.

Lemma chain_app_last k l x :
  chain k (l ++ [x]) <-> chain k l /\ match rev l with a :: _ => ok_next k a x = true | [] => True end.
Proof.
  induction l as [|a l IH]; cbn; [tauto|].
  destruct l as [|b l'].
  - cbn. tauto.
  - change ((b :: l') ++ [x]) with (b :: (l' ++ [x])) in *.
    cbn [chain]. rewrite IH. cbn [rev].
    assert (Hne : rev l' ++ [b] <> []) by (intro H; apply app_eq_nil in H; destruct H; discriminate).
    destruct (rev l' ++ [b]) as [|z zs] eqn:E; [congruence|].
    destruct ((z :: zs) ++ [a]) eqn:E2; [destruct zs; discriminate|].
    cbn in E2. inversion E2; subst. tauto.
Qed.

Lemma chain_rev_chain k l : chain_rev k l -> chain k (rev l).
Proof.
  induction l as [|b l IH]; cbn; [tauto|].
  intros H. apply chain_app_last. rewrite rev_involutive.
  destruct l as [|a l']; [cbn; tauto|]. destruct H as [H1 H2]. split; [apply IH; exact H2|exact H1].
Qed.

Lemma closed_last_app l x :
  closed_last (l ++ [x]) <-> closed_last l /\ ~ In CLOSED l.
Proof.
  induction l as [|a l IH]; cbn.
  - split; [intros _; tauto|]. intros _. split; [tauto|exact I].
  - rewrite IH. split.
    + intros [H1 [H2 H3]]. split; [split; [|exact H2]|].
      * intros ->. specialize (H1 eq_refl). destruct l; discriminate.
      * intros [->|Hin]; [specialize (H1 eq_refl); destruct l; discriminate|tauto].
    + intros [[H1 H2] H3]. split; [|tauto].
      intros ->. exfalso. apply H3. now left.
Qed.

(* CLOSED occurs at most at the head of the newest-first list *)
Definition closed_head (l : list cst) : Prop := match l with [] => True | _ :: t => ~ In CLOSED t end.

Lemma closed_head_closed_last l : closed_head l -> closed_last (rev l).
Proof.
  induction l as [|a l IH]; cbn; [tauto|].
  intros H. apply closed_last_app. rewrite <- in_rev. split; [|exact H].
  apply IH. destruct l; cbn in *; tauto.
Qed.

Definition LI (k : kind) (s : cst) (r : list cst) (v tw sc : bool) : Prop :=
  match r with [] => s = UNINIT | x :: _ => s = x end /\
  (sc = true <-> In CLOSED r) /\
  (v = false -> chain_rev k r) /\
  (k <> Server -> tw = false -> closed_head r).

Definition ListInv (c : conn) : Prop := LI (kd c) (st c) (rep c) (viol c) (twice c) (seen_closed c).

Lemma LI_report s c : ListInv c -> ListInv (report s c).
Proof.
  unfold ListInv, LI, report; cbn. intros (H1 & H2 & H3 & H4). repeat split.
  - rewrite orb_true_iff, cst_eqb_eq. intros [H|H]; [right; now apply H2|left; now symmetry].
  - intros [H|H]; apply orb_true_iff; [right; now apply cst_eqb_eq|left; now apply H2].
  - intros Hv. apply orb_false_iff in Hv. destruct Hv as [Hv Hn]. apply negb_false_iff in Hn.
    destruct (rep c) as [|x r]; [exact I|]. subst. split; [exact Hn|now apply H3].
  - intros Hk Ht. apply orb_false_iff in Ht. destruct Ht as [Ht Hs].
    destruct (kd c); try congruence; cbn in Hs;
      (destruct (seen_closed c) eqn:Es; [discriminate|]);
      intro Hin; apply H2 in Hin; congruence.
Qed.

Lemma LI_ext c c' :
  kd c' = kd c -> st c' = st c -> rep c' = rep c -> viol c' = viol c -> twice c' = twice c ->
  seen_closed c' = seen_closed c -> ListInv c -> ListInv c'.
Proof. unfold ListInv. intros -> -> -> -> -> ->. tauto. Qed.

Ltac li_ext := intros; eapply LI_ext; [reflexivity..|assumption].
Lemma LI_set_reader r c : ListInv c -> ListInv (set_reader r c). Proof. li_ext. Qed.
Lemma LI_set_pc r c : ListInv c -> ListInv (set_pc r c). Proof. li_ext. Qed.
Lemma LI_set_writer r c : ListInv c -> ListInv (set_writer r c). Proof. li_ext. Qed.
Lemma LI_set_att r c : ListInv c -> ListInv (set_att r c). Proof. li_ext. Qed.
Lemma LI_set_res r c : ListInv c -> ListInv (set_res r c). Proof. li_ext. Qed.
Lemma LI_set_closers r c : ListInv c -> ListInv (set_closers r c). Proof. li_ext. Qed.
Lemma LI_set_detached r c : ListInv c -> ListInv (set_detached r c). Proof. li_ext. Qed.
Lemma LI_set_reg r c : ListInv c -> ListInv (set_reg r c). Proof. li_ext. Qed.
Lemma LI_set_ty r c : ListInv c -> ListInv (set_ty r c). Proof. li_ext. Qed.
Lemma LI_bump_delivered c : ListInv c -> ListInv (bump_delivered c). Proof. li_ext. Qed.
Lemma LI_bump_sent c : ListInv c -> ListInv (bump_sent c). Proof. li_ext. Qed.

Ltac li_peel :=
  repeat first
    [ assumption
    | apply LI_report | apply LI_set_reader | apply LI_set_pc | apply LI_set_writer | apply LI_set_att
    | apply LI_set_res | apply LI_set_closers | apply LI_set_detached | apply LI_set_reg | apply LI_set_ty | apply LI_bump_delivered
    | apply LI_bump_sent ].

Lemma LI_finish_close c : ListInv c -> ListInv (finish_close c).
Proof. intros H. unfold finish_close. li_peel. Qed.

Lemma LI_do_disconnect c : ListInv c -> ListInv (fst (do_disconnect c)).
Proof.
  intros H. unfold do_disconnect. destruct (guarded (st c)); [exact H|].
  destruct (writer (report CLOSING c)); cbn [fst]; try apply LI_finish_close; li_peel.
Qed.

Lemma LI_finalize c : ListInv c -> ListInv (finalize c).
Proof. intros H. unfold finalize. destruct (ty c); li_peel. Qed.

Lemma LI_step c e : ListInv c -> ListInv (step c e).
Proof.
  intros H. pose proof (LI_do_disconnect c H) as Hd. pose proof (LI_finish_close c H) as Hf.
  pose proof (LI_finalize c H) as Hz.
  unfold step. destruct (created_guard c e); [exact H|].
  destruct e; cbn [step0]; unflags; cbn [orb andb negb]; repeat destr; try assumption;
    try (match goal with E : do_disconnect c = (?c1, _) |- _ => rewrite E in Hd; cbn [fst] in Hd end);
    li_peel; try (apply LI_finalize; li_peel); try (apply LI_finish_close; li_peel);
    try (apply LI_do_disconnect; li_peel);
    try (match goal with E : do_disconnect ?x = (?c1, _) |- ListInv ?c1 =>
           let Hx := fresh in assert (Hx : ListInv (fst (do_disconnect x))) by (apply LI_do_disconnect; li_peel);
           rewrite E in Hx; exact Hx end).
Qed.

Lemma LI_init k t : ListInv (init k t).
Proof. unfold ListInv, LI, init; cbn. repeat split; try tauto; try discriminate. Qed.

Lemma LI_run k t es : ListInv (run (init k t) es).
Proof. apply run_ind; [apply LI_init|intros; now apply LI_step]. Qed.

