(* C10 proofs, part 2: finite-field invariants by controlled case analysis (part 1: ListInv.v, part 3: Proofs.v). *)
From Slsk Require Import Base.Tac.
From SlskGen Require Import C10LifeGen.
From Slsk Require Import C10.Model C10.Prj C10.ListInv.

(* ------------------------------------------------------------------ 2. finite-field invariants *)
(* stated as boolean functions of a few projections, so that the step lemmas are closed by lazy
   case splitting on exactly the fields that [step] and the invariant inspect *)
Lemma dd_cases c :
  (guarded (st c) = true /\ do_disconnect c = (c, false)) \/
  (guarded (st c) = false /\ writer c = WNone /\ do_disconnect c = (finish_close (report CLOSING c), false)) \/
  (guarded (st c) = false /\ writer c <> WNone /\
   do_disconnect c = (set_closers (S (closers c)) (set_writer WClosing
        (set_reader (match reader c with RRunning => RDone | r => r end) (report CLOSING c))), true)).
Proof.
  unfold do_disconnect. destruct (guarded (st c)); [now left|right].
  autorewrite with prj. destruct (writer c); [left|right|right]; repeat split; try discriminate; reflexivity.
Qed.

Ltac norm := unfold finish_close, finalize in *; cbn [kd ty st rep in_reg reader pc writer at_ res closers detached delivered sent seen_closed viol twice bad_deliv bad_sent report set_reader set_pc set_writer set_att set_res set_closers set_detached set_reg set_ty bump_delivered bump_sent] in *.

(* case split on the three behaviours of do_disconnect applied to [x] *)
Ltac dd x :=
  let E := fresh "Edd" in
  destruct (dd_cases x) as [(? & E)|[(? & ? & E)|(? & ? & E)]]; rewrite E in *; clear E.

Ltac split_all :=
  repeat (cbn in *; try discriminate; try reflexivity; try assumption; try congruence;
          match goal with
          | H : context [match ?x with _ => _ end] |- _ => destruct x eqn:?
          | |- context [match ?x with _ => _ end] => destruct x eqn:?
          | H : context [if ?x then _ else _] |- _ => destruct x eqn:?
          | |- context [if ?x then _ else _] => destruct x eqn:?
          end).


(* P1: where the coroutine is vs. the state *)
Definition inv1 (c : conn) : bool :=
  match at_ c, st c with
  | ACreated, UNINIT => true
  | ACreated, _ => false
  | AConnecting, (UNINIT | CONNECTED) => false
  | _, _ => true
  end && match st c with UNINIT => Nat.eqb (closers c) 0 | _ => true end.

Ltac ev_cases c :=
  cbn [step0]; unflags; cbn [orb andb negb]; repeat (match goal with
  | |- context [match at_ c with _ => _ end] => destruct (at_ c) eqn:?
  | |- context [match kd c with _ => _ end] => destruct (kd c) eqn:?
  | |- context [match reader c with _ => _ end] => destruct (reader c) eqn:?
  | |- context [match writer c with _ => _ end] => destruct (writer c) eqn:?
  | |- context [match closers c with _ => _ end] => destruct (closers c) eqn:?
  | |- context [match detached c with _ => _ end] => destruct (detached c) eqn:?
  | |- context [match rep c with _ => _ end] => destruct (rep c) eqn:?
  | |- context [match in_reg c with _ => _ end] => destruct (in_reg c) eqn:?
  | |- context [match ?a with ThenRaise => _ | ThenRet => _ | ThenCancel => _ end] => destruct a
  | |- context [if closing (st c) then _ else _] => destruct (closing (st c)) eqn:?
  | |- context [if guarded (st c) then _ else _] => destruct (guarded (st c)) eqn:?
  | |- context [match st c with _ => _ end] => destruct (st c) eqn:?
  | |- context [match ?t with TP => _ | TF => _ | TD => _ end] => destruct t eqn:?
  | |- context [if ?b then _ else _] => destruct b eqn:?
  end; try assumption).

Ltac fin c :=
  repeat match goal with
  | E : at_ c = _ |- _ => rewrite ?E in *; clear E
  | E : st c = _ |- _ => rewrite ?E in *; clear E
  | E : closers c = _ |- _ => rewrite ?E in *; clear E
  | E : kd c = _ |- _ => rewrite ?E in *; clear E
  | E : writer c = _ |- _ => rewrite ?E in *; clear E
  end;
  norm; cbn in *; try discriminate; try reflexivity; try assumption; try congruence;
  try (destruct (st c); cbn in *; try discriminate; try reflexivity; try assumption; try congruence;
       destruct (closers c) as [|[|?]]; cbn in *; try discriminate; try reflexivity; try assumption; try congruence).

Lemma inv1_step c e : inv1 c = true -> inv1 (step c e) = true.
Proof.
  intros H. unfold step. destruct (created_guard c e) eqn:G; [exact H|]. unfold created_guard in G.
  destruct e; try destruct m; try destruct r; try destruct x; ev_cases c; try assumption.
  all: try (dd c; cbn [fst snd]); try (dd (bump_sent c); cbn [fst snd]);
    try (match goal with |- context [do_disconnect (set_detached ?n ?x)] => dd (set_detached n x); cbn [fst snd] end); try assumption.
  all: unfold inv1 in *; repeat (progress (norm; ev_cases c)); norm.
  all: fin c.
Qed.

(* P2: every report moved forward, at most one disconnect() is in flight and it is in flight exactly while
   the state is CLOSING; for peer connections CLOSED is final and nothing is delivered / written after it *)
Definition inv2 (c : conn) : bool :=
  inv1 c &&
  (negb (viol c) &&
   match closers c, st c with
   | 0, CLOSING => false
   | 0, _ => true
   | 1, CLOSING => true
   | _, _ => false
   end &&
   (is_server (kd c) || (negb (twice c) && (negb (seen_closed c) || cst_eqb (st c) CLOSED)
                         && Nat.eqb (bad_deliv c) 0 && Nat.eqb (bad_sent c) 0))) &&
  (negb (seen_closed c) || negb (cst_eqb (st c) UNINIT)) &&
  match at_ c with AOwnClose _ => negb (Nat.eqb (closers c) 0) | _ => true end.

Ltac fin2 c :=
  repeat match goal with
  | E : at_ c = _ |- _ => rewrite ?E in *; clear E
  | E : st c = _ |- _ => rewrite ?E in *; clear E
  | E : closers c = _ |- _ => rewrite ?E in *; clear E
  | E : kd c = _ |- _ => rewrite ?E in *; clear E
  | E : writer c = _ |- _ => rewrite ?E in *; clear E
  end;
  norm; unfold ok_next, cst_eqb, rank, closing, guarded, removes, is_server in *; unflags; cbn in *;
  try discriminate; try reflexivity; try assumption; try congruence;
  repeat (match goal with
          | H : context [st c] |- _ => destruct (st c)
          | H : context [closers c] |- _ => destruct (closers c) as [|[|?]]
          | H : context [at_ c] |- _ => destruct (at_ c)
          | H : context [kd c] |- _ => destruct (kd c)
          | H : context [viol c] |- _ => destruct (viol c)
          | H : context [seen_closed c] |- _ => destruct (seen_closed c)
          | H : context [twice c] |- _ => destruct (twice c)
          | H : context [match ?a with ThenRaise => _ | ThenRet => _ | ThenCancel => _ end] |- _ => destruct a
          | H : context [match ?n with O => _ | S _ => _ end] |- _ => destruct n
          | H : context [Nat.eqb (bad_deliv c) 0] |- _ => destruct (Nat.eqb (bad_deliv c) 0)
          | H : context [Nat.eqb (bad_sent c) 0] |- _ => destruct (Nat.eqb (bad_sent c) 0)
          end; cbn in *; try discriminate; try reflexivity; try assumption; try congruence).

Lemma inv2_step c e : inv2 c = true -> inv2 (step c e) = true.
Proof.
  intros H. unfold step. destruct (created_guard c e) eqn:G; [exact H|]. unfold created_guard in G.
  destruct e; try destruct m; try destruct r; try destruct x; ev_cases c; try assumption.
  all: try (dd c; cbn [fst snd]); try (dd (bump_sent c); cbn [fst snd]);
    try (match goal with |- context [do_disconnect (set_detached ?n ?x)] => dd (set_detached n x); cbn [fst snd] end); try assumption.
  all: unfold inv2, inv1 in *; repeat (progress (norm; ev_cases c)); norm.
  all: fin2 c.
Qed.


(* P3: the registry.  A peer connection is registered exactly while its attempt has created it and not yet
   entered connect(), or is in open_connection with the object still CONNECTING, or it has a writer (open or
   closing); the server connection never is.  A closing writer means a disconnect() is in flight. *)
Definition inv3 (c : conn) : bool :=
  (if is_server (kd c) then negb (in_reg c)
   else Bool.eqb (in_reg c)
     (match at_ c, st c with ACreated, _ => true | AConnecting, CONNECTING => true | _, _ => false end ||
      match writer c with WNone => false | _ => true end)) &&
  match writer c, closers c with WClosing, O => false | _, _ => true end.

Ltac fin3 c :=
  repeat match goal with
  | E : at_ c = _ |- _ => rewrite ?E in *; clear E
  | E : st c = _ |- _ => rewrite ?E in *; clear E
  | E : closers c = _ |- _ => rewrite ?E in *; clear E
  | E : kd c = _ |- _ => rewrite ?E in *; clear E
  | E : writer c = _ |- _ => rewrite ?E in *; clear E
  | E : in_reg c = _ |- _ => rewrite ?E in *; clear E
  end;
  norm; unfold is_server, cst_eqb, rank, closing, guarded, removes in *; unflags; cbn in *;
  try discriminate; try reflexivity; try assumption; try congruence;
  repeat (match goal with
          | H : ?w <> ?w |- _ => now elim H
          | H : context [kd c] |- _ => destruct (kd c)
          | H : context [at_ c] |- _ => destruct (at_ c)
          | H : context [writer c] |- _ => destruct (writer c)
          | H : context [in_reg c] |- _ => destruct (in_reg c)
          | H : context [closers c] |- _ => destruct (closers c)
          | H : context [st c] |- _ => destruct (st c)
          | H : context [match ?a with ThenRaise => _ | ThenRet => _ | ThenCancel => _ end] |- _ => destruct a
          end; cbn in *; try discriminate; try reflexivity; try assumption; try congruence).

Lemma inv3_step c e : inv3 c = true -> inv3 (step c e) = true.
Proof.
  intros H. unfold step. destruct (created_guard c e) eqn:G; [exact H|]. unfold created_guard in G.
  destruct e; try destruct m; try destruct r; try destruct x; ev_cases c; try assumption.
  all: try (dd c; cbn [fst snd]); try (dd (bump_sent c); cbn [fst snd]);
    try (match goal with |- context [do_disconnect (set_detached ?n ?x)] => dd (set_detached n x); cbn [fst snd] end); try assumption.
  all: unfold inv3 in *; repeat (progress (norm; ev_cases c)); norm.
  all: fin3 c.
Qed.
