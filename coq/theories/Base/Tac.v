(* Common proof header: lia over Z/N/nat with booleans and division. *)
From Coq Require Export ZArith List Bool Lia ZifyBool ZifyNat ZifyN.
Export ListNotations.
Ltac Zify.zify_post_hook ::= Z.to_euclidean_division_equations.

Ltac inv H := inversion H; subst; clear H.
Ltac destr_if :=
  match goal with
  | |- context [if ?c then _ else _] => let E := fresh "E" in destruct c eqn:E
  | H : context [if ?c then _ else _] |- _ => let E := fresh "E" in destruct c eqn:E
  end.
