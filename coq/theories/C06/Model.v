(* C06 model: the negotiation tasks of ONE transfer (the two slots `_remotely_queue_task` and
   `_transfer_task`, the done-callbacks that clear them, the sites that create tasks, and
   abort/pause/remove cancelling what the slots hold).
   The discipline flags are GENERATED (SlskGen.SlotGen, from transfer/manager.py, model.py, state.py);
   the machine is hand-written and tied to the real TransferManager by checks/c06.py.
   Definitions only; executable. *)
From Coq Require Import List Bool Arith.
From SlskGen Require Import SlotGen.
Import ListNotations.

Inductive kind := RQ | TR.            (* queue-remotely-*  |  initialize-upload-* / initialize-download-* *)
Inductive pc := Fresh | Running.      (* created, first segment not run yet | suspended inside the negotiation *)
Record task := mkTask { kid : nat; kkind : kind; kpc : pc }.

Inductive dir := Up | Down.
(* Stopped = ABORTED / PAUSED;  Done = COMPLETE / FAILED *)
Inductive tstate := Queued | Init | Transferring | Stopped | Done.

Record flags := mkF {
  g_cycle_rq : bool;   (* the cycle skips a download whose RQ slot holds a task that is not done *)
  g_cycle_tr : bool;   (* same for the upload loop and the TR slot *)
  g_peer : bool;       (* _on_peer_transfer_request skips when the TR slot holds a task that is not done *)
  cb_cond : bool;      (* done-callbacks clear the slot only when it still holds their own task *)
  c_rq : bool;         (* cancel_tasks cancels the RQ slot *)
  c_tr : bool;         (* cancel_tasks cancels the TR slot *)
  rm_cancels : bool    (* remove() cancels and awaits whatever the slots still hold, whatever the abort did *)
}.

(* the code as it is now *)
Definition cur : flags :=
  mkF CYCLE_GUARD_RQ CYCLE_GUARD_TR PEERMSG_GUARD CALLBACK_CONDITIONAL
      (CANCEL_RQ_SLOT && STOP_CANCELS_FIRST) (CANCEL_TR_SLOT && STOP_CANCELS_FIRST) REMOVE_CANCELS_LEFTOVERS.

Definition all_guards (f : flags) : bool := g_cycle_rq f && g_cycle_tr f && g_peer f && cb_cond f.

Record st := mkSt {
  sdir : dir;
  sstate : tstate;
  srq : bool;                   (* Transfer.remotely_queued *)
  sremoved : bool;              (* no longer in TransferManager._transfers *)
  slot_rq : option nat;
  slot_tr : option nat;
  live : list task;             (* tasks that have not finished *)
  cbs : list (nat * kind);      (* finished tasks whose done-callback has not run yet *)
  next : nat;
  stopped : bool                (* ghost: abort/pause/remove returned, no legitimate re-queue since *)
}.

Definition init (d : dir) : st := mkSt d Queued false false None None [] [] 0 false.

Inductive obs :=
  | OConnect (k : nat)          (* task k starts a connection attempt on behalf of the transfer *)
  | OSend (k : nat)             (* task k sends a protocol message / file data about the transfer *)
  | OField (k : nat).           (* task k changes a field of the transfer (state, remotely_queued, attempts) *)

Inductive event :=
  | Cycle                       (* manage_transfers *)
  | Start (k : nat)             (* first segment of task k *)
  | Deliver (k : nat)           (* the message task k is trying to send is delivered *)
  | ConnFail (k : nat)          (* the connection attempt / negotiation of task k fails: state.queue() *)
  | Begin (k : nat)             (* TR task k starts moving file data: INITIALIZING -> DOWNLOADING/UPLOADING *)
  | Interrupt (k : nat)         (* TR task k loses the file connection mid-transfer: DOWNLOADING -> INCOMPLETE (queued-like) *)
  | Finish (k : nat)            (* TR task k runs the transfer to its end *)
  | Fail (k : nat)              (* TR task k fails the transfer (state.fail) but goes on: it still notifies the peer *)
  | End_ (k : nat)              (* TR task k returns without touching the transfer *)
  | DoneCb (k : nat)            (* the done-callback of finished task k runs *)
  | Abort | Pause | Remove      (* user calls; the event is the whole call, including the awaited cancellation *)
  | Requeue                     (* user queue(): legitimate re-queue *)
  | PeerMsg.                    (* Down: PeerTransferRequest of the peer;  Up: PeerTransferQueue of the peer *)

Definition is_live (s : st) (k : nat) : bool := existsb (fun t => kid t =? k) (live s).
Definition find_task (s : st) (k : nat) : option task := find (fun t => kid t =? k) (live s).
Definition drop_task (k : nat) (l : list task) : list task := filter (fun t => negb (kid t =? k)) l.

Definition slot_free (s : st) (o : option nat) : bool :=          (* `slot is None or slot.done()` *)
  match o with None => true | Some k => negb (is_live s k) end.

Definition set_slot (kd : kind) (v : option nat) (s : st) : st :=
  match kd with
  | RQ => mkSt (sdir s) (sstate s) (srq s) (sremoved s) v (slot_tr s) (live s) (cbs s) (next s) (stopped s)
  | TR => mkSt (sdir s) (sstate s) (srq s) (sremoved s) (slot_rq s) v (live s) (cbs s) (next s) (stopped s)
  end.
Definition get_slot (kd : kind) (s : st) : option nat := match kd with RQ => slot_rq s | TR => slot_tr s end.

Definition create (kd : kind) (s : st) : st :=                      (* slot := create_task(...) *)
  let s1 := set_slot kd (Some (next s)) s in
  mkSt (sdir s1) (sstate s1) (srq s1) (sremoved s1) (slot_rq s1) (slot_tr s1)
       (live s1 ++ [mkTask (next s) kd Fresh]) (cbs s1) (S (next s)) (stopped s1).

Definition with_live (l : list task) (c : list (nat * kind)) (s : st) : st :=
  mkSt (sdir s) (sstate s) (srq s) (sremoved s) (slot_rq s) (slot_tr s) l c (next s) (stopped s).
Definition with_state (x : tstate) (q : bool) (s : st) : st :=
  mkSt (sdir s) x q (sremoved s) (slot_rq s) (slot_tr s) (live s) (cbs s) (next s) (stopped s).
Definition with_stop (r b : bool) (s : st) : st :=
  mkSt (sdir s) (sstate s) (srq s) r (slot_rq s) (slot_tr s) (live s) (cbs s) (next s) b.

Definition finish_task (k : nat) (kd : kind) (s : st) : st :=
  with_live (drop_task k (live s)) (cbs s ++ [(k, kd)]) s.

(* transfer.state.queue() as called by a task: QUEUED and DOWNLOADING/UPLOADING have no such
   transition; every other state goes (back) to QUEUED with remotely_queued := False *)
Definition task_queue (s : st) : st :=
  match sstate s with
  | Queued | Transferring => s
  | _ => with_state Queued false s
  end.

(* cancel_tasks + gather: the tasks held by the slots are cancelled and awaited *)
Definition cancel_slot (b : bool) (kd : kind) (s : st) : st :=
  if b then
    match get_slot kd s with
    | Some k => if is_live s k then finish_task k kd s else s
    | None => s
    end
  else s.

Definition stoppable (s : st) : bool :=
  match sstate s with Queued | Init | Transferring => true | _ => false end.

Definition do_stop (f : flags) (s : st) : st :=
  if stoppable s then
    let s1 := cancel_slot (c_tr f) TR (cancel_slot (c_rq f) RQ s) in
    with_stop (sremoved s1) true (with_state Stopped (srq s1) s1)
  else s.

Definition eqb_kind (a b : kind) : bool := match a, b with RQ, RQ | TR, TR => true | _, _ => false end.

Definition step (f : flags) (s : st) (e : event) : st * list obs :=
  match e with
  | Cycle =>
      if sremoved s then (s, []) else
      match sdir s, sstate s with
      | Down, Queued =>
          if negb (srq s) && (negb (g_cycle_rq f) || slot_free s (slot_rq s)) then (create RQ s, []) else (s, [])
      | Up, Queued =>
          if negb (g_cycle_tr f) || slot_free s (slot_tr s) then (create TR s, []) else (s, [])
      | _, _ => (s, [])
      end
  | Start k =>
      match find_task s k with
      | Some (mkTask _ kd Fresh) =>
          let l := map (fun t => if kid t =? k then mkTask (kid t) (kkind t) Running else t) (live s) in
          let s1 := with_live l (cbs s) s in
          match kd with
          | RQ => (s1, [OConnect k])
          | TR => match sstate s with
                  | Queued => (with_state Init (srq s1) s1, [OField k; match sdir s with Up => OConnect k | Down => OSend k end])
                  | _ => (s1, [match sdir s with Up => OConnect k | Down => OSend k end])
                  end
          end
      | _ => (s, [])
      end
  | Deliver k =>
      match find_task s k with
      | Some (mkTask _ RQ Running) => (finish_task k RQ (with_state (sstate s) true s), [OSend k; OField k])
      | Some (mkTask _ TR Running) => (s, [OSend k])
      | _ => (s, [])
      end
  | ConnFail k =>
      match find_task s k with
      | Some (mkTask _ kd Running) => (finish_task k kd (task_queue s), [OField k])
      | _ => (s, [])
      end
  | Begin k =>
      match find_task s k with
      | Some (mkTask _ TR Running) =>
          match sstate s with
          | Init => (with_state Transferring false s, [OField k])     (* start_transferring resets the queue vars *)
          | _ => (s, [])
          end
      | _ => (s, [])
      end
  | Interrupt k =>
      match find_task s k with
      | Some (mkTask _ TR Running) =>
          let s1 := match sstate s with Transferring => with_state Queued (srq s) s | _ => s end in
          (finish_task k TR s1, [OField k])
      | _ => (s, [])
      end
  | Finish k =>
      match find_task s k with
      | Some (mkTask _ TR Running) =>
          let s1 := match sstate s with Init | Transferring => with_state Done false s | _ => s end in
          (finish_task k TR s1, [OSend k; OField k])
      | _ => (s, [])
      end
  | Fail k =>
      match find_task s k with
      | Some (mkTask _ TR Running) =>
          match sstate s with
          | Init | Transferring => (with_state Done false s, [OField k])
          | _ => (s, [])
          end
      | _ => (s, [])
      end
  | End_ k =>
      match find_task s k with
      | Some (mkTask _ TR Running) => (finish_task k TR s, [])
      | _ => (s, [])
      end
  | DoneCb k =>
      match find (fun c => fst c =? k) (cbs s) with
      | Some (_, kd) =>
          let s1 := with_live (live s) (filter (fun c => negb (fst c =? k)) (cbs s)) s in
          if cb_cond f then
            match get_slot kd s1 with
            | Some j => if j =? k then (set_slot kd None s1, []) else (s1, [])
            | None => (s1, [])
            end
          else (set_slot kd None s1, [])
      | None => (s, [])
      end
  | Abort | Pause => if sremoved s then (s, []) else (do_stop f s, [])
  (* remove(): abort (refused, and swallowed, in COMPLETE/FAILED/ABORTED/PAUSED), then -- repair F30 -- cancel and
     await whatever the slots still hold, then drop the transfer from the list *)
  | Remove =>
      if sremoved s then (s, []) else
      let s1 := do_stop f s in
      let s2 := if rm_cancels f then cancel_slot (c_tr f) TR (cancel_slot (c_rq f) RQ s1) else s1 in
      (with_stop true (stopped s2) s2, [])
  | Requeue =>
      if sremoved s then (s, []) else
      match sstate s with
      | Stopped | Done => (with_stop false false (with_state Queued false s), [])
      | _ => (s, [])
      end
  | PeerMsg =>
      if sremoved s then (s, []) else
      match sdir s, sstate s with
      | Down, Queued =>
          if negb (g_peer f) || slot_free s (slot_tr s) then (create TR s, []) else (s, [])
      | Up, Done => (with_stop false false (with_state Queued false s), [])
      | _, _ => (s, [])
      end
  end.

Fixpoint run (f : flags) (s : st) (evs : list event) : st :=
  match evs with [] => s | e :: r => run f (fst (step f s e)) r end.

(* what happens while the transfer is stopped (the observation window of the property) *)
Fixpoint after_stop_obs (f : flags) (s : st) (evs : list event) : list obs :=
  match evs with
  | [] => []
  | e :: r => let '(s', o) := step f s e in (if stopped s then o else []) ++ after_stop_obs f s' r
  end.

(* what happens after remove() returned: the transfer is gone from the manager's list for good *)
Fixpoint after_remove_obs (f : flags) (s : st) (evs : list event) : list obs :=
  match evs with
  | [] => []
  | e :: r => let '(s', o) := step f s e in (if sremoved s then o else []) ++ after_remove_obs f s' r
  end.

Definition n_live (kd : kind) (s : st) : nat := length (filter (fun t => eqb_kind (kkind t) kd) (live s)).

(* at most one live task per slot kind at every point of the run *)
Fixpoint single_flight_b (f : flags) (s : st) (evs : list event) : bool :=
  (n_live RQ s <=? 1) && (n_live TR s <=? 1) &&
  match evs with [] => true | e :: r => single_flight_b f (fst (step f s e)) r end.

(* every live task is the one its slot holds: what "cancelling the transfer cancels all of it" needs *)
Definition tracked (s : st) : Prop := forall t, In t (live s) -> get_slot (kkind t) s = Some (kid t).
Definition tracked_b (s : st) : bool :=
  forallb (fun t => match get_slot (kkind t) s with Some k => k =? kid t | None => false end) (live s).

Fixpoint no_requeue (evs : list event) : bool :=
  match evs with [] => true | (Requeue | PeerMsg) :: _ => false | _ :: r => no_requeue r end.

(* observations of a whole run, for the correspondence check:
   per event (state code, remotely_queued, #live RQ, #live TR, slot_rq holds a live task, slot_tr holds a live task) *)
Definition st_code (x : tstate) : nat := match x with Queued => 0 | Init => 1 | Transferring => 2 | Stopped => 3 | Done => 4 end.
Definition slot_live (s : st) (o : option nat) : bool := match o with Some k => is_live s k | None => false end.
Definition snapshot (s : st) : nat * bool * nat * nat * bool * bool :=
  (st_code (sstate s), srq s, n_live RQ s, n_live TR s, slot_live s (slot_rq s), slot_live s (slot_tr s)).
Fixpoint trace (f : flags) (s : st) (evs : list event) : list (nat * bool * nat * nat * bool * bool) :=
  match evs with [] => [] | e :: r => let s' := fst (step f s e) in snapshot s' :: trace f s' r end.

(* ================================================================================================
   A management cycle INSIDE a running stop call.  abort/pause take the transfer's state lock, cancel the
   slot's task, await it (the task needs a loop iteration to finish), and only then change the state.  In
   between the transfer is still QUEUED.  Small separate machine for one download and its remote-queue
   slot, with the repaired F03 discipline (a cycle skips a slot whose task is not done):
   [lock_guard] = the cycle also skips a transfer whose state lock is held (CYCLE_SKIPS_LOCKED). *)
Inductive ipc := IRun | ICancelling.
Record ist := mkI {
  i_queued : bool;                 (* QUEUED (true) or ABORTED/PAUSED (false) *)
  i_slot : option nat;
  i_live : list (nat * ipc);       (* tasks that are not done *)
  i_locked : bool;                 (* a stop call holds the state lock *)
  i_next : nat;
  i_stopped : bool                 (* ghost: a stop call returned, no re-queue since *)
}.
Inductive ievent :=
  | ICycle | IStopBegin | IReap (k : nat) | IStopEnd | IDeliver (k : nat) | IFail (k : nat) | IRequeue.
Inductive iobs := ISend (k : nat) | IField (k : nat).

Definition i_is_live (s : ist) (k : nat) : bool := existsb (fun t => fst t =? k) (i_live s).
Definition i_slot_free (s : ist) : bool := match i_slot s with None => true | Some k => negb (i_is_live s k) end.
Definition i_init : ist := mkI true None [] false 0 false.

Definition istep (lock_guard : bool) (s : ist) (e : ievent) : ist * list iobs :=
  match e with
  | ICycle =>
      if i_queued s && i_slot_free s && (negb lock_guard || negb (i_locked s))
      then (mkI true (Some (i_next s)) (i_live s ++ [(i_next s, IRun)]) (i_locked s) (S (i_next s)) (i_stopped s), [])
      else (s, [])
  | IStopBegin =>
      if i_queued s && negb (i_locked s)
      then (mkI true (i_slot s)
                (map (fun t => if match i_slot s with Some k => fst t =? k | None => false end then (fst t, ICancelling) else t) (i_live s))
                true (i_next s) (i_stopped s), [])
      else (s, [])
  | IReap k =>      (* the cancelled task processes its cancellation and is done *)
      (mkI (i_queued s) (i_slot s) (filter (fun t => negb ((fst t =? k) && match snd t with ICancelling => true | IRun => false end)) (i_live s))
           (i_locked s) (i_next s) (i_stopped s), [])
  | IStopEnd =>     (* gather returned: every task the call cancelled is done *)
      if i_locked s && forallb (fun t => match snd t with ICancelling => false | IRun => true end) (i_live s)
      then (mkI false (i_slot s) (i_live s) false (i_next s) true, [])
      else (s, [])
  | IDeliver k =>
      if existsb (fun t => (fst t =? k) && match snd t with IRun => true | ICancelling => false end) (i_live s)
      then (mkI (i_queued s) (i_slot s) (filter (fun t => negb (fst t =? k)) (i_live s)) (i_locked s) (i_next s) (i_stopped s),
            [ISend k; IField k])
      else (s, [])
  | IFail k =>      (* the attempt fails: state.queue() re-queues an ABORTED/PAUSED transfer *)
      if existsb (fun t => (fst t =? k) && match snd t with IRun => true | ICancelling => false end) (i_live s)
      then (mkI true (i_slot s) (filter (fun t => negb (fst t =? k)) (i_live s)) (i_locked s) (i_next s) (i_stopped s),
            [IField k])
      else (s, [])
  | IRequeue => if i_queued s then (s, []) else (mkI true (i_slot s) (i_live s) (i_locked s) (i_next s) false, [])
  end.

Fixpoint i_after_stop_obs (g : bool) (s : ist) (evs : list ievent) : list iobs :=
  match evs with
  | [] => []
  | e :: r => let '(s', o) := istep g s e in (if i_stopped s then o else []) ++ i_after_stop_obs g s' r
  end.
Fixpoint irun (g : bool) (s : ist) (evs : list ievent) : ist :=
  match evs with [] => s | e :: r => irun g (fst (istep g s e)) r end.
