(* C06 lemmas. *)
From Slsk Require Import Base.Tac.
From SlskGen Require Import SlotGen.
From Slsk Require Import C06.Model.

Lemma is_live_In : forall s k, is_live s k = true <-> exists t, In t (live s) /\ kid t = k.
Proof.
  intros s k. unfold is_live. rewrite existsb_exists. split; intros (t & H & E); exists t; split; auto.
  - apply Nat.eqb_eq. exact E.
  - apply Nat.eqb_eq. exact E.
Qed.

Lemma find_task_some : forall s k t, find_task s k = Some t -> In t (live s) /\ kid t = k.
Proof.
  intros s k t H. unfold find_task in H. apply find_some in H. destruct H as (H & E).
  apply Nat.eqb_eq in E. auto.
Qed.

Lemma find_task_nil : forall s k, live s = [] -> find_task s k = None.
Proof. intros s k H. unfold find_task. rewrite H. reflexivity. Qed.

Lemma drop_In : forall k l t, In t (drop_task k l) <-> In t l /\ kid t <> k.
Proof.
  intros k l t. unfold drop_task. rewrite filter_In. split; intros (A & B); split; auto.
  - apply negb_true_iff, Nat.eqb_neq in B. exact B.
  - apply negb_true_iff, Nat.eqb_neq. exact B.
Qed.

Lemma NoDup_app_one : forall (A : Type) (l : list A) x, NoDup l -> ~ In x l -> NoDup (l ++ [x]).
Proof.
  intros A l x N H. induction N as [|y l Hy N IH]; cbn; [constructor; [intros []|constructor]|].
  constructor.
  - intros Hi. apply in_app_or in Hi. destruct Hi as [Hi|[<-|[]]]; [auto|]. apply H. cbn. auto.
  - apply IH. intros Hi. apply H. cbn. auto.
Qed.

(* ---- the invariant of the guarded discipline ------------------------------------------------- *)
Record GI (s : st) : Prop := mkGI {
  gi_tracked : tracked s;
  gi_nodup : NoDup (map kid (live s));
  gi_fresh : forall t, In t (live s) -> kid t < next s;
  gi_cbs : forall c, In c (cbs s) -> fst c < next s /\ is_live s (fst c) = false;
  gi_stop : stopped s = true -> live s = [] /\ sstate s = Stopped }.

Lemma not_live_fresh : forall s, (forall t, In t (live s) -> kid t < next s) -> is_live s (next s) = false.
Proof.
  intros s H. destruct (is_live s (next s)) eqn:E; [|reflexivity].
  apply is_live_In in E. destruct E as (t & Ht & Ek). apply H in Ht. lia.
Qed.

Lemma tracked_kind_free : forall s kd, tracked s -> slot_free s (get_slot kd s) = true ->
  forall t, In t (live s) -> kkind t <> kd.
Proof.
  intros s kd T F t Ht E. specialize (T t Ht). rewrite E in T. rewrite T in F. cbn in F.
  apply negb_true_iff in F. assert (is_live s (kid t) = true) by (apply is_live_In; eauto). congruence.
Qed.

Lemma GI_create : forall s kd, GI s -> stopped s = false -> slot_free s (get_slot kd s) = true -> GI (create kd s).
Proof.
  intros s kd [T N F C St] NS SF.
  pose proof (tracked_kind_free s kd T SF) as KF.
  destruct s as [d x q rm o1 o2 lv cb nx sp]. unfold tracked in *.
  destruct kd; cbn in *; (constructor; cbn;
  [ intros t Ht; apply in_app_or in Ht; destruct Ht as [Ht|[<-|[]]]; cbn; auto;
    specialize (T t Ht); specialize (KF t Ht); destruct (kkind t); cbn in *; congruence
  | rewrite map_app; cbn; apply NoDup_app_one; auto;
    intros H; apply in_map_iff in H; destruct H as (t & E & Ht); apply F in Ht; lia
  | intros t Ht; apply in_app_or in Ht; destruct Ht as [Ht|[<-|[]]]; cbn; try lia; apply F in Ht; lia
  | intros c Hc; destruct (C c Hc) as (C1 & C2); split; [lia|];
    unfold is_live in *; cbn in *; rewrite existsb_app; cbn; rewrite C2; cbn;
    rewrite orb_false_r; apply Nat.eqb_neq; lia
  | intros; congruence ]).
Qed.

Lemma NoDup_map_filter : forall (A B : Type) (f : A -> B) p l, NoDup (map f l) -> NoDup (map f (filter p l)).
Proof.
  intros A B f p l. induction l as [|x l IH]; intros N; cbn; [constructor|].
  cbn in N. apply NoDup_cons_iff in N. destruct N as (N1 & N2). destruct (p x); cbn; auto. constructor; auto.
  intros H. apply N1. apply in_map_iff in H. destruct H as (y & E & Hy). apply filter_In in Hy.
  rewrite <- E. apply in_map. tauto.
Qed.

Lemma is_live_drop : forall s k j l c, is_live (with_live (drop_task k l) c s) j = true -> existsb (fun t => kid t =? j) l = true /\ j <> k.
Proof.
  intros s k j l c H. apply is_live_In in H. destruct H as (t & Ht & E). cbn in Ht. apply drop_In in Ht.
  split; [|subst; tauto]. apply existsb_exists. exists t. split; [tauto|apply Nat.eqb_eq; auto].
Qed.

Lemma GI_with_state : forall s x q, GI s -> stopped s = false -> GI (with_state x q s).
Proof.
  intros s x q [T N F C St] NS. destruct s; cbn in *. constructor; cbn; auto. intros; congruence.
Qed.

Lemma GI_finish : forall s k kd, GI s -> k < next s -> GI (finish_task k kd s).
Proof.
  intros s k kd [T N F C St] K. destruct s as [d x q rm o1 o2 lv cb nx sp]. unfold tracked in *. cbn in *.
  constructor; cbn.
  - intros t Ht. apply drop_In in Ht. apply (T t). tauto.
  - apply NoDup_map_filter. exact N.
  - intros t Ht. apply drop_In in Ht. apply F. tauto.
  - intros c Hc. apply in_app_or in Hc.
    assert (D : forall j, j = k \/ existsb (fun t => kid t =? j) lv = false ->
                 is_live (with_live (drop_task k lv) (cb ++ [(k, kd)]) (mkSt d x q rm o1 o2 lv cb nx sp)) j = false).
    { intros j Hj. destruct (is_live _ j) eqn:E; [|reflexivity]. apply is_live_drop in E. destruct E as (E1 & E2).
      destruct Hj; congruence. }
    destruct Hc as [Hc|[<-|[]]].
    + destruct (C c Hc) as (C1 & C2). split; [exact C1|]. apply D. right. exact C2.
    + cbn. split; [exact K|]. apply D. left. reflexivity.
  - intros H. destruct (St H) as (-> & ->). split; reflexivity.
Qed.

Lemma GI_maplive : forall s g, (forall t, kid (g t) = kid t /\ kkind (g t) = kkind t) -> GI s ->
  GI (with_live (map g (live s)) (cbs s) s).
Proof.
  intros s g Hg [T N F C St]. destruct s as [d x q rm o1 o2 lv cb nx sp]. unfold tracked in *. cbn in *.
  assert (M : map kid (map g lv) = map kid lv) by (rewrite map_map; apply map_ext; intros; apply Hg).
  constructor; cbn.
  - intros t Ht. apply in_map_iff in Ht. destruct Ht as (a & <- & Ha). destruct (Hg a) as (-> & ->). apply (T a Ha).
  - rewrite M. exact N.
  - intros t Ht. apply in_map_iff in Ht. destruct Ht as (a & <- & Ha). destruct (Hg a) as (-> & _). apply F. exact Ha.
  - intros c Hc. destruct (C c Hc) as (C1 & C2). split; [exact C1|].
    unfold is_live in *. cbn in *. rewrite <- C2. clear - Hg. induction lv as [|a r IH]; cbn; [reflexivity|].
    destruct (Hg a) as (-> & _). rewrite IH. reflexivity.
  - intros H. destruct (St H) as (-> & ->). split; reflexivity.
Qed.

Lemma GI_donecb : forall s k kd, GI s -> In (k, kd) (cbs s) ->
  let s1 := with_live (live s) (filter (fun c => negb (fst c =? k)) (cbs s)) s in
  GI s1 /\ (get_slot kd s1 = Some k -> GI (set_slot kd None s1)).
Proof.
  intros s k kd [T N F C St] Hk. destruct s as [d x q rm o1 o2 lv cb nx sp]. unfold tracked in *. cbn in *.
  assert (G1 : GI (mkSt d x q rm o1 o2 lv (filter (fun c => negb (fst c =? k)) cb) nx sp)).
  { constructor; cbn; auto. intros c Hc. apply filter_In in Hc. apply C. tauto. }
  split; [exact G1|]. intros E. destruct (C _ Hk) as (_ & NL). cbn in NL.
  assert (NLk : forall t, In t lv -> kid t <> k).
  { intros t Ht Ek. assert (is_live (mkSt d x q rm o1 o2 lv cb nx sp) k = true) by (apply is_live_In; eauto). unfold is_live in *; cbn in *; congruence. }
  destruct G1 as [T1 N1 F1 C1 S1]. unfold tracked in *. cbn in *.
  destruct kd; cbn in *; (constructor; cbn; auto;
    intros t Ht; specialize (T1 t Ht); specialize (NLk t Ht); destruct (kkind t) eqn:K; cbn in *; auto;
    exfalso; congruence).
Qed.

Lemma GI_cancel : forall s0 kd, GI s0 -> GI (cancel_slot true kd s0) /\
  (forall t, In t (live (cancel_slot true kd s0)) -> In t (live s0) /\ kkind t <> kd) /\
  sstate (cancel_slot true kd s0) = sstate s0 /\ srq (cancel_slot true kd s0) = srq s0 /\
  sremoved (cancel_slot true kd s0) = sremoved s0 /\ stopped (cancel_slot true kd s0) = stopped s0.
Proof.
  intros s0 kd G0. unfold cancel_slot. destruct (get_slot kd s0) as [k|] eqn:E.
  - destruct (is_live s0 k) eqn:L.
    + apply is_live_In in L. destruct L as (t0 & H0 & E0).
      split; [apply GI_finish; [exact G0|]; subst; apply (gi_fresh _ G0); exact H0|].
      split; [|destruct s0; cbn; auto].
      intros t Ht. cbn in Ht. apply drop_In in Ht. destruct Ht as (Ht & Nk). split; [exact Ht|].
      intros K. pose proof (gi_tracked _ G0 t Ht) as Tt. rewrite K, E in Tt. congruence.
    + split; [exact G0|]. split; [|auto]. intros t Ht. split; [exact Ht|]. intros K.
      pose proof (gi_tracked _ G0 t Ht) as Tt. rewrite K, E in Tt. inversion Tt; subst.
      assert (is_live s0 (kid t) = true) by (apply is_live_In; eauto). congruence.
  - split; [exact G0|]. split; [|auto]. intros t Ht. split; [exact Ht|]. intros K.
    pose proof (gi_tracked _ G0 t Ht) as Tt. rewrite K, E in Tt. discriminate.
Qed.

Lemma GI_cancel_both : forall s, GI s ->
  let s2 := cancel_slot true TR (cancel_slot true RQ s) in
  GI s2 /\ live s2 = [] /\ sstate s2 = sstate s /\ sremoved s2 = sremoved s /\ stopped s2 = stopped s.
Proof.
  intros s G. cbn zeta.
  destruct (GI_cancel s RQ G) as (G1 & L1 & A1 & _ & A3 & A4).
  destruct (GI_cancel _ TR G1) as (G2 & L2 & B1 & _ & B3 & B4).
  set (s2 := cancel_slot true TR (cancel_slot true RQ s)) in *.
  split; [exact G2|]. split; [|repeat split; congruence].
  assert (N : forall t, ~ In t (live s2)).
  { intros t Ht. destruct (L2 t Ht) as (H2 & K2). destruct (L1 t H2) as (_ & K1). destruct (kkind t); congruence. }
  destruct (live s2) as [|t r]; [reflexivity|]. exfalso. apply (N t). cbn. auto.
Qed.

Lemma GI_stop : forall f s, c_rq f = true -> c_tr f = true -> GI s -> GI (do_stop f s) /\
  (stoppable s = true -> live (do_stop f s) = [] /\ stopped (do_stop f s) = true /\ sstate (do_stop f s) = Stopped).
Proof.
  intros f s Crq Ctr G. unfold do_stop. destruct (stoppable s) eqn:SP; [|split; [exact G|discriminate]].
  rewrite Crq, Ctr.
  (* after the two cancellations no task is live *)
  assert (A : forall s0 kd, GI s0 -> GI (cancel_slot true kd s0) /\
             (forall t, In t (live (cancel_slot true kd s0)) -> In t (live s0) /\ kkind t <> kd) /\
             sstate (cancel_slot true kd s0) = sstate s0 /\ srq (cancel_slot true kd s0) = srq s0
             /\ sremoved (cancel_slot true kd s0) = sremoved s0).
  { intros s0 kd G0. unfold cancel_slot. destruct (get_slot kd s0) as [k|] eqn:E.
    - destruct (is_live s0 k) eqn:L.
      + apply is_live_In in L. destruct L as (t0 & H0 & E0).
        split; [apply GI_finish; [exact G0|]; subst; apply (gi_fresh _ G0); exact H0|].
        split; [|destruct s0; cbn; auto].
        intros t Ht. cbn in Ht. apply drop_In in Ht. destruct Ht as (Ht & Nk). split; [exact Ht|].
        intros K. pose proof (gi_tracked _ G0 t Ht) as Tt. rewrite K, E in Tt. congruence.
      + split; [exact G0|]. split; [|auto]. intros t Ht. split; [exact Ht|]. intros K.
        pose proof (gi_tracked _ G0 t Ht) as Tt. rewrite K, E in Tt. inversion Tt; subst.
        assert (is_live s0 (kid t) = true) by (apply is_live_In; eauto). congruence.
    - split; [exact G0|]. split; [|auto]. intros t Ht. split; [exact Ht|]. intros K.
      pose proof (gi_tracked _ G0 t Ht) as Tt. rewrite K, E in Tt. discriminate. }
  destruct (A s RQ G) as (G1 & L1 & _).
  destruct (A (cancel_slot true RQ s) TR G1) as (G2 & L2 & _).
  set (s2 := cancel_slot true TR (cancel_slot true RQ s)) in *.
  assert (E : live s2 = []).
  { destruct (live s2) as [|t r] eqn:Lv; [reflexivity|]. exfalso.
    destruct (L2 t) as (H2 & K2); [cbn; auto|]. destruct (L1 t H2) as (_ & K1). destruct (kkind t); congruence. }
  destruct G2 as [T2 N2 F2 C2 S2]. destruct s2 as [d x q rm o1 o2 lv cb nx sp]. unfold tracked in *. cbn in *. subst lv.
  split; [|auto]. constructor; cbn; auto.
Qed.

Lemma GI_with_stop_same : forall s r, GI s -> GI (with_stop r (stopped s) s).
Proof. intros s r [T N F C St]. destruct s; unfold tracked in *; cbn in *. constructor; cbn; auto. Qed.

Lemma GI_requeue : forall s r x q, GI s -> GI (with_stop r false (with_state x q s)).
Proof.
  intros s r x q [T N F C St]. destruct s; unfold tracked in *; cbn in *. constructor; cbn; auto. intros; discriminate.
Qed.

Lemma stopped_no_task : forall s k, GI s -> stopped s = true -> find_task s k = None.
Proof. intros s k G H. apply find_task_nil. apply (gi_stop _ G H). Qed.

Lemma task_not_stopped : forall s k t, GI s -> find_task s k = Some t -> stopped s = false /\ k < next s.
Proof.
  intros s k t G H. split.
  - destruct (stopped s) eqn:E; [|reflexivity]. rewrite (stopped_no_task s k G E) in H. discriminate.
  - apply find_task_some in H. destruct H as (H & <-). apply (gi_fresh _ G). exact H.
Qed.

Lemma queued_not_stopped : forall s, GI s -> sstate s = Queued -> stopped s = false.
Proof.
  intros s G H. destruct (stopped s) eqn:E; [|reflexivity]. destruct (gi_stop _ G E) as (_ & E2). congruence.
Qed.

Lemma GI_task_queue : forall s, GI s -> stopped s = false -> GI (task_queue s).
Proof. intros s G NS. unfold task_queue. destruct (sstate s); auto using GI_with_state. Qed.

Lemma next_with_state : forall s x q, next (with_state x q s) = next s.
Proof. intros; destruct s; reflexivity. Qed.
Lemma next_task_queue : forall s, next (task_queue s) = next s.
Proof. intros s. unfold task_queue. destruct (sstate s); auto using next_with_state. Qed.

Lemma GI_step : forall f s e, all_guards f = true -> c_rq f = true -> c_tr f = true -> GI s ->
  GI (fst (step f s e)) /\ (stopped s = true -> snd (step f s e) = []).
Proof.
  intros f s e AG Crq Ctr G. unfold all_guards in AG. repeat (apply andb_true_iff in AG; destruct AG as (AG & ?)).
  rename AG into G1, H1 into G2, H0 into G3, H into G4.
  destruct e; cbn [step].
  - (* Cycle *) destruct (sremoved s); [auto|]. rewrite G1, G2. cbn [negb orb].
    destruct (sdir s), (sstate s) eqn:E; cbn [fst snd]; auto.
    + destruct (slot_free s (slot_tr s)) eqn:SF; cbn [fst snd]; auto.
      split; auto. apply (GI_create s TR); auto using queued_not_stopped.
    + destruct (negb (srq s) && slot_free s (slot_rq s)) eqn:SF; cbn [fst snd]; auto.
      apply andb_true_iff in SF. split; auto. apply (GI_create s RQ); [auto|auto using queued_not_stopped|tauto].
  - (* Start *) destruct (find_task s k) as [[i kd p]|] eqn:Ft; [|auto]. destruct (task_not_stopped s k _ G Ft) as (NS & Kn).
    destruct p; [|split; [auto|congruence]].
    set (g := fun t => if kid t =? k then mkTask (kid t) (kkind t) Running else t).
    assert (Gm : GI (with_live (map g (live s)) (cbs s) s)).
    { apply GI_maplive; auto. intros t. unfold g. destruct (kid t =? k); auto. }
    assert (NS' : stopped (with_live (map g (live s)) (cbs s) s) = false) by (destruct s; exact NS).
    destruct kd; cbn [fst snd]; [split; [exact Gm|congruence]|].
    destruct (sstate s); cbn [fst snd]; (split; [auto using GI_with_state|congruence]).
  - (* Deliver *) destruct (find_task s k) as [[i kd p]|] eqn:Ft; [|auto]. destruct (task_not_stopped s k _ G Ft) as (NS & Kn).
    destruct kd, p; cbn [fst snd]; try (split; [auto|congruence]).
    apply GI_finish; [apply GI_with_state; auto|rewrite next_with_state; exact Kn].
  - (* ConnFail *) destruct (find_task s k) as [[i kd p]|] eqn:Ft; [|auto]. destruct (task_not_stopped s k _ G Ft) as (NS & Kn).
    destruct p; cbn [fst snd]; (split; [|congruence]); auto.
    apply GI_finish; [apply GI_task_queue; auto|rewrite next_task_queue; exact Kn].
  - (* Begin *) destruct (find_task s k) as [[i kd p]|] eqn:Ft; [|auto]. destruct (task_not_stopped s k _ G Ft) as (NS & Kn).
    destruct kd, p; cbn [fst snd]; try (split; [auto|congruence]).
    destruct (sstate s); cbn [fst snd]; auto using GI_with_state.
  - (* Interrupt *) destruct (find_task s k) as [[i kd p]|] eqn:Ft; [|auto]. destruct (task_not_stopped s k _ G Ft) as (NS & Kn).
    destruct kd, p; cbn [fst snd]; (split; [|congruence]); auto.
    apply GI_finish; [destruct (sstate s); auto using GI_with_state|destruct (sstate s); try rewrite next_with_state; exact Kn].
  - (* Finish *) destruct (find_task s k) as [[i kd p]|] eqn:Ft; [|auto]. destruct (task_not_stopped s k _ G Ft) as (NS & Kn).
    destruct kd, p; cbn [fst snd]; (split; [|congruence]); auto.
    apply GI_finish; [destruct (sstate s); auto using GI_with_state|destruct (sstate s); try rewrite next_with_state; exact Kn].
  - (* Fail *) destruct (find_task s k) as [[i kd p]|] eqn:Ft; [|auto]. destruct (task_not_stopped s k _ G Ft) as (NS & Kn).
    destruct kd, p; cbn [fst snd]; try (split; [auto|congruence]).
    destruct (sstate s); cbn [fst snd]; auto using GI_with_state.
  - (* End_ *) destruct (find_task s k) as [[i kd p]|] eqn:Ft; [|auto]. destruct (task_not_stopped s k _ G Ft) as (NS & Kn).
    destruct kd, p; cbn [fst snd]; (split; [|congruence]); auto. apply GI_finish; auto.
  - (* DoneCb *) destruct (find (fun c => fst c =? k) (cbs s)) as [[k' kd]|] eqn:Fc; [|auto].
    apply find_some in Fc. destruct Fc as (Hin & Ek). cbn in Ek. apply Nat.eqb_eq in Ek. subst k'.
    destruct (GI_donecb s k kd G Hin) as (Ga & Gb). cbn zeta in Ga, Gb. rewrite G4.
    destruct (get_slot kd _) as [j|] eqn:Gs; cbn [fst snd]; [|auto].
    destruct (j =? k) eqn:Ej; cbn [fst snd]; [|auto]. apply Nat.eqb_eq in Ej. subst j. auto.
  - (* Abort *) destruct (sremoved s); cbn [fst snd]; [auto|]. split; [apply (GI_stop f s); auto|auto].
  - (* Pause *) destruct (sremoved s); cbn [fst snd]; [auto|]. split; [apply (GI_stop f s); auto|auto].
  - (* Remove *) destruct (sremoved s); cbn [fst snd]; [auto|]. split; [|auto].
    rewrite Crq, Ctr. destruct (rm_cancels f).
    + apply GI_with_stop_same. apply GI_cancel_both. apply (GI_stop f s); auto.
    + apply GI_with_stop_same. apply (GI_stop f s); auto.
  - (* Requeue *) destruct (sremoved s); cbn [fst snd]; [auto|]. destruct (sstate s); cbn [fst snd]; auto using GI_requeue.
  - (* PeerMsg *) destruct (sremoved s); [auto|]. rewrite G3. cbn [negb orb].
    destruct (sdir s), (sstate s) eqn:E; cbn [fst snd]; auto using GI_requeue.
    destruct (slot_free s (slot_tr s)) eqn:SF; cbn [fst snd]; auto.
    split; auto. apply (GI_create s TR); auto using queued_not_stopped.
Qed.

Lemma GI_init : forall d, GI (init d).
Proof. intros d. constructor; cbn; try (intros ? []); [constructor|discriminate]. Qed.

Lemma nlive_le1 : forall s kd, GI s -> n_live kd s <= 1.
Proof.
  intros s kd G. unfold n_live.
  assert (A : forall t, In t (filter (fun t => eqb_kind (kkind t) kd) (live s)) -> Some (kid t) = get_slot kd s).
  { intros t Ht. apply filter_In in Ht. destruct Ht as (Ht & K). rewrite <- (gi_tracked _ G t Ht).
    destruct (kkind t), kd; cbn in K; congruence. }
  pose proof (NoDup_map_filter _ _ kid (fun t => eqb_kind (kkind t) kd) (live s) (gi_nodup _ G)) as N.
  destruct (filter (fun t => eqb_kind (kkind t) kd) (live s)) as [|a [|b r]]; cbn; try lia.
  exfalso. cbn in N. apply NoDup_cons_iff in N. destruct N as (N & _). apply N. left.
  assert (Some (kid a) = Some (kid b)) by (rewrite (A a), (A b); cbn; auto). congruence.
Qed.

Lemma guarded_run : forall f evs s, all_guards f = true -> c_rq f = true -> c_tr f = true -> GI s ->
  single_flight_b f s evs = true /\ after_stop_obs f s evs = [] /\ GI (run f s evs).
Proof.
  intros f evs. induction evs as [|e r IH]; intros s AG Crq Ctr G.
  - cbn. pose proof (nlive_le1 s RQ G). pose proof (nlive_le1 s TR G).
    split; [|auto]. apply andb_true_iff; split; [apply andb_true_iff; split; apply Nat.leb_le; auto|reflexivity].
  - destruct (GI_step f s e AG Crq Ctr G) as (G' & O). destruct (IH _ AG Crq Ctr G') as (A & B & C).
    pose proof (nlive_le1 s RQ G). pose proof (nlive_le1 s TR G).
    cbn [single_flight_b after_stop_obs run]. destruct (step f s e) as [s' o] eqn:Es. cbn [fst snd] in *.
    split; [|split; [|exact C]].
    + rewrite A. apply andb_true_iff; split; [apply andb_true_iff; split; apply Nat.leb_le; auto|reflexivity].
    + rewrite B. destruct (stopped s); [rewrite O; reflexivity|reflexivity].
Qed.

(* ---- what holds for ANY discipline (in particular today's) ---------------------------------- *)
Lemma is_live_finish : forall s j kd k, is_live (finish_task j kd s) k = true <-> is_live s k = true /\ k <> j.
Proof.
  intros s j kd k. rewrite !is_live_In. split.
  - intros (t & Ht & E). cbn in Ht. apply drop_In in Ht. split; [exists t; tauto|subst; tauto].
  - intros ((t & Ht & E) & N). exists t. split; [|exact E]. cbn. apply drop_In. subst. tauto.
Qed.

Lemma cancel_slot_spec : forall s kd,
  let s' := cancel_slot true kd s in
  (forall k, is_live s' k = true -> is_live s k = true) /\
  (forall k, get_slot kd s = Some k -> is_live s' k = false) /\
  slot_rq s' = slot_rq s /\ slot_tr s' = slot_tr s /\ sstate s' = sstate s /\ sremoved s' = sremoved s /\
  (tracked s -> tracked s' /\ forall t, In t (live s') -> kkind t <> kd).
Proof.
  intros s kd. cbn zeta. unfold cancel_slot. destruct (get_slot kd s) as [k|] eqn:E.
  - destruct (is_live s k) eqn:L.
    + split; [intros j H; apply is_live_finish in H; tauto|].
      split; [intros j Ej; inversion Ej; subst; destruct (is_live (finish_task j kd s) j) eqn:X; auto;
              apply is_live_finish in X; tauto|].
      repeat (split; [destruct s; reflexivity|]).
      intros T. split.
      * intros t Ht. cbn in Ht. apply drop_In in Ht. destruct s; apply (T t); tauto.
      * intros t Ht K. cbn in Ht. apply drop_In in Ht. destruct Ht as (Ht & Nk).
        pose proof (T t Ht) as Tt. rewrite K, E in Tt. congruence.
    + split; [auto|]. split; [intros j Ej; congruence|]. repeat (split; [reflexivity|]).
      intros T. split; [exact T|]. intros t Ht K. pose proof (T t Ht) as Tt. rewrite K, E in Tt.
      inversion Tt; subst. assert (is_live s (kid t) = true) by (apply is_live_In; eauto). congruence.
  - split; [auto|]. split; [discriminate|]. repeat (split; [reflexivity|]).
    intros T. split; [exact T|]. intros t Ht K. pose proof (T t Ht) as Tt. rewrite K, E in Tt. discriminate.
Qed.

Lemma cancel_slot_incl : forall s kd t, In t (live (cancel_slot true kd s)) -> In t (live s).
Proof.
  intros s kd t H. unfold cancel_slot in H. destruct (get_slot kd s); [|exact H].
  destruct (is_live s n); [|exact H]. cbn in H. apply drop_In in H. tauto.
Qed.

Lemma cancel_reaches_slot : forall f s, c_rq f = true -> c_tr f = true -> stoppable s = true ->
  let s' := do_stop f s in
  (forall k, slot_rq s = Some k \/ slot_tr s = Some k -> is_live s' k = false) /\
  stopped s' = true /\ sstate s' = Stopped /\ (tracked s -> live s' = []).
Proof.
  intros f s Crq Ctr SP. cbn zeta. unfold do_stop. rewrite SP, Crq, Ctr.
  destruct (cancel_slot_spec s RQ) as (A1 & A2 & A3 & A4 & A5 & A6 & A7).
  destruct (cancel_slot_spec (cancel_slot true RQ s) TR) as (B1 & B2 & B3 & B4 & B5 & B6 & B7).
  set (s2 := cancel_slot true TR (cancel_slot true RQ s)) in *.
  assert (L : forall k, is_live (with_stop (sremoved s2) true (with_state Stopped (srq s2) s2)) k = is_live s2 k)
    by (intros; destruct s2; reflexivity).
  split; [|split; [destruct s2; reflexivity|split; [destruct s2; reflexivity|]]].
  - intros k [H|H]; rewrite L.
    + destruct (is_live s2 k) eqn:X; auto. apply B1 in X. rewrite (A2 k H) in X. discriminate.
    + apply B2. change (slot_tr (cancel_slot true RQ s) = Some k). rewrite A4. exact H.
  - intros T. destruct (A7 T) as (T1 & K1). destruct (B7 T1) as (T2 & K2).
    assert (E : live s2 = []).
    { destruct (live s2) as [|t r] eqn:Lv; [reflexivity|]. exfalso.
      assert (Ht : In t (live s2)) by (rewrite Lv; cbn; auto).
      specialize (K2 t (or_introl eq_refl)). assert (Ht1 : In t (live (cancel_slot true RQ s))).
      { apply (cancel_slot_incl _ TR). exact Ht. }
      specialize (K1 t Ht1). destruct (kkind t); congruence. }
    destruct s2; cbn in *. exact E.
Qed.

Lemma cancel_slot_nil : forall b kd s, live s = [] -> cancel_slot b kd s = s.
Proof.
  intros b kd s L. unfold cancel_slot. destruct b; [|reflexivity]. destruct (get_slot kd s); [|reflexivity].
  unfold is_live. rewrite L. reflexivity.
Qed.

Lemma quiet_run : forall f evs s, live s = [] -> sstate s = Stopped -> no_requeue evs = true ->
  after_stop_obs f s evs = [].
Proof.
  intros f evs. induction evs as [|e r IH]; intros s L S NR; [reflexivity|].
  cbn [after_stop_obs].
  assert (K : live (fst (step f s e)) = [] /\ sstate (fst (step f s e)) = Stopped /\ snd (step f s e) = [] /\ no_requeue r = true).
  { destruct e; cbn [step no_requeue] in *; try discriminate;
      try (rewrite (find_task_nil s k L); cbn; auto).
    - destruct (sremoved s); [auto|]. rewrite S. destruct (sdir s); cbn; auto.
    - destruct (find (fun c => fst c =? k) (cbs s)) as [[k' kd]|]; [|cbn; auto].
      destruct (cb_cond f); [destruct (get_slot kd _) as [j|]; [destruct (j =? k)|]|];
        destruct s, kd; cbn in *; auto.
    - destruct (sremoved s); cbn; auto. unfold do_stop, stoppable. rewrite S. auto.
    - destruct (sremoved s); cbn; auto. unfold do_stop, stoppable. rewrite S. auto.
    - destruct (sremoved s); cbn; auto.
      assert (D : do_stop f s = s) by (unfold do_stop, stoppable; rewrite S; reflexivity). rewrite D.
      destruct (rm_cancels f); [rewrite (cancel_slot_nil _ RQ s L), (cancel_slot_nil _ TR s L)|]; destruct s; cbn in *; auto. }
  destruct (step f s e) as [s' o]. cbn [fst snd] in K. destruct K as (K1 & K2 & K3 & K4). subst o.
  rewrite (IH s' K1 K2 K4). destruct (stopped s); reflexivity.
Qed.

Lemma quiescent_partial : forall f s evs e, c_rq f = true -> c_tr f = true ->
  tracked s -> stoppable s = true -> sremoved s = false -> In e [Abort; Pause; Remove] -> no_requeue evs = true ->
  let s' := fst (step f s e) in stopped s' = true /\ live s' = [] /\ after_stop_obs f s' evs = [].
Proof.
  intros f s evs e Crq Ctr T SP NRm He NR. cbn zeta.
  destruct (cancel_reaches_slot f s Crq Ctr SP) as (_ & A & B & C). specialize (C T).
  assert (X : stopped (fst (step f s e)) = true /\ live (fst (step f s e)) = [] /\ sstate (fst (step f s e)) = Stopped).
  { destruct He as [<-|[<-|[<-|[]]]]; cbn [step]; rewrite NRm; cbn [fst]; auto.
    destruct (rm_cancels f); [rewrite (cancel_slot_nil _ RQ _ C), (cancel_slot_nil _ TR _ C)|]; destruct (do_stop f s); cbn in *; auto. }
  destruct X as (X1 & X2 & X3). split; [exact X1|]. split; [exact X2|]. apply quiet_run; auto.
Qed.

(* ---- today's discipline: counterexamples ------------------------------------------------------ *)
Definition W1 : list event := [Cycle; Start 0; Cycle; Abort; Deliver 0].
Definition W2 : list event := [Cycle; Start 0; ConnFail 0; Cycle; DoneCb 0; Start 1; Abort; Deliver 1].
Definition W3 : list event := [Cycle; Cycle; Start 0; Start 1; Abort; Deliver 0].
Definition W4 : list event := [PeerMsg; PeerMsg; Start 0; Start 1; Abort; Deliver 0].
(* an orphaned attempt that FAILS after the abort re-queues the aborted transfer *)
Definition W5 : list event := [Cycle; Start 0; Cycle; Abort; ConnFail 0].

Lemma fix_characterisation : forall f, c_rq f = true -> c_tr f = true ->
  if all_guards f
  then forall d evs, single_flight_b f (init d) evs = true /\ after_stop_obs f (init d) evs = [] /\
                     tracked (run f (init d) evs)
  else exists d evs, after_stop_obs f (init d) evs <> [].
Proof.
  intros [a b c d e g rm] H1 H2. cbn in H1, H2. subst e g.
  destruct (all_guards (mkF a b c d true true rm)) eqn:AG.
  - intros dr evs. destruct (guarded_run _ evs (init dr) AG eq_refl eq_refl (GI_init dr)) as (A & B & C).
    split; [exact A|split; [exact B|exact (gi_tracked _ C)]].
  - destruct a, b, c, d; try discriminate AG;
      first [ exists Down, W1; vm_compute; discriminate
            | exists Up, W2; vm_compute; discriminate
            | exists Up, W3; vm_compute; discriminate
            | exists Down, W4; vm_compute; discriminate ].
Qed.

(* ---- remove(): the transfer leaves the list; abort is attempted first but is refused (and the refusal
   swallowed) for COMPLETE/FAILED/ABORTED/PAUSED transfers, in which case nothing is cancelled ---------- *)
Lemma removed_quiet : forall f evs s, sremoved s = true -> live s = [] -> after_remove_obs f s evs = [].
Proof.
  intros f evs. induction evs as [|e r IH]; intros s R L; [reflexivity|].
  cbn [after_remove_obs].
  assert (K : sremoved (fst (step f s e)) = true /\ live (fst (step f s e)) = [] /\ snd (step f s e) = []).
  { destruct e; cbn [step]; rewrite ?R; try (rewrite (find_task_nil s k L)); cbn; auto.
    destruct (find (fun c => fst c =? k) (cbs s)) as [[k' kd]|]; [|cbn; auto].
    destruct (cb_cond f); [destruct (get_slot kd _) as [j|]; [destruct (j =? k)|]|];
      destruct s, kd; cbn in *; auto. }
  destruct (step f s e) as [s' o]. cbn [fst snd] in K. destruct K as (K1 & K2 & K3). subst o.
  rewrite (IH s' K1 K2). destruct (sremoved s); reflexivity.
Qed.

Lemma remove_partial : forall f s evs, c_rq f = true -> c_tr f = true -> tracked s -> sremoved s = false ->
  (stoppable s = true \/ live s = []) -> after_remove_obs f (fst (step f s Remove)) evs = [].
Proof.
  intros f s evs Crq Ctr T NR H. cbn [step]. rewrite NR. cbn [fst].
  assert (L : live (do_stop f s) = []).
  { destruct (stoppable s) eqn:SP.
    - destruct (cancel_reaches_slot f s Crq Ctr SP) as (_ & _ & _ & C). exact (C T).
    - destruct H as [?|L]; [discriminate|]. unfold do_stop. rewrite SP. exact L. }
  destruct (rm_cancels f); [rewrite (cancel_slot_nil _ RQ _ L), (cancel_slot_nil _ TR _ L)|]; apply removed_quiet;
    destruct (do_stop f s); cbn in *; auto.
Qed.

(* ---- the repaired remove(): whatever the state, nothing of the transfer is live afterwards ------------ *)
Lemma sremoved_cancel : forall b kd s, sremoved (cancel_slot b kd s) = sremoved s.
Proof.
  intros b kd s. unfold cancel_slot. destruct b; [|reflexivity]. destruct (get_slot kd s); [|reflexivity].
  destruct (is_live s n); [|reflexivity]. destruct s as [d x q rm o1 o2 lv cb nx sp]. reflexivity.
Qed.

Lemma sremoved_with_stop : forall r b x, sremoved (with_stop r b x) = r.
Proof. intros r b [d x q rm o1 o2 lv cb nx sp]. reflexivity. Qed.

Lemma sremoved_do_stop : forall f s, sremoved (do_stop f s) = sremoved s.
Proof.
  intros f s. unfold do_stop. destruct (stoppable s); [|reflexivity].
  rewrite sremoved_with_stop, !sremoved_cancel. reflexivity.
Qed.

Lemma sremoved_step : forall f s e, e <> Remove -> sremoved (fst (step f s e)) = sremoved s.
Proof.
  intros f s e N. destruct e; try congruence; cbn [step].
  - destruct (sremoved s) eqn:R; [cbn; auto|]. destruct (sdir s), (sstate s); cbn [fst];
      repeat match goal with |- context [if ?c then _ else _] => destruct c end; cbn; destruct s; cbn in *; auto.
  - destruct (find_task s k) as [[i kd p]|]; [|reflexivity]. destruct p; [|reflexivity].
    destruct kd; [destruct s; reflexivity|]. destruct (sstate s); destruct s; reflexivity.
  - destruct (find_task s k) as [[i kd p]|]; [|reflexivity]. destruct kd, p; destruct s; reflexivity.
  - destruct (find_task s k) as [[i kd p]|]; [|reflexivity]. destruct p; [reflexivity|].
    unfold task_queue. destruct (sstate s); destruct s; reflexivity.
  - destruct (find_task s k) as [[i kd p]|]; [|reflexivity]. destruct kd, p; try reflexivity.
    destruct (sstate s); destruct s; reflexivity.
  - destruct (find_task s k) as [[i kd p]|]; [|reflexivity]. destruct kd, p; try reflexivity.
    destruct (sstate s); destruct s; reflexivity.
  - destruct (find_task s k) as [[i kd p]|]; [|reflexivity]. destruct kd, p; try reflexivity.
    destruct (sstate s); destruct s; reflexivity.
  - destruct (find_task s k) as [[i kd p]|]; [|reflexivity]. destruct kd, p; try reflexivity.
    destruct (sstate s); destruct s; reflexivity.
  - destruct (find_task s k) as [[i kd p]|]; [|reflexivity]. destruct kd, p; try reflexivity; try (destruct s; reflexivity).
  - destruct (find (fun c => fst c =? k) (cbs s)) as [[k' kd]|]; [|reflexivity].
    destruct (cb_cond f); [destruct (get_slot kd _) as [j|]; [destruct (j =? k)|]|]; destruct s, kd; reflexivity.
  - destruct (sremoved s) eqn:R; [cbn; auto|]. cbn [fst]. rewrite sremoved_do_stop. exact R.
  - destruct (sremoved s) eqn:R; [cbn; auto|]. cbn [fst]. rewrite sremoved_do_stop. exact R.
  - destruct (sremoved s) eqn:R; [cbn; auto|]. destruct (sstate s); destruct s; cbn in *; auto.
  - destruct (sremoved s) eqn:R; [cbn; auto|]. destruct (sdir s), (sstate s); cbn [fst];
      repeat match goal with |- context [if ?c then _ else _] => destruct c end; cbn; destruct s; cbn in *; auto.
Qed.

Lemma removed_run : forall f evs s, all_guards f = true -> c_rq f = true -> c_tr f = true -> rm_cancels f = true ->
  GI s -> (sremoved s = true -> live s = []) -> after_remove_obs f s evs = [].
Proof.
  intros f evs. induction evs as [|e r IH]; intros s AG Crq Ctr Rm G RI; [reflexivity|].
  destruct (sremoved s) eqn:R.
  - (* already removed: nothing live, nothing will be *)
    exact (removed_quiet f (e :: r) s R (RI eq_refl)).
  - cbn [after_remove_obs]. rewrite R. destruct (GI_step f s e AG Crq Ctr G) as (G' & _).
    assert (RI' : sremoved (fst (step f s e)) = true -> live (fst (step f s e)) = []).
    { destruct e; try (rewrite sremoved_step by discriminate; congruence).
      intros _. cbn [step]. rewrite R, Rm, Crq, Ctr. cbn [fst].
      destruct (GI_cancel_both (do_stop f s) (proj1 (GI_stop f s Crq Ctr G))) as (_ & L & _).
      destruct (cancel_slot true TR _); cbn in *; exact L. }
    destruct (step f s e) as [s' o]. cbn [fst] in *. rewrite (IH s' AG Crq Ctr Rm G' RI'). reflexivity.
Qed.

(* a download whose own remote-queue attempt is still connecting is completed through a transfer the peer
   initiated; remove() then cancels nothing and the attempt still delivers PeerTransferQueue *)
Definition W6 : list event := [Cycle; Start 0; PeerMsg; Start 1; Begin 1; Finish 1; DoneCb 1; Remove; Deliver 0].

(* ---- a cycle inside a running stop call ------------------------------------------------------------ *)
Record IJ (s : ist) : Prop := mkIJ {
  ij_tracked : forall t, In t (i_live s) -> i_slot s = Some (fst t);
  ij_locked : i_locked s = true -> i_queued s = true /\ forall t, In t (i_live s) -> snd t = ICancelling;
  ij_stopped : i_stopped s = true -> i_live s = [] /\ i_queued s = false /\ i_locked s = false }.

Lemma i_free_nil : forall s, IJ s -> i_slot_free s = true -> i_live s = [].
Proof.
  intros s J F. destruct (i_live s) as [|t r] eqn:L; [reflexivity|]. exfalso.
  assert (Ht : In t (i_live s)) by (rewrite L; cbn; auto).
  pose proof (ij_tracked s J t Ht) as E. unfold i_slot_free in F. rewrite E in F.
  apply negb_true_iff in F. unfold i_is_live in F. rewrite L in F. cbn in F. rewrite Nat.eqb_refl in F. discriminate.
Qed.

Lemma IJ_step : forall s e, IJ s -> IJ (fst (istep true s e)) /\ (i_stopped s = true -> snd (istep true s e) = []).
Proof.
  intros s e J. pose proof J as [T L S]. destruct e; cbn [istep].
  - (* ICycle *) cbn [negb orb]. destruct (i_queued s && i_slot_free s && negb (i_locked s)) eqn:C; cbn [fst snd]; [|auto].
    apply andb_true_iff in C. destruct C as (C & NL). apply andb_true_iff in C. destruct C as (Q & F).
    apply negb_true_iff in NL. pose proof (i_free_nil s J F) as E. split; [|auto].
    constructor; cbn.
    + rewrite E. intros t [<-|[]]. reflexivity.
    + intros H. congruence.
    + intros H. destruct (S H) as (_ & Q' & _). congruence.
  - (* IStopBegin *) destruct (i_queued s && negb (i_locked s)) eqn:C; cbn [fst snd]; [|auto].
    apply andb_true_iff in C. destruct C as (Q & NL). split; [|auto]. constructor; cbn.
    + intros t Ht. apply in_map_iff in Ht. destruct Ht as (a & <- & Ha). specialize (T a Ha).
      destruct (match i_slot s with Some k => fst a =? k | None => false end); cbn; exact T.
    + intros _. split; [reflexivity|]. intros t Ht. apply in_map_iff in Ht. destruct Ht as (a & <- & Ha).
      rewrite (T a Ha). rewrite Nat.eqb_refl. reflexivity.
    + intros H. destruct (S H) as (_ & Q' & _). congruence.
  - (* IReap *) cbn [fst snd]. split; [|auto]. constructor; cbn.
    + intros t Ht. apply filter_In in Ht. apply T. tauto.
    + intros H. destruct (L H) as (Q & A). split; [exact Q|]. intros t Ht. apply filter_In in Ht. apply A. tauto.
    + intros H. destruct (S H) as (E & Q & K). rewrite E. auto.
  - (* IStopEnd *) destruct (i_locked s && forallb _ (i_live s)) eqn:C; cbn [fst snd]; [|auto].
    apply andb_true_iff in C. destruct C as (Lk & F).
    assert (E : i_live s = []).
    { destruct (i_live s) as [|t r] eqn:Lv; [reflexivity|]. exfalso. destruct (L Lk) as (_ & A).
      rewrite forallb_forall in F. specialize (F t (or_introl eq_refl)). rewrite (A t (or_introl eq_refl)) in F. discriminate. }
    split; [|auto].
    constructor; cbn; rewrite ?E; auto. intros t []. intros; discriminate.
  - (* IDeliver *) destruct (existsb _ (i_live s)) eqn:X; cbn [fst snd]; [|auto].
    apply existsb_exists in X. destruct X as (t & Ht & P). apply andb_true_iff in P. destruct P as (_ & P).
    assert (NL : i_locked s = false).
    { destruct (i_locked s) eqn:Lk; [|reflexivity]. destruct (L eq_refl) as (_ & A). rewrite (A t Ht) in P. discriminate. }
    split.
    + constructor; cbn.
      * intros a Ha. apply filter_In in Ha. apply T. tauto.
      * intros H. congruence.
      * intros H. destruct (S H) as (E & _). rewrite E in Ht. destruct Ht.
    + intros H. destruct (S H) as (E & _). rewrite E in Ht. destruct Ht.
  - (* IFail *) destruct (existsb _ (i_live s)) eqn:X; cbn [fst snd]; [|auto].
    apply existsb_exists in X. destruct X as (t & Ht & P). apply andb_true_iff in P. destruct P as (_ & P).
    assert (NL : i_locked s = false).
    { destruct (i_locked s) eqn:Lk; [|reflexivity]. destruct (L eq_refl) as (_ & A). rewrite (A t Ht) in P. discriminate. }
    split.
    + constructor; cbn.
      * intros a Ha. apply filter_In in Ha. apply T. tauto.
      * intros H. congruence.
      * intros H. destruct (S H) as (E & _). rewrite E in Ht. destruct Ht.
    + intros H. destruct (S H) as (E & _). rewrite E in Ht. destruct Ht.
  - (* IRequeue *) destruct (i_queued s) eqn:Q; cbn [fst snd]; [auto|]. split; [|auto]. constructor; cbn; auto.
    + intros H. destruct (L H) as (Q' & _). congruence.
    + intros; discriminate.
Qed.

Lemma IJ_init : IJ i_init.
Proof. constructor; cbn; try (intros ? []); intros; discriminate. Qed.

Lemma interleaved_guarded : forall evs s, IJ s -> i_after_stop_obs true s evs = [] /\ IJ (irun true s evs).
Proof.
  intros evs. induction evs as [|e r IH]; intros s J; [split; [reflexivity|exact J]|].
  destruct (IJ_step s e J) as (J' & O). destruct (IH _ J') as (A & B).
  cbn [i_after_stop_obs irun]. destruct (istep true s e) as [s' o]. cbn [fst snd] in *.
  split; [|exact B]. rewrite A. destruct (i_stopped s); [rewrite O; reflexivity|reflexivity].
Qed.

(* today (no lock test in the cycle): a cycle right after the cancelled task finished, before the stop call
   continues, starts a new attempt that the call never cancels *)
Definition WI : list ievent := [ICycle; IStopBegin; IReap 0; ICycle; IStopEnd; IDeliver 1].
Definition WI' : list ievent := [ICycle; IStopBegin; IReap 0; ICycle; IStopEnd; IFail 1].
