(* C06 property theorems (statements only; proofs are in Proofs.v).
   `cur` is the discipline of the code as it is now, read off transfer/manager.py, model.py and
   state.py by the translator (SlskGen.SlotGen): which creation sites skip an occupied slot, whether
   done-callbacks clear unconditionally, which slots cancel_tasks cancels. *)
From Slsk Require Import Base.Tac.
From SlskGen Require Import SlotGen.
From Slsk Require Import C06.Model C06.Proofs.

(* What IS in a slot when abort/pause/remove is called is cancelled and awaited; the call ends in
   ABORTED/PAUSED; and if every live task was held by its slot, nothing is live afterwards. *)
Theorem C06_cancel_reaches_slot : forall s, stoppable s = true ->
  let s' := do_stop cur s in
  (forall k, slot_rq s = Some k \/ slot_tr s = Some k -> is_live s' k = false) /\
  stopped s' = true /\ sstate s' = Stopped /\ (tracked s -> live s' = []).
Proof. intros s. exact (cancel_reaches_slot cur s eq_refl eq_refl). Qed.

(* Conditional form that holds today: when all live negotiation tasks of the transfer are held by
   its slots at the moment of the call, nothing at all happens for the transfer afterwards (no
   connect, no send, no field change) until a legitimate re-queue. *)
Theorem C06_quiescent_after_stop_partial : forall s evs e,
  tracked s -> stoppable s = true -> sremoved s = false -> In e [Abort; Pause; Remove] -> no_requeue evs = true ->
  let s' := fst (step cur s e) in stopped s' = true /\ live s' = [] /\ after_stop_obs cur s' evs = [].
Proof. intros s evs e. exact (quiescent_partial cur s evs e eq_refl eq_refl). Qed.

(* At most one negotiation per slot: false today.  W1: a second cycle while the first remote-queue
   attempt is still connecting (download). *)
Theorem C06_single_flight_refuted :
  single_flight_b cur (init Down) W1 = false /\ n_live RQ (run cur (init Down) [Cycle; Start 0; Cycle]) = 2.
Proof. vm_compute. auto. Qed.

(* Nothing happens after abort returned: false today.
   W1 (download): the attempt the slot no longer holds delivers PeerTransferQueue and sets remotely_queued.
   W5 (download): the same attempt failing instead re-queues the ABORTED transfer.
   W2 (upload): after a failed upload attempt is re-queued, the next cycle's task is overwritten out of
   the slot by the old task's done-callback; abort cancels nothing and the upload goes on. *)
Theorem C06_quiescent_after_stop_refuted :
  after_stop_obs cur (init Down) W1 = [OSend 0; OField 0] /\
  (after_stop_obs cur (init Down) W5 = [OField 0] /\ sstate (run cur (init Down) W5) = Queued) /\
  (after_stop_obs cur (init Up) W2 = [OSend 1] /\ single_flight_b cur (init Up) W2 = true /\
   slot_tr (run cur (init Up) [Cycle; Start 0; ConnFail 0; Cycle; DoneCb 0]) = None /\
   n_live TR (run cur (init Up) [Cycle; Start 0; ConnFail 0; Cycle; DoneCb 0]) = 1).
Proof. vm_compute. auto 10. Qed.

(* Exactly which discipline repairs it: for EVERY choice of the four flags (slots cancelled as today),
   if all creation sites skip a slot holding an unfinished task and the done-callbacks only clear
   their own task, then for every direction and every event list there is at most one live task per
   slot, every live task is held by its slot, and nothing happens after a stop; otherwise there is an
   event list with activity after a stop. *)
Theorem C06_fix_characterisation : forall f, c_rq f = true -> c_tr f = true ->
  if all_guards f
  then forall d evs, single_flight_b f (init d) evs = true /\ after_stop_obs f (init d) evs = [] /\
                     tracked (run f (init d) evs)
  else exists d evs, after_stop_obs f (init d) evs <> [].
Proof. exact fix_characterisation. Qed.

(* the code as it is: in the `else` branch *)
Theorem C06_current_discipline : all_guards cur = false /\ c_rq cur = true /\ c_tr cur = true.
Proof. vm_compute. auto. Qed.

(* non-vacuity *)
Example C06_partial_nonvacuous :
  let s := run cur (init Down) [Cycle; Start 0] in
  tracked s /\ stoppable s = true /\ sremoved s = false /\ live s <> [] /\
  after_stop_obs cur (fst (step cur s Abort)) [Cycle; Deliver 0; DoneCb 0; ConnFail 0] = [].
Proof.
  cbn zeta. split; [|vm_compute; repeat split; discriminate].
  intros t H. vm_compute in H. destruct H as [<-|[]]. reflexivity.
Qed.

Example C06_guarded_nonvacuous :
  let f := mkF true true true true true true in
  all_guards f = true /\
  map (fun x => fst (fst (fst (fst (fst x))))) (trace f (init Up) W2) = [0; 1; 0; 0; 0; 1; 3; 3] /\
  after_stop_obs f (init Up) W2 = [] /\ after_stop_obs f (init Down) W1 = [].
Proof. vm_compute. auto. Qed.
