(* C06 property theorems (statements only; proofs are in Proofs.v).
   `cur` is the discipline of the code as it is now, read off transfer/manager.py, model.py and
   state.py by the translator (SlskGen.SlotGen): which creation sites skip an occupied slot, whether
   done-callbacks clear unconditionally, which slots cancel_tasks cancels. *)
From Slsk Require Import Base.Tac.
From SlskGen Require Import SlotGen.
From Slsk Require Import C06.Model C06.Proofs.

(* What IS in a slot when abort/pause/remove is called is cancelled and awaited; the call ends in
   ABORTED/PAUSED; and if every live task was held by its slot, nothing is live afterwards. *)
Theorem C06_cancel_reaches_slot : forall s, stoppable s = true ->
  let s' := do_stop cur s in
  (forall k, slot_rq s = Some k \/ slot_tr s = Some k -> is_live s' k = false) /\
  stopped s' = true /\ sstate s' = Stopped /\ (tracked s -> live s' = []).
Proof. intros s. exact (cancel_reaches_slot cur s eq_refl eq_refl). Qed.

(* The repaired code (SlotGen: every creation site skips a slot that holds an unfinished task, the
   done-callbacks clear only their own task).  For every direction and EVERY event list: *)

(* at most one live negotiation task per slot kind, at every point of the run *)
Theorem C06_single_flight : forall d evs, single_flight_b cur (init d) evs = true.
Proof. intros d evs. exact (proj1 (fix_characterisation cur eq_refl eq_refl d evs)). Qed.

(* every live task is the one its slot holds (so cancelling the transfer reaches all of it) *)
Theorem C06_all_tasks_held : forall d evs, tracked (run cur (init d) evs).
Proof. intros d evs. exact (proj2 (proj2 (fix_characterisation cur eq_refl eq_refl d evs))). Qed.

(* while the transfer is stopped (abort/pause/remove returned, no legitimate re-queue yet) no task
   connects, sends or changes a field of the transfer *)
Theorem C06_quiescent_after_stop : forall d evs, after_stop_obs cur (init d) evs = [].
Proof. intros d evs. exact (proj1 (proj2 (fix_characterisation cur eq_refl eq_refl d evs))). Qed.

(* Exactly which discipline repairs it: for EVERY choice of the four flags (slots cancelled as today),
   if all creation sites skip a slot holding an unfinished task and the done-callbacks only clear
   their own task, then for every direction and every event list there is at most one live task per
   slot, every live task is held by its slot, and nothing happens after a stop; otherwise there is an
   event list with activity after a stop. *)
Theorem C06_fix_characterisation : forall f, c_rq f = true -> c_tr f = true ->
  if all_guards f
  then forall d evs, single_flight_b f (init d) evs = true /\ after_stop_obs f (init d) evs = [] /\
                     tracked (run f (init d) evs)
  else exists d evs, after_stop_obs f (init d) evs <> [].
Proof. exact fix_characterisation. Qed.

(* the code as it is: in the `then` branch *)
Theorem C06_current_discipline : all_guards cur = true /\ c_rq cur = true /\ c_tr cur = true.
Proof. vm_compute. auto. Qed.

(* The only re-queue events of the model are the user's queue() and the peer's request.  The third source
   of re-queues in the code, the shares / block-list cycle, never applies to an upload the user aborted:
   `_evaluate_aborted_state` examines "abort requested" first (read off the source). *)
Theorem C06_user_abort_has_precedence : USER_ABORT_HAS_PRECEDENCE = true.
Proof. reflexivity. Qed.

(* Two more facts the model relies on, read off the source: the peer's repeated PeerTransferQueue request re-queues
   an existing upload only from FAILED / COMPLETE (the model's PeerMsg; in particular not a PAUSED one), and the
   transfer manager creates no task outside the three slot-holding sites (everything it starts for a transfer
   is reachable for cancellation). *)
Theorem C06_peer_requeues_only_finished : PEER_REQUEUES_ONLY_FINISHED = true.
Proof. reflexivity. Qed.
Theorem C06_tasks_only_in_slots : TASKS_ONLY_IN_SLOTS = true.
Proof. reflexivity. Qed.

(* remove() (repair F30: whatever the abort inside it did, remove() cancels and awaits what the slots still
   hold before it drops the transfer).  For every direction and every event list, nothing of a removed
   transfer connects, sends or changes a field -- also when the transfer was already finished. *)
Theorem C06_quiescent_after_remove : forall d evs, after_remove_obs cur (init d) evs = [].
Proof.
  intros d evs. apply (removed_run cur evs (init d)); try reflexivity; try apply GI_init; try (cbn; discriminate).
Qed.

(* the same for any state with the invariant, e.g. a COMPLETE download whose own remote-queue attempt is
   still connecting (the former witness W6) *)
Theorem C06_remove_cancels_leftovers :
  after_remove_obs cur (init Down) W6 = [] /\
  live (run cur (init Down) [Cycle; Start 0; PeerMsg; Start 1; Begin 1; Finish 1; DoneCb 1; Remove]) = [].
Proof. vm_compute. auto. Qed.

(* the body of TransferManager.remove is pinned by the translator; this is the version the model follows *)
Theorem C06_remove_as_modelled : REMOVE_CANCELS_LEFTOVERS = true.
Proof. reflexivity. Qed.

(* A management cycle INSIDE a running abort/pause (the call holds the state lock while it awaits the
   cancelled task; the transfer is still QUEUED).  For every interleaving of cycles, the end of the
   cancelled task, the continuation of the call, deliveries, failures and re-queues: nothing happens after
   the call returned  iff  the cycle skips transfers whose lock is held. *)
Theorem C06_stop_interleaved_characterisation : forall g : bool,
  if g then forall evs, i_after_stop_obs g i_init evs = []
  else exists evs, i_after_stop_obs g i_init evs <> [].
Proof.
  intros [|]; [intros evs; exact (proj1 (interleaved_guarded evs i_init IJ_init))|].
  exists WI. vm_compute. intros H. discriminate H.
Qed.

(* the repaired code (repair F29: both creation loops skip a transfer whose state lock is held) *)
Theorem C06_stop_interleaved : forall evs, i_after_stop_obs CYCLE_SKIPS_LOCKED i_init evs = [].
Proof. exact (C06_stop_interleaved_characterisation CYCLE_SKIPS_LOCKED). Qed.

Example C06_stop_interleaved_nonvacuous :
  i_queued (irun CYCLE_SKIPS_LOCKED i_init WI) = false /\ i_live (irun CYCLE_SKIPS_LOCKED i_init WI) = [] /\
  i_live (irun CYCLE_SKIPS_LOCKED i_init [ICycle; IStopBegin]) = [(0, ICancelling)].
Proof. vm_compute. auto. Qed.

(* non-vacuity *)
Example C06_stop_nonvacuous :
  let s := run cur (init Down) [Cycle; Start 0] in
  tracked s /\ stoppable s = true /\ sremoved s = false /\ live s <> [] /\
  after_stop_obs cur (fst (step cur s Abort)) [Cycle; Deliver 0; DoneCb 0; ConnFail 0] = [].
Proof.
  cbn zeta. split; [|vm_compute; repeat split; discriminate].
  intros t H. vm_compute in H. destruct H as [<-|[]]. reflexivity.
Qed.

Example C06_guarded_nonvacuous :
  let f := mkF true true true true true true true in
  all_guards f = true /\
  map (fun x => fst (fst (fst (fst (fst x))))) (trace f (init Up) W2) = [0; 1; 0; 0; 0; 1; 3; 3] /\
  after_stop_obs f (init Up) W2 = [] /\ after_stop_obs f (init Down) W1 = [].
Proof. vm_compute. auto. Qed.
