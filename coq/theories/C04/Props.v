(* C04 property theorems (statements only; proofs are in Proofs.v).
   Model of the REPAIRED code (fixes F12 F13 F13b F13c); the loop test of receive_file, is_transfered,
   the progress counter, offset width, open mode, receive size and seek come from SlskGen.C04Gen,
   regenerated from /repo/src on every run by translate/tr_c04.py.
   Files are byte lists; one attempt of a transfer is a total function (Model.v):
     download_session announced local send_ok stream term chunks   (any sender, honest or not)
     upload_session   src filesize offset grant cut peer_closes
     pair_download / pair_upload src local fault ..                (both sides run the real protocol)
     retry src local faults                                        (file left by successive attempts)
   [chunks] is an arbitrary list of read sizes; [term] what ends the stream (EOF / reset / read
   timeout); [fault] = connection cut (reset or EOF) after k delivered bytes. *)
From Slsk Require Import Base.Tac.
From SlskGen Require Import C04Gen.
From Slsk Require Import C04.Model C04.Proofs.
Open Scope Z_scope.

(* Honest sender (sends bytes of src from the announced offset): the local file stays a prefix of
   the remote file after any number of attempts with any faults and any segmentations. *)
Theorem C04_prefix_inv : forall fs src local, prefix local src -> prefix (retry src local fs) src.
Proof. exact prefix_inv. Qed.

(* one attempt, sender only assumed to send src bytes from the offset (any announced size, any end) *)
Theorem C04_session_prefix_inv : forall src a local ok stream t chunks,
  prefix local src -> prefix stream (dropN (Z.to_N (len local)) src) ->
  prefix (d_local (download_session a local ok stream t chunks)) src.
Proof. exact session_prefix_inv. Qed.

(* Any sender: an attempt only appends to the file, and what it appends is a prefix of what arrived. *)
Theorem C04_keeps_prefix : forall a local ok stream t chunks,
  exists w, d_local (download_session a local ok stream t chunks) = local ++ w /\ prefix w stream.
Proof. exact keeps_prefix. Qed.

(* No excess bytes (stream not longer than the remainder): every delivered byte is kept, whatever
   ends the stream. *)
Theorem C04_cut_keeps_all : forall fsz local stream t chunks,
  len stream <= fsz - len local \/ stream = [] ->
  d_local (download_session (Some fsz) local true stream t chunks) = local ++ stream.
Proof. exact cut_keeps_all. Qed.

(* COMPLETE is sound: download, honest sender *)
Theorem C04_complete_sound : forall src local ok stream t chunks,
  prefix local src -> prefix stream (dropN (Z.to_N (len local)) src) ->
  d_state (download_session (Some (len src)) local ok stream t chunks) = DComplete ->
  d_local (download_session (Some (len src)) local ok stream t chunks) = src.
Proof. exact complete_sound_download. Qed.

(* COMPLETE with an arbitrary (dishonest) sender: the size is the announced one *)
Theorem C04_complete_sound_dishonest : forall a local ok stream t chunks,
  d_state (download_session a local ok stream t chunks) = DComplete ->
  a = Some (len (d_local (download_session a local ok stream t chunks))).
Proof. exact complete_sound_dishonest. Qed.

(* COMPLETE is sound: upload (any offset, any downloader): an offset arrived, every byte from that
   offset was put on the wire, the peer closed, and offset + sent = file size *)
Theorem C04_complete_sound_upload : forall src fsz off grant cut pc,
  u_state (upload_session src fsz off grant cut pc) = UComplete ->
  exists o, off = Some o /\ pc = true /\
    u_wire (upload_session src fsz off grant cut pc) = skipn (N.to_nat o) src /\
    fsz = Z.of_N o + len (skipn (N.to_nat o) src).
Proof. exact complete_sound_upload. Qed.

(* whatever happens the uploader only sends bytes of the file from the offset on *)
Theorem C04_upload_wire_prefix : forall src fsz o grant cut pc,
  prefix (u_wire (upload_session src fsz (Some o) grant cut pc)) (dropN o src).
Proof. exact upload_wire_prefix. Qed.

(* The offset sent is the size of the local file (as 8 bytes little endian, decodable below 2^64);
   in a retry chain each attempt announces the size of the file left by the previous attempt. *)
Theorem C04_resume_offset : forall fsz local stream t chunks,
  let r := download_session (Some fsz) local true stream t chunks in
  d_offset r = Some (len local) /\ d_wire r = le 8 (Z.to_N (len local)) /\
  (len local < 2 ^ 64 -> Z.of_N (le_decode (d_wire r)) = len local).
Proof. exact resume_offset. Qed.

Theorem C04_resume_offset_chain : forall src local f ch r,
  retry_offsets src local ((f, ch) :: r) =
  Some (len local) :: retry_offsets src (retry src local [(f, ch)]) r.
Proof. exact retry_offsets_step. Qed.

(* when the offset cannot be sent nothing is written and the transfer goes back to QUEUED; a
   request without a file size is refused and leaves everything as it was *)
Theorem C04_no_offset_no_write : forall fsz local stream t chunks,
  let r := download_session (Some fsz) local false stream t chunks in
  d_local r = local /\ d_state r = DQueued /\ d_offset r = None /\ d_wire r = [].
Proof. exact no_offset_no_write. Qed.

Theorem C04_refused_untouched : forall local ok stream t chunks,
  let r := download_session None local ok stream t chunks in
  d_local r = local /\ d_state r = DRefused /\ d_offset r = None /\ d_wire r = [].
Proof. exact refused_untouched. Qed.

(* nothing expected (local file already as large as announced, or larger): nothing is read, so
   nothing a sender pushes is appended; COMPLETE exactly when the sizes agree *)
Theorem C04_nothing_expected_nothing_written : forall fsz local stream t chunks,
  fsz <= len local ->
  d_local (download_session (Some fsz) local true stream t chunks) = local /\
  d_state (download_session (Some fsz) local true stream t chunks) =
    (if Z.eqb fsz (len local) then DComplete else DFailedCancelled).
Proof. exact nothing_expected_nothing_written. Qed.

(* Segmentation does not matter (no excess bytes): file, state, counter, offset are the same for
   any two lists of read sizes; same for the uploader and the limiter's grant size. *)
Theorem C04_chunking_irrelevant : forall fsz local stream t c1 c2,
  len stream <= fsz - len local \/ stream = [] ->
  let r1 := download_session (Some fsz) local true stream t c1 in
  let r2 := download_session (Some fsz) local true stream t c2 in
  d_local r1 = d_local r2 /\ d_state r1 = d_state r2 /\ d_bt r1 = d_bt r2 /\
  d_offset r1 = d_offset r2 /\ d_wire r1 = d_wire r2.
Proof. exact chunking_irrelevant. Qed.

Theorem C04_upload_grant_irrelevant : forall src fsz off g1 g2 pc,
  let r1 := upload_session src fsz off g1 None pc in
  let r2 := upload_session src fsz off g2 None pc in
  u_wire r1 = u_wire r2 /\ u_state r1 = u_state r2 /\ u_bt r1 = u_bt r2.
Proof. exact upload_grant_irrelevant. Qed.

(* Eventual completion: after ANY faults (from any prefix, for ANY remainder including the empty
   one: 0-byte file, local file already complete) one fault-free attempt ends COMPLETE with the
   identical file; the uploader of a fault-free attempt ends COMPLETE having sent exactly the
   remainder. *)
Theorem C04_eventual : forall fs src local ch,
  prefix local src ->
  d_state (pair_download src (retry src local fs) NoFault ch) = DComplete /\
  d_local (pair_download src (retry src local fs) NoFault ch) = src.
Proof. exact eventual. Qed.

Theorem C04_eventual_upload : forall src local grant, prefix local src -> len src < 2 ^ 63 ->
  u_state (pair_upload src local NoFault grant) = UComplete /\
  local ++ u_wire (pair_upload src local NoFault grant) = src.
Proof. exact pair_upload_complete. Qed.

(* Every attempt, whatever the sender announces or sends and however the connection ends, leaves
   the download in a non-processing state (COMPLETE / INCOMPLETE / FAILED / QUEUED / untouched). *)
Theorem C04_terminal : forall a local ok stream t chunks,
  d_terminal (d_state (download_session a local ok stream t chunks)).
Proof. exact terminal. Qed.

(* Upload: whenever the peer closes the connection the upload ends COMPLETE / FAILED / QUEUED, for
   every offset the downloader may announce (no offset, 0 .. 2^64-1). *)
Theorem C04_upload_terminal : forall src fsz off grant cut,
  u_terminal (u_state (upload_session src fsz off grant cut true)).
Proof. exact upload_terminal. Qed.

Theorem C04_upload_huge_offset : forall src fsz o grant cut pc, (2 ^ 63 <= o)%N ->
  u_state (upload_session src fsz (Some o) grant cut pc) = UFailedRead /\
  u_wire (upload_session src fsz (Some o) grant cut pc) = [].
Proof. exact upload_huge_offset. Qed.

(* The uploader reads the offset that was sent, whatever the TCP segmentation of the 8 bytes
   (receive_transfer_offset uses readexactly; width and exactness are regenerated from the source);
   fewer than 8 bytes before the end: no offset (the upload goes back to QUEUED). *)
Theorem C04_offset_read_segmentation_irrelevant : forall o segs rest, (o < 2 ^ 64)%N ->
  concat segs = le 8 o ++ rest -> read_offset segs = Some o.
Proof. exact read_offset_segments. Qed.

Theorem C04_offset_read_short : forall segs, (length (concat segs) < 8)%nat -> read_offset segs = None.
Proof. exact read_offset_short. Qed.

(* COMPLETE upload, stated on the wire: for any segmentation of the offset bytes *)
Theorem C04_complete_sound_upload_wire : forall src fsz o segs rest grant cut pc, (o < 2 ^ 64)%N ->
  concat segs = le 8 o ++ rest ->
  u_state (upload_session_wire src fsz segs grant cut pc) = UComplete ->
  pc = true /\ u_wire (upload_session_wire src fsz segs grant cut pc) = skipn (N.to_nat o) src.
Proof. exact complete_sound_upload_wire. Qed.

(* What the uploader does NOT have: a timeout while it waits for the peer to close
   (receive_until_eof without timeout: eof_wait_bounded = false, regenerated).  A peer that received
   everything and then neither closes nor breaks the connection keeps the upload UPLOADING for ever.
   This is a FAULT of the peer in the sense of the property ("once faults stop ..."): the real
   downloader always closes (dl_done_closes / every error path disconnects), so the pair is not
   affected (C04_eventual_upload uses peer_closes = true); it is stated here so that it is visible. *)
Theorem C04_upload_stuck_without_close : forall src fsz o grant, (o < 2 ^ 63)%N ->
  u_state (upload_session src fsz (Some o) grant None false) = UStuck.
Proof. exact upload_stuck_without_close. Qed.

(* The pair over several attempts with the managers' retry policy (pair_run: INCOMPLETE / re-QUEUED
   downloads are retried, FAILED-with-reason ones are not).  Safety for every fault list: *)
Theorem C04_pair_run_safe : forall fs src local,
  prefix local src ->
  let '(l, s, _) := pair_run src local fs in prefix l src /\ (s = DComplete -> l = src).
Proof. exact pair_run_safe. Qed.

(* "once faults stop, the pair finishes without user action": holds for resets and read timeouts, in
   any number, at any byte, with any segmentation ... *)
Theorem C04_pair_eventual_partial : forall fs src local,
  prefix local src -> forallb (fun x => not_eof (fst x)) fs = true ->
  exists n, pair_run src local fs = (src, DComplete, n).
Proof. exact pair_eventual. Qed.

(* ... and is false after a clean close (EOF) before the last byte: the download is FAILED/Cancelled,
   nobody retries (known finding C04-N1; the reason is pinned by tests/e2e/test_e2e_transfer.py). *)
Theorem C04_pair_eventual_refuted : exists src local fs,
  prefix local src /\ pair_run src local fs = ([1]%N, DFailedCancelled, 1%nat) /\ src <> [1]%N.
Proof. exact pair_eventual_refuted. Qed.

(* The upload ends in a terminal state also when the failure notification (PeerUploadFailed) itself
   raises or never returns: the state change comes first (ul_fail_before_notify, regenerated), so the
   outcome does not depend on the message connection at all. *)
Theorem C04_upload_terminal_msg : forall src fsz off grant cut msg_ok,
  u_terminal (u_state (upload_session_msg src fsz off grant cut true msg_ok)).
Proof. exact upload_terminal_msg. Qed.

Theorem C04_upload_msg_irrelevant : forall src fsz off grant cut pc msg_ok,
  upload_session_msg src fsz off grant cut pc msg_ok = upload_session src fsz off grant cut pc.
Proof. exact upload_msg_irrelevant. Qed.

(* One negotiation per download at a time: a request that arrives while a negotiation task of the
   transfer is pending starts nothing (dl_guard_pending_task, regenerated) - because two attempts at
   once are two writers on one file, and what they leave is never a prefix of the remote file. *)
Theorem C04_no_second_negotiation : second_request_starts_task true = false.
Proof. exact no_second_negotiation. Qed.

Theorem C04_two_writers_corrupt : forall src local k,
  prefix local src -> len local < len src -> ~ prefix (two_writers src local k) src.
Proof. exact two_writers_corrupt. Qed.

(* Helper modules (regenerated constants): what the downloader writes as offset is as wide as what the
   uploader reads, both are the little-endian uint64 of protocol/primitives.py; the same for the ticket
   (uint32); the limiter grants are the sizes the segmentation model uses; the transfer read timeout
   lies in the window the harness' schedules assume; network errors are not OS errors (handler tables). *)
Theorem C04_helper_constants :
  offset_width = offset_read_width /\ offset_width = uint64_little_endian_width /\
  ticket_send_width = ticket_width /\ ticket_width = uint32_little_endian_width /\
  grant_unlimited = 8192 /\ grant_limited = 128 /\ 60 < transfer_read_timeout_s <= 400 /\
  direction_download = 1 /\ network_errors_are_not_os_errors = true.
Proof. repeat split; try reflexivity; unfold transfer_read_timeout_s; lia. Qed.

(* non-vacuity: concrete attempts meeting the hypotheses, with non-trivial outcomes *)
Example C04_prefix_inv_nonvacuous :
  retry [1;2;3;4;5;6;7]%N [1;2]%N [(CutReset 2, [1]%N); (CutEof 1, []); (NoFault, [2;1]%N)] = [1;2;3;4;5;6;7]%N
  /\ retry [1;2;3;4;5;6;7]%N [1;2]%N [(CutReset 2, [1]%N); (CutEof 1, [])] = [1;2;3;4;5]%N.
Proof. split; reflexivity. Qed.

Example C04_complete_sound_nonvacuous :
  d_state (download_session (Some 5) [1;2]%N true [3;4;5]%N TTimeout [2]%N) = DComplete /\
  d_state (download_session (Some 5) [1;2]%N true [3;4]%N TReset [2]%N) = DIncomplete /\
  d_state (download_session (Some 5) [1;2]%N true [3;4]%N TEof [2]%N) = DFailedCancelled /\
  d_state (download_session (Some 5) [1;2]%N true [9;9;9;9]%N TTimeout [4]%N) = DFailedCancelled /\
  d_state (download_session (Some 5) [1;2]%N true [9;9;9;9]%N TTimeout [3;1]%N) = DComplete /\
  d_local (download_session (Some 2) [1;2]%N true [9;9;9;9]%N TTimeout [3;1]%N) = [1;2]%N /\
  d_state (download_session (Some 1) [1;2]%N true [9;9;9;9]%N TEof [3;1]%N) = DFailedCancelled.
Proof. repeat split; reflexivity. Qed.

Example C04_complete_sound_upload_nonvacuous :
  u_state (upload_session [1;2;3;4;5]%N 5 (Some 2%N) 2 None true) = UComplete /\
  u_wire (upload_session [1;2;3;4;5]%N 5 (Some 2%N) 2 None true) = [3;4;5]%N /\
  u_state (upload_session [1;2;3;4;5]%N 5 (Some 2%N) 2 (Some 1) true) = UFailed /\
  u_wire (upload_session [1;2;3;4;5]%N 5 (Some 2%N) 2 (Some 1) true) = [3;4]%N /\
  u_state (upload_session [1;2;3;4;5]%N 5 (Some 9%N) 2 None true) = UFailed /\
  u_state (upload_session [1;2;3;4;5]%N 5 (Some 2%N) 2 None false) = UStuck /\
  u_state (upload_session [1;2;3;4;5]%N 5 (Some 18446744073709551615%N) 2 None false) = UFailedRead /\
  u_state (upload_session [1;2;3;4;5]%N 5 None 2 None true) = UQueued.
Proof. repeat split; reflexivity. Qed.

Example C04_resume_offset_nonvacuous :
  d_wire (download_session (Some 700) (repeat 7%N 300) true [] TReset []) = [44;1;0;0;0;0;0;0]%N /\
  retry_offsets [1;2;3;4;5]%N [] [(CutReset 2, []); (CutReset 1, []); (NoFault, [])] = [Some 0; Some 2; Some 3].
Proof. split; reflexivity. Qed.

Example C04_chunking_nonvacuous :
  d_reads (download_session (Some 5) [] true [1;2;3;4;5]%N TTimeout [2;2]%N) = [2;2;1] /\
  d_reads (download_session (Some 5) [] true [1;2;3;4;5]%N TTimeout [4]%N) = [4;1] /\
  pieces_of_segments 3 [[1;2;3;4]%N; [5]%N] = [[1;2;3]%N; [4]%N; [5]%N].
Proof. repeat split; reflexivity. Qed.

Example C04_eventual_nonvacuous :
  len (retry [1;2;3]%N [] [(CutEof 1, []); (CutReset 1, [])]) < len [1;2;3]%N /\
  d_state (pair_download [1;2;3]%N [1;2;3]%N NoFault []) = DComplete /\
  d_state (pair_download [] [] NoFault []) = DComplete /\
  d_reads (pair_download [] [] NoFault []) = [] /\
  retry [1;2;3]%N [] [(CutReset 3, [1]%N); (NoFault, [])] = [1;2;3]%N /\
  pair_session [1;2;3]%N [1]%N (CutReset 1) [] 8192 =
    (mkD [1;2]%N DIncomplete (Some 1) [1;0;0;0;0;0;0;0]%N 2 [1], mkU [2;3]%N UComplete 3 false).
Proof. repeat split; reflexivity. Qed.

Example C04_offset_read_nonvacuous :
  read_offset (split_at 1 (le 8 258)) = Some 258%N /\ read_offset [[2]%N; []; [1;0;0]%N; [0;0;0;0;9;9]%N] = Some 258%N /\
  read_offset [[2;1;0]%N] = None /\
  u_wire (upload_session_wire [1;2;3;4;5]%N 5 (split_at 3 (le 8 2)) 8192 None true) = [3;4;5]%N.
Proof. repeat split; reflexivity. Qed.

Example C04_pair_run_nonvacuous :
  pair_run [1;2;3;4]%N [] [(CutReset 1, []); (CutReset 0, []); (CutReset 2, [1]%N)] = ([1;2;3;4]%N, DComplete, 4%nat) /\
  pair_run [1;2;3;4]%N [1]%N [(CutReset 1, []); (CutEof 1, []); (NoFault, [])] = ([1;2;3]%N, DFailedCancelled, 2%nat).
Proof. split; reflexivity. Qed.

Example C04_two_writers_nonvacuous :
  two_writers [1;2;3]%N [] 1 = [1;1;2;3;2;3]%N /\
  u_state (upload_session_msg [1;2;3]%N 3 (Some 0%N) 1 (Some 1) true false) = UFailed /\
  u_failmsg (upload_session_msg [1;2;3]%N 3 (Some 0%N) 1 (Some 1) true false) = true.
Proof. repeat split; reflexivity. Qed.

Example C04_terminal_nonvacuous :
  d_state (download_session None [1]%N true [2]%N TEof []) = DRefused /\
  d_state (download_session (Some 3) [1]%N false [2]%N TEof []) = DQueued /\
  d_state (download_session (Some 3) [1]%N true [2]%N TReset []) = DIncomplete.
Proof. repeat split; reflexivity. Qed.
