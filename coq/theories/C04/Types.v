(* C04: outcome types shared by the generated file (SlskGen.C04Gen) and the model. *)

(* what ends the stream as seen by the reader *)
Inductive term := TEof | TReset | TTimeout.

(* final state of the download as left by one attempt.
   DQueued  = sending the offset failed: the transfer is put back to QUEUED;
   DRefused = the request carried no file size: it is refused (PeerTransferReply allowed=false) before
              any state change, the transfer stays as it was;
   DWedged / DWedgedInit = DOWNLOADING / INITIALIZING with no transfer task.  The code never produces
              them (C04_terminal); they stay in the type so that the theorem says something and so
              that the correspondence check can name such an observation. *)
Inductive dstate := DComplete | DIncomplete | DFailedCancelled | DQueued | DRefused | DWedged | DWedgedInit.

(* UStuck      = UPLOADING, waiting (without timeout) for the peer to close;
   UFailedRead = FAILED with reason 'File read error.' (open/seek/read failed, incl. the ValueError
                 of seek for offsets >= 2^63), connection closed by the uploader;
   UWedged     = UPLOADING with no transfer task: never produced by the code (C04_upload_terminal). *)
Inductive ustate := UComplete | UFailed | UQueued | UStuck | UFailedRead | UWedged.
