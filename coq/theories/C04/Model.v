(* C04 model: one file-transfer session as a total function over byte lists.

   Hand model of (aioslsk, src/aioslsk)
     transfer/manager.py   _initialize_download (offset part), _download_file,
                           _initialize_upload (offset part), _upload_file
     network/connection.py PeerConnection.receive_file / send_file / receive_until_eof
     transfer/model.py     Transfer.is_transfered, _transfer_progress_callback
   tied to the source by the correspondence runs of checks/c04.py (real coroutines over fake
   transports, same inputs, compared field by field).  Definitions only; executable. *)
From Coq Require Import ZArith NArith List Bool.
Import ListNotations.
Open Scope Z_scope.

Definition bytes := list N.

Definition len (l : bytes) : Z := Z.of_nat (length l).

(* ---- list helpers that do not build large nats ------------------------------------------ *)

Fixpoint dropN (n : N) (l : bytes) : bytes :=
  match l with
  | [] => []
  | x :: t => if N.eqb n 0 then l else dropN (N.pred n) t
  end.

Fixpoint takeN (n : N) (l : bytes) : bytes :=
  match l with
  | [] => []
  | x :: t => if N.eqb n 0 then [] else x :: takeN (N.pred n) t
  end.

(* little-endian fixed width (uint64(offset).serialize(), uint32(ticket)) *)
Fixpoint le (w : nat) (v : N) : bytes :=
  match w with
  | O => []
  | S w' => N.modulo v 256 :: le w' (N.div v 256)
  end.

Definition le_decode (bs : bytes) : N := fold_right (fun b acc => (b + 256 * acc)%N) 0%N bs.

(* ---- how a byte stream is cut into the pieces returned by successive read() calls -------- *)

(* [chunks]: sizes returned by successive reads (a size 0 is read as 1: a read never returns
   nothing while bytes are pending); when the list runs out the rest arrives in one piece. *)
Fixpoint pieces (chunks : list N) (s : bytes) : list bytes :=
  match s with
  | [] => []
  | _ :: _ =>
      match chunks with
      | [] => [s]
      | c :: cs => let k := N.max 1 c in takeN k s :: pieces cs (dropN k s)
      end
  end.

(* A reader that drains everything between two deliveries: each delivered segment is returned
   in pieces of [grant] bytes (the limiter's grant: 8192 unlimited, 128 limited) and a rest. *)
Fixpoint chop (fuel : nat) (grant : N) (s : bytes) : list bytes :=
  match fuel with
  | O => []
  | S f =>
      match s with
      | [] => []
      | _ :: _ => let k := N.max 1 grant in takeN k s :: chop f grant (dropN k s)
      end
  end.

Definition chop_all (grant : N) (s : bytes) : list bytes := chop (length s) grant s.

Definition pieces_of_segments (grant : N) (segs : list bytes) : list bytes :=
  flat_map (chop_all grant) segs.

(* ---- PeerConnection.receive_file ----------------------------------------------------------
     bytes_received = 0
     while True:
         data = await self.receive_data(grant)      (None on EOF -> return)
         await file_handle.write(data); callback(data)
         bytes_received += len(data)
         if bytes_received >= filesize: return
   [recv remaining ps got] consumes pieces until the test succeeds; returns the consumed pieces
   and whether the loop left through the test (true) or ran out of data (false: the next read
   meets whatever ends the stream). *)
Fixpoint recv (remaining : Z) (ps : list bytes) (got : Z) : list bytes * bool :=
  match ps with
  | [] => ([], false)
  | p :: ps' =>
      let got' := got + len p in
      if Z.leb remaining got' then ([p], true)
      else let '(w, r) := recv remaining ps' got' in (p :: w, r)
  end.

(* what ends the stream as seen by the reader *)
Inductive term := TEof | TReset | TTimeout.

(* final state of the download as left by one session.
   DWedged = state DOWNLOADING with the transfer task dead (unhandled exception). *)
Inductive dstate := DComplete | DIncomplete | DFailedCancelled | DWedged.

Record dres := mkD {
  d_local : bytes;          (* the local file afterwards *)
  d_state : dstate;
  d_offset : option Z;      (* offset put on the wire (None: sending it failed) *)
  d_wire : bytes;           (* bytes the downloader wrote on the file connection *)
  d_bt : Z;                 (* Transfer.bytes_transfered afterwards *)
  d_reads : list Z          (* sizes passed to the progress callback *)
}.

(* _initialize_download from the resolved file connection on, then _download_file.
     offset = getsize(local_path); transfer.bytes_transfered = offset; send uint64(offset)
       ConnectionWriteError -> INCOMPLETE
     _download_file: start_transferring; filesize None -> raise (task dies, state DOWNLOADING)
     open 'ab'; receive_file(handle, filesize - bytes_transfered, callback)
       ConnectionReadError -> INCOMPLETE
       else: disconnect; is_transfered() (filesize == bytes_transfered) -> COMPLETE else FAILED(Cancelled) *)
Definition download_core (announced : option Z) (local : bytes) (send_ok : bool)
           (ps : list bytes) (t : term) : dres :=
  let off := len local in
  if negb send_ok then mkD local DIncomplete None [] off []
  else
    let wire := le 8 (Z.to_N off) in
    match announced with
    | None => mkD local DWedged (Some off) wire off []
    | Some fsz =>
        let '(w, reached) := recv (fsz - off) ps 0 in
        let written := concat w in
        let bt := off + len written in
        let st :=
          if orb reached (match t with TEof => true | _ => false end)
          then (if Z.eqb fsz bt then DComplete else DFailedCancelled)
          else DIncomplete in
        mkD (local ++ written) st (Some off) wire bt (map len w)
    end.

Definition download_session (announced : option Z) (local : bytes) (send_ok : bool)
           (stream : bytes) (t : term) (chunks : list N) : dres :=
  download_core announced local send_ok (pieces chunks stream) t.

(* ---- upload side ---------------------------------------------------------------------------
   _initialize_upload from the ticket on, _upload_file, send_file, receive_until_eof.
     bytes_transfered = receive_transfer_offset()      ConnectionReadError -> QUEUED
     open 'rb'; seek(offset); send_file: read(grant) until b''; send_data(chunk); callback
       ConnectionWriteError -> FAILED + PeerUploadFailed to the peer
     else: receive_until_eof(raise_exception=False)  (no timeout)
           is_transfered() -> COMPLETE else FAILED *)
Inductive ustate := UComplete | UFailed | UQueued | UStuck.

Record ures := mkU {
  u_wire : bytes;           (* file bytes put on the wire *)
  u_state : ustate;
  u_bt : Z;
  u_failmsg : bool          (* PeerUploadFailed sent *)
}.

(* [cut = Some k]: the connection is found broken by the first send that starts when at least
   k bytes were already written. *)
Fixpoint send_loop (ps : list bytes) (cut : option Z) (sent : Z) : list bytes * bool :=
  match ps with
  | [] => ([], true)
  | p :: ps' =>
      if (match cut with Some k => Z.leb k sent | None => false end) then ([], false)
      else let '(w, ok) := send_loop ps' cut (sent + len p) in (p :: w, ok)
  end.

Definition upload_core (filesize : Z) (offset : option N)
           (ps : list bytes) (cut : option Z) (peer_closes : bool) : ures :=
  match offset with
  | None => mkU [] UQueued 0 false
  | Some o =>
      let '(w, ok) := send_loop ps cut 0 in
      let wire := concat w in
      let bt := Z.of_N o + len wire in
      if negb ok then mkU wire UFailed bt true
      else if negb peer_closes then mkU wire UStuck bt false
      else mkU wire (if Z.eqb filesize bt then UComplete else UFailed) bt false
  end.

Definition upload_session (src : bytes) (filesize : Z) (offset : option N) (grant : N)
           (cut : option Z) (peer_closes : bool) : ures :=
  upload_core filesize offset
    (match offset with Some o => chop_all grant (dropN o src) | None => [] end) cut peer_closes.

(* ---- the honest pair and retries ----------------------------------------------------------- *)

(* fault on the file connection of one attempt: after k bytes of the remainder reached the
   downloader the connection breaks (reset: error on the socket; eof: clean close). *)
Inductive fault := NoFault | CutReset (k : N) | CutEof (k : N).

(* Both sides run the real protocol.  Without a fault the uploader sends the whole remainder and
   then waits for the downloader to close; so a downloader that still waits for data sees
   neither EOF nor error, only its read timeout. *)
Definition pair_download (src local : bytes) (f : fault) (chunks : list N) : dres :=
  let rest := dropN (Z.to_N (len local)) src in
  match f with
  | NoFault => download_session (Some (len src)) local true rest TTimeout chunks
  | CutReset k => download_session (Some (len src)) local true (takeN k rest) TReset chunks
  | CutEof k => download_session (Some (len src)) local true (takeN k rest) TEof chunks
  end.

(* the uploader of the pair: the downloader always closes in the end (done, error or timeout) *)
Definition pair_upload (src local : bytes) (f : fault) (grant : N) : ures :=
  upload_session src (len src) (Some (Z.to_N (len local))) grant
    (match f with NoFault => None | CutReset k | CutEof k => Some (Z.of_N k) end) true.

Definition pair_session (src local : bytes) (f : fault) (chunks : list N) (grant : N) : dres * ures :=
  (pair_download src local f chunks, pair_upload src local f grant).

(* retry: the next attempt starts from the file the previous one left *)
Fixpoint retry (src local : bytes) (fs : list (fault * list N)) : bytes :=
  match fs with
  | [] => local
  | (f, ch) :: r => retry src (d_local (pair_download src local f ch)) r
  end.

(* offsets announced by the successive attempts *)
Fixpoint retry_offsets (src local : bytes) (fs : list (fault * list N)) : list (option Z) :=
  match fs with
  | [] => []
  | (f, ch) :: r =>
      let d := pair_download src local f ch in
      d_offset d :: retry_offsets src (d_local d) r
  end.

Definition prefix (l s : bytes) : Prop := exists t, s = l ++ t.

(* ---- codes used by the correspondence check ------------------------------------------------ *)
Definition dcode (s : dstate) : Z :=
  match s with DComplete => 0 | DIncomplete => 1 | DFailedCancelled => 2 | DWedged => 3 end.
Definition ucode (s : ustate) : Z :=
  match s with UComplete => 0 | UFailed => 1 | UQueued => 2 | UStuck => 3 end.
Definition tcode (z : Z) : term := if Z.eqb z 0 then TEof else if Z.eqb z 1 then TReset else TTimeout.

Fixpoint beq (a b : bytes) : bool :=
  match a, b with
  | [], [] => true
  | x :: a', y :: b' => andb (N.eqb x y) (beq a' b')
  | _, _ => false
  end.
Fixpoint zleq (a b : list Z) : bool :=
  match a, b with
  | [], [] => true
  | x :: a', y :: b' => andb (Z.eqb x y) (zleq a' b')
  | _, _ => false
  end.
