(* C04 model: one file-transfer session as a total function over byte lists.

   Hand model of (aioslsk, src/aioslsk)
     transfer/manager.py   _initialize_download (offset part), _download_file,
                           _initialize_upload (offset part), _upload_file
     network/connection.py PeerConnection.receive_file / send_file / receive_until_eof
     transfer/model.py     Transfer.is_transfered, _transfer_progress_callback
   The straight-line decisions (loop test of receive_file, is_transfered, the progress counter, the
   width of the offset, open mode, receive size, seek) are GENERATED from the source on every run
   (SlskGen.C04Gen, translate/tr_c04.py); the rest is tied to the source by the correspondence runs
   of checks/c04.py (real coroutines over fake transports, same inputs, compared field by field).
   Definitions only; executable.  This is the model of the REPAIRED code (fixes F12 F13 F13b F13c). *)
From Coq Require Import ZArith NArith List Bool.
From Slsk Require Export C04.Types.
From SlskGen Require Import C04Gen.
Import ListNotations.
Open Scope Z_scope.

Definition bytes := list N.

Definition len (l : bytes) : Z := Z.of_nat (length l).

(* ---- list helpers that do not build large nats ------------------------------------------ *)

Fixpoint dropN (n : N) (l : bytes) : bytes :=
  match l with
  | [] => []
  | x :: t => if N.eqb n 0 then l else dropN (N.pred n) t
  end.

Fixpoint takeN (n : N) (l : bytes) : bytes :=
  match l with
  | [] => []
  | x :: t => if N.eqb n 0 then [] else x :: takeN (N.pred n) t
  end.

(* little-endian fixed width (uint64(offset).serialize(), uint32(ticket)) *)
Fixpoint le (w : nat) (v : N) : bytes :=
  match w with
  | O => []
  | S w' => N.modulo v 256 :: le w' (N.div v 256)
  end.

Definition le_decode (bs : bytes) : N := fold_right (fun b acc => (b + 256 * acc)%N) 0%N bs.

(* ---- how a byte stream is cut into the pieces returned by successive read() calls -------- *)

(* [chunks]: sizes returned by successive reads (a size 0 is read as 1: a read never returns
   nothing while bytes are pending); when the list runs out the rest arrives in one piece. *)
Fixpoint pieces (chunks : list N) (s : bytes) : list bytes :=
  match s with
  | [] => []
  | _ :: _ =>
      match chunks with
      | [] => [s]
      | c :: cs => let k := N.max 1 c in takeN k s :: pieces cs (dropN k s)
      end
  end.

(* A reader that drains everything between two deliveries: each delivered segment is returned
   in pieces of [grant] bytes (the limiter's grant: 8192 unlimited, 128 limited) and a rest. *)
Fixpoint chop (fuel : nat) (grant : N) (s : bytes) : list bytes :=
  match fuel with
  | O => []
  | S f =>
      match s with
      | [] => []
      | _ :: _ => let k := N.max 1 grant in takeN k s :: chop f grant (dropN k s)
      end
  end.

Definition chop_all (grant : N) (s : bytes) : list bytes := chop (length s) grant s.

Definition pieces_of_segments (grant : N) (segs : list bytes) : list bytes :=
  flat_map (chop_all grant) segs.

(* ---- PeerConnection.receive_file ----------------------------------------------------------
     bytes_received = 0
     while bytes_received < filesize:               (recv_more, generated)
         data = await self.receive_data(grant)      (None on EOF -> return)
         await file_handle.write(data); callback(data)
         bytes_received += len(data)
   [recv remaining ps got] consumes pieces while the test asks for more; returns the consumed pieces
   and whether the loop left through the test (true) or ran out of data (false: the next read
   meets whatever ends the stream). *)
Fixpoint recv (remaining : Z) (ps : list bytes) (got : Z) : list bytes * bool :=
  if recv_more got remaining then
    match ps with
    | [] => ([], false)
    | p :: ps' => let '(w, r) := recv remaining ps' (got + len p) in (p :: w, r)
    end
  else ([], true).

Record dres := mkD {
  d_local : bytes;          (* the local file afterwards *)
  d_state : dstate;
  d_offset : option Z;      (* offset put on the wire (None: not sent) *)
  d_wire : bytes;           (* bytes the downloader wrote on the file connection *)
  d_bt : Z;                 (* Transfer.bytes_transfered afterwards (-1: untouched) *)
  d_reads : list Z          (* sizes passed to the progress callback *)
}.

(* _initialize_download, then _download_file.
     request.filesize is None -> reply allowed=False, return                      (DRefused)
     ... file connection resolved ...
     offset = getsize(local_path); transfer.bytes_transfered = offset; send uint64(offset)
       ConnectionWriteError -> state.queue()                                        (DQueued)
     _download_file: open 'ab'; receive_file(handle, filesize - bytes_transfered, callback)
       ConnectionReadError -> INCOMPLETE
       else: disconnect; is_transfered() -> COMPLETE else FAILED(Cancelled) *)
Definition download_core (announced : option Z) (local : bytes) (send_ok : bool)
           (ps : list bytes) (t : term) : dres :=
  let off := len local in
  match announced with
  | None => mkD local dl_nosize_state None [] (-1) []
  | Some fsz =>
      if negb send_ok then mkD local dl_offset_fail_state None [] off []
      else
        let wire := le offset_width (Z.to_N off) in
        let '(w, reached) := recv (recv_size fsz off) ps 0 in
        let written := concat w in
        let bt := progress_add off (len written) in
        let st :=
          if orb reached (match t with TEof => true | _ => false end)
          then dl_done_state (is_transfered_b fsz bt)
          else dl_read_error_state in
        mkD (if download_append then local ++ written else written) st (Some off) wire bt (map len w)
  end.

Definition download_session (announced : option Z) (local : bytes) (send_ok : bool)
           (stream : bytes) (t : term) (chunks : list N) : dres :=
  download_core announced local send_ok (pieces chunks stream) t.

(* ---- upload side ---------------------------------------------------------------------------
   _initialize_upload from the ticket on, _upload_file, send_file, receive_until_eof.
     bytes_transfered = receive_transfer_offset()      ConnectionReadError -> QUEUED
     open 'rb'; seek(offset); send_file: read(grant) until b''; send_data(chunk); callback
       ConnectionWriteError -> FAILED + PeerUploadFailed to the peer
     else: receive_until_eof(raise_exception=False)  (no timeout)
           is_transfered() -> COMPLETE else FAILED *)
Record ures := mkU {
  u_wire : bytes;           (* file bytes put on the wire *)
  u_state : ustate;
  u_bt : Z;
  u_failmsg : bool          (* PeerUploadFailed sent *)
}.

(* [cut = Some k]: the connection is found broken by the first send that starts when at least
   k bytes were already written. *)
Fixpoint send_loop (ps : list bytes) (cut : option Z) (sent : Z) : list bytes * bool :=
  match ps with
  | [] => ([], true)
  | p :: ps' =>
      if (match cut with Some k => Z.leb k sent | None => false end) then ([], false)
      else let '(w, ok) := send_loop ps' cut (sent + len p) in (p :: w, ok)
  end.

Definition upload_core (filesize : Z) (offset : option N)
           (ps : list bytes) (cut : option Z) (peer_closes : bool) : ures :=
  match offset with
  | None => mkU [] ul_offset_fail_state 0 false
  | Some o =>
      if N.leb 9223372036854775808 o
      then mkU [] (if ul_seek_error_handled then ul_file_error_state else UWedged) (Z.of_N o) false else
      let '(w, ok) := send_loop ps cut 0 in
      let wire := concat w in
      let bt := progress_add (Z.of_N o) (len wire) in
      if negb ok then mkU wire ul_write_error_state bt ul_write_error_msg
      else if ul_waits_eof && negb eof_wait_bounded && negb peer_closes then mkU wire UStuck bt false
      else mkU wire (ul_done_state (is_transfered_b filesize bt)) bt false
  end.

Definition upload_session (src : bytes) (filesize : Z) (offset : option N) (grant : N)
           (cut : option Z) (peer_closes : bool) : ures :=
  upload_core filesize offset
    (match offset with Some o => chop_all grant (if upload_seek then dropN o src else src) | None => [] end) cut peer_closes.

(* ---- the failure notification of the uploader ----------------------------------------------
   After a write error the uploader marks the upload FAILED and THEN tells the peer (PeerUploadFailed
   over the message connection).  That send can itself fail with ConnectionWriteError (which the handler
   does not catch: the task ends with it) or take arbitrarily long.  [msg_ok = false]: it raises or hangs.
   Were the notification sent before the state change (ul_fail_before_notify = false) the upload would be
   left UPLOADING with a dead or blocked task. *)
Definition upload_session_msg (src : bytes) (filesize : Z) (offset : option N) (grant : N)
           (cut : option Z) (peer_closes msg_ok : bool) : ures :=
  let u := upload_session src filesize offset grant cut peer_closes in
  if u_failmsg u && negb msg_ok && negb ul_fail_before_notify
  then mkU (u_wire u) UWedged (u_bt u) true else u.

(* ---- one negotiation per download at a time --------------------------------------------------
   _on_peer_transfer_request starts _initialize_download only when no negotiation task of the transfer
   is pending (a second request can arrive before the first task has moved the transfer to INITIALIZING).
   Two attempts at once are two writers appending to one file: *)
Definition second_request_starts_task (task_pending : bool) : bool := negb (dl_guard_pending_task && task_pending).

(* what two concurrent honest attempts from the same offset leave when the first wrote k bytes and the
   second the whole remainder before the first continued *)
Definition two_writers (src local : bytes) (k : N) : bytes :=
  let rest := dropN (Z.to_N (len local)) src in
  local ++ takeN k rest ++ rest ++ dropN k rest.

(* ---- how the uploader reads the offset (receive_transfer_offset) ----------------------------
   [segs]: the bytes the downloader wrote on the file connection, as the TCP segments in which they
   arrive, before it closes.  readexactly(width) waits until width bytes are there (None: the
   connection ended first); a plain read would take whatever the first segment holds. *)
Definition read_offset (segs : list bytes) : option N :=
  let w := N.of_nat offset_read_width in
  if offset_read_exact then
    let s := concat segs in
    if Nat.ltb (length s) offset_read_width then None else Some (le_decode (takeN w s))
  else
    match filter (fun p => match p with [] => false | _ => true end) segs with
    | [] => None
    | p :: _ => Some (le_decode (takeN w p))
    end.

Definition upload_session_wire (src : bytes) (filesize : Z) (osegs : list bytes) (grant : N)
           (cut : option Z) (peer_closes : bool) : ures :=
  upload_session src filesize (read_offset osegs) grant cut peer_closes.

(* the 8 offset bytes split after the first [k] bytes *)
Definition split_at (k : N) (s : bytes) : list bytes := [takeN k s; dropN k s].

(* ---- the honest pair and retries ----------------------------------------------------------- *)

(* fault on the file connection of one attempt: after k bytes of the remainder reached the
   downloader the connection breaks (reset: error on the socket; eof: clean close). *)
Inductive fault := NoFault | CutReset (k : N) | CutEof (k : N).

(* Both sides run the real protocol.  Without a fault the uploader sends the whole remainder and
   then waits for the downloader to close; so a downloader that still waits for data sees
   neither EOF nor error, only its read timeout. *)
Definition pair_download (src local : bytes) (f : fault) (chunks : list N) : dres :=
  let rest := dropN (Z.to_N (len local)) src in
  match f with
  | NoFault => download_session (Some (len src)) local true rest TTimeout chunks
  | CutReset k => download_session (Some (len src)) local true (takeN k rest) TReset chunks
  | CutEof k => download_session (Some (len src)) local true (takeN k rest) TEof chunks
  end.

(* the uploader of the pair: the downloader always closes in the end (done, error or timeout) *)
Definition pair_upload (src local : bytes) (f : fault) (grant : N) : ures :=
  upload_session src (len src) (Some (Z.to_N (len local))) grant
    (match f with NoFault => None | CutReset k | CutEof k => Some (Z.of_N k) end) true.

Definition pair_session (src local : bytes) (f : fault) (chunks : list N) (grant : N) : dres * ures :=
  (pair_download src local f chunks, pair_upload src local f grant).

(* retry: the next attempt starts from the file the previous one left *)
Fixpoint retry (src local : bytes) (fs : list (fault * list N)) : bytes :=
  match fs with
  | [] => local
  | (f, ch) :: r => retry src (d_local (pair_download src local f ch)) r
  end.

(* offsets announced by the successive attempts *)
Fixpoint retry_offsets (src local : bytes) (fs : list (fault * list N)) : list (option Z) :=
  match fs with
  | [] => []
  | (f, ch) :: r =>
      let d := pair_download src local f ch in
      d_offset d :: retry_offsets src (d_local d) r
  end.

(* ---- the pair over several attempts: who retries --------------------------------------------
   Manager level (hand model of _get_queued_transfers / _queue_remotely / _on_peer_transfer_queue /
   _on_peer_upload_failed, fingerprinted): an INCOMPLETE or re-QUEUED download is queued remotely
   again (remotely_queued is cleared when the transfer starts), and the uploader re-queues a FAILED
   or COMPLETE upload when it is asked again, so a new attempt follows.  A download that ended
   FAILED with a reason (Cancelled: the file connection was closed cleanly before the end) is not
   retried by the downloader, and the uploader never offers the file again by itself. *)
Definition retried (s : dstate) : bool :=
  match s with DIncomplete | DQueued => true | _ => false end.

(* faults of the successive attempts, then fault-free attempts; result: file, state, attempts *)
Fixpoint pair_run (src local : bytes) (fs : list (fault * list N)) : bytes * dstate * nat :=
  match fs with
  | [] => let d := pair_download src local NoFault [] in (d_local d, d_state d, 1%nat)
  | (f, ch) :: r =>
      let d := pair_download src local f ch in
      if retried (d_state d)
      then let '(l, s, n) := pair_run src (d_local d) r in (l, s, S n)
      else (d_local d, d_state d, 1%nat)
  end.

Definition not_eof (f : fault) : bool := match f with CutEof _ => false | _ => true end.

Definition prefix (l s : bytes) : Prop := exists t, s = l ++ t.

(* ---- test data and read sizes used by the correspondence check ------------------------------ *)
Fixpoint patf (fuel : nat) (cur : N) : bytes :=
  match fuel with
  | O => []
  | S f => cur :: patf f (let x := (cur + 7)%N in if N.leb 251 x then (x - 251)%N else x)
  end.
(* byte i = (seed + 7 i) mod 251 *)
Definition pat (seed n : N) : bytes := patf (N.to_nat n) (N.modulo seed 251).
(* bytes start .. start+k of pat seed tot *)
Definition slice (sp : N * N * N * N) : bytes :=
  let '(seed, tot, start, k) := sp in takeN k (dropN start (pat seed tot)).
Definition slices (sps : list (N * N * N * N)) : bytes := flat_map slice sps.

Fixpoint sizes_fuel (fuel : nat) (grant n : N) : list N :=
  match fuel with
  | O => []
  | S f => if N.eqb n 0 then [] else if N.leb n grant then [n] else grant :: sizes_fuel f grant (n - grant)
  end.
(* read sizes of a receiver that drains every delivered segment completely *)
Definition read_sizes (grant : N) (segs : list N) : list N :=
  flat_map (fun n => sizes_fuel (S (N.to_nat (N.div n (N.max 1 grant)))) (N.max 1 grant) n) segs.

(* ---- codes used by the correspondence check ------------------------------------------------ *)
Definition dcode (s : dstate) : Z :=
  match s with DComplete => 0 | DIncomplete => 1 | DFailedCancelled => 2 | DWedged => 3 | DWedgedInit => 4
  | DQueued => 5 | DRefused => 6 end.
Definition ucode (s : ustate) : Z :=
  match s with UComplete => 0 | UFailed => 1 | UQueued => 2 | UStuck => 3 | UWedged => 4 | UFailedRead => 5 end.
Definition tcode (z : Z) : term := if Z.eqb z 0 then TEof else if Z.eqb z 1 then TReset else TTimeout.

Fixpoint beq (a b : bytes) : bool :=
  match a, b with
  | [], [] => true
  | x :: a', y :: b' => andb (N.eqb x y) (beq a' b')
  | _, _ => false
  end.
Fixpoint zleq (a b : list Z) : bool :=
  match a, b with
  | [], [] => true
  | x :: a', y :: b' => andb (Z.eqb x y) (zleq a' b')
  | _, _ => false
  end.

(* ---- comparison of one observed attempt with the model (used by generated case files) -------
   Generated files contain Z numerals only (cheap to parse); conversions happen here. *)
Definition sp := (N * N * N * N)%type.
Definition spz := (Z * Z * Z * Z)%type.
Definition sp_of (x : spz) : sp := let '(a, b, c, d) := x in (Z.to_N a, Z.to_N b, Z.to_N c, Z.to_N d).
Definition oeq (a b : option Z) : bool :=
  match a, b with Some x, Some y => Z.eqb x y | None, None => true | _, _ => false end.
Fixpoint unrle (l : list (Z * Z)) : list Z :=
  match l with [] => [] | (v, c) :: r => repeat v (Z.to_nat c) ++ unrle r end.

(* slices of the case's main pattern are cut from one shared copy [base] = pat seed tot *)
Definition slice_with (bs : Z * Z) (base : bytes) (x : spz) : bytes :=
  let '(seed, tot, start, k) := x in
  if Z.eqb seed (fst bs) && Z.eqb tot (snd bs) then takeN (Z.to_N k) (dropN (Z.to_N start) base) else slice (sp_of x).
Definition slices_with (bs : Z * Z) (base : bytes) (xs : list spz) : bytes := flat_map (slice_with bs base) xs.

(* expected: state code, offset, wire (number of bytes, little-endian value), bytes_transfered, callback
   sizes (run-length encoded), file content *)
Definition expd := (Z * option Z * (Z * Z) * Z * list (Z * Z) * list spz)%type.
(* announced, send_ok, stream, term code, grant, delivered segment sizes, expected *)
Definition sess := (option Z * bool * spz * Z * Z * list Z * expd)%type.

Definition agree_d (bs : Z * Z) (base : bytes) (d : dres) (e : expd) : bool :=
  let '(st, off, wire, bt, reads, lsp) := e in
  Z.eqb (dcode (d_state d)) st && oeq (d_offset d) off && beq (d_wire d) (le (Z.to_nat (fst wire)) (Z.to_N (snd wire))) &&
  Z.eqb (d_bt d) bt && zleq (d_reads d) (unrle reads) && beq (d_local d) (slices_with bs base lsp).

(* first disagreement of a chain of attempts on one transfer: [id; attempt; model state; model bt; model file length] *)
Fixpoint chain (bs : Z * Z) (base : bytes) (id : Z) (local : bytes) (ss : list sess) (k : Z) : list (list Z) :=
  match ss with
  | [] => []
  | (a, ok, st, t, grant, segs, e) :: r =>
      let d := download_session a local ok (slice_with bs base st) (tcode t) (read_sizes (Z.to_N grant) (map Z.to_N segs)) in
      if agree_d bs base d e then chain bs base id (d_local d) r (k + 1)
      else [[id; k; dcode (d_state d); d_bt d; len (d_local d)]]
  end.

(* id, main pattern (seed, n), initial local file, attempts *)
Definition dcase := (Z * (Z * Z) * list spz * list sess)%type.
Definition bad_d (cs : list dcase) : list (list Z) :=
  flat_map (fun c => let '(id, bs, l0, ss) := c in
                     let base := pat (Z.to_N (fst bs)) (Z.to_N (snd bs)) in
                     chain bs base id (slices_with bs base l0) ss 0) cs.

(* upload case: id, src (seed, n), filesize, offset, grant, cut, peer closes, expected (state, wire, bt, failmsg) *)
(* upload case: ..., offset, position at which the 8 offset bytes are split into two segments (0: one),
   whether the failure notification can be sent, ... *)
Definition ucase := (Z * (Z * Z) * Z * option Z * Z * bool * Z * option Z * bool * (Z * spz * Z * bool))%type.
Definition bad_u (cs : list ucase) : list (list Z) :=
  flat_map (fun c =>
    let '(id, bs, fsz, off, osp, mok, grant, cut, pc, (st, wsp, bt, fm)) := c in
    let base := pat (Z.to_N (fst bs)) (Z.to_N (snd bs)) in
    let u0 := match off with
             | None => upload_session base fsz None (Z.to_N grant) cut pc
             | Some o => upload_session_wire base fsz
                           (let w := le 8 (Z.to_N o) in if Z.eqb osp 0 then [w] else split_at (Z.to_N osp) w)
                           (Z.to_N grant) cut pc
             end in
    let u := if u_failmsg u0 && negb mok && negb ul_fail_before_notify then mkU (u_wire u0) UWedged (u_bt u0) true else u0 in
    if Z.eqb (ucode (u_state u)) st && beq (u_wire u) (slice_with bs base wsp) && Z.eqb (u_bt u) bt && Bool.eqb (u_failmsg u) fm
    then [] else [[id; ucode (u_state u); u_bt u; len (u_wire u)]]) cs.

(* pair case: id, (seed, n), initial local length, faults as (kind 0 none/1 reset/2 eof, delivered bytes), expected (file length, state, attempts) *)
Definition pcase := (Z * (Z * Z) * Z * list (Z * Z) * (Z * Z * Z))%type.
Definition fault_of (x : Z * Z) : fault * list N :=
  let '(k, c) := x in
  ((if Z.eqb k 1 then CutReset (Z.to_N c) else if Z.eqb k 2 then CutEof (Z.to_N c) else NoFault), []).
Definition bad_p (cs : list pcase) : list (list Z) :=
  flat_map (fun c =>
    let '(id, bs, l0, fs, (elen, est, eatt)) := c in
    let base := pat (Z.to_N (fst bs)) (Z.to_N (snd bs)) in
    let '(l, s, n) := pair_run base (takeN (Z.to_N l0) base) (map fault_of fs) in
    if Z.eqb (len l) elen && Z.eqb (dcode s) est && Z.eqb (Z.of_nat n) eatt && beq l (takeN (Z.to_N elen) base)
    then [] else [[id; len l; dcode s; Z.of_nat n]]) cs.
