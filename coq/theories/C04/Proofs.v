(* C04 lemmas *)
From Coq Require Import NArith.
From Slsk Require Import Base.Tac.
From SlskGen Require Import C04Gen.
From Slsk Require Import C04.Model.
Open Scope Z_scope.

(* ---- list helpers ------------------------------------------------------------------------ *)

Lemma dropN_skipn : forall l n, dropN n l = skipn (N.to_nat n) l.
Proof.
  induction l as [|x t IH]; intros n; cbn [dropN].
  - now rewrite skipn_nil.
  - destruct (N.eqb_spec n 0) as [->|Hn]; [reflexivity|].
    rewrite IH. replace (N.to_nat n) with (S (N.to_nat (N.pred n))) by lia. reflexivity.
Qed.

Lemma takeN_firstn : forall l n, takeN n l = firstn (N.to_nat n) l.
Proof.
  induction l as [|x t IH]; intros n; cbn [takeN].
  - now rewrite firstn_nil.
  - destruct (N.eqb_spec n 0) as [->|Hn]; [reflexivity|].
    rewrite IH. replace (N.to_nat n) with (S (N.to_nat (N.pred n))) by lia. reflexivity.
Qed.

Lemma take_drop : forall n l, takeN n l ++ dropN n l = l.
Proof. intros. rewrite takeN_firstn, dropN_skipn. apply firstn_skipn. Qed.

Lemma len_app : forall a b, len (a ++ b) = len a + len b.
Proof. intros. unfold len. rewrite app_length. lia. Qed.

Lemma len_nonneg : forall a, 0 <= len a.
Proof. intros. unfold len. lia. Qed.

Lemma len_nil_iff : forall a, len a = 0 <-> a = [].
Proof. intros [|x t]; unfold len; cbn; split; intros; try reflexivity; try discriminate; lia. Qed.

Lemma len_pos : forall a, a <> [] -> 1 <= len a.
Proof. intros [|x t] H; [congruence|]. unfold len. cbn. lia. Qed.

Lemma prefix_refl : forall l, prefix l l.
Proof. intros l. exists []. now rewrite app_nil_r. Qed.

Lemma prefix_nil : forall l, prefix [] l.
Proof. intros l. now exists l. Qed.

Lemma prefix_app : forall a b c, prefix b c -> prefix (a ++ b) (a ++ c).
Proof. intros a b c [t ->]. exists t. now rewrite app_assoc. Qed.

Lemma prefix_trans : forall a b c, prefix a b -> prefix b c -> prefix a c.
Proof. intros a b c [t ->] [u ->]. exists (t ++ u). now rewrite app_assoc. Qed.

Lemma prefix_len : forall a b, prefix a b -> len a <= len b.
Proof. intros a b [t ->]. rewrite len_app. pose proof (len_nonneg t). lia. Qed.

Lemma prefix_full : forall a b, prefix a b -> len b <= len a -> a = b.
Proof.
  intros a b [t ->] H. rewrite len_app in H. pose proof (len_nonneg t).
  assert (len t = 0) by lia. apply len_nil_iff in H1. subst. now rewrite app_nil_r.
Qed.

Lemma to_nat_len : forall l, N.to_nat (Z.to_N (len l)) = length l.
Proof. intros. unfold len. lia. Qed.

Lemma prefix_split : forall l s, prefix l s -> s = l ++ dropN (Z.to_N (len l)) s.
Proof.
  intros l s [t ->]. rewrite dropN_skipn, to_nat_len.
  rewrite skipn_app, skipn_all, Nat.sub_diag. reflexivity.
Qed.

Lemma takeN_prefix : forall n l, prefix (takeN n l) l.
Proof. intros. exists (dropN n l). symmetry. apply take_drop. Qed.

(* ---- little endian ------------------------------------------------------------------------- *)

Lemma le_decode_le : forall w v, (v < 256 ^ N.of_nat w)%N -> le_decode (le w v) = v.
Proof.
  induction w as [|w IH]; intros v Hv.
  - cbn in *. lia.
  - cbn [le le_decode fold_right]. fold (le_decode (le w (v / 256)%N)).
    rewrite IH.
    + pose proof (N.div_mod v 256). lia.
    + rewrite Nat2N.inj_succ, N.pow_succ_r' in Hv.
      apply N.div_lt_upper_bound; lia.
Qed.

(* ---- pieces -------------------------------------------------------------------------------- *)

Lemma pieces_concat : forall chunks s, concat (pieces chunks s) = s.
Proof.
  induction chunks as [|c cs IH]; intros s; destruct s as [|x t]; cbn [pieces concat]; try reflexivity.
  - now rewrite app_nil_r.
  - rewrite IH. apply take_drop.
Qed.

Lemma takeN_nonempty : forall k x t, k <> 0%N -> takeN k (x :: t) <> [].
Proof. intros k x t Hk. cbn. destruct (N.eqb_spec k 0); [contradiction|discriminate]. Qed.

Lemma pieces_nonempty : forall chunks s, Forall (fun p => p <> []) (pieces chunks s).
Proof.
  induction chunks as [|c cs IH]; intros s; destruct s as [|x t]; cbn [pieces]; try constructor.
  - discriminate.
  - constructor.
  - apply takeN_nonempty. lia.
  - apply IH.
Qed.

Lemma dropN_length_lt : forall k x t, k <> 0%N -> (length (dropN k (x :: t)) < length (x :: t))%nat.
Proof.
  intros k x t Hk. rewrite dropN_skipn, skipn_length. cbn [length]. lia.
Qed.

Lemma chop_concat : forall fuel g s, (length s <= fuel)%nat -> concat (chop fuel g s) = s.
Proof.
  induction fuel as [|f IH]; intros g s H.
  - destruct s; [reflexivity|cbn in H; lia].
  - destruct s as [|x t]; [reflexivity|]. cbn [chop concat].
    rewrite IH; [apply take_drop|].
    pose proof (dropN_length_lt (N.max 1 g) x t). cbn [length] in *. lia.
Qed.

Lemma chop_all_concat : forall g s, concat (chop_all g s) = s.
Proof. intros. apply chop_concat. lia. Qed.

Lemma chop_nonempty : forall fuel g s, Forall (fun p => p <> []) (chop fuel g s).
Proof.
  induction fuel as [|f IH]; intros g s; [constructor|].
  destruct s as [|x t]; cbn [chop]; constructor.
  - apply takeN_nonempty. lia.
  - apply IH.
Qed.

(* ---- recv ------------------------------------------------------------------------------------ *)

Lemma recv_unfold : forall R ps got,
  recv R ps got =
  if recv_more got R then
    match ps with
    | [] => ([], false)
    | p :: ps' => let '(w, r) := recv R ps' (got + len p) in (p :: w, r)
    end
  else ([], true).
Proof. intros R ps got. destruct ps; reflexivity. Qed.

Lemma recv_prefix : forall ps R got w r, recv R ps got = (w, r) -> exists rest, ps = w ++ rest.
Proof.
  induction ps as [|p ps IH]; intros R got w r H; rewrite recv_unfold in H; destruct (recv_more got R).
  - inv H. now exists [].
  - inv H. now exists [].
  - destruct (recv R ps (got + len p)) as [w' r'] eqn:E. inv H.
    destruct (IH _ _ _ _ E) as [rest ->]. now exists rest.
  - inv H. now exists (p :: ps).
Qed.

(* the loop leaves through the test only when the counter has reached the target *)
Lemma recv_reached : forall ps R got w, recv R ps got = (w, true) -> R <= got + len (concat w).
Proof.
  induction ps as [|p ps IH]; intros R got w H; rewrite recv_unfold in H; unfold recv_more in H;
    destruct (Z.ltb_spec got R).
  - inv H.
  - inv H. change (len (concat [])) with 0. lia.
  - destruct (recv R ps (got + len p)) as [w' r'] eqn:E. inv H.
    apply IH in E. cbn [concat]. rewrite len_app. lia.
  - inv H. change (len (concat [])) with 0. lia.
Qed.

(* ... and when it runs out of data everything was consumed and the target was not reached *)
Lemma recv_exhausted : forall ps R got w, recv R ps got = (w, false) ->
  w = ps /\ got + len (concat ps) < R.
Proof.
  induction ps as [|p ps IH]; intros R got w H; rewrite recv_unfold in H; unfold recv_more in H;
    destruct (Z.ltb_spec got R).
  - inv H. change (len (concat [])) with 0. split; [reflexivity|lia].
  - inv H.
  - destruct (recv R ps (got + len p)) as [w' r'] eqn:E. inv H.
    apply IH in E. destruct E as [-> E]. split; [reflexivity|].
    cbn [concat]. rewrite len_app. lia.
  - inv H.
Qed.

(* no excess: every piece is consumed, and the loop stops by the test exactly when the total
   reaches the target *)
Lemma recv_exact : forall ps R got, Forall (fun p => p <> []) ps ->
  got + len (concat ps) <= R -> recv R ps got = (ps, Z.leb R (got + len (concat ps))).
Proof.
  induction ps as [|p ps IH]; intros R got Hne Hle; rewrite recv_unfold; unfold recv_more.
  - change (len (concat [])) with 0 in *. rewrite Z.add_0_r.
    destruct (Z.ltb_spec got R); f_equal; symmetry; [apply Z.leb_gt|apply Z.leb_le]; lia.
  - inversion Hne as [|? ? Hp Hps]; subst. cbn [concat] in *. rewrite len_app in *.
    pose proof (len_pos p Hp). pose proof (len_nonneg (concat ps)).
    destruct (Z.ltb_spec got R); [|lia].
    rewrite IH; [|assumption|lia]. f_equal. f_equal. lia.
Qed.

(* ---- download session ------------------------------------------------------------------------ *)

Lemma download_core_written : forall a local ok ps t,
  exists w, d_local (download_core a local ok ps t) = local ++ w /\ prefix w (concat ps).
Proof.
  intros a local ok ps t. unfold download_core, download_append.
  destruct a as [fsz|]; [|exists []; cbn; rewrite app_nil_r; split; [reflexivity|apply prefix_nil]].
  destruct ok; cbn [negb]; [|exists []; cbn; rewrite app_nil_r; split; [reflexivity|apply prefix_nil]].
  destruct (recv (recv_size fsz (len local)) ps 0) as [w r] eqn:E. cbn.
  exists (concat w). split; [reflexivity|].
  destruct (recv_prefix _ _ _ _ _ E) as [rest ->]. rewrite concat_app. now exists (concat rest).
Qed.

Lemma keeps_prefix : forall a local ok stream t chunks,
  exists w, d_local (download_session a local ok stream t chunks) = local ++ w /\ prefix w stream.
Proof.
  intros. unfold download_session.
  destruct (download_core_written a local ok (pieces chunks stream) t) as (w & H1 & H2).
  exists w. rewrite pieces_concat in H2. auto.
Qed.

Lemma session_prefix_inv : forall src a local ok stream t chunks,
  prefix local src -> prefix stream (dropN (Z.to_N (len local)) src) ->
  prefix (d_local (download_session a local ok stream t chunks)) src.
Proof.
  intros src a local ok stream t chunks Hl Hs.
  destruct (keeps_prefix a local ok stream t chunks) as (w & -> & Hw).
  rewrite (prefix_split _ _ Hl) at 1. apply prefix_app. eapply prefix_trans; eassumption.
Qed.

Lemma complete_len : forall a local ok ps t,
  d_state (download_core a local ok ps t) = DComplete ->
  a = Some (len (d_local (download_core a local ok ps t))).
Proof.
  intros a local ok ps t. unfold download_core, download_append, is_transfered_b, progress_add.
  destruct a as [fsz|]; [|cbn; discriminate].
  destruct ok; cbn [negb]; [|cbn; discriminate].
  destruct (recv (recv_size fsz (len local)) ps 0) as [w r]. cbn.
  destruct (r || match t with TEof => true | _ => false end); [|discriminate].
  destruct (Z.eqb_spec fsz (len local + len (concat w))); [|discriminate].
  intros _. rewrite len_app. now subst.
Qed.

Lemma complete_sound_dishonest : forall a local ok stream t chunks,
  d_state (download_session a local ok stream t chunks) = DComplete ->
  a = Some (len (d_local (download_session a local ok stream t chunks))).
Proof. intros. now apply complete_len. Qed.

Lemma complete_sound_download : forall src local ok stream t chunks,
  prefix local src -> prefix stream (dropN (Z.to_N (len local)) src) ->
  d_state (download_session (Some (len src)) local ok stream t chunks) = DComplete ->
  d_local (download_session (Some (len src)) local ok stream t chunks) = src.
Proof.
  intros src local ok stream t chunks Hl Hs Hc.
  pose proof (session_prefix_inv src (Some (len src)) local ok stream t chunks Hl Hs) as Hp.
  apply complete_sound_dishonest in Hc.
  assert (E : forall x y : Z, Some x = Some y -> x = y) by (intros x y K; now inversion K).
  apply E in Hc. apply prefix_full; [assumption|]. rewrite <- Hc. lia.
Qed.

(* nothing expected (local file as large as, or larger than, the announced size): nothing is read,
   so nothing a sender pushes is appended *)
Lemma nothing_expected_nothing_written : forall fsz local stream t chunks,
  fsz <= len local ->
  d_local (download_session (Some fsz) local true stream t chunks) = local /\
  d_state (download_session (Some fsz) local true stream t chunks) =
    (if Z.eqb fsz (len local) then DComplete else DFailedCancelled).
Proof.
  intros fsz local stream t chunks H.
  unfold download_session, download_core, download_append, is_transfered_b, progress_add, recv_size. cbn [negb].
  rewrite recv_unfold. unfold recv_more. destruct (Z.ltb_spec 0 (fsz - len local)); [lia|].
  cbn. change (len []) with 0. rewrite app_nil_r, Z.add_0_r. auto.
Qed.

(* no excess: whatever was delivered is in the file *)
Lemma no_excess_all_kept : forall fsz local stream t chunks,
  len stream <= fsz - len local \/ stream = [] ->
  d_local (download_session (Some fsz) local true stream t chunks) = local ++ stream /\
  d_bt (download_session (Some fsz) local true stream t chunks) = len local + len stream /\
  d_state (download_session (Some fsz) local true stream t chunks) =
    (if Z.leb (fsz - len local) (len stream) || match t with TEof => true | _ => false end
     then (if Z.eqb fsz (len local + len stream) then DComplete else DFailedCancelled)
     else DIncomplete).
Proof.
  intros fsz local stream t chunks H.
  unfold download_session, download_core, download_append, is_transfered_b, progress_add, recv_size. cbn [negb].
  pose proof (pieces_concat chunks stream) as Hc. pose proof (pieces_nonempty chunks stream) as Hn.
  destruct H as [H|H].
  - rewrite recv_exact; [|assumption|rewrite Hc; lia].
    rewrite Hc. cbn [d_local d_bt d_state]. replace (0 + len stream) with (len stream) by lia. auto.
  - subst stream. assert (pieces chunks [] = []) as -> by (destruct chunks; reflexivity).
    rewrite recv_unfold. unfold recv_more. change (len []) with 0.
    destruct (Z.ltb_spec 0 (fsz - len local)), (Z.leb_spec (fsz - len local) 0); try lia;
      cbn; change (len []) with 0; rewrite app_nil_r, Z.add_0_r; auto.
Qed.

Lemma cut_keeps_all : forall fsz local stream t chunks,
  len stream <= fsz - len local \/ stream = [] ->
  d_local (download_session (Some fsz) local true stream t chunks) = local ++ stream.
Proof. intros. now apply no_excess_all_kept. Qed.

Lemma chunking_irrelevant : forall fsz local stream t c1 c2,
  len stream <= fsz - len local \/ stream = [] ->
  let r1 := download_session (Some fsz) local true stream t c1 in
  let r2 := download_session (Some fsz) local true stream t c2 in
  d_local r1 = d_local r2 /\ d_state r1 = d_state r2 /\ d_bt r1 = d_bt r2 /\
  d_offset r1 = d_offset r2 /\ d_wire r1 = d_wire r2.
Proof.
  intros fsz local stream t c1 c2 H r1 r2.
  destruct (no_excess_all_kept fsz local stream t c1 H) as (A1 & B1 & C1).
  destruct (no_excess_all_kept fsz local stream t c2 H) as (A2 & B2 & C2).
  subst r1 r2. rewrite A1, A2, B1, B2, C1, C2. repeat split.
  - unfold download_session, download_core. cbn [negb].
    destruct (recv _ (pieces c1 stream) 0), (recv _ (pieces c2 stream) 0). reflexivity.
  - unfold download_session, download_core. cbn [negb].
    destruct (recv _ (pieces c1 stream) 0), (recv _ (pieces c2 stream) 0). reflexivity.
Qed.

Lemma resume_offset : forall fsz local stream t chunks,
  let r := download_session (Some fsz) local true stream t chunks in
  d_offset r = Some (len local) /\ d_wire r = le 8 (Z.to_N (len local)) /\
  (len local < 2 ^ 64 -> Z.of_N (le_decode (d_wire r)) = len local).
Proof.
  intros fsz local stream t chunks r.
  assert (d_offset r = Some (len local) /\ d_wire r = le 8 (Z.to_N (len local))) as [A B].
  { subst r. unfold download_session, download_core, offset_width. cbn [negb].
    destruct (recv _ _ 0). now cbn. }
  repeat split; try assumption. intros H. rewrite B, le_decode_le.
  - pose proof (len_nonneg local). lia.
  - pose proof (len_nonneg local). change (256 ^ N.of_nat 8)%N with (18446744073709551616)%N.
    change (2 ^ 64) with 18446744073709551616 in H. lia.
Qed.

Lemma no_offset_no_write : forall fsz local stream t chunks,
  let r := download_session (Some fsz) local false stream t chunks in
  d_local r = local /\ d_state r = DQueued /\ d_offset r = None /\ d_wire r = [].
Proof. intros. subst r. unfold download_session, download_core. now cbn. Qed.

Lemma refused_untouched : forall local ok stream t chunks,
  let r := download_session None local ok stream t chunks in
  d_local r = local /\ d_state r = DRefused /\ d_offset r = None /\ d_wire r = [].
Proof. intros. subst r. unfold download_session, download_core. now cbn. Qed.

(* ---- pair / retry ----------------------------------------------------------------------------- *)

Lemma pair_download_prefix : forall src local f ch,
  prefix local src -> prefix (d_local (pair_download src local f ch)) src.
Proof.
  intros src local f ch H. unfold pair_download.
  destruct f; apply session_prefix_inv; try assumption; try apply prefix_refl; apply takeN_prefix.
Qed.

Lemma prefix_inv : forall fs src local, prefix local src -> prefix (retry src local fs) src.
Proof.
  induction fs as [|[f ch] r IH]; intros src local H; cbn [retry]; [assumption|].
  apply IH. now apply pair_download_prefix.
Qed.

Lemma pair_complete_sound : forall src local f ch,
  prefix local src -> d_state (pair_download src local f ch) = DComplete ->
  d_local (pair_download src local f ch) = src.
Proof.
  intros src local f ch H. unfold pair_download.
  destruct f; apply complete_sound_download; try assumption; try apply prefix_refl; apply takeN_prefix.
Qed.

Lemma pair_offset : forall src local f ch, d_offset (pair_download src local f ch) = Some (len local).
Proof. intros. unfold pair_download. destruct f; apply resume_offset. Qed.

Lemma retry_offsets_step : forall src local f ch r,
  retry_offsets src local ((f, ch) :: r) =
  Some (len local) :: retry_offsets src (retry src local [(f, ch)]) r.
Proof. intros. cbn [retry_offsets retry]. now rewrite pair_offset. Qed.

Lemma rest_len : forall local src, prefix local src ->
  len (dropN (Z.to_N (len local)) src) = len src - len local.
Proof. intros local src H. rewrite (prefix_split _ _ H) at 2. rewrite len_app. lia. Qed.

(* a fault-free attempt completes the file, whatever is missing - also nothing *)
Lemma fault_free_completes : forall src local ch,
  prefix local src ->
  d_state (pair_download src local NoFault ch) = DComplete /\
  d_local (pair_download src local NoFault ch) = src.
Proof.
  intros src local ch H. unfold pair_download.
  pose proof (rest_len _ _ H) as Hr.
  destruct (no_excess_all_kept (len src) local (dropN (Z.to_N (len local)) src) TTimeout ch) as (A & _ & C).
  { left. lia. }
  rewrite A, C. rewrite <- (prefix_split _ _ H). split; [|reflexivity].
  rewrite Hr. replace (len src - len local <=? len src - len local) with true by lia.
  replace (len src =? len local + (len src - len local)) with true by lia. reflexivity.
Qed.

Lemma eventual : forall fs src local ch,
  prefix local src ->
  d_state (pair_download src (retry src local fs) NoFault ch) = DComplete /\
  d_local (pair_download src (retry src local fs) NoFault ch) = src.
Proof. intros. apply fault_free_completes. now apply prefix_inv. Qed.

(* ---- terminal states --------------------------------------------------------------------------- *)

Definition d_terminal (s : dstate) : Prop :=
  s = DComplete \/ s = DIncomplete \/ s = DFailedCancelled \/ s = DQueued \/ s = DRefused.

Lemma terminal : forall a local ok stream t chunks,
  d_terminal (d_state (download_session a local ok stream t chunks)).
Proof.
  intros. unfold d_terminal, download_session, download_core, dl_nosize_state, dl_offset_fail_state,
    dl_done_state, dl_read_error_state.
  destruct a; [|cbn; auto 6]. destruct ok; cbn [negb]; [|cbn; auto 6].
  destruct (recv _ _ 0). cbn. repeat destr_if; auto 6.
Qed.

(* ---- upload ------------------------------------------------------------------------------------- *)

Lemma send_loop_all : forall ps cut sent w, send_loop ps cut sent = (w, true) -> w = ps.
Proof.
  induction ps as [|p ps IH]; intros cut sent w H; cbn [send_loop] in H.
  - now inv H.
  - destruct (match cut with Some k => k <=? sent | None => false end); [inv H|].
    destruct (send_loop ps cut (sent + len p)) as [w' ok] eqn:E. inv H. f_equal. eapply IH; eassumption.
Qed.

Lemma send_loop_prefix : forall ps cut sent w ok, send_loop ps cut sent = (w, ok) -> exists rest, ps = w ++ rest.
Proof.
  induction ps as [|p ps IH]; intros cut sent w ok H; cbn [send_loop] in H.
  - inv H. now exists [].
  - destruct (match cut with Some k => k <=? sent | None => false end); [inv H; now exists (p :: ps)|].
    destruct (send_loop ps cut (sent + len p)) as [w' ok'] eqn:E. inv H.
    destruct (IH _ _ _ _ E) as [rest ->]. now exists rest.
Qed.

Lemma send_loop_nocut : forall ps sent, send_loop ps None sent = (ps, true).
Proof. induction ps as [|p ps IH]; intros; cbn [send_loop]; [reflexivity|now rewrite IH]. Qed.

Lemma upload_wire_prefix : forall src fsz o grant cut pc,
  prefix (u_wire (upload_session src fsz (Some o) grant cut pc)) (dropN o src).
Proof.
  intros. unfold upload_session, upload_core, upload_seek.
  destruct (N.leb 9223372036854775808 o); [apply prefix_nil|].
  destruct (send_loop (chop_all grant (dropN o src)) cut 0) as [w ok] eqn:E.
  destruct (send_loop_prefix _ _ _ _ _ E) as [rest Hr].
  assert (prefix (concat w) (dropN o src)).
  { rewrite <- (chop_all_concat grant (dropN o src)), Hr, concat_app. now exists (concat rest). }
  destruct ok; cbn [negb]; [destruct pc; cbn [negb]|]; cbn; assumption.
Qed.

Lemma complete_sound_upload : forall src fsz off grant cut pc,
  u_state (upload_session src fsz off grant cut pc) = UComplete ->
  exists o, off = Some o /\ pc = true /\
    u_wire (upload_session src fsz off grant cut pc) = skipn (N.to_nat o) src /\
    fsz = Z.of_N o + len (skipn (N.to_nat o) src).
Proof.
  intros src fsz off grant cut pc. unfold upload_session, upload_core, upload_seek, is_transfered_b, progress_add.
  destruct off as [o|]; [|cbn; discriminate].
  destruct (N.leb 9223372036854775808 o); [cbn; discriminate|].
  destruct (send_loop (chop_all grant (dropN o src)) cut 0) as [w ok] eqn:E.
  destruct ok; cbn [negb]; [|cbn; discriminate].
  destruct pc; cbn [negb]; [|cbn; discriminate]. cbn.
  apply send_loop_all in E. subst w. rewrite chop_all_concat, dropN_skipn.
  destruct (Z.eqb_spec fsz (Z.of_N o + len (skipn (N.to_nat o) src))); [|discriminate].
  intros _. exists o. auto.
Qed.

Lemma upload_grant_irrelevant : forall src fsz off g1 g2 pc,
  let r1 := upload_session src fsz off g1 None pc in
  let r2 := upload_session src fsz off g2 None pc in
  u_wire r1 = u_wire r2 /\ u_state r1 = u_state r2 /\ u_bt r1 = u_bt r2.
Proof.
  intros src fsz off g1 g2 pc. unfold upload_session, upload_core, upload_seek. destruct off as [o|]; [|now cbn].
  destruct (N.leb 9223372036854775808 o); [now cbn|].
  rewrite !send_loop_nocut, !chop_all_concat. cbn [negb]. destruct pc; cbn; auto.
Qed.

(* honest pair, no fault: the uploader ends COMPLETE having sent exactly the remainder *)
Lemma pair_upload_complete : forall src local grant, prefix local src -> len src < 2 ^ 63 ->
  u_state (pair_upload src local NoFault grant) = UComplete /\
  local ++ u_wire (pair_upload src local NoFault grant) = src.
Proof.
  intros src local grant H Hs. unfold pair_upload, upload_session, upload_core, upload_seek, is_transfered_b, progress_add.
  pose proof (prefix_len _ _ H). pose proof (len_nonneg local).
  change (2 ^ 63) with 9223372036854775808 in Hs.
  destruct (N.leb_spec 9223372036854775808 (Z.to_N (len local))); [lia|].
  rewrite send_loop_nocut, chop_all_concat. cbn [negb]. cbn.
  rewrite <- (prefix_split _ _ H). split; [|reflexivity].
  pose proof (rest_len _ _ H).
  replace (len src =? Z.of_N (Z.to_N (len local)) + len (dropN (Z.to_N (len local)) src)) with true by lia.
  reflexivity.
Qed.

Definition u_terminal (s : ustate) : Prop := s = UComplete \/ s = UFailed \/ s = UQueued \/ s = UFailedRead.

(* the uploader ends in a terminal state whenever the peer closes, for every offset *)
Lemma upload_terminal : forall src fsz off grant cut,
  u_terminal (u_state (upload_session src fsz off grant cut true)).
Proof.
  intros src fsz off grant cut. unfold u_terminal, upload_session, upload_core, ul_offset_fail_state,
    ul_seek_error_handled, ul_file_error_state, ul_write_error_state, ul_done_state.
  destruct off as [o|]; [|cbn; auto].
  destruct (N.leb 9223372036854775808 o); [cbn; auto|].
  destruct (send_loop _ cut 0) as [w ok]. destruct ok; cbn; [destr_if|]; auto.
Qed.

(* an absurd offset fails the upload without sending anything *)
Lemma upload_huge_offset : forall src fsz o grant cut pc, (2 ^ 63 <= o)%N ->
  u_state (upload_session src fsz (Some o) grant cut pc) = UFailedRead /\
  u_wire (upload_session src fsz (Some o) grant cut pc) = [].
Proof.
  intros src fsz o grant cut pc H. unfold upload_session, upload_core.
  change (2 ^ 63)%N with 9223372036854775808%N in H.
  destruct (N.leb_spec 9223372036854775808 o); [now cbn|lia].
Qed.

(* ---- the offset on the wire, as the uploader reads it ---------------------------------------- *)

Lemma le_length : forall w v, length (le w v) = w.
Proof. induction w as [|w IH]; intros v; cbn [le length]; [reflexivity|now rewrite IH]. Qed.

Lemma firstn_exact : forall (l r : bytes), firstn (length l) (l ++ r) = l.
Proof. induction l as [|x l IH]; intros r; cbn; [reflexivity|now rewrite IH]. Qed.

(* whatever the TCP segmentation of the downloader's bytes, the uploader reads the offset that was
   sent (readexactly) *)
Lemma read_offset_segments : forall o segs rest, (o < 2 ^ 64)%N ->
  concat segs = le 8 o ++ rest -> read_offset segs = Some o.
Proof.
  intros o segs rest Ho H. unfold read_offset, offset_read_exact, offset_read_width. rewrite H.
  rewrite app_length, le_length. replace (8 + length rest <? 8)%nat with false by (symmetry; apply Nat.ltb_ge; lia).
  rewrite takeN_firstn. change (N.to_nat (N.of_nat 8)) with 8%nat.
  replace (firstn 8 (le 8 o ++ rest)) with (firstn (length (le 8 o)) (le 8 o ++ rest)) by (now rewrite le_length).
  rewrite firstn_exact. f_equal. apply le_decode_le. exact Ho.
Qed.

Lemma read_offset_short : forall segs, (length (concat segs) < 8)%nat -> read_offset segs = None.
Proof.
  intros segs H. unfold read_offset, offset_read_exact, offset_read_width.
  replace (length (concat segs) <? 8)%nat with true by (symmetry; apply Nat.ltb_lt; lia). reflexivity.
Qed.

Lemma complete_sound_upload_wire : forall src fsz o segs rest grant cut pc, (o < 2 ^ 64)%N ->
  concat segs = le 8 o ++ rest ->
  u_state (upload_session_wire src fsz segs grant cut pc) = UComplete ->
  pc = true /\ u_wire (upload_session_wire src fsz segs grant cut pc) = skipn (N.to_nat o) src.
Proof.
  intros src fsz o segs rest grant cut pc Ho H. unfold upload_session_wire.
  rewrite (read_offset_segments o segs rest Ho H). intros Hc.
  destruct (complete_sound_upload _ _ _ _ _ _ Hc) as (o' & E & Hp & Hw & _). inv E. auto.
Qed.

(* The uploader has no timeout of its own while it waits for the peer to close: if every byte went
   out and the peer neither closes nor breaks the connection, the upload stays UPLOADING. *)
Lemma upload_stuck_without_close : forall src fsz o grant, (o < 2 ^ 63)%N ->
  u_state (upload_session src fsz (Some o) grant None false) = UStuck.
Proof.
  intros src fsz o grant H. unfold upload_session, upload_core, ul_waits_eof, eof_wait_bounded.
  change (2 ^ 63)%N with 9223372036854775808%N in H.
  destruct (N.leb_spec 9223372036854775808 o); [lia|].
  rewrite send_loop_nocut. reflexivity.
Qed.

(* ---- the pair over several attempts ------------------------------------------------------------ *)

Lemma pair_download_honest_state : forall src local f ch,
  prefix local src -> not_eof f = true ->
  d_state (pair_download src local f ch) = DComplete \/ d_state (pair_download src local f ch) = DIncomplete.
Proof.
  intros src local f ch H Hf. unfold pair_download. pose proof (rest_len _ _ H) as Hr.
  set (rest := dropN (Z.to_N (len local)) src) in *.
  destruct f as [|k|k]; [| |discriminate].
  - destruct (no_excess_all_kept (len src) local rest TTimeout ch) as (_ & _ & C); [left; lia|].
    rewrite C. cbn [orb]. rewrite orb_false_r. repeat destr_if; auto; lia.
  - pose proof (prefix_len _ _ (takeN_prefix k rest)) as Hk.
    destruct (no_excess_all_kept (len src) local (takeN k rest) TReset ch) as (_ & _ & C); [left; lia|].
    rewrite C. rewrite orb_false_r. repeat destr_if; auto; lia.
Qed.

Lemma pair_run_safe : forall fs src local,
  prefix local src ->
  let '(l, s, _) := pair_run src local fs in prefix l src /\ (s = DComplete -> l = src).
Proof.
  induction fs as [|[f ch] r IH]; intros src local H; cbn [pair_run].
  - split; [now apply pair_download_prefix|now apply pair_complete_sound].
  - destruct (retried (d_state (pair_download src local f ch))).
    + specialize (IH src (d_local (pair_download src local f ch)) (pair_download_prefix _ _ f ch H)).
      destruct (pair_run src (d_local (pair_download src local f ch)) r) as [[l s] n]. exact IH.
    + split; [now apply pair_download_prefix|now apply pair_complete_sound].
Qed.

(* resets, read timeouts and unsendable offsets, in any number, at any byte: the pair ends COMPLETE
   with the identical file without user action *)
Lemma pair_eventual : forall fs src local,
  prefix local src -> forallb (fun x => not_eof (fst x)) fs = true ->
  exists n, pair_run src local fs = (src, DComplete, n).
Proof.
  induction fs as [|[f ch] r IH]; intros src local H Hf; cbn [pair_run].
  - destruct (fault_free_completes src local [] H) as [-> ->]. now exists 1%nat.
  - cbn [forallb fst] in Hf. apply andb_prop in Hf. destruct Hf as [Hf Hr].
    destruct (pair_download_honest_state src local f ch H Hf) as [E|E]; rewrite E; cbn [retried].
    + rewrite (pair_complete_sound src local f ch H E). now exists 1%nat.
    + destruct (IH src (d_local (pair_download src local f ch)) (pair_download_prefix _ _ f ch H) Hr) as [n ->].
      now exists (S n).
Qed.

(* ... but not after a clean close (EOF) before the end: finding C04-N1 *)
Lemma pair_eventual_refuted : exists src local fs,
  prefix local src /\ pair_run src local fs = ([1]%N, DFailedCancelled, 1%nat) /\ src <> [1]%N.
Proof. exists [1;2]%N, [], [(CutEof 1, [])]. split; [apply prefix_nil|]. split; [reflexivity|discriminate]. Qed.

(* ---- failure notification / one negotiation at a time --------------------------------------------- *)

Lemma upload_terminal_msg : forall src fsz off grant cut msg_ok,
  u_terminal (u_state (upload_session_msg src fsz off grant cut true msg_ok)).
Proof.
  intros. unfold upload_session_msg, ul_fail_before_notify. rewrite andb_false_r. apply upload_terminal.
Qed.

Lemma upload_msg_irrelevant : forall src fsz off grant cut pc msg_ok,
  upload_session_msg src fsz off grant cut pc msg_ok = upload_session src fsz off grant cut pc.
Proof. intros. unfold upload_session_msg, ul_fail_before_notify. now rewrite andb_false_r. Qed.

Lemma no_second_negotiation : second_request_starts_task true = false.
Proof. reflexivity. Qed.

(* why: two writers leave a file that is longer than the remote file, hence not a prefix of it *)
Lemma two_writers_corrupt : forall src local k,
  prefix local src -> len local < len src -> ~ prefix (two_writers src local k) src.
Proof.
  intros src local k H Hlt Hp. apply prefix_len in Hp. unfold two_writers in Hp.
  pose proof (rest_len _ _ H) as Hr. set (rest := dropN (Z.to_N (len local)) src) in *.
  rewrite !len_app in Hp. pose proof (take_drop k rest) as E.
  assert (len (takeN k rest) + len (dropN k rest) = len rest) by (rewrite <- len_app; now rewrite E).
  lia.
Qed.
