(* C12 property theorems (statements only; proofs are in Proofs.v).
   Model: C12/Model.v — the list of expected-response futures of Network, the callers of
   wait_for_*_message / execute, the completion loop of on_message_received.
   All theorems quantify over every event list [es] (every interleaving of registrations, messages,
   timeouts, cancellations, callback runs and send outcomes); [run es] is the state after [es]. *)
From Slsk Require Import Base.Tac.
From SlskGen Require RetryGen.
From Slsk Require Import C12.Model C12.Proofs.
Open Scope nat_scope.

(* --- at most one completion, only by a matching message ------------------------------------ *)
(* Whatever happens later ([es']), a waiter keeps its matcher, a done future never changes again,
   an outcome delivered to the caller never changes again, a removed entry never comes back. *)
Theorem C12_exact_once_partial : forall es es' i e, nth_error (run es) i = Some e ->
  exists e', nth_error (run (es ++ es')) i = Some e' /\
    e_m e' = e_m e /\ e_kind e' = e_kind e /\
    (e_fut e <> FPending -> e_fut e' = e_fut e) /\
    (forall o, e_out e = Some o -> e_out e' = Some o) /\
    (e_in e = false -> e_in e' = false) /\
    (e_task e = TFin -> e_task e' = TFin).
Proof. exact exact_once_partial. Qed.

(* A result is a message that was delivered while the waiter was pending and listed, and that
   [matches] (the implementation's matcher) accepts. *)
Theorem C12_result_only_matching : forall es i e g, nth_error (run es) i = Some e -> e_fut e = FResult g ->
  exists es1 es2 e1, es = es1 ++ Message g :: es2 /\ nth_error (run es1) i = Some e1 /\
     e_fut e1 = FPending /\ e_in e1 = true /\ matches (e_m e1) g = true /\ e_m e1 = e_m e.
Proof. exact result_provenance. Qed.

(* What the property asks in addition — no completion is ever ATTEMPTED on a done waiter — is false:
   two matching messages in one loop iteration (finding F02a). *)
Theorem C12_exact_once_refuted : exists es g i e g', nth_error (run es) i = Some e /\ e_fut e = FResult g' /\
  e_in e = true /\ matches (e_m e) g = true /\ snd (step (run es) (Message g)) = true.
Proof. exact exact_once_refuted. Qed.

(* --- every pending request the message answers is completed ------------------------------- *)
(* ... when the completion loop does not raise; and nothing else is touched. *)
Theorem C12_all_pending_matching_completed_partial : forall es g i e, nth_error (run es) i = Some e ->
  e_in e = true -> e_fut e = FPending -> matches (e_m e) g = true ->
  snd (step (run es) (Message g)) = false ->
  exists e', nth_error (run (es ++ [Message g])) i = Some e' /\ e_fut e' = FResult g.
Proof. exact all_completed_partial. Qed.

Theorem C12_message_touches_only_matching : forall es g i e e', nth_error (run es) i = Some e ->
  nth_error (run (es ++ [Message g])) i = Some e' ->
  e' = e \/ (e_in e = true /\ e_fut e = FPending /\ matches (e_m e) g = true /\ e' = set_fut e (FResult g)).
Proof. exact message_only_matching. Qed.

(* The loop raises exactly when a done waiter that is still listed matches the message ... *)
Theorem C12_raise_iff_done_listed_match : forall st g, snd (step st (Message g)) = true ->
  exists i e, nth_error st i = Some e /\ e_in e = true /\ matches (e_m e) g = true /\ is_pending (e_fut e) = false.
Proof. intros st g. exact (deliver_raise g st). Qed.

(* ... and then pending waiters behind it are skipped (finding F02a): the unconditional statement is false. *)
Theorem C12_all_pending_matching_completed_refuted : exists es g i e e', nth_error (run es) i = Some e /\
  e_in e = true /\ e_fut e = FPending /\ matches (e_m e) g = true /\
  nth_error (run (es ++ [Message g])) i = Some e' /\ e_fut e' = FPending.
Proof. exact all_completed_refuted. Qed.

(* --- first match ---------------------------------------------------------------------------- *)
(* The completing message is the first matching one after registration, EXCEPT for earlier matching
   messages whose delivery raised. *)
Theorem C12_first_match_partial : forall es i e g, nth_error (run es) i = Some e -> e_fut e = FResult g ->
  exists es1 es2 e1, es = es1 ++ Message g :: es2 /\ nth_error (run es1) i = Some e1 /\
    e_fut e1 = FPending /\ e_in e1 = true /\ matches (e_m e1) g = true /\
    (forall a g' b e0, es1 = a ++ Message g' :: b -> nth_error (run a) i = Some e0 -> matches (e_m e0) g' = true ->
       snd (step (run a) (Message g')) = true).
Proof. exact first_match_partial. Qed.

Theorem C12_first_match_refuted : exists es i e g es1 g' es2 e1, nth_error (run es) i = Some e /\ e_fut e = FResult g /\
  es = es1 ++ Message g' :: es2 /\ In (Message g) es2 /\ g' <> g /\
  nth_error (run es1) i = Some e1 /\ e_fut e1 = FPending /\ e_in e1 = true /\ matches (e_m e1) g' = true.
Proof. exact first_match_refuted. Qed.

(* --- a timeout is a timeout ----------------------------------------------------------------- *)
(* Once the timeout of a suspended caller fires and nobody else cancels that caller, the caller of
   execute() gets TimeoutError; the caller of wait_for_server/peer_message ALWAYS gets
   InvalidStateError (set_exception on the future the timeout has just cancelled): finding F02b. *)
Theorem C12_timeout_is_timeout_partial : forall es i e es', nth_error (run es) i = Some e ->
  e_kind e = KExec -> e_task e = TWait -> e_tmo e = false -> e_ext e = false -> ~ In (Cancel i) es' ->
  exists e', nth_error (run (es ++ Timeout i :: es' ++ [RunCallbacks])) i = Some e' /\ e_out e' = Some OTimeout.
Proof. intros es i e es' H K. intros. destruct (timeout_outcome es i e es') as (e' & A & B); auto. rewrite K in B. eauto. Qed.

Theorem C12_wait_timeout_always_invalid_state : forall es i e es', nth_error (run es) i = Some e ->
  e_kind e = KWait -> e_task e = TWait -> e_tmo e = false -> e_ext e = false -> ~ In (Cancel i) es' ->
  exists e', nth_error (run (es ++ Timeout i :: es' ++ [RunCallbacks])) i = Some e' /\ e_out e' = Some OInvalidState.
Proof. intros es i e es' H K. intros. destruct (timeout_outcome es i e es') as (e' & A & B); auto. rewrite K in B. eauto. Qed.

Theorem C12_timeout_is_timeout_refuted : exists es i e, nth_error (run es) i = Some e /\ e_kind e = KWait /\
  e_tmo e = true /\ e_ext e = false /\ e_out e = Some OInvalidState.
Proof. exact timeout_refuted. Qed.

(* --- no residue ------------------------------------------------------------------------------ *)
(* In every reachable state a done future that is still listed has its removal scheduled, and an
   unlisted future is done ... *)
Theorem C12_listed_done_is_scheduled : forall es i e, nth_error (run es) i = Some e ->
  e_cbs e = (e_in e && negb (is_pending (e_fut e))) /\ (e_in e = false -> e_fut e <> FPending).
Proof.
  intros es i e H. pose proof (run_all_wf es i e H) as W. unfold wf, wfb in W.
  repeat (apply andb_true_iff in W; destruct W as [W ?]). split.
  - apply eqb_prop. exact W.
  - intros I P. rewrite I, P in *. discriminate.
Qed.

(* ... so once the callbacks have run only pending waiters are listed, and no message raises. *)
Theorem C12_no_residue : forall es, clean (run (es ++ [RunCallbacks])) = true.
Proof. exact no_residue. Qed.

Theorem C12_no_residue_no_raise : forall es g, snd (step (run (es ++ [RunCallbacks])) (Message g)) = false.
Proof. exact no_residue_no_raise. Qed.

Theorem C12_clean_no_raise : forall st g, clean st = true -> snd (step st (Message g)) = false.
Proof. intros st g. exact (clean_no_raise g st). Qed.

(* RunCallbacks is the DoneCb of every entry in list order (the correspondence observes DoneCb). *)
Theorem C12_runcallbacks_as_donecbs : forall st,
  fst (step st RunCallbacks) = run_from st (map DoneCb (seq 0 (length st))).
Proof. exact runcallbacks_as_donecbs. Qed.

(* --- the matcher ------------------------------------------------------------------------------ *)
(* ExpectedResponse.matches tests every expected field when no callable is followed by another field;
   otherwise it stops at the first callable (finding F02c). *)
Theorem C12_matches_spec_partial : forall m g, callable_last (m_fields m) = true -> matches m g = matches_spec m g.
Proof. exact matches_spec_partial. Qed.

Theorem C12_matches_complete : forall m g, matches_spec m g = true -> matches m g = true.
Proof. exact matches_spec_implies_matches. Qed.

Theorem C12_matches_spec_refuted : exists m g, matches m g = true /\ matches_spec m g = false.
Proof. exact matches_spec_refuted. Qed.

(* --- documented default (docstring of SoulSeekClient.execute: "default: 10"); regenerated by tr_retry ----- *)
Theorem C12_default_command_timeout_documented : SlskGen.RetryGen.DEFAULT_COMMAND_TIMEOUT = 10%Z.
Proof. reflexivity. Qed.

(* --- non-vacuity -------------------------------------------------------------------------------- *)
Example C12_nonvacuous :
  (* a waiter that is pending, listed and matched; the loop does not raise; it gets the result *)
  (let es := [Register KExec m0; SendOk 0; Register KWait m0] in
   exists e, nth_error (run es) 0 = Some e /\ e_in e = true /\ e_fut e = FPending /\ matches (e_m e) (g0 7) = true /\
     snd (step (run es) (Message (g0 7))) = false /\ e_kind e = KExec /\ e_task e = TWait /\ e_tmo e = false /\ e_ext e = false) /\
  (* execute: timeout while pending gives OTimeout *)
  (exists e, nth_error (run [Register KExec m0; SendOk 0; Timeout 0; Message (g0 1); RunCallbacks]) 0 = Some e /\ e_out e = Some OTimeout) /\
  (* a completed waiter *)
  (exists e, nth_error (run [Register KWait m0; Message (g0 3); RunCallbacks]) 0 = Some e /\ e_fut e = FResult (g0 3) /\
     e_out e = Some (OResult (g0 3)) /\ e_in e = false) /\
  callable_last (m_fields m1) = true /\ matches_spec m1 (g0 0) = true /\ clean (run [Register KRaw m0]) = true.
Proof. repeat split; try (eexists; repeat split); reflexivity. Qed.
