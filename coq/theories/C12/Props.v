(* C12 property theorems (statements only; proofs are in Proofs.v) — REPAIRED code (F02a, F02b, F02c fixed).
   Model: C12/Model.v — the list of expected-response futures of Network, the callers of
   wait_for_*_message / execute, the completion loop of on_message_received.
   All theorems quantify over every event list [es] (every interleaving of registrations, messages,
   timeouts, cancellations, callback runs and send outcomes); [run es] is the state after [es]. *)
From Slsk Require Import Base.Tac.
From SlskGen Require RetryGen.
From Slsk Require Import C12.Model C12.Proofs.
Open Scope nat_scope.

(* --- exactly once, only by a matching message ---------------------------------------------------- *)
(* Whatever happens later ([es']), a waiter keeps its matcher, a done future never changes again,
   an outcome delivered to the caller never changes again, a removed entry never comes back; ... *)
Theorem C12_exact_once : forall es es' i e, nth_error (run es) i = Some e ->
  exists e', nth_error (run (es ++ es')) i = Some e' /\
    e_m e' = e_m e /\ e_kind e' = e_kind e /\
    (e_fut e <> FPending -> e_fut e' = e_fut e) /\
    (forall o, e_out e = Some o -> e_out e' = Some o) /\
    (e_in e = false -> e_in e' = false) /\
    (e_task e = TFin -> e_task e' = TFin).
Proof. exact exact_once_partial. Qed.

(* ... a message only touches pending, listed waiters it matches (no completion is attempted on a done waiter),
   and the completion loop never raises. *)
Theorem C12_message_touches_only_pending_matching : forall es g i e e', nth_error (run es) i = Some e ->
  nth_error (run (es ++ [Message g])) i = Some e' ->
  e' = e \/ (e_in e = true /\ e_fut e = FPending /\ matches (e_m e) g = true /\ e' = set_fut e (FResult g)).
Proof. exact message_only_matching. Qed.

Theorem C12_completion_loop_never_raises : forall st ev, snd (step st ev) = false.
Proof. exact never_raises. Qed.

(* A result is a message that was delivered while the waiter was pending and listed, and that matches. *)
Theorem C12_result_only_matching : forall es i e g, nth_error (run es) i = Some e -> e_fut e = FResult g ->
  exists es1 es2 e1, es = es1 ++ Message g :: es2 /\ nth_error (run es1) i = Some e1 /\
     e_fut e1 = FPending /\ e_in e1 = true /\ matches_spec (e_m e1) g = true /\ e_m e1 = e_m e.
Proof.
  intros es i e g H F. destruct (result_provenance es i e g H F) as (a & b & e1 & A & B & C & D & E & G).
  exists a, b, e1. rewrite <- matches_is_spec. auto 10.
Qed.

(* --- every pending request the message answers is completed ------------------------------------- *)
Theorem C12_all_pending_matching_completed : forall es g i e, nth_error (run es) i = Some e ->
  e_in e = true -> e_fut e = FPending -> matches_spec (e_m e) g = true ->
  exists e', nth_error (run (es ++ [Message g])) i = Some e' /\ e_fut e' = FResult g.
Proof. intros es g i e H I P M. rewrite <- matches_is_spec in M. eapply all_completed; eauto. Qed.

(* --- first match ------------------------------------------------------------------------------------ *)
(* The completing message is the first one after the registration that matches the waiter. *)
Theorem C12_first_match : forall es i e g, nth_error (run es) i = Some e -> e_fut e = FResult g ->
  exists es1 es2 e1, es = es1 ++ Message g :: es2 /\ nth_error (run es1) i = Some e1 /\
    e_fut e1 = FPending /\ e_in e1 = true /\ matches (e_m e1) g = true /\
    (forall a g' b e0, es1 = a ++ Message g' :: b -> nth_error (run a) i = Some e0 -> matches (e_m e0) g' = false).
Proof. exact first_match. Qed.

(* --- a timeout is a timeout ------------------------------------------------------------------------- *)
(* Once the timeout of a suspended caller (execute or wait_for_*_message) fires and nobody else cancels that
   caller, the caller gets TimeoutError. *)
Theorem C12_timeout_is_timeout : forall es i e es', nth_error (run es) i = Some e ->
  e_task e = TWait -> e_tmo e = false -> e_ext e = false -> ~ In (Cancel i) es' ->
  exists e', nth_error (run (es ++ Timeout i :: es' ++ [RunCallbacks])) i = Some e' /\ e_out e' = Some OTimeout.
Proof. intros es i e es' H. intros. destruct (timeout_outcome es i e es') as (e' & A & B); eauto. Qed.

(* --- no residue --------------------------------------------------------------------------------------- *)
Theorem C12_listed_done_is_scheduled : forall es i e, nth_error (run es) i = Some e ->
  e_cbs e = (e_in e && negb (is_pending (e_fut e))) /\ (e_in e = false -> e_fut e <> FPending).
Proof.
  intros es i e H. pose proof (run_all_wf es i e H) as W. unfold wf, wfb in W.
  repeat (apply andb_true_iff in W; destruct W as [W ?]). split.
  - apply eqb_prop. exact W.
  - intros I P. rewrite I, P in *. discriminate.
Qed.

Theorem C12_no_residue : forall es, clean (run (es ++ [RunCallbacks])) = true.
Proof. exact no_residue. Qed.

(* RunCallbacks is the DoneCb of every entry in list order (the correspondence observes DoneCb). *)
Theorem C12_runcallbacks_as_donecbs : forall st,
  fst (step st RunCallbacks) = run_from st (map DoneCb (seq 0 (length st))).
Proof. exact runcallbacks_as_donecbs. Qed.

(* --- the matcher ------------------------------------------------------------------------------------- *)
(* ExpectedResponse.matches = expected type, expected server/peer, EVERY expected field value *)
Theorem C12_matches_spec : forall m g, matches m g = matches_spec m g.
Proof. exact matches_is_spec. Qed.

(* --- control flow of SoulSeekClient.execute and the hand-abstracted functions, regenerated / pinned by tr_waiter ---- *)
(* the request is registered before command.send() starts, a failed send cancels it, the timeout spans the await
   (the machine's Register-before-SendOk order, [ev_sendfail] and [ev_timeout] rely on exactly this) *)
Theorem C12_execute_control_flow : EXEC_REGISTER_BEFORE_SEND = true /\ EXEC_CANCEL_ON_SEND_FAILURE = true /\
  EXEC_TIMEOUT_AROUND_AWAIT = true.
Proof. repeat split. Qed.

(* a failed send leaves nothing behind: the future is cancelled and removed by its callback *)
Theorem C12_send_failure_no_residue : forall es i e, nth_error (run es) i = Some e -> e_task e = TSending ->
  exists e', nth_error (run (es ++ [SendFail i; RunCallbacks])) i = Some e' /\ e_in e' = false /\ e_out e' = Some OSendError.
Proof.
  intros es i e H T. pose proof (run_all_wf es i e H) as W.
  replace (es ++ [SendFail i; RunCallbacks]) with ((es ++ [SendFail i]) ++ [RunCallbacks]) by (rewrite <- app_assoc; reflexivity).
  rewrite !run_snoc. cbn [step fst]. rewrite nth_error_map, upd_nth, Nat.eqb_refl, H. cbn [option_map].
  eexists; split; [reflexivity|]. revert W T. unfold wf. cases_entry e; cbv; intros; try discriminate; auto.
Qed.

(* the timeout handler of wait_for_*_message never calls set_exception on a future that is done *)
Theorem C12_wait_timeout_handler_guarded : wait_timeout_sets_exception true = false.
Proof. reflexivity. Qed.

(* shape pins of the functions the model abstracts by hand (ExpectedResponse.__init__, _remove_response_future,
   create_server/peer_response_future, register_response_future): any edit there breaks this theorem *)
Theorem C12_abstracted_functions_pinned :
  FP_init = 744080828542342228%N /\ FP_remove_response_future = 602243398368678079%N /\
  FP_create_server_response_future = 474190804335832181%N /\ FP_create_peer_response_future = 52258645843995064%N /\
  FP_register_response_future = 553702047422895174%N.
Proof. repeat split. Qed.

(* One connection's reader awaits Network.on_message_received (handlers, listeners, completion loop) before it reads the next
   frame, also when a handler suspends: per connection the order of the Message events of the machine is the order of arrival.
   (Across connections, and for waiters registered while a handler is suspended, "first" means first completion loop.) *)
Theorem C12_reader_sequential_pinned : READER_SEQUENTIAL = true /\ FP_message_reader_loop = 778530898491582112%N /\
  FP_perform_message_callback = 477511470021619338%N.
Proof. repeat split. Qed.

(* --- helpers the waiter code relies on (phase 8): EventBus.emit awaits the coroutine listeners one after the other and swallows
   their exceptions (so the completion loop after the emit always runs, in order), atimeout is async_timeout.timeout (checked by
   the translator); EventBus.emit / register / _get_listeners_for_event, build_message_map, Network.send_server_messages,
   commands.BaseCommand and DataConnection.receive_message_object are pinned by fingerprint *)
Theorem C12_helpers_pinned :
  EMIT_SWALLOWS_LISTENER_EXCEPTIONS = true /\ EMIT_AWAITS_LISTENERS_IN_TURN = true /\
  FPH_EventBus_emit = 959740788368092312%N /\
  FPH_EventBus_register = 666991538698341251%N /\
  FPH_EventBus_get_listeners_for_event = 990525461453454903%N /\
  FPH_build_message_map = 965419404200658758%N /\
  FPH_Network_send_server_messages = 1087691849633744863%N /\
  FPH_BaseCommand = 769357197261227110%N /\
  FPH_receive_message_object = 723333089156339520%N.
Proof. repeat split. Qed.

(* --- documented default (docstring of SoulSeekClient.execute: "default: 10"); regenerated by tr_retry ----- *)
Theorem C12_default_command_timeout_documented : SlskGen.RetryGen.DEFAULT_COMMAND_TIMEOUT = 10%Z.
Proof. reflexivity. Qed.

(* --- non-vacuity ---------------------------------------------------------------------------------------- *)
Example C12_nonvacuous :
  (let es := [Register KExec m0; SendOk 0; Register KWait m0] in
   exists e, nth_error (run es) 0 = Some e /\ e_in e = true /\ e_fut e = FPending /\ matches_spec (e_m e) (g0 7) = true /\
     e_kind e = KExec /\ e_task e = TWait /\ e_tmo e = false /\ e_ext e = false) /\
  (exists e, nth_error (run [Register KWait m0; Timeout 0; Message (g0 1); RunCallbacks]) 0 = Some e /\ e_out e = Some OTimeout) /\
  (exists e, nth_error (run [Register KWait m0; Message (g0 3); Message (g0 4); RunCallbacks]) 0 = Some e /\ e_fut e = FResult (g0 3) /\
     e_out e = Some (OResult (g0 3)) /\ e_in e = false) /\
  matches wit_matcher wit_msg = false /\ matches_spec m1 (g0 0) = true /\ clean (run [Register KRaw m0]) = true.
Proof. repeat split; try (eexists; repeat split); reflexivity. Qed.
