(* C12 proofs.  Statements are restated in Props.v. *)
From Slsk Require Import Base.Tac.
From Slsk Require Import C12.Model.
Open Scope nat_scope.

(* ------------------------------------------------------------------ matching *)
(* the generated ExpectedResponse.matches against the property text (every expected field value) *)
Lemma field_body_spec : forall gf f, field_body gf f = if field_ok gf f then RNext else RRet false.
Proof.
  intros gf [n [ov|p]]; unfold field_body, field_ok; cbn.
  - destruct (optZ_eqb (lookup n gf) ov); reflexivity.
  - destruct (lookup n gf); [destruct (pred_eval p z)|]; reflexivity.
Qed.

Lemma fields_loop_spec : forall fs gf, fields_loop fs gf = if fields_spec fs gf then RNext else RRet false.
Proof.
  induction fs as [|f r IH]; intros gf; [reflexivity|].
  unfold fields_spec in *. cbn. rewrite field_body_spec. destruct (field_ok gf f); cbn; auto.
Qed.

Lemma matches_head_spec : forall m g, matches_head m g = if head_ok m g then RNext else RRet false.
Proof.
  intros [c k p fs] [gc gu gk gf gi]. unfold matches_head, head_ok. cbn.
  destruct (conn_eqb gc c); cbn; [|reflexivity]. destruct (Nat.eqb gk k); cbn; [|reflexivity].
  destruct p as [p|]; cbn; [|reflexivity]. destruct gc; cbn; try reflexivity.
  unfold username_neq_peer. destruct (optnat_eqb gu (Some p)); reflexivity.
Qed.

Lemma matches_is_spec : forall m g, matches m g = matches_spec m g.
Proof.
  intros. unfold matches, matches_spec. rewrite matches_head_spec. destruct (head_ok m g); cbn; [|reflexivity].
  rewrite fields_loop_spec. destruct (fields_spec (m_fields m) (g_fields g)); reflexivity.
Qed.

(* ------------------------------------------------------------------ list plumbing *)
Lemma run_from_app : forall a b st, run_from st (a ++ b) = run_from (run_from st a) b.
Proof. induction a; intros; simpl; auto. Qed.

Lemma run_snoc : forall es ev, run (es ++ [ev]) = fst (step (run es) ev).
Proof. intros. unfold run. rewrite run_from_app. reflexivity. Qed.

Lemma upd_length : forall i f st, length (upd i f st) = length st.
Proof. induction i; destruct st; simpl; auto. Qed.

Lemma upd_nth : forall i f st j,
  nth_error (upd i f st) j = if Nat.eqb i j then option_map f (nth_error st j) else nth_error st j.
Proof.
  induction i; destruct st; intros j; simpl.
  - destruct j; reflexivity.
  - destruct j; reflexivity.
  - destruct j; simpl; try reflexivity. destruct (Nat.eqb i j); reflexivity.
  - destruct j; simpl; try reflexivity. apply IHi.
Qed.

(* one step seen from one entry: the entry is transformed by a function from this family *)
Inductive estep (g0 : option msg) (c : bool) : entry -> entry -> Prop :=
  | es_same : forall e, estep g0 c e e
  | es_complete : forall e g, g0 = Some g -> e_in e = true -> matches (e_m e) g = true -> e_fut e = FPending ->
      estep g0 c e (set_fut e (FResult g))
  | es_timeout : forall e, estep g0 c e (ev_timeout e)
  | es_cancel : forall e, c = true -> estep g0 c e (ev_cancel e)
  | es_donecb : forall e, estep g0 c e (ev_donecb e)
  | es_sendok : forall e, estep g0 c e (ev_sendok e)
  | es_sendfail : forall e, estep g0 c e (ev_sendfail e).

Definition ev_msg (ev : event) : option msg := match ev with Message g => Some g | _ => None end.
Definition cancels (ev : event) (i : nat) : bool := match ev with Cancel j => Nat.eqb j i | _ => false end.

(* with the generated loop body a done future is skipped: the loop is a map and never raises *)
Definition complete (g : msg) (e : entry) : entry :=
  if e_in e && is_pending (e_fut e) && matches (e_m e) g then set_fut e (FResult g) else e.

Lemma deliver_map : forall g st, deliver g st = (map (complete g) st, false).
Proof.
  induction st as [|e r IH]; [reflexivity|]. cbn [deliver map]. rewrite IH. unfold complete.
  destruct (e_in e); cbn; [|reflexivity].
  destruct (e_fut e); cbn; try reflexivity. unfold loop_body. cbn. destruct (matches (e_m e) g); reflexivity.
Qed.

Lemma deliver_nth : forall g st i e, nth_error st i = Some e ->
  exists e', nth_error (fst (deliver g st)) i = Some e' /\
    (e' = e \/ (e_in e = true /\ matches (e_m e) g = true /\ e_fut e = FPending /\ e' = set_fut e (FResult g))).
Proof.
  intros g st i e H. rewrite deliver_map. cbn [fst]. rewrite nth_error_map, H. simpl. eexists; split; [reflexivity|].
  unfold complete. destruct (e_in e) eqn:I; simpl; auto. destruct (e_fut e) eqn:F; simpl; auto.
  destruct (matches (e_m e) g) eqn:M; auto 10.
Qed.

Lemma deliver_length : forall g st, length (fst (deliver g st)) = length st.
Proof. intros. rewrite deliver_map. apply map_length. Qed.

Lemma step_length_ge : forall st ev, length st <= length (fst (step st ev)).
Proof.
  intros st ev. destruct ev; simpl; rewrite ?upd_length, ?map_length, ?app_length, ?deliver_length; lia.
Qed.

Lemma step_entry : forall st ev i e, nth_error st i = Some e ->
  exists e', nth_error (fst (step st ev)) i = Some e' /\ estep (ev_msg ev) (cancels ev i) e e'.
Proof.
  intros st ev i e H. destruct ev; simpl.
  - exists e. split; [|constructor]. rewrite nth_error_app1; auto. apply nth_error_Some. congruence.
  - destruct (deliver_nth g st i e H) as (e' & H1 & [->|(A & B & C & ->)]); eexists; split; eauto.
    + constructor.
    + eapply es_complete; eauto.
  - rewrite upd_nth, H. destruct (Nat.eqb i0 i); eexists; split; simpl; eauto; constructor.
  - rewrite upd_nth, H. destruct (Nat.eqb i0 i) eqn:E; eexists; split; simpl; eauto; constructor; auto.
  - rewrite upd_nth, H. destruct (Nat.eqb i0 i); eexists; split; simpl; eauto; constructor.
  - rewrite nth_error_map, H. simpl. eexists; split; eauto; constructor.
  - rewrite upd_nth, H. destruct (Nat.eqb i0 i); eexists; split; simpl; eauto; constructor.
  - rewrite upd_nth, H. destruct (Nat.eqb i0 i); eexists; split; simpl; eauto; constructor.
Qed.

(* ------------------------------------------------------------------ entry invariant *)
(* a done future that is still listed has its removal scheduled; an unlisted future is done;
   an outcome exists only for a finished caller; a caller suspended on a done future has its wake-up scheduled *)
Definition wfb (e : entry) : bool :=
  Bool.eqb (e_cbs e) (e_in e && negb (is_pending (e_fut e))) &&
  (negb (is_pending (e_fut e)) || e_in e) &&
  match e_out e with None => true | Some _ => match e_task e with TFin => true | _ => false end end &&
  match e_task e with TWait => is_pending (e_fut e) || e_cbs e | _ => true end.
Definition wf (e : entry) : Prop := wfb e = true.

Lemma wf_new : forall k m, wf (new_entry k m).
Proof. intros. destruct k; reflexivity. Qed.

Ltac cases_entry e :=
  let m := fresh "m" in let k := fresh "k" in let f := fresh "f" in let i := fresh "i" in let c := fresh "c" in
  let t := fresh "t" in let tm := fresh "tm" in let ex := fresh "ex" in let o := fresh "o" in
  destruct e as [m k f i c t tm ex o]; destruct f, i, c, t, tm, ex, o, k.

Lemma wf_timeout : forall e, wf e -> wf (ev_timeout e).
Proof. intros e. unfold wf. cases_entry e; cbv; intros; try reflexivity; try discriminate. Qed.
Lemma wf_cancel : forall e, wf e -> wf (ev_cancel e).
Proof. intros e. unfold wf. cases_entry e; cbv; intros; try reflexivity; try discriminate. Qed.
Lemma wf_donecb : forall e, wf e -> wf (ev_donecb e).
Proof. intros e. unfold wf. cases_entry e; cbv; intros; try reflexivity; try discriminate. Qed.
Lemma wf_sendok : forall e, wf e -> wf (ev_sendok e).
Proof. intros e. unfold wf. cases_entry e; cbv; intros; try reflexivity; try discriminate. Qed.
Lemma wf_sendfail : forall e, wf e -> wf (ev_sendfail e).
Proof. intros e. unfold wf. cases_entry e; cbv; intros; try reflexivity; try discriminate. Qed.

Lemma estep_wf : forall g0 c e e', estep g0 c e e' -> wf e -> wf e'.
Proof.
  intros g0 c0 e e' S. destruct S; auto using wf_timeout, wf_cancel, wf_donecb, wf_sendok, wf_sendfail.
  unfold wf. intros W. destruct e as [m k f i c t tm ex o]; simpl in *; subst. simpl in *.
  destruct c, o, t; simpl in *; auto; discriminate.
Qed.

(* ------------------------------------------------------------------ reachable states *)
Definition all_wf (st : state) : Prop := forall i e, nth_error st i = Some e -> wf e.

Lemma step_length : forall st ev,
  length (fst (step st ev)) = length st + match ev with Register _ _ => 1 | _ => 0 end.
Proof. intros st ev. destruct ev; simpl; rewrite ?upd_length, ?map_length, ?app_length, ?deliver_length; simpl; lia. Qed.

Lemma step_entry_inv : forall st ev i e', nth_error (fst (step st ev)) i = Some e' ->
  (exists e, nth_error st i = Some e /\ estep (ev_msg ev) (cancels ev i) e e') \/
  (exists k m, ev = Register k m /\ i = length st /\ e' = new_entry k m).
Proof.
  intros st ev i e' H. destruct (nth_error st i) as [e|] eqn:N.
  - left. destruct (step_entry st ev i e N) as (e2 & H2 & S). rewrite H in H2. inv H2. eauto.
  - right. apply nth_error_None in N. assert (L : i < length (fst (step st ev))) by (apply nth_error_Some; congruence).
    rewrite step_length in L. destruct ev; try lia. exists k, m. assert (i = length st) by lia. subst.
    simpl in H. rewrite nth_error_app2, Nat.sub_diag in H by lia. simpl in H. inv H. auto.
Qed.

Lemma step_all_wf : forall st ev, all_wf st -> all_wf (fst (step st ev)).
Proof.
  intros st ev W i e' H. destruct (step_entry_inv st ev i e' H) as [(e & N & S)|(k & m & -> & -> & ->)].
  - eapply estep_wf; eauto.
  - apply wf_new.
Qed.

Lemma run_from_all_wf : forall es st, all_wf st -> all_wf (run_from st es).
Proof. induction es; intros; simpl; auto using step_all_wf. Qed.

Lemma run_all_wf : forall es, all_wf (run es).
Proof. intros. apply run_from_all_wf. intros i e H. destruct i; discriminate. Qed.

(* ------------------------------------------------------------------ stability: a waiter is completed at most once *)
Definition stable (e e' : entry) : Prop :=
  e_m e' = e_m e /\ e_kind e' = e_kind e /\
  (e_fut e <> FPending -> e_fut e' = e_fut e) /\
  (forall o, e_out e = Some o -> e_out e' = Some o) /\
  (e_in e = false -> e_in e' = false) /\
  (e_task e = TFin -> e_task e' = TFin).

Lemma stable_refl : forall e, stable e e.
Proof. unfold stable; intuition. Qed.

Lemma stable_trans : forall a b c, stable a b -> stable b c -> stable a c.
Proof.
  unfold stable. intros a b c (A1 & A2 & A3 & A4 & A5 & A6) (B1 & B2 & B3 & B4 & B5 & B6).
  repeat split; try congruence; auto.
  intros H. rewrite B3; auto. rewrite A3; auto.
Qed.

Ltac stab := unfold stable, wf; intros e; cases_entry e; cbv; intros W; try discriminate W;
  repeat split; intros; try congruence; try discriminate.

Lemma stable_timeout : forall e, wf e -> stable e (ev_timeout e). Proof. stab. Qed.
Lemma stable_cancel : forall e, wf e -> stable e (ev_cancel e). Proof. stab. Qed.
Lemma stable_donecb : forall e, wf e -> stable e (ev_donecb e). Proof. stab. Qed.
Lemma stable_sendok : forall e, wf e -> stable e (ev_sendok e). Proof. stab. Qed.
Lemma stable_sendfail : forall e, wf e -> stable e (ev_sendfail e). Proof. stab. Qed.

Lemma estep_stable : forall g0 c e e', estep g0 c e e' -> wf e -> stable e e'.
Proof.
  intros g0 c0 e e' S W. destruct S; auto using stable_refl, stable_timeout, stable_cancel, stable_donecb, stable_sendok, stable_sendfail.
  unfold stable. destruct e; simpl in *; subst. repeat split; auto; try congruence.
Qed.

Lemma run_from_stable : forall es st i e, all_wf st -> nth_error st i = Some e ->
  exists e', nth_error (run_from st es) i = Some e' /\ stable e e'.
Proof.
  induction es as [|ev r IH]; intros st i e W H; simpl.
  - eauto using stable_refl.
  - destruct (step_entry st ev i e H) as (e1 & H1 & S).
    destruct (IH _ i e1 (step_all_wf st ev W) H1) as (e2 & H2 & S2).
    exists e2. split; auto. eapply stable_trans; eauto. eapply estep_stable; eauto.
Qed.

Lemma exact_once_partial : forall es es' i e, nth_error (run es) i = Some e ->
  exists e', nth_error (run (es ++ es')) i = Some e' /\ stable e e'.
Proof.
  intros. unfold run. rewrite run_from_app. apply run_from_stable; auto. apply run_all_wf.
Qed.

(* a result is always a matching message that was delivered while the waiter was pending and listed *)
Lemma estep_result : forall g0 c e e' g, estep g0 c e e' -> wf e -> e_fut e' = FResult g ->
  e_fut e = FResult g \/ (g0 = Some g /\ matches (e_m e) g = true /\ e_in e = true /\ e_fut e = FPending).
Proof.
  intros g0 c0 e e' g S W H. destruct S; auto.
  - right. destruct e; simpl in *. inv H. auto.
  - left. revert W H. unfold wf. cases_entry e; cbv; intros; try discriminate; auto.
  - left. revert W H. unfold wf. cases_entry e; cbv; intros; try discriminate; auto.
  - left. revert W H. unfold wf. cases_entry e; cbv; intros; try discriminate; auto.
  - left. revert W H. unfold wf. cases_entry e; cbv; intros; try discriminate; auto.
  - left. revert W H. unfold wf. cases_entry e; cbv; intros; try discriminate; auto.
Qed.

Lemma result_provenance : forall es i e g, nth_error (run es) i = Some e -> e_fut e = FResult g ->
  exists es1 es2 e1, es = es1 ++ Message g :: es2 /\ nth_error (run es1) i = Some e1 /\
     e_fut e1 = FPending /\ e_in e1 = true /\ matches (e_m e1) g = true /\ e_m e1 = e_m e.
Proof.
  induction es as [|ev es IH] using rev_ind; intros i e g H F.
  - destruct i; discriminate.
  - rewrite run_snoc in H. destruct (step_entry_inv _ _ _ _ H) as [(e0 & N & S)|(k & m & -> & -> & ->)].
    + pose proof (run_all_wf es i e0 N) as W.
      destruct (estep_result _ _ _ _ _ S W F) as [F0|(G & M & I & P)].
      * destruct (IH i e0 g N F0) as (es1 & es2 & e1 & -> & N1 & P1 & I1 & M1 & E1).
        exists es1, (es2 ++ [ev]), e1. rewrite <- app_assoc. simpl. repeat split; auto.
        destruct (estep_stable _ _ _ _ S W) as (Em & _). congruence.
      * destruct ev; try discriminate. simpl in G. inv G.
        exists es, [], e0. repeat split; auto.
        destruct (estep_stable _ _ _ _ S W) as (Em & _). congruence.
    + discriminate.
Qed.

(* ------------------------------------------------------------------ the completion loop *)
Lemma deliver_ok : forall g st i e, nth_error st i = Some e ->
  e_in e = true -> e_fut e = FPending -> matches (e_m e) g = true ->
  nth_error (fst (deliver g st)) i = Some (set_fut e (FResult g)).
Proof.
  intros g st i e H I P M. rewrite deliver_map. cbn [fst]. rewrite nth_error_map, H. simpl. unfold complete. rewrite I, P, M. reflexivity.
Qed.

Lemma never_raises : forall st ev, snd (step st ev) = false.
Proof. intros st ev. destruct ev; try reflexivity. cbn. rewrite deliver_map. reflexivity. Qed.

Lemma raises_all_false : forall es st, Forall (fun b => b = false) (raises_from st es).
Proof. induction es; intros; simpl; constructor; auto using never_raises. Qed.

Lemma donecb_clean : forall e, wf e -> negb (e_in (ev_donecb e)) || is_pending (e_fut (ev_donecb e)) = true.
Proof. unfold wf. intros e. cases_entry e; cbv; intros; try discriminate; auto. Qed.

Lemma runcallbacks_clean : forall st, all_wf st -> clean (map ev_donecb st) = true.
Proof.
  intros st W. unfold clean. rewrite forallb_forall. intros x Hx. apply in_map_iff in Hx.
  destruct Hx as (e & <- & Hin). apply In_nth_error in Hin. destruct Hin as (i & Hi).
  apply donecb_clean. eauto.
Qed.

Lemma no_residue : forall es, clean (run (es ++ [RunCallbacks])) = true.
Proof. intros. rewrite run_snoc. simpl. apply runcallbacks_clean, run_all_wf. Qed.

Lemma all_completed : forall es g i e, nth_error (run es) i = Some e ->
  e_in e = true -> e_fut e = FPending -> matches (e_m e) g = true ->
  exists e', nth_error (run (es ++ [Message g])) i = Some e' /\ e_fut e' = FResult g.
Proof.
  intros es g i e H I P M. rewrite run_snoc. simpl.
  rewrite (deliver_ok g _ i e H I P M). eexists; split; eauto.
Qed.

(* nothing else is touched by a message *)
Lemma message_only_matching : forall es g i e e', nth_error (run es) i = Some e ->
  nth_error (run (es ++ [Message g])) i = Some e' ->
  e' = e \/ (e_in e = true /\ e_fut e = FPending /\ matches (e_m e) g = true /\ e' = set_fut e (FResult g)).
Proof.
  intros es g i e e' H H'. rewrite run_snoc in H'. simpl in H'.
  destruct (deliver_nth g _ i e H) as (e2 & N & D). rewrite H' in N. inv N. intuition.
Qed.

(* first match: no message delivered between the registration and the completing message matched the waiter *)
Lemma first_match : forall es i e g, nth_error (run es) i = Some e -> e_fut e = FResult g ->
  exists es1 es2 e1, es = es1 ++ Message g :: es2 /\ nth_error (run es1) i = Some e1 /\
    e_fut e1 = FPending /\ e_in e1 = true /\ matches (e_m e1) g = true /\
    (forall a g' b e0, es1 = a ++ Message g' :: b -> nth_error (run a) i = Some e0 -> matches (e_m e0) g' = false).
Proof.
  intros es i e g H F. destruct (result_provenance es i e g H F) as (es1 & es2 & e1 & E & N1 & P1 & I1 & M1 & _).
  exists es1, es2, e1. repeat split; auto.
  intros a g' b e0 Ea N0. destruct (matches (e_m e0) g') eqn:M0; auto. exfalso.
  assert (Ea' : es1 = (a ++ [Message g']) ++ b) by (rewrite <- app_assoc; exact Ea).
  destruct (exact_once_partial a ([Message g'] ++ b) i e0 N0) as (e1' & N1' & S1).
  rewrite app_assoc, <- Ea' in N1'. rewrite N1 in N1'. inv N1'.
  destruct S1 as (_ & _ & S3 & _ & S5 & _).
  assert (P0 : e_fut e0 = FPending). { destruct (e_fut e0) eqn:Q; auto; rewrite S3 in P1 by discriminate; discriminate. }
  assert (I0 : e_in e0 = true). { destruct (e_in e0) eqn:Q; auto. rewrite S5 in I1 by reflexivity. discriminate. }
  destruct (all_completed a g' i e0 N0 I0 P0 M0) as (e2 & N2 & F2).
  destruct (exact_once_partial (a ++ [Message g']) b i e2 N2) as (e3 & N3 & S).
  rewrite <- Ea', N1 in N3. inv N3. destruct S as (_ & _ & S3' & _). rewrite S3' in P1 by (rewrite F2; discriminate).
  rewrite F2 in P1. discriminate.
Qed.

(* ------------------------------------------------------------------ a timeout is a timeout *)
Definition tmo_outcome (k : kind) : outcome := OTimeout.

Definition out_is_tmo (k : kind) (o : option outcome) : bool :=
  match o with Some OTimeout => true | _ => false end.

(* the timeout of the waiter has fired, nobody else cancelled its task: it is about to report, or has reported *)
Definition tphase (e : entry) : bool :=
  e_tmo e && negb (e_ext e) &&
  match e_task e with
  | TWait => negb (is_pending (e_fut e)) && e_cbs e
  | TFin => out_is_tmo (e_kind e) (e_out e)
  | _ => false
  end.

Ltac tph := unfold wf; intros e; cases_entry e; cbv; intros; try discriminate; try reflexivity; try assumption; try (match goal with o : outcome |- _ => destruct o end; try discriminate; reflexivity).

Lemma tphase_start : forall e, wf e -> e_task e = TWait -> e_tmo e = false -> e_ext e = false -> tphase (ev_timeout e) = true.
Proof. tph. Qed.
Lemma tphase_timeout : forall e, wf e -> tphase e = true -> tphase (ev_timeout e) = true. Proof. tph. Qed.
Lemma tphase_donecb : forall e, wf e -> tphase e = true -> tphase (ev_donecb e) = true. Proof. tph. Qed.
Lemma tphase_sendok : forall e, wf e -> tphase e = true -> tphase (ev_sendok e) = true. Proof. tph. Qed.
Lemma tphase_sendfail : forall e, wf e -> tphase e = true -> tphase (ev_sendfail e) = true. Proof. tph. Qed.
Lemma tphase_reported : forall e, wf e -> tphase e = true -> e_out (ev_donecb e) = Some (tmo_outcome (e_kind e)).
Proof. tph. Qed.

Lemma estep_tphase : forall g0 e e', estep g0 false e e' -> wf e -> tphase e = true -> tphase e' = true.
Proof.
  intros g0 e e' S W T. destruct S; auto using tphase_timeout, tphase_donecb, tphase_sendok, tphase_sendfail; try discriminate.
  destruct e as [m k f i c t tm ex o]; simpl in *; subst. unfold tphase in *; simpl in *.
  destruct tm, ex, t; simpl in *; auto; discriminate.
Qed.

Lemma not_in_cancels : forall ev r i, ~ In (Cancel i) (ev :: r) -> cancels ev i = false /\ ~ In (Cancel i) r.
Proof.
  intros ev r i H. split; [|intros X; apply H; right; exact X].
  destruct ev; simpl; auto. destruct (Nat.eqb_spec i0 i); auto. subst. exfalso. apply H. left. reflexivity.
Qed.

Lemma run_from_tphase : forall es st i e, all_wf st -> nth_error st i = Some e -> tphase e = true ->
  ~ In (Cancel i) es ->
  exists e', nth_error (run_from st es) i = Some e' /\ tphase e' = true /\ e_kind e' = e_kind e.
Proof.
  induction es as [|ev r IH]; intros st i e W H T NC; simpl.
  - eauto.
  - destruct (not_in_cancels _ _ _ NC) as (C & NC').
    destruct (step_entry st ev i e H) as (e1 & H1 & S). rewrite C in S.
    pose proof (estep_tphase _ _ _ S (W i e H) T) as T1.
    destruct (estep_stable _ _ _ _ S (W i e H)) as (_ & K & _).
    destruct (IH _ i e1 (step_all_wf st ev W) H1 T1 NC') as (e2 & H2 & T2 & K2).
    exists e2. repeat split; auto. congruence.
Qed.

Lemma timeout_outcome : forall es i e es', nth_error (run es) i = Some e ->
  e_task e = TWait -> e_tmo e = false -> e_ext e = false -> ~ In (Cancel i) es' ->
  exists e', nth_error (run (es ++ Timeout i :: es' ++ [RunCallbacks])) i = Some e' /\
             e_out e' = Some (tmo_outcome (e_kind e)).
Proof.
  intros es i e es' H T M X NC.
  pose proof (run_all_wf es) as W.
  replace (es ++ Timeout i :: es' ++ [RunCallbacks]) with ((es ++ [Timeout i]) ++ es' ++ [RunCallbacks])
    by (rewrite <- app_assoc; reflexivity).
  unfold run. rewrite !run_from_app. fold (run es). simpl.
  assert (H1 : nth_error (upd i ev_timeout (run es)) i = Some (ev_timeout e)).
  { rewrite upd_nth, Nat.eqb_refl, H. reflexivity. }
  assert (W1 : all_wf (upd i ev_timeout (run es))) by (apply (step_all_wf (run es) (Timeout i) W)).
  pose proof (tphase_start e (W i e H) T M X) as T1.
  destruct (run_from_tphase es' _ i _ W1 H1 T1 NC) as (e2 & H2 & T2 & K2).
  pose proof (run_from_all_wf es' _ W1 i e2 H2) as W2.
  exists (ev_donecb e2). split.
  - rewrite nth_error_map, H2. reflexivity.
  - rewrite (tphase_reported e2 W2 T2). reflexivity.
Qed.

(* ------------------------------------------------------------------ RunCallbacks = the DoneCb of every entry, in order *)
Lemma upd_app_len : forall pre a r f, upd (length pre) f (pre ++ a :: r) = pre ++ f a :: r.
Proof. induction pre; intros; simpl; auto. rewrite IHpre. reflexivity. Qed.

Lemma run_donecbs : forall st pre,
  run_from (pre ++ st) (map DoneCb (seq (length pre) (length st))) = pre ++ map ev_donecb st.
Proof.
  induction st as [|a r IH]; intros pre; simpl; auto.
  rewrite upd_app_len. replace (pre ++ ev_donecb a :: r) with ((pre ++ [ev_donecb a]) ++ r) by (rewrite <- app_assoc; reflexivity).
  replace (S (length pre)) with (length (pre ++ [ev_donecb a])) by (rewrite app_length; simpl; lia).
  rewrite IH. rewrite <- app_assoc. reflexivity.
Qed.

Lemma runcallbacks_as_donecbs : forall st,
  fst (step st RunCallbacks) = run_from st (map DoneCb (seq 0 (length st))).
Proof. intros. simpl. symmetry. exact (run_donecbs st []). Qed.

(* ------------------------------------------------------------------ witnesses *)
Definition m0 : matcher := mkM CServer 0 None [(0, FEq (Some 1%Z))].
Definition g0 (id : nat) : msg := mkG CServer None 0 [(0, 1%Z); (1, 2%Z); (2, 0%Z)] id.
Definition m1 : matcher := mkM CServer 0 None [(0, FEq (Some 1%Z)); (1, FEq (Some 2%Z))].
Definition g1 (id : nat) : msg := mkG CServer None 0 [(0, 1%Z); (1, 3%Z); (2, 0%Z)] id.

Definition wit_matcher : matcher := mkM CServer 0 None [(1, FPred (PGe 2)); (0, FEq (Some 1%Z))].
Definition wit_msg : msg := mkG CServer None 0 [(0, 2%Z); (1, 3%Z); (2, 0%Z)] 0.
