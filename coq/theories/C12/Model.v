(* C12 model: the list of expected-response futures of aioslsk.network.Network.

   Anchors: network/network.py  ExpectedResponse.matches, _remove_response_future,
   create_*_response_future / register_response_future, wait_for_*_message,
   on_message_received (completion loop);  client.py  SoulSeekClient.execute.

   Definitions only; executable (the correspondence check evaluates [run] with vm_compute).
   asyncio facts used (DESIGN 2.2): A2 (set_result/set_exception on a done future raises
   InvalidStateError; done-callbacks run one iteration later, in registration order:
   first _remove_response_future, then the wake-up of the awaiting task), A3 (await of a done
   future does not suspend), A4 (Task.cancel cancels the awaited future, or marks the task
   when that future is already done), A5 (timeout expiry = Task.cancel + conversion of the
   CancelledError into TimeoutError at block exit unless another cancel was requested). *)
From Coq Require Import ZArith List Bool Arith.
From Slsk Require Export C12.Types.
From SlskGen Require Export WaiterGen.
Import ListNotations.

(* ---------- matching ---------- *)
(* Vocabulary: C12/Types.v.  ExpectedResponse.matches itself ([matches]), one round of the completion loop
   ([loop_body]), the timeout handler of wait_for_*_message ([wait_timeout_sets_exception]) and the control-flow flags
   of SoulSeekClient.execute are GENERATED from the source: SlskGen.WaiterGen (translate/tr_waiter.py). *)

Definition field_ok (g : list (nat * Z)) (f : nat * fm) : bool :=
  match snd f with
  | FEq ov => optZ_eqb (lookup (fst f) g) ov            (* getattr(response, fname, None) != expected *)
  | FPred p => match lookup (fst f) g with None => false | Some v => pred_eval p v end
  end.

(* the property text: "carries the expected field values" = every matcher holds *)
Definition fields_spec (fs : list (nat * fm)) (g : list (nat * Z)) : bool := forallb (field_ok g) fs.

Definition head_ok (m : matcher) (g : msg) : bool :=
  conn_eqb (g_conn g) (m_conn m) && Nat.eqb (g_cls g) (m_cls m) &&
  match m_peer m, g_conn g with
  | Some p, CPeer => optnat_eqb (g_user g) (Some p)       (* only tested on PeerConnection instances *)
  | _, _ => true
  end.

Definition matches_spec (m : matcher) (g : msg) : bool := head_ok m g && fields_spec (m_fields m) (g_fields g).

(* ---------- waiters ---------- *)
Inductive kind :=
  | KRaw     (* create_*_response_future / register_response_future; the caller holds the bare future *)
  | KWait    (* wait_for_server_message / wait_for_peer_message *)
  | KExec.   (* SoulSeekClient.execute(command, response=True) *)

Inductive fstate := FPending | FResult (g : msg) | FExc | FCancelled.
Inductive tstate := TNone | TSending | TWait | TFin.
Inductive outcome := OResult (g : msg) | OTimeout | OCancelled | OInvalidState | OSendError | OExc.

Record entry := mkE {
  e_m : matcher; e_kind : kind;
  e_fut : fstate;
  e_in : bool;          (* still in Network._expected_response_futures *)
  e_cbs : bool;         (* done-callbacks scheduled with call_soon, not yet run *)
  e_task : tstate;      (* the caller's coroutine *)
  e_tmo : bool;         (* its timeout expired (Task.cancel by the timeout) *)
  e_ext : bool;         (* somebody else called Task.cancel *)
  e_out : option outcome  (* what the caller of execute()/wait_for_*_message() got *)
}.

Definition state := list entry.

Inductive event :=
  | Register (k : kind) (m : matcher)
  | Message (g : msg)            (* the completion loop of on_message_received for one message *)
  | Timeout (i : nat)            (* the timeout of waiter i expires *)
  | Cancel (i : nat)             (* KRaw: future.cancel(); otherwise: cancel() of the calling task *)
  | DoneCb (i : nat)             (* the done-callbacks of future i run *)
  | RunCallbacks                 (* all scheduled done-callbacks run (one loop iteration passes) *)
  | SendOk (i : nat)             (* KExec: command.send returned *)
  | SendFail (i : nat).          (* KExec: command.send raised *)

Definition is_pending (f : fstate) : bool := match f with FPending => true | _ => false end.

Definition new_entry (k : kind) (m : matcher) : entry :=
  mkE m k FPending true false (match k with KRaw => TNone | KWait => TWait | KExec => TSending end) false false None.

Definition set_fut (e : entry) (f : fstate) : entry :=
  mkE (e_m e) (e_kind e) f (e_in e) true (e_task e) (e_tmo e) (e_ext e) (e_out e).

(* Future.cancel(): only a pending future changes; callbacks are scheduled *)
Definition fut_cancel (e : entry) : entry := if is_pending (e_fut e) then set_fut e FCancelled else e.

Definition finish (e : entry) (f : fstate) (o : outcome) : entry :=
  mkE (e_m e) (e_kind e) f (e_in e) (e_cbs e) TFin (e_tmo e) (e_ext e) (Some o).

(* the calling coroutine resumes (or does not suspend) at `await future` with the future done *)
Definition wake (e : entry) : entry :=
  let cancelled := e_tmo e || e_ext e || match e_fut e with FCancelled => true | _ => false end in
  if cancelled then
    if e_tmo e && negb (e_ext e) then
      (* TimeoutError leaves the `async with timeout` block *)
      match e_kind e with
      | KWait =>
          (* except TimeoutError as exc: <generated guard> future.set_exception(exc); raise *)
          if wait_timeout_sets_exception (negb (is_pending (e_fut e))) then
            (if is_pending (e_fut e) then finish e FExc OTimeout else finish e (e_fut e) OInvalidState)
          else finish e (e_fut e) OTimeout
      | _ => finish e (e_fut e) OTimeout
      end
    else finish e (e_fut e) OCancelled
  else
    match e_fut e with
    | FResult g => finish e (e_fut e) (OResult g)
    | FExc => finish e (e_fut e) OExc
    | _ => e
    end.

Definition ev_donecb (e : entry) : entry :=
  if e_cbs e then
    let e1 := mkE (e_m e) (e_kind e) (e_fut e) false false (e_task e) (e_tmo e) (e_ext e) (e_out e) in
    match e_task e1 with TWait => wake e1 | _ => e1 end
  else e.

Definition set_flags (e : entry) (tmo ext : bool) : entry :=
  mkE (e_m e) (e_kind e) (e_fut e) (e_in e) (e_cbs e) (e_task e) tmo ext (e_out e).

Definition ev_timeout (e : entry) : entry :=
  match e_task e with
  | TWait => if e_tmo e then e else fut_cancel (set_flags e true (e_ext e))
  | _ => e                      (* no timer armed (not yet, not any more, or a bare future) *)
  end.

Definition ev_cancel (e : entry) : entry :=
  match e_task e with
  | TNone => fut_cancel e
  | TSending => finish e (e_fut e) OCancelled      (* CancelledError passes `except Exception`: future left alone *)
  | TWait => fut_cancel (set_flags e (e_tmo e) true)
  | TFin => e
  end.

Definition ev_sendok (e : entry) : entry :=
  match e_task e with
  | TSending =>
      let e1 := mkE (e_m e) (e_kind e) (e_fut e) (e_in e) (e_cbs e) TWait (e_tmo e) (e_ext e) (e_out e) in
      if is_pending (e_fut e) then e1 else wake e1     (* A3: no suspension on a done future *)
  | _ => e
  end.

Definition ev_sendfail (e : entry) : entry :=
  match e_task e with
  | TSending => if EXEC_CANCEL_ON_SEND_FAILURE then finish (fut_cancel e) (e_fut (fut_cancel e)) OSendError
                else finish e (e_fut e) OSendError
  | _ => e
  end.

Fixpoint upd (i : nat) (f : entry -> entry) (st : state) : state :=
  match st, i with
  | [], _ => []
  | e :: r, O => f e :: r
  | e :: r, S j => e :: upd j f r
  end.

(* for expected_response in self._expected_response_futures: <loop_body, generated>
   LSet = expected_response.set_result(...): on a future that is already done this raises InvalidStateError, the loop
   is left and the connection logs 'error during callback' (the boolean).  With the generated [loop_body] of the
   current source a done future is skipped, so this cannot happen (C12_completion_loop_never_raises). *)
Fixpoint deliver (g : msg) (st : state) : state * bool :=
  match st with
  | [] => ([], false)
  | e :: r =>
      if e_in e then
        match loop_body (negb (is_pending (e_fut e))) (matches (e_m e) g) with
        | LSet =>
            if is_pending (e_fut e) then let '(r', b) := deliver g r in (set_fut e (FResult g) :: r', b)
            else (e :: r, true)
        | LSkip => let '(r', b) := deliver g r in (e :: r', b)
        end
      else let '(r', b) := deliver g r in (e :: r', b)
  end.

Definition step (st : state) (ev : event) : state * bool :=
  match ev with
  | Register k m => (st ++ [new_entry k m], false)
  | Message g => deliver g st
  | Timeout i => (upd i ev_timeout st, false)
  | Cancel i => (upd i ev_cancel st, false)
  | DoneCb i => (upd i ev_donecb st, false)
  | RunCallbacks => (map ev_donecb st, false)
  | SendOk i => (upd i ev_sendok st, false)
  | SendFail i => (upd i ev_sendfail st, false)
  end.

Fixpoint run_from (st : state) (es : list event) : state :=
  match es with
  | [] => st
  | ev :: r => run_from (fst (step st ev)) r
  end.
Definition run (es : list event) : state := run_from [] es.

(* per event: did the completion loop raise? *)
Fixpoint raises_from (st : state) (es : list event) : list bool :=
  match es with
  | [] => []
  | ev :: r => snd (step st ev) :: raises_from (fst (step st ev)) r
  end.
Definition raises (es : list event) : list bool := raises_from [] es.

(* quiescent list: only pending entries are still listed *)
Definition clean (st : state) : bool := forallb (fun e => negb (e_in e) || is_pending (e_fut e)) st.

(* ---------- observations compared with the implementation ---------- *)
(* future: 0 pending, 1 result (message id), 2 exception, 3 cancelled *)
Definition fut_code (f : fstate) : nat * nat :=
  match f with FPending => (0, 0) | FResult g => (1, g_id g) | FExc => (2, 0) | FCancelled => (3, 0) end.
(* outcome: 0 none yet, 1 result(id), 2 timeout, 3 cancelled, 4 invalid-state, 5 send error, 6 other exception *)
Definition out_code (o : option outcome) : nat * nat :=
  match o with
  | None => (0, 0) | Some (OResult g) => (1, g_id g) | Some OTimeout => (2, 0) | Some OCancelled => (3, 0)
  | Some OInvalidState => (4, 0) | Some OSendError => (5, 0) | Some OExc => (6, 0)
  end.
Definition obs_entry (e : entry) : (nat * nat) * (nat * nat) * bool := (fut_code (e_fut e), out_code (e_out e), e_in e).
Definition observe (es : list event) := (map obs_entry (run es), raises es).
