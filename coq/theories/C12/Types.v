(* C12 vocabulary shared by the generated code (SlskGen.WaiterGen, translated from network/network.py and client.py)
   and the hand-written machine (C12/Model.v): connections, messages, matchers, and the primitive tests the
   translator maps Python expressions to.  Definitions only. *)
From Coq Require Import ZArith List Bool Arith.
Import ListNotations.

Inductive conn := CServer | CPeer | COther.        (* connection.__class__ *)
Definition conn_eqb (a b : conn) : bool :=
  match a, b with CServer, CServer | CPeer, CPeer | COther, COther => true | _, _ => false end.

Inductive pred := PGe (z : Z) | PLt (z : Z).         (* callable matchers used by the harness *)
Definition pred_eval (p : pred) (v : Z) : bool :=
  match p with PGe z => Z.leb z v | PLt z => Z.ltb v z end.

(* expected value of one entry of ExpectedResponse.fields: a plain value (None = Python None) or a callable *)
Inductive fm := FEq (v : option Z) | FPred (p : pred).

Record matcher := mkM { m_conn : conn; m_cls : nat; m_peer : option nat; m_fields : list (nat * fm) }.
Record msg := mkG { g_conn : conn; g_user : option nat; g_cls : nat; g_fields : list (nat * Z); g_id : nat }.

Fixpoint lookup (n : nat) (fs : list (nat * Z)) : option Z :=
  match fs with
  | [] => None
  | (k, v) :: r => if Nat.eqb k n then Some v else lookup n r
  end.

Definition optZ_eqb (a b : option Z) : bool :=
  match a, b with None, None => true | Some x, Some y => Z.eqb x y | _, _ => false end.
Definition optnat_eqb (a b : option nat) : bool :=
  match a, b with None, None => true | Some x, Some y => Nat.eqb x y | _, _ => false end.

(* ---- primitive tests (the translator's targets) ---- *)
Definition peer_is_set (p : option nat) : bool := match p with Some _ => true | None => false end.   (* self.peer is not None *)
Definition is_peer_conn (c : conn) : bool := match c with CPeer => true | _ => false end.          (* isinstance(connection, PeerConnection) *)
Definition username_neq_peer (u p : option nat) : bool := negb (optnat_eqb u p).                   (* connection.username != self.peer *)
Definition is_callable (x : fm) : bool := match x with FPred _ => true | FEq _ => false end.        (* callable(expected_value) *)
Definition call (x : fm) (v : Z) : bool := match x with FPred p => pred_eval p v | FEq _ => false end.   (* expected_value(actual_value) *)
(* getattr(response, fname, None) != expected_value   (a callable is never equal to a field value) *)
Definition neq_expected (actual : option Z) (x : fm) : bool := match x with FEq ov => negb (optZ_eqb actual ov) | FPred _ => true end.

(* result of a block of ExpectedResponse.matches: `return b`, or fall through / `continue` *)
Inductive res := RRet (b : bool) | RNext.
(* what one round of the completion loop does with an entry *)
Inductive lact := LSet | LSkip.
