(* Executable encodings used by checks/c17.py (compiled once). *)
From Coq Require Import ZArith NArith List Bool.
From SlskGen Require Import TransGen TransferGen.
From Slsk Require Import C03.Spec C03.Model C03.Eval.
Import ListNotations.
Open Scope Z_scope.
From Slsk Require Import C17.Model.
Definition KK := list N.
Definition HH (x : list N) : KK := x.    (* an injective stand-in for sha256: key equality = equality of the hashed strings *)
Definition zob (o : option N) : Z := match o with None => -1 | Some n => Z.of_N n end.
Definition enc_m (m : mt) : list Z :=
  [Z.of_nat (length (m_user m))] ++ map Z.of_N (m_user m) ++ [Z.of_nat (length (m_path m))] ++ map Z.of_N (m_path m) ++
  [Z.of_nat (dir_value (m_dir m)); st_value (m_state m); zob (m_local m); zb (m_rq m); zob (m_place m);
   zob (m_fail m); zob (m_abort m); zob (m_filesize m); Z.of_N (m_bytes m); Z.of_N (m_qatt m); Z.of_N (m_uatt m);
   zob (m_start m); zob (m_complete m); zb (m_offset m); zb (m_registered m)].
Definition enc_om (o : option mt) : list Z := match o with Some m => enc_m m | None => [-99] end.
Fixpoint count (x : list Z) (l : list (list Z)) : nat :=
  match l with [] => O | y :: r => (if zeq x y then 1 else 0) + count x r end.
Definition msame (a b : list (list Z)) : bool :=
  Nat.eqb (length a) (length b) && forallb (fun x => Nat.eqb (count x a) (count x b)) (a ++ b).
(* an injective stand-in for repr((username, remote_path, direction)); tag 0 keeps it apart from old-format keys (tag 1) *)
Definition EE (i : ident) : list N := match i with (u, p, d) => 0%N :: N.of_nat (length u) :: u ++ p ++ [dir_digit d] end.
(* a database left behind by a version with the old key format *)
Definition old_db (ms : list mt) : db KK := map (fun m => (1%N :: keystr (ident_of m), getstate m)) ms.
Definition writes_from (d0 : db KK) (ws : list (list mt)) : db KK := fold_left (fun d ts => write KK bytes_eqb HH EE d ts) ws d0.
Definition writes (ws : list (list mt)) : db KK := writes_from [] ws.
Definition got_read (ws : list (list mt)) : list (list Z) := map enc_om (read KK (writes ws)).
Definition got_load (ws : list (list mt)) : list (list Z) := map enc_m (load KK (writes ws)).
Definition got_read_from (old : list mt) (ws : list (list mt)) : list (list Z) := map enc_om (read KK (writes_from (old_db old) ws)).
Definition got_load_from (old : list mt) (ws : list (list mt)) : list (list Z) := map enc_m (load KK (writes_from (old_db old) ws)).
