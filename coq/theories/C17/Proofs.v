From Slsk Require Import Base.Tac.
From Coq Require Import Permutation.
From SlskGen Require Import TransGen.
From Slsk Require Import C03.Spec C03.Model C03.Proofs C17.Model.

(* ---------- identity comparison (Transfer.__eq__) ---------- *)
Lemma bytes_eqb_eq : forall a b, bytes_eqb a b = true <-> a = b.
Proof.
  induction a as [|x a IH]; destruct b as [|y b]; cbn; split; intros E; try discriminate; try reflexivity.
  - apply andb_true_iff in E. destruct E as [E1 E2]. apply N.eqb_eq in E1. apply IH in E2. subst. reflexivity.
  - inv E. apply andb_true_iff. split; [apply N.eqb_refl | apply IH; reflexivity].
Qed.
Lemma dir_eqb_eq : forall a b, dir_eqb a b = true <-> a = b.
Proof. destruct a, b; cbn; split; intros E; try discriminate; reflexivity. Qed.
Lemma ident_eqb_eq : forall a b, ident_eqb a b = true <-> a = b.
Proof.
  intros [[u1 p1] d1] [[u2 p2] d2]. cbn. rewrite !andb_true_iff, !bytes_eqb_eq, dir_eqb_eq. split.
  - intros [[-> ->] ->]. reflexivity.
  - intros E. inv E. auto.
Qed.

Lemma ident_getstate : forall m, ident_of (p_m (getstate m)) = ident_of m.
Proof. reflexivity. Qed.

(* ---------- pickling ---------- *)
Definition norm_abort (m : mt) : option N :=
  match m_abort m, m_state m with None, ABORTED => Some REQUESTED | a, _ => a end.
Definition norm (m : mt) : mt := upd_runtime (upd_abort m (norm_abort m)) false false.

Lemma setstate_getstate : forall m, has_class (m_state m) = true -> setstate (getstate m) = Some (norm m).
Proof.
  intros m Hc. unfold setstate, getstate. cbn. rewrite Hc. unfold norm, norm_abort.
  destruct (m_abort m); destruct (m_state m); reflexivity.
Qed.

Lemma setstate_ident : forall r m, setstate r = Some m -> ident_of m = ident_of (p_m r).
Proof. intros r m E. unfold setstate in E. destruct (has_class (m_state (p_m r))); inv E. reflexivity. Qed.

(* ---------- repair ---------- *)
Lemma keep_isSome : forall o, keep (isSome o) o = o.
Proof. destruct o; reflexivity. Qed.

Lemma persisted_fields_b_true : persisted_fields_b = true.
Proof. vm_compute. reflexivity. Qed.

Lemma repair_init_ok_b_true : repair_init_ok_b = true.
Proof. vm_compute. reflexivity. Qed.

Lemma list_effect_beq_eq : forall a b, list_effect_beq a b = true -> a = b.
Proof.
  induction a as [|x a IH]; destruct b as [|y b]; cbn; intros E; try discriminate; try reflexivity.
  apply andb_true_iff in E. destruct E as [E1 E2]. apply effect_beq_eq in E1. apply IH in E2. subst. reflexivity.
Qed.

Lemma init_queue_body : forall d, trans INITIALIZING d OQueue = Some [SetRemotelyQueued; Transition QUEUED].
Proof.
  intros d. pose proof repair_init_ok_b_true as K. unfold repair_init_ok_b in K. rewrite forallb_forall in K.
  specialize (K d (all_dir_complete d)). destruct (trans INITIALIZING d OQueue) as [effs|]; [|discriminate].
  apply list_effect_beq_eq in K. subst. reflexivity.
Qed.

Definition repaired_state (m : mt) : st :=
  match m_state m with
  | INITIALIZING => QUEUED
  | DOWNLOADING | UPLOADING => if opt_N_eqb (m_filesize m) (m_bytes m) then COMPLETE else INCOMPLETE
  | s => s
  end.

Lemma repair_table_thm : forall m,
  m_state (repair m) = repaired_state m /\ m_rq (repair m) = false /\
  ident_of (repair m) = ident_of m /\ m_local (repair m) = m_local m /\ m_filesize (repair m) = m_filesize m /\
  m_bytes (repair m) = m_bytes m /\ m_fail (repair m) = m_fail m /\ m_abort (repair m) = m_abort m /\
  m_place (repair m) = m_place m /\ m_registered (repair m) = m_registered m /\
  (in_progress (m_state m) = false -> m_start (repair m) = m_start m /\ m_complete (repair m) = m_complete m).
Proof.
  intros [u p d s loc rq pl f ab fs by_ qa ua stt ct off reg]. unfold repaired_state.
  destruct s, d, loc, stt, ct; cbv -[opt_N_eqb]; try destruct (opt_N_eqb fs by_);
    repeat split; intros; try reflexivity; try discriminate.
Qed.

Lemma repair_not_in_progress : forall m, in_progress (m_state (repair m)) = false.
Proof.
  intros m. rewrite (proj1 (repair_table_thm m)). unfold repaired_state.
  destruct (m_state m); try reflexivity; destruct (opt_N_eqb (m_filesize m) (m_bytes m)); reflexivity.
Qed.

(* ---------- the database ---------- *)
Section CacheProofs.
  Variable K : Type.
  Variable K_eqb : K -> K -> bool.
  Variable H : list N -> K.
  Variable enc : ident -> list N.
  Hypothesis K_eqb_spec : forall a b, K_eqb a b = true <-> a = b.
  Hypothesis enc_inj : forall a b, enc a = enc b -> a = b.

  Notation key := (key K H enc).
  Notation put := (put K K_eqb).
  Notation remove_key := (remove_key K K_eqb).
  Notation write := (write K K_eqb H enc).
  Notation load := (load K).
  Notation read := (read K).

  Lemma K_eqb_false : forall a b, K_eqb a b = false <-> a <> b.
  Proof.
    intros a b. split.
    - intros E Eq. apply K_eqb_spec in Eq. congruence.
    - intros N. destruct (K_eqb a b) eqn:E; [|reflexivity]. apply K_eqb_spec in E. contradiction.
  Qed.

  Lemma in_remove_key : forall d k0 k r, In (k, r) (remove_key k0 d) <-> k <> k0 /\ In (k, r) d.
  Proof.
    induction d as [|[k' r'] d IH]; intros k0 k r; cbn.
    - tauto.
    - destruct (K_eqb k' k0) eqn:E.
      + apply K_eqb_spec in E. subst. rewrite IH. split.
        * intros [N I]. split; [exact N|right; exact I].
        * intros [N [E|I]]; [inv E; contradiction|split; assumption].
      + apply K_eqb_false in E. cbn. rewrite IH. split.
        * intros [Eq|[N I]]; [inv Eq; split; [exact E|left; reflexivity]|split; [exact N|right; exact I]].
        * intros [N [Eq|I]]; [left; exact Eq|right; split; assumption].
  Qed.

  Lemma in_put : forall d k0 v k r, In (k, r) (put k0 v d) <-> (k = k0 /\ r = v) \/ (k <> k0 /\ In (k, r) d).
  Proof.
    intros d k0 v k r. unfold C17.Model.put. cbn. rewrite in_remove_key. split.
    - intros [E|X]; [inv E; left; auto|right; exact X].
    - intros [[-> ->]|X]; [left; reflexivity|right; exact X].
  Qed.

  Lemma keys_remove_key : forall d k0 k, In k (map fst (remove_key k0 d)) -> k <> k0 /\ In k (map fst d).
  Proof.
    intros d k0 k Hin. apply in_map_iff in Hin. destruct Hin as [[k' r] [E I]]. cbn in E. subst.
    apply in_remove_key in I. destruct I as [N I]. split; [exact N|]. apply in_map_iff. exists (k, r). auto.
  Qed.

  Lemma nodup_remove_key : forall d k0, NoDup (map fst d) -> NoDup (map fst (remove_key k0 d)).
  Proof.
    induction d as [|[k' r'] d IH]; intros k0 N; cbn; [constructor|].
    inv N. destruct (K_eqb k' k0); [apply IH; assumption|]. cbn. constructor; [|apply IH; assumption].
    intros I. apply keys_remove_key in I. tauto.
  Qed.

  Lemma nodup_put : forall d k v, NoDup (map fst d) -> NoDup (map fst (put k v d)).
  Proof.
    intros d k v N. unfold C17.Model.put. cbn. constructor; [|apply nodup_remove_key; exact N].
    intros I. apply keys_remove_key in I. tauto.
  Qed.

  Definition puts (ts : list mt) (d : db K) : db K := fold_left (fun acc t => put (key t) (getstate t) acc) ts d.

  Lemma nodup_puts : forall ts d, NoDup (map fst d) -> NoDup (map fst (puts ts d)).
  Proof. induction ts as [|t ts IH]; intros d N; cbn; [exact N|]. apply IH. apply nodup_put. exact N. Qed.

  Lemma in_puts : forall ts d k r, NoDup (map key ts) ->
    (In (k, r) (puts ts d) <->
     (exists t, In t ts /\ k = key t /\ r = getstate t) \/ (~ In k (map key ts) /\ In (k, r) d)).
  Proof.
    induction ts as [|t ts IH]; intros d k r N; cbn [puts fold_left].
    - cbn. split; [intros I; right; split; [tauto|exact I]|intros [[t [[] _]]|[_ I]]; exact I].
    - inv N. fold (puts ts (put (key t) (getstate t) d)). rewrite IH by assumption. rewrite in_put. cbn [map In]. split.
      + intros [[t' [I [E1 E2]]]|[Nk [[E1 E2]|[Nk2 I]]]].
        * left. exists t'. split; [right; exact I|split; assumption].
        * left. exists t. split; [left; reflexivity|split; assumption].
        * right. split; [|exact I]. intros [E|I']; [symmetry in E; contradiction|contradiction].
      + intros [[t' [[E|I] [E1 E2]]]|[Nk I]].
        * subst t'. right. split; [subst k; assumption|]. left. split; assumption.
        * left. exists t'. split; [exact I|split; assumption].
        * right. split; [tauto|]. right. split; [|exact I]. intros E. apply Nk. left. symmetry. exact E.
  Qed.

  (* without any premise: whatever sits under a listed key after the puts is the pickle of a listed transfer *)
  Lemma in_puts_fwd : forall ts d k r, In (k, r) (puts ts d) ->
    (exists t, In t ts /\ k = key t /\ r = getstate t) \/ (~ In k (map key ts) /\ In (k, r) d).
  Proof.
    induction ts as [|t ts IH]; intros d k r I; cbn [puts fold_left] in I.
    - right. split; [intros []|exact I].
    - fold (puts ts (put (key t) (getstate t) d)) in I. apply IH in I. destruct I as [[t' [It [E1 E2]]]|[Nk I]].
      + left. exists t'. split; [right; exact It|split; assumption].
      + apply in_put in I. destruct I as [[E1 E2]|[Nk2 I]].
        * left. exists t. split; [left; reflexivity|split; assumption].
        * right. split; [|exact I]. cbn. intros [E|I']; [symmetry in E; contradiction|contradiction].
  Qed.

  Lemma key_listed_spec : forall ts k, existsb (K_eqb k) (map key ts) = true <-> In k (map key ts).
  Proof.
    intros ts k. rewrite existsb_exists. split.
    - intros [x [I E]]. apply K_eqb_spec in E. subst. exact I.
    - intros I. exists k. split; [exact I|apply K_eqb_spec; reflexivity].
  Qed.

  Lemma nodup_keys_of_idents : forall ts, NoDup (map ident_of ts) -> hash_injective_on K H enc ts -> NoDup (map key ts).
  Proof.
    induction ts as [|t ts IH]; intros N KI; cbn; [constructor|]. inv N. constructor.
    - intros I. apply in_map_iff in I. destruct I as [t' [E I]]. apply H2. apply in_map_iff. exists t'. split; [|exact I].
      symmetry. apply enc_inj. apply KI; [left; reflexivity|right; exact I|symmetry; exact E].
    - apply IH; [assumption|]. intros a b Ia Ib. apply KI; right; assumption.
  Qed.

  Lemma nodup_map_fst_filter : forall (f : K * prec -> bool) d, NoDup (map fst d) -> NoDup (map fst (filter f d)).
  Proof.
    induction d as [|x d IH]; intros N; cbn; [constructor|]. inv N. destruct (f x); [|apply IH; assumption].
    cbn. constructor; [|apply IH; assumption]. intros I. apply H2. apply in_map_iff in I. destruct I as [y [E I]].
    apply filter_In in I. apply in_map_iff. exists y. tauto.
  Qed.

  (* what is in the database after write: exactly one entry per listed transfer, under its key --
     whatever the database held before, under whatever keys *)
  Lemma in_write : forall d ts k r, NoDup (map ident_of ts) -> hash_injective_on K H enc ts ->
    (In (k, r) (write d ts) <-> exists t, In t ts /\ k = key t /\ r = getstate t).
  Proof.
    intros d ts k r N KI. unfold C17.Model.write. fold (puts ts d). rewrite filter_In. cbn [fst].
    rewrite key_listed_spec. rewrite in_puts by (apply nodup_keys_of_idents; assumption). split.
    - intros [[X|[Nk I]] L]; [exact X|contradiction].
    - intros [t [I [E1 E2]]]. split; [left; exists t; auto|]. subst k. apply in_map. exact I.
  Qed.

  Lemma roundtrip_thm : forall d ts, NoDup (map fst d) ->
    NoDup (map ident_of ts) -> hash_injective_on K H enc ts ->
    Permutation (map snd (write d ts)) (map getstate ts) /\ NoDup (map fst (write d ts)) /\
    (forall k, In k (map fst (write d ts)) <-> In k (map key ts)).
  Proof.
    intros d ts Nd N KI.
    assert (Nw : NoDup (map fst (write d ts))).
    { unfold C17.Model.write. apply nodup_map_fst_filter. apply nodup_puts. exact Nd. }
    split; [|split; [exact Nw|]].
    - assert (P : Permutation (write d ts) (map (fun t => (key t, getstate t)) ts)).
      { apply NoDup_Permutation.
        - eapply NoDup_map_inv. exact Nw.
        - eapply NoDup_map_inv with (f := fst). rewrite map_map. cbn. apply nodup_keys_of_idents; assumption.
        - intros [k r]. rewrite in_write by assumption. rewrite in_map_iff. split.
          + intros [t [I [E1 E2]]]. exists t. subst. auto.
          + intros [t [E I]]. inv E. exists t. auto. }
      apply (Permutation_map snd) in P. rewrite map_map in P. cbn in P. exact P.
    - intros k. split.
      + intros I. apply in_map_iff in I. destruct I as [[k' r] [E I]]. cbn in E. subst k'.
        apply in_write in I; try assumption. destruct I as [t [It [E _]]]. subst k. apply in_map. exact It.
      + intros I. apply in_map_iff in I. destruct I as [t [E It]]. apply in_map_iff. exists (k, getstate t). split; [reflexivity|].
        apply in_write; try assumption. exists t. auto.
  Qed.

  Lemma nodup_write : forall d ts, NoDup (map fst d) -> NoDup (map fst (write d ts)).
  Proof. intros d ts N. unfold C17.Model.write. apply nodup_map_fst_filter. apply nodup_puts. exact N. Qed.

  Definition history (d0 : db K) (hist : list (list mt)) : db K := fold_left (fun d ts => write d ts) hist d0.

  Lemma nodup_history : forall hist d0, NoDup (map fst d0) -> NoDup (map fst (history d0 hist)).
  Proof. induction hist as [|ts hist IH]; intros d0 N; cbn; [exact N|]. apply IH. apply nodup_write. exact N. Qed.

  (* whatever was written before (any lists, any field values, any number of times): after the last write the
     database holds the CURRENT pickles of the listed transfers and nothing else *)
  Lemma history_thm : forall d0 hist ts, NoDup (map fst d0) ->
    NoDup (map ident_of ts) -> hash_injective_on K H enc ts ->
    Permutation (map snd (write (history d0 hist) ts)) (map getstate ts).
  Proof. intros d0 hist ts N0 N KI. apply roundtrip_thm; try assumption. apply nodup_history. exact N0. Qed.

  (* what a new client unpickles: the listed transfers, each once, with fresh runtime fields *)
  Lemma roundtrip_read_thm : forall d ts, NoDup (map fst d) ->
    NoDup (map ident_of ts) -> hash_injective_on K H enc ts -> (forall t, In t ts -> has_class (m_state t) = true) ->
    Permutation (read (write d ts)) (map (fun t => Some (norm t)) ts).
  Proof.
    intros d ts Nd N KI HC. destruct (roundtrip_thm d ts Nd N KI) as [P _].
    unfold C17.Model.read. rewrite <- (map_map snd setstate). apply (Permutation_map setstate) in P.
    eapply Permutation_trans; [exact P|]. rewrite map_map.
    erewrite map_ext_in; [apply Permutation_refl|]. intros t I. cbv beta. apply setstate_getstate. apply HC. exact I.
  Qed.

  (* removed transfers are gone: whatever was in the database, only pickles of listed transfers remain *)
  Lemma removed_gone_thm : forall d ts r, In r (map snd (write d ts)) ->
    exists t, In t ts /\ r = getstate t.
  Proof.
    intros d ts r I. apply in_map_iff in I. destruct I as [[k r'] [E I]]. cbn in E. subst r'.
    unfold C17.Model.write in I. apply filter_In in I. destruct I as [I L]. cbn [fst] in L. apply key_listed_spec in L.
    fold (puts ts d) in I. apply in_puts_fwd in I. destruct I as [[t [It [_ E]]]|[Nk _]]; [exists t; auto|contradiction].
  Qed.

  Lemma in_somes : forall A (l : list (option A)) x, In x (somes l) <-> In (Some x) l.
  Proof.
    induction l as [|[y|] l IH]; intros x; cbn; [tauto| |].
    - rewrite IH. split; [intros [->|I]; auto|intros [E|I]; [inv E; auto|auto]].
    - rewrite IH. split; [auto|intros [E|I]; [discriminate|exact I]].
  Qed.

  Lemma in_add_all : forall l acc m, In m (add_all acc l) -> In m acc \/ exists x, In x l /\ m = register x.
  Proof.
    induction l as [|x l IH]; intros acc m I; cbn [add_all] in I; [left; exact I|].
    match type of I with context [if ?c then _ else _] => destruct c end.
    - destruct (IH _ _ I) as [A|[y [Iy E]]]; [left; exact A|right; exists y; split; [right; exact Iy|exact E]].
    - destruct (IH _ _ I) as [A|[y [Iy E]]].
      + apply in_app_or in A. destruct A as [A|[E|[]]]; [left; exact A|]. right. exists x. split; [left; reflexivity|symmetry; exact E].
      + right. exists y. split; [right; exact Iy|exact E].
  Qed.

  Lemma in_load : forall d m, In m (load d) -> exists k r m0, In (k, r) d /\ setstate r = Some m0 /\ m = register (repair m0).
  Proof.
    intros d m I. unfold C17.Model.load in I. apply in_add_all in I. destruct I as [[]|[x [Ix E]]].
    apply in_map_iff in Ix. destruct Ix as [m0 [E0 I0]]. apply in_somes in I0. unfold C17.Model.read in I0.
    apply in_map_iff in I0. destruct I0 as [[k r] [E1 I1]]. cbn in E1. exists k, r, m0. subst. auto.
  Qed.

  Lemma removed_gone_load_thm : forall d ts m, In m (load (write d ts)) ->
    exists t, In t ts /\ ident_of t = ident_of m.
  Proof.
    intros d ts m I. apply in_load in I. destruct I as [k [r [m0 [I [S E]]]]].
    destruct (removed_gone_thm d ts r) as [t [It Et]]; [apply in_map_iff; exists (k, r); auto|].
    exists t. split; [exact It|]. subst m r.
    destruct (repair_table_thm m0) as [_ [_ [Id _]]]. transitivity (ident_of (repair m0)); [|reflexivity].
    rewrite Id, (setstate_ident _ _ S). reflexivity.
  Qed.

  Lemma no_in_progress_thm : forall d m, In m (load d) ->
    in_progress (m_state m) = false /\ m_rq m = false /\ m_registered m = true.
  Proof.
    intros d m I. apply in_load in I. destruct I as [k [r [m0 [_ [_ E]]]]]. subst m. cbn.
    split; [apply repair_not_in_progress|]. split; [|reflexivity]. exact (proj1 (proj2 (repair_table_thm m0))).
  Qed.

  (* the pair of (fixed) finding F21 *)
  Definition f21_a : mt := mkMt [97%N; 98%N] [99%N] Download QUEUED None false None None None None 0%N 0%N 0%N None None false true.
  Definition f21_b : mt := mkMt [97%N] [98%N; 99%N] Download QUEUED None false None None None None 0%N 0%N 0%N None None false true.

  Lemma f21_pair_separated : keystr (ident_of f21_a) = keystr (ident_of f21_b) /\ enc (ident_of f21_a) <> enc (ident_of f21_b).
  Proof. split; [reflexivity|]. intros E. apply enc_inj in E. discriminate E. Qed.
End CacheProofs.

(* loaded transfers, seen as C03 transfers: no tasks, lock free; every C03 theorem applies to them *)
Lemma loaded_like_fresh_thm : forall m cs,
  t_rqtask (to_c03 m) = TNone /\ t_trtask (to_c03 m) = TNone /\ m_holder (idle (to_c03 m)) = None /\
  Forall (fun x => edges_documented (snd x)) (snd (run_seq (to_c03 m) cs)).
Proof. intros m cs. repeat split. apply sequential_thm. Qed.
