(* C17 model: the transfer cache (TransferShelveCache.write/read over shelve), pickling of Transfer
   (__getstate__/__setstate__) and TransferManager.read_cache (state repair + re-registration through add()).
   The repair of an INITIALIZING transfer calls the real state method queue(): modelled with C03's
   effect semantics over SlskGen.TransGen.trans (regenerated from transfer/state.py). *)
From Coq Require Import ZArith NArith List Bool String.
From SlskGen Require Import TransGen TransferGen.
From Slsk Require Import C03.Spec C03.Model.
Import ListNotations.

Definition REQUESTED : N := 1%N.       (* AbortReason.REQUESTED; reasons are numbered by the harness *)

(* a Transfer object in memory (persisted fields + what matters of the runtime fields) *)
Record mt : Type := mkMt {
  m_user : list N;          (* username, UTF-8 bytes *)
  m_path : list N;          (* remote_path *)
  m_dir : direction;
  m_state : st;
  m_local : option N;       (* local_path (numbered) *)
  m_rq : bool;              (* remotely_queued *)
  m_place : option N;
  m_fail : option N;
  m_abort : option N;
  m_filesize : option N;
  m_bytes : N;
  m_qatt : N;
  m_uatt : N;
  m_start : option N;       (* start_time *)
  m_complete : option N;    (* complete_time *)
  m_offset : bool;          (* the attribute _offset exists (reset_progress_vars creates it) *)
  m_registered : bool       (* the manager listens to state changes and lists the transfer *)
}.

(* a pickled record: the __dict__ copy; abort_reason may be missing in old caches *)
Record prec : Type := mkPr { p_m : mt; p_abort_present : bool }.

Definition upd_state (m : mt) (s : st) : mt :=
  mkMt (m_user m) (m_path m) (m_dir m) s (m_local m) (m_rq m) (m_place m) (m_fail m) (m_abort m) (m_filesize m)
       (m_bytes m) (m_qatt m) (m_uatt m) (m_start m) (m_complete m) (m_offset m) (m_registered m).
Definition upd_abort (m : mt) (a : option N) : mt :=
  mkMt (m_user m) (m_path m) (m_dir m) (m_state m) (m_local m) (m_rq m) (m_place m) (m_fail m) a (m_filesize m)
       (m_bytes m) (m_qatt m) (m_uatt m) (m_start m) (m_complete m) (m_offset m) (m_registered m).
Definition upd_rq (m : mt) (b : bool) : mt :=
  mkMt (m_user m) (m_path m) (m_dir m) (m_state m) (m_local m) b (m_place m) (m_fail m) (m_abort m) (m_filesize m)
       (m_bytes m) (m_qatt m) (m_uatt m) (m_start m) (m_complete m) (m_offset m) (m_registered m).
Definition upd_times (m : mt) (a b : option N) : mt :=
  mkMt (m_user m) (m_path m) (m_dir m) (m_state m) (m_local m) (m_rq m) (m_place m) (m_fail m) (m_abort m) (m_filesize m)
       (m_bytes m) (m_qatt m) (m_uatt m) a b (m_offset m) (m_registered m).
Definition upd_runtime (m : mt) (off reg : bool) : mt :=
  mkMt (m_user m) (m_path m) (m_dir m) (m_state m) (m_local m) (m_rq m) (m_place m) (m_fail m) (m_abort m) (m_filesize m)
       (m_bytes m) (m_qatt m) (m_uatt m) (m_start m) (m_complete m) off reg.

(* Transfer.__getstate__: __dict__ without the runtime fields, state as enum value *)
Definition getstate (m : mt) : prec := mkPr (upd_runtime m (m_offset m) false) true.

(* Transfer.__setstate__ ; None when no state class exists for the stored value (init_from_state raises) *)
Definition setstate (r : prec) : option mt :=
  let m := p_m r in
  if has_class (m_state m) then
    let a := if p_abort_present r then m_abort m else None in
    let a' := match a, m_state m with
              | None, ABORTED => Some REQUESTED
              | _, _ => a
              end in
    Some (upd_runtime (upd_abort m a') false false)
  else None.

(* ---- read_cache: state repair ---- *)
Definition isSome {A} (o : option A) : bool := match o with Some _ => true | None => false end.

Definition to_c03 (m : mt) : transfer :=
  mkT (m_state m) (m_dir m) (m_fail m) (m_abort m) (m_rq m) (m_place m) (m_filesize m) (m_bytes m) (m_qatt m) (m_uatt m)
      (isSome (m_start m)) (isSome (m_complete m)) (isSome (m_local m)) false TNone TNone.

Definition keep (b : bool) (old : option N) : option N :=
  if b then match old with Some v => Some v | None => Some 0%N end else None.

Definition from_c03 (m : mt) (t : transfer) : mt :=
  mkMt (m_user m) (m_path m) (m_dir m) (t_state t) (keep (t_local t) (m_local m)) (t_rq t) (t_place t) (t_fail t) (t_abort t)
       (t_filesize t) (t_bytes t) (t_qatt t) (t_uatt t) (keep (t_start t) (m_start m)) (keep (t_complete t) (m_complete m))
       (m_offset m) (m_registered m).

Definition queue_call : call := mkCall OQueue None false.    (* `await transfer.state.queue()` *)

Definition opt_N_eqb (a : option N) (b : N) : bool := match a with Some x => N.eqb x b | None => false end.

(* read_cache is regenerated as constants (the repair_ constants of SlskGen.TransferGen): whether the remote-queue mark is cleared,
   which persisted state is re-run through which state method, what a transferring transfer becomes, which helper
   methods are applied to it, whether the transfer is registered through add() *)
Fixpoint rule_for (s : st) (l : list (st * op)) : option op :=
  match l with
  | [] => None
  | (s', o) :: r => if st_beq s s' then Some o else rule_for s r
  end.
Definition apply_methods (ms : list (list fstep)) (t : transfer) : transfer := fold_left (fun t m => run_fields m t) ms t.

Definition repair (m : mt) : mt :=
  let m1 := if repair_rq_cleared then upd_rq m false else m in
  match rule_for (m_state m1) repair_state_rules with
  | Some o => from_c03 m1 (fst (fst (step_seq (to_c03 m1) (mkCall o None false))))
  | None =>
      if repair_transferring && existsb (st_beq (m_state m1)) is_transferring_states then
        let s := if opt_N_eqb (m_filesize m1) (m_bytes m1) then repair_all_bytes else repair_some_bytes in
        from_c03 m1 (apply_methods repair_methods (to_c03 (upd_state m1 s)))
      else m1
  end.

(* TransferManager.add of a transfer that is not yet listed (fingerprinted: appends the manager to state_listeners,
   lists the transfer, requests a management cycle) *)
Definition register (m : mt) : mt := if repair_adds then upd_runtime m (m_offset m) true else m.

(* the attributes that are pickled = the attributes __init__ creates minus _UNPICKABLE_FIELDS; these are the fields
   of `mt` (last_*_attempt are folded into the counters) *)
Definition modelled_persisted : list string :=
  ["state"; "direction"; "username"; "remote_path"; "local_path"; "remotely_queued"; "place_in_queue"; "fail_reason";
   "abort_reason"; "filesize"; "bytes_transfered"; "queue_attempts"; "last_queue_attempt"; "upload_request_attempts";
   "last_upload_request_attempt"; "start_time"; "complete_time"]%string.
Fixpoint strs_eqb (a b : list string) : bool :=
  match a, b with
  | [], [] => true
  | x :: a', y :: b' => String.eqb x y && strs_eqb a' b'
  | _, _ => false
  end.
(* constants the model and the harness rely on (regenerated from transfer/model.py) *)
Definition constants_ok_b : bool :=
  String.eqb abort_reason_requested "Requested" && negb (Nat.eqb (dir_value Upload) (dir_value Download)) &&
  Nat.ltb (dir_value Upload) 10 && Nat.ltb (dir_value Download) 10.

Definition persisted_fields_b : bool :=
  strs_eqb (filter (fun f => negb (existsb (String.eqb f) unpickable_fields)) init_fields) modelled_persisted.

Definition in_progress (s : st) : bool :=
  match s with INITIALIZING | DOWNLOADING | UPLOADING => true | _ => false end.

Fixpoint list_effect_beq (a b : list effect) : bool :=
  match a, b with
  | [], [] => true
  | x :: a', y :: b' => effect_beq x y && list_effect_beq a' b'
  | _, _ => false
  end.

(* the state method read_cache relies on: InitializingState.queue = set remotely_queued, go to QUEUED *)
Definition repair_init_ok_b : bool :=
  forallb (fun d => match trans INITIALIZING d OQueue with
                    | Some effs => list_effect_beq effs [SetRemotelyQueued; Transition QUEUED]
                    | None => false end) all_dir.

(* ---- identity and cache key ---- *)
Definition ident : Type := (list N * list N * direction)%type.
Definition ident_of (m : mt) : ident := (m_user m, m_path m, m_dir m).

Definition dir_digit (d : direction) : N := N.of_nat (48 + dir_value d).   (* str(direction.value); values regenerated *)
(* the string hashed by versions before the fix of F21: username + remote_path + str(direction.value), no
   separators; only used to describe databases written by those versions *)
Definition keystr (i : ident) : list N := match i with (u, p, d) => u ++ p ++ [dir_digit d] end.

Fixpoint bytes_eqb (a b : list N) : bool :=
  match a, b with
  | [], [] => true
  | x :: a', y :: b' => N.eqb x y && bytes_eqb a' b'
  | _, _ => false
  end.
Definition dir_eqb (a b : direction) : bool :=
  match a, b with Upload, Upload | Download, Download => true | _, _ => false end.
(* Transfer.__eq__ *)
Definition ident_eqb (a b : ident) : bool :=
  match a, b with (u1, p1, d1), (u2, p2, d2) => bytes_eqb u1 u2 && bytes_eqb p1 p2 && dir_eqb d1 d2 end.

Section Cache.
  Variable K : Type.
  Variable K_eqb : K -> K -> bool.
  Variable H : list N -> K.               (* sha256(...).hexdigest() *)
  Variable enc : ident -> list N.         (* repr((username, remote_path, direction.value)).encode('utf-8') *)

  Definition key (m : mt) : K := H (enc (ident_of m)).

  Definition db : Type := list (K * prec).

  Fixpoint remove_key (k : K) (d : db) : db :=
    match d with
    | [] => []
    | (k', r) :: rest => if K_eqb k' k then remove_key k rest else (k', r) :: remove_key k rest
    end.
  (* database[key] = transfer *)
  Definition put (k : K) (r : prec) (d : db) : db := (k, r) :: remove_key k d.

  (* TransferShelveCache.write: store every listed transfer under its key, then delete every other key
     (stale transfers and entries stored under the keys of older versions) *)
  Definition write (d : db) (ts : list mt) : db :=
    let d1 := fold_left (fun acc t => put (key t) (getstate t) acc) ts d in
    filter (fun kr => existsb (K_eqb (fst kr)) (map key ts)) d1.

  (* TransferShelveCache.read (order unspecified) followed by unpickling *)
  Definition read (d : db) : list (option mt) := map (fun kr => setstate (snd kr)) d.

  (* TransferManager.read_cache on an empty manager *)
  Fixpoint add_all (acc : list mt) (l : list mt) : list mt :=
    match l with
    | [] => acc
    | m :: r => if existsb (fun q => ident_eqb (ident_of q) (ident_of m)) acc then add_all acc r
                else add_all (acc ++ [register m]) r
    end.
  Fixpoint somes {A} (l : list (option A)) : list A :=
    match l with [] => [] | Some x :: r => x :: somes r | None :: r => somes r end.
  Definition load (d : db) : list mt := add_all [] (map repair (somes (read d))).

  (* sha256 does not collide on the encodings of the listed transfers *)
  Definition hash_injective_on (ts : list mt) : Prop :=
    forall a b, In a ts -> In b ts -> H (enc (ident_of a)) = H (enc (ident_of b)) -> enc (ident_of a) = enc (ident_of b).
End Cache.
