(* C17 property theorems (statements only; proofs in Proofs.v).
   K / K_eqb / H = the key type, its equality and sha256-hexdigest: universally quantified.  Nothing is
   assumed about H; what the round trip needs is stated as the premise key_injective_on. *)
From Slsk Require Import Base.Tac.
From Coq Require Import Permutation.
From SlskGen Require Import TransGen.
From Slsk Require Import C03.Spec C03.Model C17.Model C17.Proofs.

(* write then read: the database holds exactly the pickles of the listed transfers, each exactly once,
   whatever it held before (stale entries removed, existing ones overwritten) -- provided the keys of the
   listed transfers do not collide. *)
Theorem C17_roundtrip_set : forall K K_eqb H, (forall a b : K, K_eqb a b = true <-> a = b) ->
  forall d ts, NoDup (map fst d) -> db_ok K H d ->
  NoDup (map ident_of ts) -> key_injective_on K H ts ->
  Permutation (map snd (write K K_eqb H d ts)) (map getstate ts) /\
  NoDup (map fst (write K K_eqb H d ts)) /\ db_ok K H (write K K_eqb H d ts).
Proof. exact roundtrip_thm. Qed.

(* ... and a new client unpickles each of them once, with the persisted fields unchanged
   (norm: fresh runtime fields; abort_reason None of an ABORTED transfer becomes REQUESTED). *)
Theorem C17_roundtrip_read : forall K K_eqb H, (forall a b : K, K_eqb a b = true <-> a = b) ->
  forall d ts, NoDup (map fst d) -> db_ok K H d ->
  NoDup (map ident_of ts) -> key_injective_on K H ts -> (forall t, In t ts -> has_class (m_state t) = true) ->
  Permutation (read K (write K K_eqb H d ts)) (map (fun t => Some (norm t)) ts).
Proof. exact roundtrip_read_thm. Qed.

Theorem C17_pickle_roundtrip : forall m, has_class (m_state m) = true -> setstate (getstate m) = Some (norm m).
Proof. exact setstate_getstate. Qed.

(* Finding F21: without the premise the statement is false for EVERY hash function: the hashed string
   username + remote_path + str(direction) has no separators, so ("ab","c") and ("a","bc") share a key
   and one of two distinct transfers is lost. *)
Theorem C17_roundtrip_refuted : forall K K_eqb H, (forall a b : K, K_eqb a b = true <-> a = b) ->
  exists ts, NoDup (map ident_of ts) /\ (forall t, In t ts -> has_class (m_state t) = true) /\
    length (write K K_eqb H [] ts) < length ts /\ ~ key_injective_on K H ts.
Proof. exact roundtrip_refuted_thm. Qed.

(* removed transfers are gone, from the database and from what a new client loads (no premise) *)
Theorem C17_removed_gone : forall K K_eqb H d ts r, In r (map snd (write K K_eqb H d ts)) ->
  exists t, In t ts /\ ident_of t = ident_of (p_m r).
Proof. exact removed_gone_thm. Qed.

Theorem C17_removed_gone_load : forall K K_eqb H d ts m, In m (load K (write K K_eqb H d ts)) ->
  exists t, In t ts /\ ident_of t = ident_of m.
Proof. exact removed_gone_load_thm. Qed.

(* after load_data no transfer is in progress, no remote-queue mark survives, every transfer is registered *)
Theorem C17_no_in_progress_after_load : forall K d m, In m (load K d) ->
  in_progress (m_state m) = false /\ m_rq m = false /\ m_registered m = true.
Proof. exact no_in_progress_thm. Qed.

(* the repair table, state by state; everything else the property lists is untouched *)
Theorem C17_repair_table : forall m,
  m_state (repair m) = repaired_state m /\ m_rq (repair m) = false /\
  ident_of (repair m) = ident_of m /\ m_local (repair m) = m_local m /\ m_filesize (repair m) = m_filesize m /\
  m_bytes (repair m) = m_bytes m /\ m_fail (repair m) = m_fail m /\ m_abort (repair m) = m_abort m /\
  m_place (repair m) = m_place m /\ m_registered (repair m) = m_registered m /\
  (in_progress (m_state m) = false -> m_start (repair m) = m_start m /\ m_complete (repair m) = m_complete m).
Proof. exact repair_table_thm. Qed.

(* a loaded transfer is, for C03, an ordinary transfer without tasks on a free lock: C03's theorems apply *)
Theorem C17_loaded_like_fresh : forall m cs,
  t_rqtask (to_c03 m) = TNone /\ t_trtask (to_c03 m) = TNone /\ m_holder (idle (to_c03 m)) = None /\
  Forall (fun x => edges_documented (snd x)) (snd (run_seq (to_c03 m) cs)).
Proof. exact loaded_like_fresh_thm. Qed.

(* ---------- non-vacuity ---------- *)
Definition ex_t (u p : list N) (d : direction) (s : st) (fs : option N) (b : N) : mt :=
  mkMt u p d s (Some 3%N) true (Some 2%N) None None fs b 1%N 0%N (Some 5%N) None false true.

Example C17_roundtrip_nonvacuous :
  let ts := [ex_t [97] [98] Download DOWNLOADING (Some 10) 10; ex_t [97] [98] Upload UPLOADING (Some 10) 4;
             ex_t [120] [121] Download INITIALIZING None 0]%N in
  NoDup (map ident_of ts) /\ key_injective_on (list N) (fun x => x) ts /\
  map m_state (load (list N) (write (list N) bytes_eqb (fun x => x) [] ts)) = [QUEUED; INCOMPLETE; COMPLETE].
Proof.
  cbv zeta. split; [|split].
  - repeat constructor; cbn; intuition discriminate.
  - intros a b [<-|[<-|[<-|[]]]] [<-|[<-|[<-|[]]]] E; try reflexivity; vm_compute in E; discriminate E.
  - vm_compute. reflexivity.
Qed.

Example C17_repair_table_nonvacuous :
  repaired_state (ex_t [] [] Download DOWNLOADING (Some 10%N) 10%N) = COMPLETE /\
  repaired_state (ex_t [] [] Upload UPLOADING (Some 10%N) 4%N) = INCOMPLETE /\
  repaired_state (ex_t [] [] Download DOWNLOADING None 0%N) = INCOMPLETE /\
  repaired_state (ex_t [] [] Upload INITIALIZING None 0%N) = QUEUED /\
  repaired_state (ex_t [] [] Upload PAUSED None 0%N) = PAUSED.
Proof. repeat split; reflexivity. Qed.
