(* C17 property theorems (statements only; proofs in Proofs.v).
   K / K_eqb / H / enc = the key type, its equality, sha256-hexdigest and the encoding of the identifying
   fields: universally quantified; what the round trip needs of them is stated as explicit premises. *)
From Slsk Require Import Base.Tac.
From Coq Require Import Permutation.
From SlskGen Require Import TransGen TransferGen.
From Slsk Require Import C03.Spec C03.Model C17.Model C17.Proofs.

(* write then read: the database holds exactly the pickles of the listed transfers, each exactly once and
   under its current key, WHATEVER it held before and under whatever keys (stale entries, entries written
   by versions with the old key format) -- provided sha256 does not collide on the listed transfers.
   enc = repr((username, remote_path, direction.value)): injective (CPython oracle, explicit premise). *)
Theorem C17_roundtrip_set : forall K K_eqb H enc, (forall a b : K, K_eqb a b = true <-> a = b) ->
  (forall a b : ident, enc a = enc b -> a = b) ->
  forall d ts, NoDup (map fst d) -> NoDup (map ident_of ts) -> hash_injective_on K H enc ts ->
  Permutation (map snd (write K K_eqb H enc d ts)) (map getstate ts) /\
  NoDup (map fst (write K K_eqb H enc d ts)) /\
  (forall k, In k (map fst (write K K_eqb H enc d ts)) <-> In k (map (key K H enc) ts)).
Proof. exact roundtrip_thm. Qed.

(* ... and a new client unpickles each of them once, with the persisted fields unchanged
   (norm: fresh runtime fields; abort_reason None of an ABORTED transfer becomes REQUESTED). *)
Theorem C17_roundtrip_read : forall K K_eqb H enc, (forall a b : K, K_eqb a b = true <-> a = b) ->
  (forall a b : ident, enc a = enc b -> a = b) ->
  forall d ts, NoDup (map fst d) -> NoDup (map ident_of ts) -> hash_injective_on K H enc ts ->
  (forall t, In t ts -> has_class (m_state t) = true) ->
  Permutation (read K (write K K_eqb H enc d ts)) (map (fun t => Some (norm t)) ts).
Proof. exact roundtrip_read_thm. Qed.

(* over histories: however often and with whatever lists / field values the cache was written before, after the last
   write it holds the CURRENT pickles of the listed transfers (an implementation that skips "unchanged" transfers or
   keeps old values does not satisfy this model: the correspondence compares field values after mutate/write) *)
Theorem C17_history_current : forall K K_eqb H enc, (forall a b : K, K_eqb a b = true <-> a = b) ->
  (forall a b : ident, enc a = enc b -> a = b) ->
  forall d0 hist ts, NoDup (map fst d0) -> NoDup (map ident_of ts) -> hash_injective_on K H enc ts ->
  Permutation (map snd (write K K_eqb H enc (fold_left (fun d l => write K K_eqb H enc d l) hist d0) ts)) (map getstate ts).
Proof. exact history_thm. Qed.

(* constants the model and the harness rely on, regenerated from transfer/model.py: AbortReason.REQUESTED is
   "Requested", the two TransferDirection values are distinct single digits *)
Theorem C17_constants : constants_ok_b = true.
Proof. vm_compute. reflexivity. Qed.

(* the pickled attributes, regenerated from Transfer.__init__ and _UNPICKABLE_FIELDS, are the fields of the model record *)
Theorem C17_persisted_fields : persisted_fields_b = true.
Proof. exact persisted_fields_b_true. Qed.

Theorem C17_pickle_roundtrip : forall m, has_class (m_state m) = true -> setstate (getstate m) = Some (norm m).
Proof. exact setstate_getstate. Qed.

(* (fixed) finding F21: the pair that shared a key under plain concatenation is separated by every injective encoding *)
Theorem C17_keys_separate : forall enc : ident -> list N, (forall a b, enc a = enc b -> a = b) ->
  keystr (ident_of f21_a) = keystr (ident_of f21_b) /\ enc (ident_of f21_a) <> enc (ident_of f21_b).
Proof. exact f21_pair_separated. Qed.

(* removed transfers are gone, from the database and from what a new client loads (no premise at all) *)
Theorem C17_removed_gone : forall K K_eqb H enc, (forall a b : K, K_eqb a b = true <-> a = b) ->
  forall d ts r, In r (map snd (write K K_eqb H enc d ts)) -> exists t, In t ts /\ r = getstate t.
Proof. exact removed_gone_thm. Qed.

Theorem C17_removed_gone_load : forall K K_eqb H enc, (forall a b : K, K_eqb a b = true <-> a = b) ->
  forall d ts m, In m (load K (write K K_eqb H enc d ts)) -> exists t, In t ts /\ ident_of t = ident_of m.
Proof. exact removed_gone_load_thm. Qed.

(* after load_data no transfer is in progress, no remote-queue mark survives, every transfer is registered *)
Theorem C17_no_in_progress_after_load : forall K d m, In m (load K d) ->
  in_progress (m_state m) = false /\ m_rq m = false /\ m_registered m = true.
Proof. exact no_in_progress_thm. Qed.

(* the repair table, state by state; everything else the property lists is untouched *)
Theorem C17_repair_table : forall m,
  m_state (repair m) = repaired_state m /\ m_rq (repair m) = false /\
  ident_of (repair m) = ident_of m /\ m_local (repair m) = m_local m /\ m_filesize (repair m) = m_filesize m /\
  m_bytes (repair m) = m_bytes m /\ m_fail (repair m) = m_fail m /\ m_abort (repair m) = m_abort m /\
  m_place (repair m) = m_place m /\ m_registered (repair m) = m_registered m /\
  (in_progress (m_state m) = false -> m_start (repair m) = m_start m /\ m_complete (repair m) = m_complete m).
Proof. exact repair_table_thm. Qed.

(* a loaded transfer is, for C03, an ordinary transfer without tasks on a free lock: C03's theorems apply *)
Theorem C17_loaded_like_fresh : forall m cs,
  t_rqtask (to_c03 m) = TNone /\ t_trtask (to_c03 m) = TNone /\ m_holder (idle (to_c03 m)) = None /\
  Forall (fun x => edges_documented (snd x)) (snd (run_seq (to_c03 m) cs)).
Proof. exact loaded_like_fresh_thm. Qed.

(* ---------- non-vacuity ---------- *)
Definition ex_t (u p : list N) (d : direction) (s : st) (fs : option N) (b : N) : mt :=
  mkMt u p d s (Some 3%N) true (Some 2%N) None None fs b 1%N 0%N (Some 5%N) None false true.

Definition enc_ex (i : ident) : list N := match i with (u, p, d) => N.of_nat (length u) :: u ++ p ++ [dir_digit d] end.

(* three transfers (both directions of one name) over a database written with the OLD keys, plus the F21 pair *)
Example C17_roundtrip_nonvacuous :
  let ts := [ex_t [97] [98] Download DOWNLOADING (Some 10) 10; ex_t [97] [98] Upload UPLOADING (Some 10) 4;
             ex_t [120] [121] Download INITIALIZING None 0; f21_a; f21_b]%N in
  let old := map (fun t => (keystr (ident_of t), getstate t)) [ex_t [97] [98] Download QUEUED None 0; ex_t [1] [2] Upload PAUSED None 0]%N in
  NoDup (map ident_of ts) /\ hash_injective_on (list N) (fun x => x) enc_ex ts /\ NoDup (map fst old) /\
  map m_state (load (list N) (write (list N) bytes_eqb (fun x => x) enc_ex old ts)) = [QUEUED; QUEUED; QUEUED; INCOMPLETE; COMPLETE].
Proof.
  cbv zeta. split; [|split; [|split]].
  - repeat constructor; cbn; intuition discriminate.
  - intros a b _ _ E. exact E.
  - repeat constructor; cbn; intuition discriminate.
  - vm_compute. reflexivity.
Qed.

Example C17_repair_table_nonvacuous :
  repaired_state (ex_t [] [] Download DOWNLOADING (Some 10%N) 10%N) = COMPLETE /\
  repaired_state (ex_t [] [] Upload UPLOADING (Some 10%N) 4%N) = INCOMPLETE /\
  repaired_state (ex_t [] [] Download DOWNLOADING None 0%N) = INCOMPLETE /\
  repaired_state (ex_t [] [] Upload INITIALIZING None 0%N) = QUEUED /\
  repaired_state (ex_t [] [] Upload PAUSED None 0%N) = PAUSED.
Proof. repeat split; reflexivity. Qed.
