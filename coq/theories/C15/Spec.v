(* C15 abstract specification: per user, the SET OF REASONS to track (a bit set over
   TrackingFlag: REQUESTED, TRANSFER, FRIEND), changed by the calls at call time and emptied
   when the server connection closes; and what the server should be told for a change. *)
From Coq Require Import ZArith List Bool Arith.
Import ListNotations.

Inductive reply := RExists | RNotExists | RSilence.

Inductive event :=
  | Track (f : nat)          (* UserManager.track_user(user, flag) *)
  | Untrack (f : nat)        (* UserManager.untrack_user(user, flag) *)
  | WorkerStep               (* the worker of this user advances by one step (dequeue / awaited operation done) *)
  | ServerReply (r : reply)  (* the worker's wait for AddUser.Response ends: exists / not exists / nothing in time *)
  | SendFails                (* the send the worker is waiting for fails *)
  | TimerFires               (* the retry timer expires *)
  | DoneCb                   (* done-callback of the worker task runs *)
  | ServerClosed.            (* UserTrackingManager.stop() from the CLOSED state change of the server connection *)

Inductive skind := SAdd | SRem.        (* AddUser / RemoveUser *)

Definition spec_step (R : nat) (ev : event) : nat :=
  match ev with
  | Track f => Nat.lor R f
  | Untrack f => Nat.ldiff R f
  | ServerClosed => 0
  | _ => R
  end.

Definition spec_run (es : list event) : nat := fold_left spec_step es 0.

(* what a change of the set from [prev] to [new] asks for; [retry] = the change is a retry-timer expiry *)
Definition expected (c : nat * nat * bool) : list skind :=
  let '(prev, new, retry) := c in
  if Nat.eqb new 0 then (if Nat.eqb prev 0 then [] else [SRem])
  else if Nat.eqb prev 0 || retry then [SAdd] else [].
