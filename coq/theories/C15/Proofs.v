(* C15 proofs (repaired code).  Statements are restated in Props.v. *)
From Slsk Require Import Base.Tac.
From SlskGen Require Import RetryGen.
From Slsk Require Import C15.Spec C15.Model.
Open Scope nat_scope.

Lemma run_from_app : forall a b u, run_from u (a ++ b) = run_from (run_from u a) b.
Proof. induction a; intros; simpl; auto. Qed.
Lemma run_snoc : forall es ev, run (es ++ [ev]) = fst (step (run es) ev).
Proof. intros. unfold run. rewrite run_from_app. reflexivity. Qed.

Lemma flat_map_snoc : forall {A B} (f : A -> list B) l x, flat_map f (l ++ [x]) = flat_map f l ++ f x.
Proof. intros. rewrite flat_map_app. simpl. rewrite app_nil_r. reflexivity. Qed.

Lemma retry_delay_cases : forall a d, retry_delay a = Some d -> d = RETRY_TIMEOUT_NET_ERROR \/ d = RETRY_TIMEOUT_NON_EXISTING_USER.
Proof. intros a d H. destruct a; simpl in H; inv H; auto. Qed.

Ltac usplit u := destruct u as [p fl s q w a dq at_ cf]; cbn [present flags st queue wpc armed deq att conf] in *.

(* ------------------------------------------------------------------ the generated decisions, in closed form *)
(* [dequeue] and [exit_check] of Model.v branch on SlskGen.TrackGen.worker_decide; for the current source they are: *)
Definition exit_check_hand (u : user) : user := match queue u with [] => absent (deq u) (att u) | _ => set_pc u PIdle end.

Definition after_cancel (u : user) (prev : nat) : user :=
  if Nat.eqb prev 0 then exit_check_hand u
  else mkU (present u) (flags u) (st u) (queue u) PSendRemove (armed u) (deq u) (att u ++ [SRem]) (conf u).

Definition dequeue_hand (u : user) : user :=
  match queue u with
  | [] => u
  | r :: q =>
      let prev := flags u in
      let new := apply_req r prev in
      let retry := req_marked r in
      if Nat.eqb new 0 then
        after_cancel (mkU (present u) new (st u) q (wpc u) None (deq u ++ [(prev, new, retry)]) (att u) (conf u)) prev
      else if Nat.eqb prev 0 || retry then
        mkU (present u) new (st u) q PSendAdd (armed u) (deq u ++ [(prev, new, retry)]) (att u ++ [SAdd]) (conf u)
      else mkU (present u) new (st u) q (wpc u) (armed u) (deq u ++ [(prev, new, retry)]) (att u) (conf u)
  end.

Lemma exit_check_eq : forall u, exit_check u = exit_check_hand u.
Proof. intros u. unfold exit_check, exit_check_hand. destruct (queue u); reflexivity. Qed.

Lemma dequeue_eq : forall u, wpc u = PIdle -> dequeue u = dequeue_hand u.
Proof.
  intros u P. unfold dequeue, dequeue_hand. destruct (queue u) as [|r q]; [reflexivity|].
  unfold is_retry_req, worker_decide, after_cancel, exit_check_hand, set_pc. cbn [present flags st queue wpc armed deq att conf]. rewrite P.
  destruct (Nat.eqb (apply_req r (flags u)) 0); destruct (Nat.eqb (flags u) 0); destruct (req_marked r); destruct q; reflexivity.
Qed.

Lemma apply_req_0_r : forall r, req_flag r = 0 -> forall fl, apply_req r fl = fl.
Proof. intros [f|f|] E fl; cbn in E; subst; cbn; unfold apply_add, apply_rem; [apply Nat.lor_0_r|apply Nat.ldiff_0_r|apply Nat.lor_0_r]. Qed.

(* ------------------------------------------------------------------ sends mirror the processed changes *)
Definition inv_sends (u : user) : Prop := att u = flat_map expected (deq u).

Lemma step_sends : forall u ev, inv_sends u -> inv_sends (fst (step u ev)).
Proof.
  intros u ev I. unfold inv_sends in *. usplit u.
  destruct ev; cbn [step fst snd present flags st queue wpc armed deq att conf enqueue].
  - destruct p; cbn; exact I.
  - destruct p; cbn; exact I.
  - destruct w; cbn [fst]; try exact I.
    + rewrite dequeue_eq by reflexivity. unfold dequeue_hand. cbn [present flags st queue wpc armed deq att conf]. destruct q as [|r q]; [exact I|].
      destruct (Nat.eqb (apply_req r fl) 0) eqn:N.
      * unfold after_cancel, exit_check_hand, set_pc. cbn [present flags st queue wpc armed deq att conf].
        destruct (Nat.eqb fl 0) eqn:P0; [destruct q|]; cbn;
          rewrite flat_map_snoc, <- I; cbn; rewrite N, ?P0; rewrite ?app_nil_r; reflexivity.
      * destruct (Nat.eqb fl 0 || req_marked r) eqn:B; cbn;
          rewrite flat_map_snoc, <- I; cbn; rewrite N, B; rewrite ?app_nil_r; reflexivity.
    + unfold finish_remove. rewrite exit_check_eq. unfold exit_check_hand, set_pc. cbn. destruct q; cbn; exact I.
  - destruct w; cbn [fst]; try exact I.
    unfold attempt_end. destruct (retry_delay _); cbn; exact I.
  - destruct w; cbn [fst]; try exact I.
    all: try (unfold finish_remove; rewrite exit_check_eq; unfold exit_check_hand, set_pc; cbn; destruct q; cbn; exact I).
    all: try (unfold attempt_end; cbn; exact I).
  - destruct a; cbn; exact I.
  - exact I.
  - exact I.
Qed.

Lemma run_from_sends : forall es u, inv_sends u -> inv_sends (run_from u es).
Proof. induction es; intros; simpl; auto using step_sends. Qed.

Lemma sends_mirror : forall es, att (run es) = flat_map expected (deq (run es)).
Proof. intros. apply (run_from_sends es init). reflexivity. Qed.

(* ------------------------------------------------------------------ one-step facts *)
Ltac brk H := cbn in H; repeat match type of H with context [match ?x with _ => _ end] => destruct x eqn:?; cbn in H end.

Lemma tracked_only_on_exists : forall u ev, In (OState Tracked) (snd (step u ev)) ->
  ev = ServerReply RExists /\ wpc u = PWaitReply.
Proof.
  intros u ev H. usplit u. destruct ev; try destruct r; unfold step, finish_remove, attempt_end in H; brk H;
    intuition (try discriminate; try congruence).
Qed.

Lemma arm_only_after_failure : forall u ev d, In (OArm d) (snd (step u ev)) ->
  (ev = SendFails /\ wpc u = PSendAdd /\ d = RETRY_TIMEOUT_NET_ERROR) \/
  (ev = ServerReply RNotExists /\ wpc u = PWaitReply /\ d = RETRY_TIMEOUT_NON_EXISTING_USER) \/
  (ev = ServerReply RSilence /\ wpc u = PWaitReply /\ d = RETRY_TIMEOUT_NET_ERROR).
Proof.
  intros u ev d H. usplit u. destruct ev; try destruct r; unfold step, finish_remove, attempt_end in H; brk H;
    intuition (try discriminate; try congruence);
    match goal with X : OArm _ = OArm _ |- _ => inv X end; auto 10.
Qed.

Lemma absent_silent : forall u ev, wpc u = PGone -> snd (step u ev) = [].
Proof.
  intros u ev H. usplit u. subst. destruct ev; cbn; try (destruct p; reflexivity); try (destruct a; reflexivity); reflexivity.
Qed.

(* ------------------------------------------------------------------ the whole-trace invariant *)
(* reasons of the entry = abstract set; shape of an absent entry; flags at the send points; state at the idle point *)
Definition queue_reasons (q : list req) (fl : nat) : nat := fold_left (fun fl r => apply_req r fl) q fl.

Definition good (R : nat) (u : user) : Prop :=
  queue_reasons (queue u) (flags u) = R /\
  (present u = false -> flags u = 0 /\ st u = Untracked /\ queue u = [] /\ armed u = None /\ wpc u = PGone) /\
  (present u = true -> wpc u <> PGone) /\
  (wpc u = PSendRemove -> flags u = 0) /\
  (wpc u = PSendAdd \/ wpc u = PWaitReply -> flags u <> 0) /\
  (forall d, armed u = Some d -> flags u <> 0 /\ (d = RETRY_TIMEOUT_NET_ERROR \/ d = RETRY_TIMEOUT_NON_EXISTING_USER)) /\
  (wpc u = PIdle -> present u = true /\
     (flags u = 0 -> st u = Untracked /\ queue u <> [] /\ conf u = false) /\
     (flags u <> 0 -> (st u = Tracked /\ conf u = true) \/
                      (st u = RetryPending /\ conf u = false /\ (armed u <> None \/ In RRetry (queue u))))).

Lemma queue_reasons_snoc : forall q fl r, queue_reasons (q ++ [r]) fl = apply_req r (queue_reasons q fl).
Proof. intros. unfold queue_reasons. rewrite fold_left_app. reflexivity. Qed.

Ltac gsplit := unfold good; cbn [present flags st queue wpc armed deq att conf]; repeat apply conj.
Ltac triv := intros; try discriminate; try tauto; auto;
  try match goal with H : _ \/ _ |- _ => destruct H; discriminate end.

Lemma eqb0 : forall n, Nat.eqb n 0 = true -> n = 0.
Proof. intros n H. apply Nat.eqb_eq in H. exact H. Qed.
Lemma eqb0f : forall n, Nat.eqb n 0 = false -> n <> 0.
Proof. intros n H. apply Nat.eqb_neq in H. exact H. Qed.

Lemma good_absent : forall dq at_, good 0 (absent dq at_).
Proof. intros. unfold good, absent; cbn. repeat split; triv. Qed.

Lemma good_init : good 0 init.
Proof. apply good_absent. Qed.

Lemma idle_grow : forall (fl : nat) (s : tst) (cf : bool) (a : option Z) (q : list req) (r : req),
  ((fl = 0 -> s = Untracked /\ q <> [] /\ cf = false) /\
   (fl <> 0 -> (s = Tracked /\ cf = true) \/ (s = RetryPending /\ cf = false /\ (a <> None \/ In RRetry q)))) ->
  ((fl = 0 -> s = Untracked /\ q ++ [r] <> [] /\ cf = false) /\
   (fl <> 0 -> (s = Tracked /\ cf = true) \/ (s = RetryPending /\ cf = false /\ (a <> None \/ In RRetry (q ++ [r]))))).
Proof.
  intros fl s cf a q r (G2 & G3). split.
  - intros Z. destruct (G2 Z) as (A & B & C). repeat split; auto. destruct q; discriminate.
  - intros Z. destruct (G3 Z) as [A|(A & B & [C|C])]; auto. right. repeat split; auto. right. apply in_or_app. auto.
Qed.

Lemma good_calls : forall R u f, good R u ->
  good (Nat.lor R f) (fst (step u (Track f))) /\ good (Nat.ldiff R f) (fst (step u (Untrack f))).
Proof.
  intros R u f (GR & GA & GP & GS & GT & GM & GI). usplit u.
  cbn [step fst snd present flags st queue wpc armed deq att conf enqueue].
  destruct p; cbn [fst]; unfold enqueue; cbn [present flags st queue wpc armed deq att conf].
  - assert (X : forall r, w = PIdle ->
      true = true /\ (fl = 0 -> s = Untracked /\ q ++ [r] <> [] /\ cf = false) /\
      (fl <> 0 -> s = Tracked /\ cf = true \/ s = RetryPending /\ cf = false /\ (a <> None \/ In RRetry (q ++ [r])))).
    { intros r E. destruct (GI E) as (G1 & G23). split; [auto|]. apply idle_grow. exact G23. }
    split.
    + gsplit; try (apply X); try assumption; try (intros; discriminate). rewrite queue_reasons_snoc. rewrite GR. reflexivity.
    + gsplit; try (apply X); try assumption; try (intros; discriminate). rewrite queue_reasons_snoc. rewrite GR. reflexivity.
  - destruct (GA eq_refl) as (A & B & C & D & E). subst fl s q a w. cbn in GR. subst R. split.
    + gsplit; [unfold queue_reasons; cbn [fold_left apply_req]; reflexivity|triv|triv|triv|triv|triv|].
      intros _. split; [reflexivity|]. split; triv. intros; repeat split; auto; discriminate.
    + rewrite Nat.ldiff_0_l. gsplit; triv.
Qed.

(* the worker leaves the flags = 0 branch: it returns (entry dropped) or goes back to the queue *)
Lemma good_exit : forall R q dq at_ w,
  queue_reasons q 0 = R ->
  good R (exit_check (mkU true 0 Untracked q w None dq at_ false)).
Proof.
  intros R q dq at_ w GR. rewrite exit_check_eq. unfold exit_check_hand, set_pc. cbn. destruct q.
  - cbn in GR. subst R. apply good_absent.
  - gsplit; [exact GR|triv|triv|triv|triv|triv|].
    intros _. split; [reflexivity|]. split; [intros; repeat split; auto; discriminate|]. intros Z; contradiction.
Qed.

Lemma good_worker : forall R u, good R u -> good R (fst (step u WorkerStep)).
Proof.
  intros R u (GR & GA & GP & GS & GT & GM & GI). usplit u.
  cbn [step fst snd present flags st queue wpc armed deq att conf].
  destruct w; cbn [fst].
  - (* PIdle *)
    destruct (GI eq_refl) as (G1 & G2 & G3). subst p.
    rewrite dequeue_eq by reflexivity. unfold dequeue_hand. cbn [present flags st queue wpc armed deq att conf].
    destruct q as [|r q]; [gsplit; triv|]. cbn in GR.
    destruct (Nat.eqb (apply_req r fl) 0) eqn:N.
    + apply eqb0 in N. rewrite N in *. unfold after_cancel. cbn [present flags st queue wpc armed deq att conf].
      fold (exit_check_hand (mkU true 0 s q PIdle None (dq ++ [(fl, 0, req_marked r)]) at_ cf)). rewrite <- exit_check_eq.
      destruct (Nat.eqb fl 0) eqn:P0.
      * apply eqb0 in P0. destruct (G2 P0) as (A & B & C). subst s cf. apply good_exit. exact GR.
      * apply eqb0f in P0. gsplit; [exact GR|triv|triv|triv|triv|triv|triv].
    + apply eqb0f in N.
      destruct (Nat.eqb fl 0 || req_marked r) eqn:B.
      * gsplit; [exact GR|triv|triv|triv|triv| |triv].
        intros d E. destruct (GM d E) as (_ & D). auto.
      * apply orb_false_iff in B. destruct B as (B1 & B2). apply eqb0f in B1.
        gsplit; [exact GR|triv|triv|triv|triv| |].
        -- intros d E. destruct (GM d E) as (_ & D). auto.
        -- intros _. split; [reflexivity|]. split; [intros Z; contradiction|]. intros _.
           destruct (G3 B1) as [A|(A & C & [D|D])]; auto.
           right. repeat split; auto. right. destruct D as [D|D]; auto. subst r. cbn in B2. discriminate.
  - (* PSendRemove *)
    pose proof (GS eq_refl) as F0. subst fl. unfold finish_remove. cbn [fst].
    assert (P : p = true). { destruct p; auto. destruct (GA eq_refl) as (_ & _ & _ & _ & X). discriminate. }
    subst p. destruct a as [d|]; [destruct (GM d eq_refl) as (X & _); contradiction|].
    apply good_exit. exact GR.
  - (* PSendAdd *)
    unfold set_pc. cbn. gsplit; [exact GR|triv|triv|triv| |exact GM|triv].
    intros _. apply GT. auto.
  - gsplit; triv.
  - gsplit; triv.
Qed.

Lemma good_attempt_end : forall R u at0, good R u -> wpc u = PSendAdd \/ wpc u = PWaitReply ->
  good R (fst (attempt_end u at0)).
Proof.
  intros R u at0 (GR & GA & GP & GS & GT & GM & GI) W. usplit u.
  pose proof (GT W) as F.
  assert (P : p = true). { destruct p; auto. destruct (GA eq_refl) as (_ & _ & _ & _ & X). destruct W; congruence. }
  subst p. unfold attempt_end. destruct (retry_delay at0) eqn:RD; cbn [fst present flags st queue wpc armed deq att conf].
  - gsplit; [exact GR|triv|triv|triv|triv| |].
    + intros d E. inv E. split; auto. eapply retry_delay_cases; eauto.
    + intros _. split; [reflexivity|]. split; [intros Z; contradiction|]. intros _. right. repeat split; auto. left. discriminate.
  - gsplit; [exact GR|triv|triv|triv|triv|exact GM|].
    intros _. split; [reflexivity|]. split; [intros Z; contradiction|]. auto.
Qed.

Lemma good_other : forall R u ev, good R u ->
  match ev with Track _ | Untrack _ | WorkerStep => True | _ => good (spec_step R ev) (fst (step u ev)) end.
Proof.
  intros R u ev G. destruct ev; auto.
  - (* ServerReply *)
    cbn [spec_step step]. destruct (wpc u) eqn:W; cbn [fst]; auto. apply good_attempt_end; auto.
  - (* SendFails *)
    cbn [spec_step step]. destruct (wpc u) eqn:W; cbn [fst]; auto.
    + pose proof (good_worker R u G) as H. cbn [step] in H. rewrite W in H. unfold finish_remove in *. cbn in *. exact H.
    + apply good_attempt_end; auto.
  - (* TimerFires *)
    destruct G as (GR & GA & GP & GS & GT & GM & GI). usplit u. cbn [spec_step step].
    destruct a as [d|]; cbn [fst present flags st queue wpc armed deq att conf]; [|gsplit; triv].
    destruct (GM d eq_refl) as (F & _). cbn [fst].
    gsplit; [rewrite queue_reasons_snoc; rewrite GR; cbn; apply Nat.lor_0_r| |triv|triv|triv|triv|].
    + intros E. destruct (GA E) as (_ & _ & _ & X & _). discriminate.
    + intros E. destruct (GI E) as (G1 & G2 & G3). split; [auto|]. split; [intros Z; contradiction|].
      intros _. destruct (G3 F) as [A|(A & C & D)]; auto. right. repeat split; auto. right. apply in_or_app. right. left. reflexivity.
  - (* ServerClosed *) cbn. apply good_absent.
Qed.

Lemma step_good : forall R u ev, good R u -> good (spec_step R ev) (fst (step u ev)).
Proof.
  intros R u ev G. destruct ev.
  - exact (proj1 (good_calls R u f G)).
  - exact (proj2 (good_calls R u f G)).
  - exact (good_worker R u G).
  - exact (good_other R u (ServerReply r) G).
  - exact (good_other R u SendFails G).
  - exact (good_other R u TimerFires G).
  - exact (good_other R u DoneCb G).
  - exact (good_other R u ServerClosed G).
Qed.

Lemma run_from_good : forall es R u, good R u -> good (fold_left spec_step es R) (run_from u es).
Proof. induction es; intros; simpl; auto using step_good. Qed.

Lemma run_good : forall es, good (spec_run es) (run es).
Proof. intros. apply run_from_good, good_init. Qed.

(* ------------------------------------------------------------------ the property theorems *)
Lemma no_call_lost : forall es, reasons (run es) = spec_run es.
Proof. intros es. exact (proj1 (run_good es)). Qed.

Lemma closed_drops_all : forall es, let u := run (es ++ [ServerClosed]) in
  present u = false /\ flags u = 0 /\ st u = Untracked /\ queue u = [] /\ armed u = None /\ wpc u = PGone /\
  (forall ev, snd (step u ev) = []).
Proof.
  intros es. cbn zeta. rewrite run_snoc. cbn. repeat split. intros ev. apply absent_silent. reflexivity.
Qed.

Lemma retry_only_with_reason : forall es d, armed (run es) = Some d ->
  flags (run es) <> 0 /\ (d = RETRY_TIMEOUT_NET_ERROR \/ d = RETRY_TIMEOUT_NON_EXISTING_USER).
Proof. intros es d H. destruct (run_good es) as (_ & _ & _ & _ & _ & GM & _). exact (GM d H). Qed.

Lemma settled_state : forall es, let u := run es in
  (present u = false -> st u = Untracked /\ flags u = 0 /\ spec_run es = 0) /\
  (wpc u = PIdle -> queue u = [] ->
     flags u = spec_run es /\ spec_run es <> 0 /\
     (st u = Tracked <-> conf u = true) /\
     (armed u = None -> st u = Tracked)).
Proof.
  intros es. cbn zeta. pose proof (no_call_lost es) as NL. destruct (run_good es) as (GR & GA & _ & _ & _ & _ & GI).
  split.
  - intros P. destruct (GA P) as (A & B & C & _). repeat split; auto. rewrite <- NL. unfold reasons. rewrite C, A. reflexivity.
  - intros W Q. destruct (GI W) as (_ & G2 & G3).
    assert (F : flags (run es) = spec_run es). { rewrite <- NL. unfold reasons. rewrite Q. reflexivity. }
    assert (NZ : flags (run es) <> 0). { intros Z. destruct (G2 Z) as (_ & X & _). contradiction. }
    split; [exact F|]. split; [rewrite <- F; exact NZ|]. rewrite Q in G3. split.
    + destruct (G3 NZ) as [(A & B)|(A & B & _)]; split; intros X; auto; rewrite X in *; try discriminate.
    + intros AN. destruct (G3 NZ) as [(A & B)|(A & B & [C|C])]; auto; [contradiction|destruct C].
Qed.

(* calls are queued in order; the worker takes them in order *)
Lemma call_enqueued : forall u f,
  (present u = true -> queue (fst (step u (Track f))) = queue u ++ [RAdd f] /\ queue (fst (step u (Untrack f))) = queue u ++ [RRem f]) /\
  (present u = false -> let u' := fst (step u (Track f)) in
     present u' = true /\ queue u' = [RAdd f] /\ flags u' = 0 /\ wpc u' = PIdle /\ fst (step u (Untrack f)) = u).
Proof. intros u f. usplit u. split; intros E; subst; cbn; auto. Qed.
