(* C15 proofs.  Statements are restated in Props.v. *)
From Slsk Require Import Base.Tac.
From SlskGen Require Import RetryGen.
From Slsk Require Import C15.Spec C15.Model.
Open Scope nat_scope.

Lemma run_from_app : forall a b u, run_from u (a ++ b) = run_from (run_from u a) b.
Proof. induction a; intros; simpl; auto. Qed.
Lemma run_snoc : forall es ev, run (es ++ [ev]) = fst (step (run es) ev).
Proof. intros. unfold run. rewrite run_from_app. reflexivity. Qed.

Lemma flat_map_snoc : forall {A B} (f : A -> list B) l x, flat_map f (l ++ [x]) = flat_map f l ++ f x.
Proof. intros. rewrite flat_map_app. simpl. rewrite app_nil_r. reflexivity. Qed.

Lemma retry_delay_cases : forall a d, retry_delay a = Some d -> d = RETRY_TIMEOUT_NET_ERROR \/ d = RETRY_TIMEOUT_NON_EXISTING_USER.
Proof. intros a d H. destruct a; simpl in H; inv H; auto. Qed.

Lemma retry_delay_none : forall a, retry_delay a = None -> a = AExists.
Proof. destruct a; simpl; intros; try discriminate; auto. Qed.

(* ------------------------------------------------------------------ sends mirror the processed changes *)
Definition pending (p : pc) : list skind :=
  match p with PCancelRetry prev => if Nat.eqb prev 0 then [] else [SRem] | _ => [] end.

Definition inv_sends (u : user) : Prop :=
  (present u = false -> wpc u = PGone) /\ att u ++ pending (wpc u) = flat_map expected (deq u).

Ltac usplit u := destruct u as [p fl s q w a dq at_]; cbn [present flags st queue wpc armed deq att] in *.

Ltac gs := match goal with G : _ = false -> _ |- _ => first [exact G | (let E := fresh in intros E; specialize (G E); discriminate)] end.

Lemma step_sends : forall u ev, inv_sends u -> inv_sends (fst (step u ev)).
Proof.
  intros u ev (G & I). unfold inv_sends. usplit u.
  destruct ev; cbn [step fst snd present flags st queue wpc armed deq att enqueue].
  - (* Track *) destruct p; cbn; [split; [discriminate|exact I]|].
    rewrite (G eq_refl) in I. cbn in *. split; [discriminate|exact I].
  - (* Untrack *) destruct p; cbn; split; auto; discriminate.
  - (* WorkerStep *)
    destruct w; cbn [fst]; try (split; [gs|exact I]).
    + (* PIdle: dequeue *)
      unfold dequeue. cbn [present flags st queue wpc armed deq att]. destruct q as [|r q]; [split; [gs|exact I]|].
      cbn in I. rewrite app_nil_r in I.
      destruct (Nat.eqb (apply_req r fl) 0) eqn:N; cbn [armed].
      * destruct a; cbn [present flags st queue wpc armed deq att].
        -- split; [gs|]. cbn. rewrite flat_map_snoc, <- I. cbn. rewrite N. reflexivity.
        -- unfold after_cancel, exit_check, set_pc. cbn [present flags st queue wpc armed deq att].
           destruct (Nat.eqb fl 0) eqn:P0; [destruct q|]; cbn; (split; [gs|]);
             rewrite ?app_nil_r, flat_map_snoc, <- I; cbn; rewrite N, ?P0; rewrite ?app_nil_r; reflexivity.
      * destruct (Nat.eqb fl 0 || Nat.eqb (req_flag r) 0) eqn:B; cbn; (split; [gs|]);
          rewrite ?app_nil_r, flat_map_snoc, <- I; cbn; rewrite N, B; rewrite ?app_nil_r; reflexivity.
    + (* PCancelRetry *)
      unfold after_cancel, exit_check, set_pc. cbn [present flags st queue wpc armed deq att pending] in *.
      destruct (Nat.eqb prev 0) eqn:E0; [destruct q|]; cbn [present flags st queue wpc armed deq att pending fst]; (split; [gs|]);
        rewrite ?app_nil_r in *; exact I.
    + (* PSendRemove *)
      unfold finish_remove, exit_check, set_pc. cbn in *. destruct q; cbn; (split; [gs|exact I]).
  - (* ServerReply *)
    destruct w; cbn [fst]; try (split; [gs|exact I]).
    unfold attempt_end. destruct (retry_delay _); cbn; (split; [gs|exact I]).
  - (* SendFails *)
    destruct w; cbn [fst]; try (split; [gs|exact I]).
    all: try (unfold finish_remove, exit_check, set_pc; cbn in *; destruct q; cbn; (split; [gs|exact I])).
    all: try (unfold attempt_end; cbn; (split; [gs|exact I])).
  - (* TimerFires *) destruct a; cbn; (split; [gs|exact I]).
  - (* DoneCb *) destruct w; cbn; try (split; [gs|exact I]). split; [reflexivity|]. cbn in I. exact I.
  - (* ServerClosed *)
    destruct w; cbn; try (split; [gs|exact I]);
      (split; [gs|exact I]).
Qed.

Lemma run_from_sends : forall es u, inv_sends u -> inv_sends (run_from u es).
Proof. induction es; intros; simpl; auto using step_sends. Qed.

Lemma sends_mirror : forall es, att (run es) ++ pending (wpc (run es)) = flat_map expected (deq (run es)).
Proof. intros. apply (run_from_sends es init). split; reflexivity. Qed.

(* ------------------------------------------------------------------ one-step facts *)
Ltac brk H := cbn in H; repeat match type of H with context [match ?x with _ => _ end] => destruct x eqn:?; cbn in H end.

(* TRACKED is only ever reported when the server confirmed that the user exists *)
Lemma tracked_only_on_exists : forall u ev, In (OState Tracked) (snd (step u ev)) ->
  ev = ServerReply RExists /\ wpc u = PWaitReply.
Proof.
  intros u ev H. usplit u. destruct ev; try destruct r; unfold step, finish_remove, attempt_end in H; brk H;
    intuition (try discriminate; try congruence).
Qed.

(* a retry is only ever scheduled with one of the two documented delays, after a failed attempt *)
Lemma arm_only_after_failure : forall u ev d, In (OArm d) (snd (step u ev)) ->
  (ev = SendFails /\ wpc u = PSendAdd /\ d = RETRY_TIMEOUT_NET_ERROR) \/
  (ev = ServerReply RNotExists /\ wpc u = PWaitReply /\ d = RETRY_TIMEOUT_NON_EXISTING_USER) \/
  (ev = ServerReply RSilence /\ wpc u = PWaitReply /\ d = RETRY_TIMEOUT_NET_ERROR).
Proof.
  intros u ev d H. usplit u. destruct ev; try destruct r; unfold step, finish_remove, attempt_end in H; brk H;
    intuition (try discriminate; try congruence);
    match goal with X : OArm _ = OArm _ |- _ => inv X end; auto 10.
Qed.

(* ------------------------------------------------------------------ a retry timer is only armed while a reason remains *)
Definition inv_retry (u : user) : Prop :=
  (forall d, armed u = Some d -> Nat.eqb (flags u) 0 = false /\ (d = RETRY_TIMEOUT_NET_ERROR \/ d = RETRY_TIMEOUT_NON_EXISTING_USER)) /\
  (wpc u = PSendAdd \/ wpc u = PWaitReply -> Nat.eqb (flags u) 0 = false).

Ltac ir := match goal with
  | |- (forall d, _ = Some d -> _) /\ _ => split; [intros ? X; try discriminate X; auto | intros [X|X]; try discriminate X; auto]
  end.

Lemma step_retry : forall u ev, inv_retry u -> inv_retry (fst (step u ev)).
Proof.
  intros u ev (A & B). unfold inv_retry. usplit u.
  destruct ev; cbn [step fst snd present flags st queue wpc armed deq att enqueue].
  - destruct p; cbn; ir.
  - destruct p; cbn; ir.
  - destruct w; cbn [fst]; try (cbn; ir; fail).
    + unfold dequeue. cbn [present flags st queue wpc armed deq att]. destruct q as [|r q]; [cbn; ir|].
      destruct (Nat.eqb (apply_req r fl) 0) eqn:N; cbn [armed].
      * destruct a; cbn [present flags st queue wpc armed deq att]; [cbn; ir|].
        unfold after_cancel, exit_check, set_pc. cbn [present flags st queue wpc armed deq att].
        destruct (Nat.eqb fl 0); [destruct q|]; cbn; ir.
      * destruct (Nat.eqb fl 0 || Nat.eqb (req_flag r) 0); cbn; ir; destruct (A _ X); auto.
    + unfold after_cancel, exit_check, set_pc. cbn [present flags st queue wpc armed deq att].
      destruct (Nat.eqb prev 0); [destruct q|]; cbn; ir.
    + unfold finish_remove, exit_check, set_pc. cbn. destruct q; cbn; ir.
  - destruct w; cbn [fst]; try (cbn; ir; fail).
    unfold attempt_end. destruct (retry_delay _) eqn:R; cbn; ir.
    inv X. split; [apply B; auto|]. eapply retry_delay_cases; eauto.
  - destruct w; cbn [fst]; try (cbn; ir; fail).
    + unfold finish_remove, exit_check, set_pc. cbn. destruct q; cbn; ir.
    + unfold attempt_end. destruct (retry_delay ASendFail) eqn:R; cbn; ir.
      inv X. split; [apply B; auto|]. eapply retry_delay_cases; eauto.
  - destruct a; cbn; ir.
  - destruct w; cbn; ir.
  - destruct w; cbn; ir.
Qed.

Lemma run_from_retry : forall es u, inv_retry u -> inv_retry (run_from u es).
Proof. induction es; intros; simpl; auto using step_retry. Qed.

Lemma retry_only_with_reason : forall es d, armed (run es) = Some d ->
  flags (run es) <> 0 /\ (d = RETRY_TIMEOUT_NET_ERROR \/ d = RETRY_TIMEOUT_NON_EXISTING_USER).
Proof.
  intros es d H. assert (I : inv_retry (run es)). { apply run_from_retry. split; [discriminate|intros [X|X]; discriminate X]. }
  destruct I as (A & _). destruct (A d H) as (F & D). split; auto. intros Z. rewrite Z in F. discriminate.
Qed.

(* ------------------------------------------------------------------ the server connection closes *)
Lemma closed_drops_partial : forall es, (forall prev, wpc (run es) <> PCancelRetry prev) ->
  let u := run (es ++ [ServerClosed]) in
  armed u = None /\ (wpc u = PDying \/ wpc u = PDone \/ wpc u = PGone) /\
  snd (step u WorkerStep) = [] /\
  wpc (run (es ++ [ServerClosed; WorkerStep; DoneCb])) = PGone.
Proof.
  intros es H. cbn zeta.
  replace (es ++ [ServerClosed; WorkerStep; DoneCb]) with (((es ++ [ServerClosed]) ++ [WorkerStep]) ++ [DoneCb])
    by (rewrite <- !app_assoc; reflexivity).
  rewrite !run_snoc.
  destruct (run es) as [p fl s q w a dq at_]. cbn in *.
  destruct w; cbn; try (exfalso; eapply H; reflexivity); repeat split; auto.
Qed.

(* a worker that is being cancelled, has finished, or has no entry never sends anything *)
Lemma dead_worker_silent : forall u ev, wpc u = PDying \/ wpc u = PDone \/ wpc u = PGone ->
  snd (step u ev) = [].
Proof.
  intros u ev H. usplit u. destruct ev; cbn; try (destruct p; reflexivity); try (destruct a; reflexivity);
    destruct H as [H|[H|H]]; subst; reflexivity.
Qed.

(* ------------------------------------------------------------------ witnesses *)
(* F18: the worker has returned (flags = 0, queue empty), its done-callback has not run yet: the next track call is lost *)
Definition f18_history : list event :=
  [Track 1; WorkerStep; WorkerStep; ServerReply RExists; Untrack 1; WorkerStep; WorkerStep; Track 2; DoneCb; WorkerStep].

Lemma no_call_lost_refuted : spec_run f18_history = 2 /\ present (run f18_history) = false /\ flags (run f18_history) = 0 /\
  att (run f18_history) = [SAdd; SRem].
Proof. repeat split. Qed.

(* F18b: the server connection closes while the worker waits for the cancelled retry task: it survives and goes on *)
Definition f18b_history : list event :=
  [Track 1; WorkerStep; WorkerStep; ServerReply RNotExists; Untrack 1; Track 4; WorkerStep; ServerClosed;
   WorkerStep; SendFails; WorkerStep; SendFails].

Lemma closed_drops_refuted : spec_run f18b_history = 0 /\ present (run f18b_history) = true /\ flags (run f18b_history) = 4 /\
  armed (run f18b_history) = Some RETRY_TIMEOUT_NET_ERROR /\ att (run f18b_history) = [SAdd; SRem; SAdd].
Proof. repeat split. Qed.

(* ------------------------------------------------------------------ calls are queued in order; the worker takes them in order *)
Lemma call_enqueued : forall u f,
  (present u = true -> queue (fst (step u (Track f))) = queue u ++ [RAdd f] /\ queue (fst (step u (Untrack f))) = queue u ++ [RRem f]) /\
  (present u = false -> let u' := fst (step u (Track f)) in
     present u' = true /\ queue u' = [RAdd f] /\ flags u' = 0 /\ wpc u' = PIdle /\ fst (step u (Untrack f)) = u).
Proof. intros u f. usplit u. split; intros E; subst; cbn; auto. Qed.

Lemma dequeue_fifo : forall u r q0, wpc u = PIdle -> queue u = r :: q0 ->
  let u' := fst (step u WorkerStep) in queue u' = q0 /\ flags u' = apply_req r (flags u).
Proof.
  intros u r q0 P Q. usplit u. subst. cbn. unfold dequeue. cbn.
  destruct (Nat.eqb (apply_req r fl) 0); [destruct a; [cbn; auto|]|].
  - unfold after_cancel, exit_check, set_pc. cbn. destruct (Nat.eqb fl 0); [destruct q0|]; cbn; auto.
  - destruct (Nat.eqb fl 0 || Nat.eqb (req_flag r) 0); cbn; auto.
Qed.
