(* C15 property theorems (statements only; proofs are in Proofs.v) — REPAIRED code (F18, F18b fixed).
   Spec.v: the abstract set of reasons and what a change of it asks of the server.
   Model.v: one user's tracking entry (flags, state, queue, worker pc, retry timer, registry entry);
   retry delays from SlskGen.RetryGen (regenerated from user/manager.py).
   Theorems quantify over every event list (every interleaving of calls, worker steps, server
   behaviour, timer expiries, callback runs and server disconnects). *)
From Slsk Require Import Base.Tac.
From SlskGen Require Import RetryGen.
From Slsk Require Import C15.Spec C15.Model C15.Proofs.
Open Scope nat_scope.

(* --- sends mirror the changes of the (processed) set of reasons --------------------------------
   [deq] logs every change (previous set, new set, is-retry-expiry) the worker has taken from its queue,
   [att] every AddUser / RemoveUser it has started to send.  The attempts are exactly what [expected]
   asks for, change by change, in order: AddUser on empty -> non-empty and on a retry expiry with a
   non-empty set, RemoveUser on non-empty -> empty, nothing else. *)
Theorem C15_sends_mirror : forall es, att (run es) = flat_map expected (deq (run es)).
Proof. exact sends_mirror. Qed.

(* --- no call is ever lost ---------------------------------------------------------------------------
   At every moment the reasons the entry stands for (its flags with the queued requests applied, 0 when
   there is no entry) are exactly the abstract set of reasons: every track/untrack call is either
   already applied or still queued for a live worker. *)
Theorem C15_no_call_lost : forall es, reasons (run es) = spec_run es.
Proof. exact no_call_lost. Qed.

Theorem C15_call_enqueued : forall u f,
  (present u = true -> queue (fst (step u (Track f))) = queue u ++ [RAdd f] /\ queue (fst (step u (Untrack f))) = queue u ++ [RRem f]) /\
  (present u = false -> let u' := fst (step u (Track f)) in
     present u' = true /\ queue u' = [RAdd f] /\ flags u' = 0 /\ wpc u' = PIdle /\ fst (step u (Untrack f)) = u).
Proof. exact call_enqueued. Qed.

(* --- settled state ------------------------------------------------------------------------------------
   Without an entry the state is UNTRACKED and the set of reasons is empty.  With an idle worker and an
   empty queue the flags are the set of reasons, it is non-empty, the reported state is TRACKED exactly
   when the last attempt was confirmed by the server, and it is TRACKED whenever no retry is pending. *)
Theorem C15_settled_state : forall es, let u := run es in
  (present u = false -> st u = Untracked /\ flags u = 0 /\ spec_run es = 0) /\
  (wpc u = PIdle -> queue u = [] ->
     flags u = spec_run es /\ spec_run es <> 0 /\
     (st u = Tracked <-> conf u = true) /\
     (armed u = None -> st u = Tracked)).
Proof. exact settled_state. Qed.

(* TRACKED is reported only when the server confirmed that the user exists *)
Theorem C15_tracked_only_on_exists : forall u ev, In (OState Tracked) (snd (step u ev)) ->
  ev = ServerReply RExists /\ wpc u = PWaitReply.
Proof. exact tracked_only_on_exists. Qed.

(* --- retries ------------------------------------------------------------------------------------------- *)
Theorem C15_retry_delay_documented : forall u ev d, In (OArm d) (snd (step u ev)) ->
  (ev = SendFails /\ wpc u = PSendAdd /\ d = RETRY_TIMEOUT_NET_ERROR) \/
  (ev = ServerReply RNotExists /\ wpc u = PWaitReply /\ d = RETRY_TIMEOUT_NON_EXISTING_USER) \/
  (ev = ServerReply RSilence /\ wpc u = PWaitReply /\ d = RETRY_TIMEOUT_NET_ERROR).
Proof. exact arm_only_after_failure. Qed.

Theorem C15_retry_delays_pinned : RETRY_TIMEOUT_NET_ERROR = 10%Z /\ RETRY_TIMEOUT_NON_EXISTING_USER = 600%Z /\
  TRACKING_RESPONSE_TIMEOUT = 10%Z /\ SET_STATE_DEFAULT_RETRY = RETRY_TIMEOUT_NET_ERROR /\
  FLAG_REQUESTED = 1 /\ FLAG_TRANSFER = 2 /\ FLAG_FRIEND = 4.
Proof. repeat split. Qed.

Theorem C15_retry_only_with_reason : forall es d, armed (run es) = Some d ->
  flags (run es) <> 0 /\ (d = RETRY_TIMEOUT_NET_ERROR \/ d = RETRY_TIMEOUT_NON_EXISTING_USER).
Proof. exact retry_only_with_reason. Qed.

Theorem C15_retry_with_empty_set_sends_nothing : forall r, expected (0, 0, r) = [].
Proof. intros r. reflexivity. Qed.

(* --- the server connection closes: everything is dropped, whatever the worker was doing ------------------ *)
Theorem C15_closed_drops_all : forall es, let u := run (es ++ [ServerClosed]) in
  present u = false /\ flags u = 0 /\ st u = Untracked /\ queue u = [] /\ armed u = None /\ wpc u = PGone /\
  (forall ev, snd (step u ev) = []).
Proof. exact closed_drops_all. Qed.

(* --- a caller passing an empty flag set (F27 repaired): the call sends nothing and changes nothing ---------------------
   Only the request made by the retry timer is marked `retry`; a call with TrackingFlag(0) leaves the abstract set of
   reasons unchanged, and when the worker takes it from the queue the flags, the state, the retry timer and the attempts
   stay as they are (an entry that such a call created for an unknown user disappears again without any send). *)
Theorem C15_empty_flag_call_inert :
  (forall es, spec_run (es ++ [Track 0]) = spec_run es /\ spec_run (es ++ [Untrack 0]) = spec_run es) /\
  (forall n, expected (n, n, false) = []) /\
  (forall u r q1, wpc u = PIdle -> queue u = r :: q1 -> r = RAdd 0 \/ r = RRem 0 ->
     (flags u = 0 -> armed u = None) ->
     let u' := fst (step u WorkerStep) in
     att u' = att u /\ flags u' = flags u /\ armed u' = armed u /\ snd (step u WorkerStep) = [] /\
     (flags u <> 0 \/ q1 <> [] -> st u' = st u /\ conf u' = conf u /\ wpc u' = PIdle /\ queue u' = q1)).
Proof.
  split; [|split].
  - intros es. unfold spec_run. rewrite !fold_left_app. cbn. rewrite Nat.lor_0_r, Nat.ldiff_0_r. auto.
  - intros n. unfold expected. destruct (Nat.eqb n 0) eqn:E; cbn; rewrite ?E; reflexivity.
  - intros u r q1 P Q R A. usplit u. subst w q. cbn [step fst snd]. rewrite dequeue_eq by reflexivity. unfold dequeue_hand.
    cbn [present flags st queue wpc armed deq att conf].
    assert (F : apply_req r fl = fl) by (apply apply_req_0_r; destruct R; subst; reflexivity).
    assert (M : req_marked r = false) by (destruct R; subst; reflexivity).
    rewrite F, M, orb_false_r. destruct (Nat.eqb fl 0) eqn:Z.
    + apply eqb0 in Z. subst fl. rewrite (A eq_refl). unfold after_cancel, exit_check_hand, set_pc. cbn.
      destruct q1; cbn; repeat split; auto; try (match goal with H : _ <> _ \/ _ <> _ |- _ => destruct H; contradiction end).
    + cbn. repeat split; auto.
Qed.

(* --- the transfer manager as a source of reasons (TransferManager.manage_user_tracking, regenerated: cycle_calls) ---------
   One management cycle seen from one user = the track / untrack calls of [cycle_calls unf fin].  Whatever happened before
   (in particular a server disconnect, which drops everything), after a cycle TRANSFER is among the user's reasons while the
   user has an unfinished transfer, and it is not once every transfer of the user is finalized. *)
Definition cycle_events (unf fin : bool) : list event :=
  map (fun c : bool * nat => if fst c then Track (snd c) else Untrack (snd c)) (cycle_calls unf fin).

Theorem C15_transfer_reason_follows_cycle : FLAG_TRANSFER = 2 ^ 1 /\
  (forall es fin, Nat.testbit (reasons (run (es ++ cycle_events true fin))) 1 = true) /\
  (forall es, Nat.testbit (reasons (run (es ++ [ServerClosed] ++ cycle_events true false))) 1 = true) /\
  (forall es, Nat.testbit (reasons (run (es ++ cycle_events false true))) 1 = false).
Proof.
  split; [reflexivity|].
  split; [|split]; intros; rewrite no_call_lost; unfold spec_run, cycle_events, cycle_calls; rewrite !fold_left_app.
  - destruct fin; cbn [map app fold_left spec_step fst snd negb andb]; rewrite Nat.lor_spec; apply orb_true_r.
  - cbn [map app fold_left spec_step fst snd negb andb]. rewrite Nat.lor_spec. apply orb_true_r.
  - cbn [map app fold_left spec_step fst snd negb andb]. rewrite Nat.ldiff_spec. apply andb_false_r.
Qed.

(* --- the tie: decisions regenerated from _tracking_task (tr_tracking), hand-abstracted functions pinned ------------- *)
(* the worker's decision list, regenerated from the if / elif structure of _tracking_task, in closed form; the machine's
   [dequeue] and [exit_check] branch on [worker_decide] itself (Model.v), the proofs go through dequeue_eq / exit_check_eq *)
Theorem C15_worker_decision_structure : forall prev new retry qe,
  worker_decide prev new retry qe =
    if Nat.eqb new 0 then
      WCancelRetry :: (if negb (Nat.eqb prev 0) then [WRemoveUser; WSetUntracked] else []) ++ (if qe then [WExitDrop] else [])
    else if Nat.eqb prev 0 || retry then [WAttempt] else [].
Proof.
  intros. unfold worker_decide. destruct (Nat.eqb new 0), (Nat.eqb prev 0), retry, qe; reflexivity.
Qed.

Theorem C15_flag_arithmetic : (forall fl f, apply_add fl f = Nat.lor fl f) /\ (forall fl f, apply_rem fl f = Nat.ldiff fl f) /\
  (forall f marked, is_retry_req f marked = marked).
Proof. repeat split. Qed.

Theorem C15_abstracted_functions_pinned :
  FP_track_user = 610696826989361241%N /\ FP_untrack_user = 917325595769543449%N /\
  FP_get_tracked_user_object = 1131138843424282972%N /\ FP_on_tracking_task_done = 1054859441782013261%N /\
  FP_on_state_changed = 754131906919650059%N /\ FP_stop = 170056146222749276%N /\
  FP_request_untracking = 411430676722982849%N /\ FP_set_tracking_state = 959460761272375%N /\
  FP_cancel_task = 834680327868759807%N.
Proof. repeat split. Qed.

(* --- helpers the tracking code relies on (phase 8), pinned by fingerprint: EventBus.emit / register / _get_listeners_for_event,
   tasks.BackgroundTask, Network.send_server_messages, UserManager.track_user / untrack_user / get_user_object /
   get_tracking_flags / get_tracking_state, UserTrackingManager.__init__ / register_listeners / get_tracking_flags /
   get_tracking_state / _request_tracking, TrackedUser, the AddUser and RemoveUser message classes, TransferManager.
   get_unfinished_transfers / get_finished_transfers / request_management_cycle, Transfer.is_finalized (the TrackingState members
   and the set of finalized transfer states are checked by the translator) *)
Theorem C15_helpers_pinned :
  FPH_EventBus_emit = 959740788368092312%N /\
  FPH_EventBus_register = 666991538698341251%N /\
  FPH_EventBus_get_listeners_for_event = 990525461453454903%N /\
  FPH_BackgroundTask = 822735056907528036%N /\
  FPH_Network_send_server_messages = 1087691849633744863%N /\
  FPH_UserManager_track_user = 80710374995224882%N /\
  FPH_UserManager_untrack_user = 36914167514717004%N /\
  FPH_UserManager_get_user_object = 873124460846445343%N /\
  FPH_UserManager_get_tracking_flags = 511929712093830611%N /\
  FPH_UserManager_get_tracking_state = 681124710133458897%N /\
  FPH_UTM_init = 589266777353479722%N /\
  FPH_UTM_register_listeners = 239494271121900949%N /\
  FPH_UTM_get_tracking_flags = 314393232255700659%N /\
  FPH_UTM_get_tracking_state = 476185404223505452%N /\
  FPH_UTM_request_tracking = 193878626661645289%N /\
  FPH_TrackedUser = 922623955488893512%N /\
  FPH_AddUser = 884285632659344610%N /\
  FPH_RemoveUser = 1002275625847221610%N /\
  FPH_TM_get_unfinished_transfers = 288735165544893479%N /\
  FPH_TM_get_finished_transfers = 740743299884858081%N /\
  FPH_TM_request_management_cycle = 472085617073922667%N /\
  FPH_Transfer_is_finalized = 328263841815707308%N.
Proof. repeat split. Qed.

(* --- non-vacuity ------------------------------------------------------------------------------------------ *)
Example C15_nonvacuous :
  (let es := [Track 1; WorkerStep; WorkerStep; ServerReply RSilence] in
   armed (run es) = Some 10%Z /\ flags (run es) = 1 /\ wpc (run es) = PIdle /\ deq (run es) = [(0, 1, false)]) /\
  (let es := [Track 3; WorkerStep; WorkerStep; ServerReply RExists; Track 4; WorkerStep] in
   wpc (run es) = PIdle /\ queue (run es) = [] /\ st (run es) = Tracked /\ conf (run es) = true /\ spec_run es = 7) /\
  (let es := [Track 1; WorkerStep; WorkerStep; ServerReply RExists; Untrack 1; WorkerStep; WorkerStep; Track 2] in
   present (run es) = true /\ reasons (run es) = 2 /\ att (run es) = [SAdd; SRem]) /\
  In (OState Tracked) (snd (step (run [Track 1; WorkerStep; WorkerStep]) (ServerReply RExists))) /\
  In (OArm 600%Z) (snd (step (run [Track 1; WorkerStep; WorkerStep]) (ServerReply RNotExists))) /\
  present (run [Track 1; WorkerStep; ServerClosed]) = false.
Proof. repeat split; simpl; auto. Qed.
