(* C15 property theorems (statements only; proofs are in Proofs.v).
   Spec.v: the abstract set of reasons and what a change of it asks of the server.
   Model.v: one user's tracking entry (flags, state, queue, worker pc, retry timer, registry entry,
   pending done-callback); retry delays from SlskGen.RetryGen (regenerated from user/manager.py).
   Theorems quantify over every event list (every interleaving of calls, worker steps, server
   behaviour, timer expiries, callback runs and server disconnects). *)
From Slsk Require Import Base.Tac.
From SlskGen Require Import RetryGen.
From Slsk Require Import C15.Spec C15.Model C15.Proofs.
Open Scope nat_scope.

(* --- sends mirror the changes of the (processed) set of reasons --------------------------------
   [deq] logs every change (previous set, new set, is-retry-expiry) the worker has taken from its queue,
   [att] every AddUser / RemoveUser it has started to send.  The attempts are exactly what [expected]
   asks for, change by change, in order: AddUser on empty -> non-empty and on a retry expiry with a
   non-empty set, RemoveUser on non-empty -> empty, nothing else ([pending] = the RemoveUser that is
   due as soon as the cancelled retry task has finished). *)
Theorem C15_sends_mirror : forall es,
  att (run es) ++ pending (wpc (run es)) = flat_map expected (deq (run es)).
Proof. exact sends_mirror. Qed.

(* calls are queued in call order (or create a live entry) and the worker applies them in that order *)
Theorem C15_call_enqueued : forall u f,
  (present u = true -> queue (fst (step u (Track f))) = queue u ++ [RAdd f] /\ queue (fst (step u (Untrack f))) = queue u ++ [RRem f]) /\
  (present u = false -> let u' := fst (step u (Track f)) in
     present u' = true /\ queue u' = [RAdd f] /\ flags u' = 0 /\ wpc u' = PIdle /\ fst (step u (Untrack f)) = u).
Proof. exact call_enqueued. Qed.

Theorem C15_dequeue_fifo : forall u r q, wpc u = PIdle -> queue u = r :: q ->
  let u' := fst (step u WorkerStep) in queue u' = q /\ flags u' = apply_req r (flags u).
Proof. exact dequeue_fifo. Qed.

(* --- no call is lost: FALSE (finding F18) -------------------------------------------------------
   The worker returns when flags = 0 and the queue is empty; the registry entry is removed by a
   done-callback one iteration later; a track call in between is queued on the dead worker. *)
Theorem C15_no_call_lost_refuted : exists es, spec_run es <> 0 /\ present (run es) = false /\ flags (run es) = 0 /\
  att (run es) = [SAdd; SRem].
Proof. exists f18_history. destruct no_call_lost_refuted as (A & B & C & D). rewrite A. repeat split; auto. Qed.

(* --- settled state / retries ---------------------------------------------------------------------- *)
(* TRACKED is reported only when the server confirmed that the user exists *)
Theorem C15_tracked_only_on_exists : forall u ev, In (OState Tracked) (snd (step u ev)) ->
  ev = ServerReply RExists /\ wpc u = PWaitReply.
Proof. exact tracked_only_on_exists. Qed.

(* a retry is scheduled only after a failed attempt, with the documented delay for that failure
   (constants regenerated from user/manager.py) *)
Theorem C15_retry_delay_documented : forall u ev d, In (OArm d) (snd (step u ev)) ->
  (ev = SendFails /\ wpc u = PSendAdd /\ d = RETRY_TIMEOUT_NET_ERROR) \/
  (ev = ServerReply RNotExists /\ wpc u = PWaitReply /\ d = RETRY_TIMEOUT_NON_EXISTING_USER) \/
  (ev = ServerReply RSilence /\ wpc u = PWaitReply /\ d = RETRY_TIMEOUT_NET_ERROR).
Proof. exact arm_only_after_failure. Qed.

Theorem C15_retry_delays_pinned : RETRY_TIMEOUT_NET_ERROR = 10%Z /\ RETRY_TIMEOUT_NON_EXISTING_USER = 600%Z /\
  TRACKING_RESPONSE_TIMEOUT = 10%Z /\ SET_STATE_DEFAULT_RETRY = RETRY_TIMEOUT_NET_ERROR /\
  FLAG_REQUESTED = 1 /\ FLAG_TRANSFER = 2 /\ FLAG_FRIEND = 4.
Proof. repeat split. Qed.

(* a retry timer is armed only while a reason remains (so an expiry with an empty set can only come from
   a request that was already queued, and [expected] asks nothing for it) *)
Theorem C15_retry_only_with_reason : forall es d, armed (run es) = Some d ->
  flags (run es) <> 0 /\ (d = RETRY_TIMEOUT_NET_ERROR \/ d = RETRY_TIMEOUT_NON_EXISTING_USER).
Proof. exact retry_only_with_reason. Qed.

Theorem C15_retry_with_empty_set_sends_nothing : forall r, expected (0, 0, r) = [].
Proof. intros r. reflexivity. Qed.

(* --- the server connection closes ---------------------------------------------------------------- *)
(* Unless the worker is inside cancel_task at that moment: the retry timer is cancelled, the worker is
   cancelled, sends nothing more, and the entry is gone after its last step and its done-callback. *)
Theorem C15_closed_drops_all_partial : forall es, (forall prev, wpc (run es) <> PCancelRetry prev) ->
  let u := run (es ++ [ServerClosed]) in
  armed u = None /\ (wpc u = PDying \/ wpc u = PDone \/ wpc u = PGone) /\
  snd (step u WorkerStep) = [] /\
  wpc (run (es ++ [ServerClosed; WorkerStep; DoneCb])) = PGone.
Proof. exact closed_drops_partial. Qed.

Theorem C15_dead_worker_silent : forall u ev, wpc u = PDying \/ wpc u = PDone \/ wpc u = PGone -> snd (step u ev) = [].
Proof. exact dead_worker_silent. Qed.

(* FALSE in general (finding F18b): cancel_task swallows the CancelledError, the worker survives the close,
   keeps its queue and goes on sending and retrying although every reason was dropped. *)
Theorem C15_closed_drops_all_refuted : exists es, In ServerClosed es /\ spec_run es = 0 /\ present (run es) = true /\
  flags (run es) = 4 /\ armed (run es) = Some RETRY_TIMEOUT_NET_ERROR /\ att (run es) = [SAdd; SRem; SAdd].
Proof. exists f18b_history. destruct closed_drops_refuted as (A & B & C & D & E). repeat split; auto. simpl. tauto. Qed.

(* --- non-vacuity ------------------------------------------------------------------------------------ *)
Example C15_nonvacuous :
  (let es := [Track 1; WorkerStep; WorkerStep; ServerReply RSilence] in
   armed (run es) = Some 10%Z /\ flags (run es) = 1 /\ wpc (run es) = PIdle /\ deq (run es) = [(0, 1, false)] /\
   forall prev, wpc (run es) <> PCancelRetry prev) /\
  (let es := [Track 3; WorkerStep; WorkerStep; ServerReply RExists; Track 4; WorkerStep; Untrack 7; WorkerStep] in
   att (run es) = [SAdd; SRem] /\ st (run es) = Tracked /\ wpc (run es) = PSendRemove) /\
  In (OState Tracked) (snd (step (run [Track 1; WorkerStep; WorkerStep]) (ServerReply RExists))) /\
  In (OArm 600%Z) (snd (step (run [Track 1; WorkerStep; WorkerStep]) (ServerReply RNotExists))) /\
  wpc (run [Track 1; WorkerStep; WorkerStep; ServerReply RNotExists; Untrack 1; WorkerStep]) = PCancelRetry 1.
Proof. repeat split; try discriminate; simpl; auto. Qed.
