(* C15 model (REPAIRED code: F18, F18b fixed): one user's entry of UserTrackingManager (user/manager.py): flags,
   state, request queue, the worker coroutine _tracking_task cut at its awaits, the retry task, the registry entry.
   Repairs reflected here: the worker removes its own registry entry synchronously when it returns, stop() drops the
   entries of the workers it cancels, the done-callback only removes an entry that is still its own (so it never
   removes anything in the behaviours modelled here), and the retry task is cancelled without being awaited.
   Definitions only; executable.  Retry delays come from SlskGen.RetryGen (regenerated from user/manager.py). *)
From Coq Require Import ZArith List Bool Arith.
From SlskGen Require Import RetryGen.
From SlskGen Require Export TrackGen.
From Slsk Require Import C15.Spec.
Import ListNotations.
Open Scope nat_scope.

(* TrackingRequest(add_flag | remove_flag, flag) made by track_user / untrack_user (retry = False), and the request of
   _request_retry: TrackingRequest(add_flag, TrackingFlag(0), retry=True) *)
Inductive req := RAdd (f : nat) | RRem (f : nat) | RRetry.
Inductive tst := Untracked | Tracked | RetryPending.
Inductive pc :=
  | PIdle                     (* at `await queue.get()` *)
  | PSendRemove               (* awaiting send_server_messages(RemoveUser) *)
  | PSendAdd                  (* awaiting send_server_messages(AddUser) *)
  | PWaitReply                (* awaiting wait_for_server_message(AddUser.Response) *)
  | PGone.                    (* no registry entry (the worker returned or was cancelled by stop()) *)

Record user := mkU {
  present : bool; flags : nat; st : tst; queue : list req; wpc : pc; armed : option Z;
  (* ghost *) deq : list (nat * nat * bool); att : list skind;
  conf : bool     (* ghost: the last finished AddUser attempt for the current non-empty set was answered "exists" *)
}.

Inductive out := OFrame (k : skind) | OState (s : tst) | OArm (d : Z).

Definition absent (dq : list (nat * nat * bool)) (at_ : list skind) : user := mkU false 0 Untracked [] PGone None dq at_ false.
Definition init : user := absent [] [].

(* request.operation(request.flag): add_flag / remove_flag, GENERATED (SlskGen.TrackGen) *)
Definition apply_req (r : req) (fl : nat) : nat := match r with RAdd f => apply_add fl f | RRem f => apply_rem fl f | RRetry => apply_add fl 0 end.
Definition req_flag (r : req) : nat := match r with RAdd f => f | RRem f => f | RRetry => 0 end.
Definition req_marked (r : req) : bool := match r with RRetry => true | _ => false end.      (* request.retry *)

Definition set_pc (u : user) (p : pc) : user := mkU (present u) (flags u) (st u) (queue u) p (armed u) (deq u) (att u) (conf u).

(* The decisions of _tracking_task are GENERATED: [worker_decide prev new is_retry queue_empty] (SlskGen.TrackGen) lists, in
   source order, what the worker does with a dequeued request. *)
Definition wact_eqb (a b : wact) : bool :=
  match a, b with
  | WCancelRetry, WCancelRetry | WCancelRetryAwait, WCancelRetryAwait | WRemoveUser, WRemoveUser | WSetUntracked, WSetUntracked
  | WExitDrop, WExitDrop | WExit, WExit | WAttempt, WAttempt => true
  | _, _ => false
  end.
Definition has (a : wact) (l : list wact) : bool := existsb (wact_eqb a) l.
Definition qempty (q : list req) : bool := match q with [] => true | _ => false end.

(* the exit test at the end of the flags = 0 branch (`if tracked_user.queue.empty(): ... del entry; return`) *)
Definition exit_check (u : user) : user :=
  if has WExitDrop (worker_decide 1 0 false (qempty (queue u))) then absent (deq u) (att u) else set_pc u PIdle.

(* _request_untracking returned (sent or failed): _set_tracking_state(UNTRACKED), then the exit check *)
Definition finish_remove (u : user) : user * list out :=
  (exit_check (mkU (present u) (flags u) Untracked (queue u) (wpc u) (armed u) (deq u) (att u) false), [OState Untracked]).

(* _request_tracking returned [a]: _set_tracking_state(TRACKED | RETRY_PENDING) *)
Definition attempt_end (u : user) (a : attempt) : user * list out :=
  match retry_delay a with
  | None => (mkU (present u) (flags u) Tracked (queue u) PIdle (armed u) (deq u) (att u) true, [OState Tracked])
  | Some d => (mkU (present u) (flags u) RetryPending (queue u) PIdle (Some d) (deq u) (att u) false, [OArm d; OState RetryPending])
  end.

Definition dequeue (u : user) : user :=
  match queue u with
  | [] => u
  | r :: q =>
      let prev := flags u in
      let new := apply_req r prev in
      let retry := is_retry_req (req_flag r) (req_marked r) in
      let acts := worker_decide prev new retry (qempty q) in
      let arm := if has WCancelRetry acts then None else armed u in      (* retry task cancelled, not awaited *)
      let dq := deq u ++ [(prev, new, retry)] in
      if has WRemoveUser acts then mkU (present u) new (st u) q PSendRemove arm dq (att u ++ [SRem]) (conf u)
      else if has WAttempt acts then mkU (present u) new (st u) q PSendAdd arm dq (att u ++ [SAdd]) (conf u)
      else if has WExitDrop acts then absent dq (att u)
      else mkU (present u) new (st u) q PIdle arm dq (att u) (conf u)         (* back to `await queue.get()` *)
  end.

Definition enqueue (u : user) (r : req) : user :=
  mkU (present u) (flags u) (st u) (queue u ++ [r]) (wpc u) (armed u) (deq u) (att u) (conf u).

Definition step (u : user) (ev : event) : user * list out :=
  match ev with
  | Track f =>
      if present u then (enqueue u (RAdd f), [])
      else (mkU true 0 Untracked [RAdd f] PIdle None (deq u) (att u) false, [])
  | Untrack f => if present u then (enqueue u (RRem f), []) else (u, [])
  | WorkerStep =>
      match wpc u with
      | PIdle => (dequeue u, [])
      | PSendRemove => let '(u', o) := finish_remove u in (u', OFrame SRem :: o)
      | PSendAdd => (set_pc u PWaitReply, [OFrame SAdd])
      | _ => (u, [])
      end
  | SendFails =>
      match wpc u with
      | PSendRemove => finish_remove u
      | PSendAdd => attempt_end u ASendFail
      | _ => (u, [])
      end
  | ServerReply r =>
      match wpc u with
      | PWaitReply => attempt_end u (match r with RExists => AExists | RNotExists => ANotExists | RSilence => ANoAnswer end)
      | _ => (u, [])
      end
  | TimerFires =>
      match armed u with
      | Some _ => (mkU (present u) (flags u) (st u) (queue u ++ [RRetry]) (wpc u) None (deq u) (att u) (conf u), [])
      | None => (u, [])
      end
  | DoneCb => (u, [])          (* the done-callback finds that the entry is no longer its own *)
  | ServerClosed => (absent (deq u) (att u), [])      (* stop(): cancel worker and retry task, drop the entry *)
  end.

Fixpoint run_from (u : user) (es : list event) : user :=
  match es with [] => u | ev :: r => run_from (fst (step u ev)) r end.
Definition run (es : list event) : user := run_from init es.

Fixpoint outs_from (u : user) (es : list event) : list out :=
  match es with [] => [] | ev :: r => snd (step u ev) ++ outs_from (fst (step u ev)) r end.

(* the reasons the entry stands for: its flags with the queued requests applied *)
Definition reasons (u : user) : nat := fold_left (fun fl r => apply_req r fl) (queue u) (flags u).

(* ---------- observations compared with the implementation ---------- *)
Definition st_code (s : tst) : nat := match s with Untracked => 0 | Tracked => 1 | RetryPending => 2 end.
Definition alive (u : user) : bool := match wpc u with PGone => false | _ => true end.
Definition snap (u : user) : bool * nat * nat * nat * bool * bool :=
  (present u, flags u, st_code (st u), length (queue u), alive u, match armed u with Some _ => true | None => false end).
Fixpoint snaps_from (u : user) (es : list event) : list (bool * nat * nat * nat * bool * bool) :=
  match es with [] => [] | ev :: r => let u' := fst (step u ev) in snap u' :: snaps_from u' r end.
Definition out_code (o : out) : nat * Z :=
  match o with OFrame SAdd => (0%nat, 0%Z) | OFrame SRem => (1%nat, 0%Z) | OState s => (2%nat, Z.of_nat (st_code s)) | OArm d => (3%nat, d) end.
Definition observe (es : list event) := (snaps_from init es, map out_code (outs_from init es)).
