From Slsk Require Import Base.Tac.
From SlskGen Require Import CharTable SharesGen.
From Slsk Require Import C07.Model.

(* ------------------------------------------------------------------ the regenerated decisions (SlskGen.SharesGen)
   These equations are proved by computation on the text regenerated from the source: they (and everything below that
   uses them) stop compiling when the source selects another parent, combines the term-map sets differently, compares
   the cap or the excluded phrases differently. *)
Lemma choose_parent_eq : forall p ds, choose_parent p ds = best_parent p ds None.
Proof. reflexivity. Qed.
Lemma satisfies_eq : forall x alts, satisfies x alts = existsb (filed_under x) alts.
Proof. reflexivity. Qed.
Lemma passes_eq : forall x cl, passes x cl = forallb (satisfies x) cl.
Proof. reflexivity. Qed.
Lemma query_items_eq : forall s q ph n, query_items s q ph n = firstn n (query_all s q ph).
Proof. reflexivity. Qed.
Lemma phrase_free_eq : forall phs x, phrase_free phs x = forallb (fun ph => negb (substring (lower_s ph) (lower_s (qpath x)))) phs.
Proof. reflexivity. Qed.
Lemma dir_locked_eq : forall friends d user, dir_locked friends d user =
  match dmode d with Everyone => false | Friends => negb (mem_str user friends) | Users => negb (mem_str user (dusers d)) end.
Proof. intros. unfold dir_locked. destruct (dmode d); reflexivity. Qed.

(* ------------------------------------------------------------------ character table *)

Lemma table_ok_true : table_ok = true.
Proof. vm_compute. reflexivity. Qed.

Lemma bst_find_in : forall t c e, bst_find t c = Some e -> In e (bst_list t) /\ fst e = c.
Proof.
  induction t as [|l IHl k v r IHr]; intros c e H; cbn in H; [discriminate|].
  destruct (N.compare c k) eqn:E.
  - inv H. apply N.compare_eq_iff in E. subst. split; [|reflexivity]. cbn. apply in_or_app. right. left. reflexivity.
  - destruct (IHl c e H) as [H1 H2]. split; [|assumption]. cbn. apply in_or_app. left. assumption.
  - destruct (IHr c e H) as [H1 H2]. split; [|assumption]. cbn. apply in_or_app. right. right. assumption.
Qed.

Lemma lookup_in : forall c e, lookup c = Some e -> In e table /\ fst e = c.
Proof. unfold lookup, table. intros c e H. apply bst_find_in. exact H. Qed.

Lemma entry_ok_all : forall c e, lookup c = Some e -> entry_ok e = true.
Proof.
  intros c e H. apply lookup_in in H. destruct H as [H _].
  pose proof table_ok_true as T. unfold table_ok in T. rewrite forallb_forall in T. apply T. exact H.
Qed.

Lemma lower_idem : forall c, lower (lower c) = lower c.
Proof.
  intros c. destruct (lookup c) as [e|] eqn:E.
  - pose proof (entry_ok_all c e E) as H. destruct (lookup_in c e E) as [_ F].
    unfold entry_ok in H. rewrite F in H. apply andb_prop in H. destruct H as [H _].
    apply andb_prop in H. destruct H as [H _]. apply N.eqb_eq in H. exact H.
  - assert (L : lower c = c) by (unfold lower; rewrite E; reflexivity). rewrite L. exact L.
Qed.

Lemma is_word_lower : forall c, is_word (lower c) = is_word c.
Proof.
  intros c. destruct (lookup c) as [e|] eqn:E.
  - pose proof (entry_ok_all c e E) as H. destruct (lookup_in c e E) as [_ F].
    unfold entry_ok in H. rewrite F in H. apply andb_prop in H. destruct H as [H _].
    apply andb_prop in H. destruct H as [_ H]. apply eqb_prop in H. exact H.
  - assert (L : lower c = c) by (unfold lower; rewrite E; reflexivity). rewrite L. reflexivity.
Qed.

Lemma lower_s_idem : forall s, lower_s (lower_s s) = lower_s s.
Proof. induction s; cbn; [reflexivity|]. rewrite lower_idem. f_equal. exact IHs. Qed.

(* ------------------------------------------------------------------ boolean equalities *)

Lemma eqb_list_true : forall A (e : A -> A -> bool), (forall x y, e x y = true <-> x = y) ->
  forall a b, eqb_list e a b = true <-> a = b.
Proof.
  intros A e He. induction a as [|x a IH]; destruct b as [|y b]; cbn; split; intros H; try reflexivity; try discriminate.
  - apply andb_prop in H. destruct H as [H1 H2]. apply He in H1. apply IH in H2. subst. reflexivity.
  - inv H. apply andb_true_intro. split; [apply He; reflexivity | apply IH; reflexivity].
Qed.
Lemma eqb_str_true : forall a b, eqb_str a b = true <-> a = b.
Proof. apply eqb_list_true. intros; apply N.eqb_eq. Qed.
Lemma eqb_path_true : forall a b, eqb_path a b = true <-> a = b.
Proof. apply eqb_list_true. apply eqb_str_true. Qed.
Lemma eqb_str_refl : forall a, eqb_str a a = true.
Proof. intros; apply eqb_str_true; reflexivity. Qed.
Lemma eqb_path_refl : forall a, eqb_path a a = true.
Proof. intros; apply eqb_path_true; reflexivity. Qed.

Lemma mem_str_In : forall w l, mem_str w l = true <-> In w l.
Proof.
  intros w l. unfold mem_str. rewrite existsb_exists. split.
  - intros [x [H1 H2]]. apply eqb_str_true in H2. subst. exact H1.
  - intros H. exists w. split; [exact H | apply eqb_str_refl].
Qed.

(* ------------------------------------------------------------------ words *)

Lemma split_nw_nonnil : forall s, split_nw s <> [].
Proof.
  induction s as [|c s IH]; cbn; [discriminate|].
  destruct (is_word c); [destruct (split_nw s); discriminate | discriminate].
Qed.

(* a non-word character cuts the string for re.split *)
Lemma split_nw_cut : forall a d b, is_word d = false -> split_nw (a ++ d :: b) = split_nw a ++ split_nw b.
Proof.
  induction a as [|c a IH]; intros d b Hd; cbn.
  - rewrite Hd. reflexivity.
  - rewrite (IH d b Hd). destruct (is_word c); [|reflexivity].
    destruct (split_nw a) as [|w ws] eqn:E; [exfalso; exact (split_nw_nonnil a E)|]. reflexivity.
Qed.

Lemma words_nil : words [] = [].
Proof. reflexivity. Qed.

Lemma words_cut : forall a d b, is_word d = false -> words (a ++ d :: b) = words a ++ words b.
Proof. intros. unfold words. rewrite split_nw_cut by assumption. apply filter_app. Qed.

Lemma words_cons_nw : forall d b, is_word d = false -> words (d :: b) = words b.
Proof. intros d b H. exact (words_cut [] d b H). Qed.

Lemma words_snoc_nw : forall a d, is_word d = false -> words (a ++ [d]) = words a.
Proof. intros a d H. rewrite (words_cut a d [] H). rewrite words_nil. apply app_nil_r. Qed.

(* left / right delimiters as the regular expressions see them *)
Definition bnd_before (pre : str) : Prop := pre = [] \/ exists pre' d, pre = pre' ++ [d] /\ is_word d = false.

Lemma words_app_bnd_after : forall a b, bnd_after b = true -> words (a ++ b) = words a ++ words b.
Proof.
  intros a b H. destruct b as [|d b]; cbn in H.
  - rewrite app_nil_r, words_nil, app_nil_r. reflexivity.
  - apply negb_true_iff in H. rewrite words_cut by assumption. rewrite (words_cons_nw d b H). reflexivity.
Qed.

Lemma words_app_bnd_before : forall a b, bnd_before a -> words (a ++ b) = words a ++ words b.
Proof.
  intros a b [H | [pre [d [H Hd]]]]; subst; [reflexivity|].
  rewrite <- app_assoc. cbn. rewrite words_cut by assumption. rewrite words_snoc_nw by assumption. reflexivity.
Qed.

(* ------------------------------------------------------------------ matcher *)

Lemma prefix_ci_lower : forall t p r, lower_s t = t -> prefix_ci t p = Some r -> lower_s p = t ++ lower_s r.
Proof.
  induction t as [|a t IH]; intros p r Ht H; cbn in *.
  - inv H. reflexivity.
  - destruct p as [|b p]; [discriminate|]. inv Ht. destruct (ci_eq a b) eqn:E; [|discriminate].
    unfold ci_eq in E. apply N.eqb_eq in E. cbn. rewrite <- E. rewrite H1. rewrite H1 in *.
    rewrite H2. f_equal. apply IH; assumption.
Qed.

Lemma bnd_after_lower : forall r, bnd_after (lower_s r) = bnd_after r.
Proof. destruct r; cbn; [reflexivity|]. rewrite is_word_lower. reflexivity. Qed.

Lemma bnd_before_lower : forall pre, bnd_before pre -> bnd_before (lower_s pre).
Proof.
  intros pre [H | [pre' [d [H Hd]]]]; subst; [left; reflexivity|].
  right. exists (lower_s pre'), (lower d). split.
  - unfold lower_s. rewrite map_app. reflexivity.
  - rewrite is_word_lower. exact Hd.
Qed.

(* what a successful search of the plain pattern means *)
Lemma occ_plain_inv : forall t p at_b run, occ false t at_b run p = true ->
  exists pre post r, p = pre ++ post /\ prefix_ci t post = Some r /\ bnd_after r = true /\
    ((pre = [] /\ at_b = true) \/ exists pre' d, pre = pre' ++ [d] /\ is_word d = false).
Proof.
  intros t. induction p as [|c p IH]; intros at_b run H; cbn in H.
  - rewrite orb_false_r in H. apply andb_prop in H. destruct H as [Ha Hh]. unfold hit in Hh.
    destruct (prefix_ci t []) as [r|] eqn:E; [|discriminate].
    exists [], [], r. repeat split; try assumption. left. split; [reflexivity|assumption].
  - apply orb_prop in H. destruct H as [H | H].
    + apply andb_prop in H. destruct H as [Ha Hh]. unfold hit in Hh.
      destruct (prefix_ci t (c :: p)) as [r|] eqn:E; [|discriminate].
      exists [], (c :: p), r. repeat split; try assumption. left. split; [reflexivity|assumption].
    + apply IH in H. destruct H as [pre [post [r [Hp [Hpre [Hb Hl]]]]]].
      exists (c :: pre), post, r. split; [cbn; rewrite Hp; reflexivity|]. split; [assumption|]. split; [assumption|].
      right. destruct Hl as [[Hn Hat] | [pre' [d [Hn Hd]]]].
      * subst pre. exists [], c. split; [reflexivity|]. apply negb_true_iff in Hat. exact Hat.
      * subst pre. exists (c :: pre'), d. split; [reflexivity|assumption].
Qed.

(* Appendix D of DESIGN.md: a term accepted by the plain pattern contributes whole words of the lower-cased path *)
Lemma plain_words : forall t p, lower_s t = t -> term_occurs false t p = true -> incl (words t) (words (lower_s p)).
Proof.
  intros t p Ht H. unfold term_occurs in H. apply occ_plain_inv in H.
  destruct H as [pre [post [r [Hp [Hpre [Hb Hl]]]]]].
  assert (Bb : bnd_before pre).
  { destruct Hl as [[Hn _] | Hx]; [left; assumption | right; assumption]. }
  pose proof (prefix_ci_lower t post r Ht Hpre) as E.
  subst p. unfold lower_s at 1. rewrite map_app. fold (lower_s pre). fold (lower_s post). rewrite E.
  rewrite words_app_bnd_before by (apply bnd_before_lower; assumption).
  rewrite words_app_bnd_after by (rewrite bnd_after_lower; assumption).
  intros w Hw. apply in_or_app. right. apply in_or_app. left. exact Hw.
Qed.

(* the wildcard pattern never constrains the left side: "(?:(?<=\W|_)|^)[^\W_]*" can always reach back to a word start *)
Lemma occ_wild_run : forall t p at_b, occ true t at_b true p = (fix any (p : str) : bool := hit t p || match p with [] => false | _ :: p' => any p' end) p.
Proof.
  intros t. induction p as [|c p IH]; intros at_b; cbn; [reflexivity|].
  assert (R : (negb (is_word c) || is_word c) = true) by (destruct (is_word c); reflexivity).
  rewrite R. rewrite IH. reflexivity.
Qed.


(* ------------------------------------------------------------------ wildcard terms (Appendix D, second half) *)

Lemma occ_wild_inv : forall t p at_b run, occ true t at_b run p = true ->
  exists pre post r, p = pre ++ post /\ prefix_ci t post = Some r /\ bnd_after r = true.
Proof.
  intros t. induction p as [|c p IH]; intros at_b run H; cbn in H.
  - rewrite orb_false_r in H. apply andb_prop in H. destruct H as [_ Hh]. unfold hit in Hh.
    destruct (prefix_ci t []) as [r|] eqn:E; [|discriminate]. exists [], [], r. auto.
  - apply orb_prop in H. destruct H as [H | H].
    + apply andb_prop in H. destruct H as [_ Hh]. unfold hit in Hh.
      destruct (prefix_ci t (c :: p)) as [r|] eqn:E; [|discriminate]. exists [], (c :: p), r. auto.
    + apply IH in H. destruct H as [pre [post [r [Hp [Hpre Hb]]]]].
      exists (c :: pre), post, r. split; [cbn; rewrite Hp; reflexivity|]. auto.
Qed.

Definition all_word (w : str) : Prop := forall c, In c w -> is_word c = true.

(* every string ends in a (possibly empty) run of word characters preceded by a delimiter or the start *)
Lemma trailing_run : forall pre, exists pre0 w0, pre = pre0 ++ w0 /\ all_word w0 /\ bnd_before pre0.
Proof.
  induction pre as [|c pre IH] using rev_ind.
  - exists [], []. split; [reflexivity|]. split; [intros c []|left; reflexivity].
  - destruct IH as [pre0 [w0 [E [W B]]]]. destruct (is_word c) eqn:C.
    + exists pre0, (w0 ++ [c]). split; [subst; rewrite app_assoc; reflexivity|]. split; [|assumption].
      intros x Hx. apply in_app_or in Hx. destruct Hx as [Hx | [Hx | []]]; [apply W; assumption | subst; assumption].
    + exists (pre ++ [c]), []. split; [rewrite app_nil_r; reflexivity|]. split; [intros x []|].
      right. exists pre, c. split; [reflexivity|assumption].
Qed.

Lemma split_nw_all_word : forall w, all_word w -> split_nw w = [w].
Proof.
  induction w as [|c w IH]; intros H; cbn; [reflexivity|].
  rewrite (H c (or_introl eq_refl)). rewrite IH; [reflexivity|]. intros x Hx. apply H. right. assumption.
Qed.

Lemma words_all_word : forall w, all_word w -> w <> [] -> words w = [w].
Proof. intros w H N. unfold words. rewrite split_nw_all_word by assumption. destruct w; [contradiction|reflexivity]. Qed.

(* the first piece of re.split and what follows it *)
Lemma split_nw_head : forall t, exists u0 r, split_nw t = u0 :: r /\ all_word u0 /\
  ((t = u0 /\ r = []) \/ exists d t', t = u0 ++ d :: t' /\ is_word d = false /\ r = split_nw t').
Proof.
  induction t as [|c t IH].
  - exists [], []. split; [reflexivity|]. split; [intros c []|left; auto].
  - destruct IH as [u0 [r [E [W H]]]]. cbn. destruct (is_word c) eqn:C.
    + rewrite E. exists (c :: u0), r. split; [reflexivity|]. split.
      * intros x [Hx | Hx]; [subst; assumption | apply W; assumption].
      * destruct H as [[H1 H2] | [d [t' [H1 [H2 H3]]]]]; [left; subst; auto|].
        right. exists d, t'. subst t. auto.
    + exists [], (split_nw t). split; [reflexivity|]. split; [intros x []|].
      right. exists c, t. auto.
Qed.

Lemma all_word_app : forall a b, all_word a -> all_word b -> all_word (a ++ b).
Proof. intros a b Ha Hb x Hx. apply in_app_or in Hx. destruct Hx; [apply Ha | apply Hb]; assumption. Qed.

Lemma ends_with_app : forall a u, ends_with (a ++ u) u = true.
Proof.
  intros a u. unfold ends_with. rewrite rev_app_distr. generalize (rev u) as v. intros v.
  induction v as [|x v IH]; cbn; [reflexivity|]. rewrite N.eqb_refl. exact IH.
Qed.

(* a term accepted by the wildcard pattern: its first piece is the END of a whole word of the lower-cased path,
   its other pieces are whole words *)
Lemma wild_words : forall t p, lower_s t = t -> term_occurs true t p = true ->
  exists u0 r, split_nw t = u0 :: r /\
    (u0 <> [] -> exists w, In w (words (lower_s p)) /\ ends_with w u0 = true) /\
    incl (filter nonempty r) (words (lower_s p)).
Proof.
  intros t p Ht H. unfold term_occurs in H. apply occ_wild_inv in H.
  destruct H as [pre [post [r [Hp [Hpre Hb]]]]].
  pose proof (prefix_ci_lower t post r Ht Hpre) as E.
  assert (LP : lower_s p = lower_s pre ++ t ++ lower_s r).
  { subst p. unfold lower_s at 1. rewrite map_app. fold (lower_s pre). fold (lower_s post). rewrite E. reflexivity. }
  assert (BR : bnd_after (lower_s r) = true) by (rewrite bnd_after_lower; assumption).
  destruct (trailing_run (lower_s pre)) as [pre0 [w0 [EP [W0 B0]]]].
  destruct (split_nw_head t) as [u0 [rr [ES [WU HT]]]].
  exists u0, rr. split; [assumption|].
  destruct HT as [[HT1 HT2] | [d [t' [HT1 [HT2 HT3]]]]].
  - (* the term is one run of word characters *)
    subst rr. subst u0. split; [|intros x []].
    intros NE. exists (w0 ++ t). split; [|apply ends_with_app].
    rewrite LP, EP. rewrite <- app_assoc. rewrite words_app_bnd_before by assumption.
    apply in_or_app. right. rewrite app_assoc. rewrite words_app_bnd_after by assumption.
    apply in_or_app. left. rewrite words_all_word; [left; reflexivity | apply all_word_app; assumption |].
    destruct w0; [cbn; assumption | discriminate].
  - assert (TW : lower_s p = pre0 ++ (w0 ++ u0) ++ d :: (t' ++ lower_s r)).
    { rewrite LP, EP, HT1. rewrite <- !app_assoc. cbn. reflexivity. }
    split.
    + intros NE. exists (w0 ++ u0). split; [|apply ends_with_app].
      rewrite TW. rewrite words_app_bnd_before by assumption. apply in_or_app. right.
      rewrite words_cut by assumption. apply in_or_app. left.
      rewrite words_all_word; [left; reflexivity | apply all_word_app; assumption |].
      destruct w0; [cbn; assumption | discriminate].
    + subst rr. fold (words t'). intros x Hx. rewrite TW.
      rewrite words_app_bnd_before by assumption. apply in_or_app. right.
      rewrite words_cut by assumption. apply in_or_app. right.
      rewrite words_app_bnd_after by assumption. apply in_or_app. left. assumption.
Qed.

(* ------------------------------------------------------------------ term map invariant *)

Definition tm_inv (s : state) : Prop :=
  forall x, In x (indexed s) -> forall w, In w (item_words x) -> In w (keys s).

Lemma add_keys_keeps : forall ws ks w, In w ks -> In w (add_keys ws ks).
Proof.
  unfold add_keys. induction ws as [|u ws IH]; intros ks w H; cbn; [assumption|].
  apply IH. destruct (mem_str u ks); [assumption | apply in_or_app; left; assumption].
Qed.
Lemma add_keys_adds : forall ws ks w, In w ws -> In w (add_keys ws ks).
Proof.
  unfold add_keys. induction ws as [|u ws IH]; intros ks w H; cbn; [destruct H|].
  destruct H as [H | H].
  - subst. apply add_keys_keeps. destruct (mem_str w ks) eqn:E; [apply mem_str_In; assumption | apply in_or_app; right; left; reflexivity].
  - apply IH. assumption.
Qed.

Lemma tm_inv_index_item : forall s x, tm_inv s -> tm_inv (index_item s x).
Proof.
  intros s x H y Hy w Hw. unfold index_item in *. cbn in *.
  destruct (existsb (item_eq x) (indexed s)).
  - apply add_keys_keeps. eapply H; eassumption.
  - apply in_app_or in Hy. destruct Hy as [Hy | [Hy | []]].
    + apply add_keys_keeps. eapply H; eassumption.
    + subst y. apply add_keys_adds. assumption.
Qed.

Lemma tm_inv_build : forall its s, tm_inv s -> tm_inv (build_term_map s its).
Proof.
  unfold build_term_map. induction its as [|x its IH]; intros s H; cbn; [assumption|].
  apply IH. apply tm_inv_index_item. assumption.
Qed.

Lemma tm_inv_cleanup : forall s, tm_inv s -> tm_inv (cleanup s).
Proof.
  intros s H x Hx w Hw. unfold cleanup in *. cbn in *. apply filter_In. split.
  - eapply H; eassumption.
  - apply existsb_exists. exists x. split; [assumption|]. apply mem_str_In. assumption.
Qed.

Lemma tm_inv_prune : forall s, tm_inv s -> tm_inv (prune s).
Proof.
  intros s H x Hx w Hw. unfold prune in *. cbn in *. apply filter_In in Hx. destruct Hx as [Hx _]. eapply H; eassumption.
Qed.

(* tm_inv only looks at keys and indexed *)
Lemma tm_inv_ext : forall s s', keys s' = keys s -> indexed s' = indexed s -> tm_inv s -> tm_inv s'.
Proof. intros s s' Hk Hi H x Hx w Hw. rewrite Hk. rewrite Hi in Hx. eapply H; eassumption. Qed.

Lemma tm_inv_fold_build : forall ds s, tm_inv s -> tm_inv (fold_left (fun st d => build_term_map st (ditems d)) ds s).
Proof. induction ds as [|d ds IH]; intros s H; cbn; [assumption|]. apply IH. apply tm_inv_build. assumption. Qed.

Lemma tm_inv_rebuild : forall s, tm_inv (rebuild s).
Proof. intros s. unfold rebuild. apply tm_inv_fold_build. intros x []. Qed.

Lemma tm_inv_add : forall s p a m us, tm_inv s -> tm_inv (add_raw s p a m us).
Proof.
  intros s p a m us H. unfold add_raw; rewrite ?choose_parent_eq. destruct (find_listed p (listed s)); [assumption|].
  destruct (best_parent p (listed s) None).
  - apply tm_inv_build. eapply tm_inv_ext; [| |exact H]; reflexivity.
  - eapply tm_inv_ext; [| |exact H]; reflexivity.
Qed.
Lemma tm_inv_update : forall s p m us, tm_inv s -> tm_inv (update_raw s p m us).
Proof.
  intros s p m us H. unfold update_raw. destruct (find_listed p (listed s)); [|assumption].
  eapply tm_inv_ext; [| |exact H]; reflexivity.
Qed.
Lemma tm_inv_remove : forall s p, tm_inv s -> tm_inv (remove_raw s p).
Proof. intros s p H. unfold remove_raw; rewrite ?choose_parent_eq. destruct (find_listed p (listed s)); [apply tm_inv_rebuild | assumption]. Qed.
Lemma tm_inv_scan : forall s p disk, tm_inv s -> tm_inv (scan_raw s p disk).
Proof.
  intros s p disk H. unfold scan_raw. destruct (find_listed p (listed s)); [|assumption].
  apply tm_inv_cleanup. apply tm_inv_build. apply tm_inv_prune. eapply tm_inv_ext; [| |exact H]; reflexivity.
Qed.
Lemma tm_inv_load : forall s es, tm_inv (load_raw s es).
Proof. intros. unfold load_raw. apply tm_inv_rebuild. Qed.

Lemma tm_inv_step : forall s o, tm_inv s -> tm_inv (step s o).
Proof.
  intros s o H. unfold step. apply tm_inv_prune. destruct o; cbn.
  - apply tm_inv_add; assumption.
  - apply tm_inv_remove; assumption.
  - apply tm_inv_update; assumption.
  - apply tm_inv_scan; assumption.
  - apply tm_inv_load.
Qed.

Lemma tm_inv_run_from : forall ops s, tm_inv s -> tm_inv (run_from s ops).
Proof. unfold run_from. induction ops as [|o ops IH]; intros s H; cbn; [assumption|]. apply IH. apply tm_inv_step. assumption. Qed.

Lemma termmap_inv : forall ops, tm_inv (run ops).
Proof. intros. unfold run. apply tm_inv_run_from. intros x Hx. destruct Hx. Qed.

(* ------------------------------------------------------------------ prefilter *)

Definition all_sat (x : item) (cl : list (list str)) : Prop := forall alts, In alts cl -> satisfies x alts = true.

Lemma incl_keys_all : forall ks l x, (forall u, In u l -> In u ks) -> (forall u, In u l -> In u (item_words x)) ->
  exists cl, incl_keys ks l = Some cl /\ all_sat x cl.
Proof.
  induction l as [|u l IH]; intros x H1 H2; cbn.
  - exists []. split; [reflexivity|]. intros a [].
  - assert (M : mem_str u ks = true) by (apply mem_str_In; apply H1; left; reflexivity). rewrite M.
    destruct (IH x) as [cl [E S]]; [intros v Hv; apply H1; right; assumption | intros v Hv; apply H2; right; assumption|].
    rewrite E. exists ([u] :: cl). split; [reflexivity|].
    intros alts [Ha | Ha]; [|apply S; assumption]. subst alts. rewrite satisfies_eq. cbn. unfold filed_under.
    assert (M2 : mem_str u (item_words x) = true) by (apply mem_str_In; apply H2; left; reflexivity). rewrite M2. reflexivity.
Qed.

Lemma collect_all : forall A (f : A -> option (list (list str))) x l,
  (forall t, In t l -> exists r, f t = Some r /\ all_sat x r) ->
  exists cl, collect f l = Some cl /\ all_sat x cl.
Proof.
  intros A f x. induction l as [|t l IH]; intros H; cbn.
  - exists []. split; [reflexivity|]. intros u [].
  - destruct (H t (or_introl eq_refl)) as [r [Hr Pr]].
    destruct IH as [kl [Hk Pk]]; [intros t' Ht'; apply H; right; assumption|].
    rewrite Hr, Hk. exists (r ++ kl). split; [reflexivity|].
    intros u Hu. apply in_app_or in Hu. destruct Hu; [apply Pr | apply Pk]; assumption.
Qed.

Definition lowered (q : query) : Prop :=
  (forall t, In t (q_incl q) -> lower_s t = t) /\ (forall t, In t (q_wild q) -> lower_s t = t).

Lemma wild_keys_ok : forall s x t, tm_inv s -> In x (indexed s) -> lower_s t = t -> term_occurs true t (qpath x) = true ->
  exists r, wild_keys (keys s) t = Some r /\ all_sat x r.
Proof.
  intros s x t Hinv Hx Ht Ho. destruct (wild_words t (qpath x) Ht Ho) as [u0 [rr [ES [HF HR]]]].
  unfold wild_keys. rewrite ES.
  destruct (incl_keys_all (keys s) (filter nonempty rr) x) as [cl [EC SC]].
  { intros u Hu. apply (Hinv x Hx). unfold item_words. apply HR. assumption. }
  { intros u Hu. unfold item_words. apply HR. assumption. }
  rewrite EC. unfold wild_first. destruct u0 as [|c0 u0'].
  - exists cl. split; [reflexivity|assumption].
  - destruct HF as [w [Hw He]]; [discriminate|].
    assert (Hk : In w (filter (fun k => ends_with k (c0 :: u0')) (keys s))).
    { apply filter_In. split; [apply (Hinv x Hx); exact Hw | assumption]. }
    destruct (filter (fun k => ends_with k (c0 :: u0')) (keys s)) as [|k0 m] eqn:EF; [destruct Hk|].
    exists ((k0 :: m) :: cl). split; [reflexivity|].
    intros alts [Ha | Ha]; [|apply SC; assumption]. subst alts. rewrite satisfies_eq. apply existsb_exists.
    exists w. split; [assumption|]. unfold filed_under. apply mem_str_In. exact Hw.
Qed.

(* prefilter soundness, all queries: what the regular expressions accept is never dropped by the term-map pass *)
Lemma prefilter_sound : forall s q x,
  tm_inv s -> lowered q -> In x (indexed s) ->
  (forall t, In t (q_incl q) -> term_occurs false t (qpath x) = true) ->
  (forall t, In t (q_wild q) -> term_occurs true t (qpath x) = true) ->
  In x (prefilter s q).
Proof.
  intros s q x Hinv [Hl1 Hl2] Hx Hocc Hw. unfold prefilter, prefilter_keys.
  destruct (collect_all str (fun t => incl_keys (keys s) (words t)) x (q_incl q)) as [k1 [E1 S1]].
  { intros t Ht. apply incl_keys_all.
    - intros u Hu. apply (Hinv x Hx). unfold item_words. apply (plain_words t (qpath x)); auto.
    - intros u Hu. unfold item_words. apply (plain_words t (qpath x)); auto. }
  destruct (collect_all str (wild_keys (keys s)) x (q_wild q)) as [k2 [E2 S2]].
  { intros t Ht. apply wild_keys_ok; auto. }
  rewrite E1, E2. apply filter_In. split; [assumption|]. rewrite passes_eq.
  apply forallb_forall. intros alts Ha. apply in_app_or in Ha. destruct Ha; [apply S1 | apply S2]; assumption.
Qed.

(* ------------------------------------------------------------------ query *)

Lemma prefilter_sub : forall s q x, In x (prefilter s q) -> In x (indexed s).
Proof.
  intros s q x H. unfold prefilter in H. destruct (prefilter_keys (keys s) q); [|destruct H].
  apply filter_In in H. tauto.
Qed.

Lemma firstn_In : forall A n (l : list A) x, In x (firstn n l) -> In x l.
Proof. intros A n l x H. rewrite <- (firstn_skipn n l). apply in_or_app. left. assumption. Qed.

Lemma query_all_sound : forall s q ph x, In x (query_all s q ph) ->
  In x (indexed s) /\ matches q x = true /\ phrase_free ph x = true.
Proof.
  intros s q ph x H. unfold query_all in H. destruct (has_inclusion q); [|destruct H].
  apply filter_In in H. destruct H as [H1 H2]. apply andb_prop in H2. destruct H2.
  split; [eapply prefilter_sub; eassumption|]. split; assumption.
Qed.

Lemma query_sound : forall s q ph n x, In x (query_items s q ph n) ->
  In x (indexed s) /\ matches q x = true /\ phrase_free ph x = true.
Proof. intros s q ph n x H. apply query_all_sound. rewrite query_items_eq in H. eapply firstn_In; eassumption. Qed.

Lemma matches_parts : forall q x, matches q x = true ->
  (forall t, In t (q_incl q) -> term_occurs false t (qpath x) = true) /\
  (forall t, In t (q_wild q) -> term_occurs true t (qpath x) = true).
Proof.
  intros q x H. unfold matches in H. apply andb_prop in H. destruct H as [H _]. apply andb_prop in H. destruct H as [H1 H2].
  rewrite forallb_forall in H1, H2. split; assumption.
Qed.

Lemma query_all_exact : forall s q ph x,
  tm_inv s -> has_inclusion q = true -> lowered q ->
  (In x (query_all s q ph) <-> In x (indexed s) /\ matches q x = true /\ phrase_free ph x = true).
Proof.
  intros s q ph x Hinv Hi Hl. split; [apply query_all_sound|].
  intros [Hx [Hm Hp]]. unfold query_all. rewrite Hi. apply filter_In. split.
  - destruct (matches_parts q x Hm). apply prefilter_sound; auto.
  - rewrite Hm, Hp. reflexivity.
Qed.

Lemma query_exact : forall s q ph n x,
  tm_inv s -> has_inclusion q = true -> lowered q -> length (query_all s q ph) <= n ->
  (In x (query_items s q ph n) <-> In x (indexed s) /\ matches q x = true /\ phrase_free ph x = true).
Proof.
  intros s q ph n x Hinv Hi Hl Hn. rewrite query_items_eq. rewrite firstn_all2 by assumption.
  apply query_all_exact; assumption.
Qed.

Lemma cap : forall s q ph n,
  length (query_items s q ph n) = Nat.min n (length (query_all s q ph)) /\
  (forall x, In x (query_items s q ph n) -> In x (query_all s q ph)).
Proof.
  intros. rewrite query_items_eq. split; [apply firstn_length|]. intros x H. eapply firstn_In; eassumption.
Qed.

(* the parser only produces lower-cased terms *)
Lemma add_term_In : forall t l u, In u (add_term t l) -> u = t \/ In u l.
Proof.
  intros t l u H. unfold add_term in H. destruct (mem_str t l); [right; assumption|].
  apply in_app_or in H. destruct H as [H | [H | []]]; [right; assumption | left; symmetry; assumption].
Qed.

Lemma lower_tl : forall l, lower_s (tl (lower_s l)) = tl (lower_s l).
Proof. destruct l as [|a l]; [reflexivity|]. cbn. apply lower_s_idem. Qed.

Lemma parse_term_lowered : forall q term, lowered q -> lowered (parse_term q term).
Proof.
  intros q term [H1 H2]. unfold parse_term. destruct (negb (existsb is_word (lower_s term))); [split; assumption|].
  destruct term as [|c0 term]; [split; assumption|].
  destruct (N.eqb c0 STAR).
  - split; [exact H1|]. intros t Ht. cbn [q_wild] in Ht. apply add_term_In in Ht. destruct Ht as [Ht | Ht]; [|apply H2; assumption].
    subst t. exact (lower_tl (c0 :: term)).
  - destruct (N.eqb c0 DASH); [split; assumption|].
    split; [|exact H2]. intros t Ht. cbn [q_incl] in Ht. apply add_term_In in Ht. destruct Ht as [Ht | Ht]; [|apply H1; assumption].
    subst t. exact (lower_s_idem (c0 :: term)).
Qed.

Lemma parse_lowered : forall s, lowered (parse s).
Proof.
  intros s. unfold parse. generalize (split_ws s). intros l.
  assert (G : forall l q, lowered q -> lowered (fold_left parse_term l q)).
  { induction l0 as [|t l0 IH]; intros q H; cbn; [assumption|]. apply IH. apply parse_term_lowered. assumption. }
  apply G. split; intros t [].
Qed.

(* ------------------------------------------------------------------ paths *)

Lemma pp_refl : forall a, path_prefix a a = true.
Proof. unfold path_prefix. induction a; cbn; [reflexivity|]. rewrite eqb_str_refl. assumption. Qed.
Lemma pp_app : forall a b, path_prefix a (a ++ b) = true.
Proof. unfold path_prefix. induction a; intros b; cbn; [reflexivity|]. rewrite eqb_str_refl. apply IHa. Qed.
Lemma pp_trans : forall a b c, path_prefix a b = true -> path_prefix b c = true -> path_prefix a c = true.
Proof.
  unfold path_prefix. induction a as [|x a IH]; intros b c H1 H2; cbn in *; [reflexivity|].
  destruct b as [|y b]; [discriminate|]. destruct c as [|z c]; [cbn in H2; discriminate|]. cbn in H2.
  apply andb_prop in H1. destruct H1 as [E1 H1]. apply andb_prop in H2. destruct H2 as [E2 H2].
  apply eqb_str_true in E1. apply eqb_str_true in E2. subst. rewrite eqb_str_refl. cbn. eapply IH; eassumption.
Qed.
Lemma pp_length : forall a b, path_prefix a b = true -> length a <= length b.
Proof.
  unfold path_prefix. induction a as [|x a IH]; intros b H; cbn in *; [lia|].
  destruct b as [|y b]; [discriminate|]. apply andb_prop in H. destruct H as [_ H]. apply IH in H. cbn. lia.
Qed.
Lemma pp_cmp : forall a b c, path_prefix a c = true -> path_prefix b c = true -> length a <= length b -> path_prefix a b = true.
Proof.
  unfold path_prefix. induction a as [|x a IH]; intros b c H1 H2 L; cbn in *; [reflexivity|].
  destruct c as [|z c]; [discriminate|]. destruct b as [|y b]; [cbn in L; lia|]. cbn in H2.
  apply andb_prop in H1. destruct H1 as [E1 H1]. apply andb_prop in H2. destruct H2 as [E2 H2].
  apply eqb_str_true in E1. apply eqb_str_true in E2. subst. rewrite eqb_str_refl. cbn. eapply IH; try eassumption. cbn in L. lia.
Qed.
Lemma pp_eq : forall a b, path_prefix a b = true -> length b <= length a -> a = b.
Proof.
  unfold path_prefix. induction a as [|x a IH]; intros b H L; cbn in *.
  - destruct b; [reflexivity | cbn in L; lia].
  - destruct b as [|y b]; [discriminate|]. apply andb_prop in H. destruct H as [E H]. apply eqb_str_true in E. subst.
    f_equal. apply IH; [assumption | cbn in L; lia].
Qed.

Lemma is_prefix_split : forall (a b : path), path_prefix a b = true -> b = a ++ skipn (length a) b.
Proof.
  unfold path_prefix. induction a as [|x a IH]; intros b H; cbn in *; [reflexivity|].
  destruct b as [|y b]; [discriminate|]. apply andb_prop in H. destruct H as [H1 H2].
  apply eqb_str_true in H1. subst y. cbn. f_equal. apply IH. assumption.
Qed.

Lemma item_eq_fields : forall x y, item_eq x y = true ->
  opath x = opath y /\ isub x = isub y /\ iname x = iname y /\ imtime x = imtime y.
Proof.
  intros x y H. unfold item_eq in H. repeat (apply andb_prop in H; destruct H as [H ?]).
  apply eqb_path_true in H. apply eqb_path_true in H2. apply eqb_str_true in H1. apply N.eqb_eq in H0. tauto.
Qed.
Lemma item_eq_abs : forall x y, item_eq x y = true ->
  abs_path x = abs_path y /\ imtime x = imtime y /\ opath x = opath y /\ qpath x = qpath y /\ dir_of x = dir_of y.
Proof.
  intros x y H. apply item_eq_fields in H. destruct H as [H1 [H2 [H3 H4]]].
  unfold abs_path, dir_of, qpath. rewrite H1, H2, H3. tauto.
Qed.
Lemma item_same_eq : forall x y, item_same x y = true -> x = y.
Proof.
  intros [o1 p1 s1 n1 m1] [o2 p2 s2 n2 m2] H. unfold item_same in H. apply andb_prop in H. destruct H as [H1 H2].
  apply Nat.eqb_eq in H1. apply item_eq_fields in H2. cbn in *. destruct H2 as [A [B [C D]]]. subst. reflexivity.
Qed.

(* re-creating an item for a directory that contains it keeps the file it stands for *)
Lemma rehome_spec : forall t x, path_prefix (dpath t) (dir_of x) = true ->
  dir_of (rehome t x) = dir_of x /\ abs_path (rehome t x) = abs_path x /\ oid (rehome t x) = did t /\
  opath (rehome t x) = dpath t /\ imtime (rehome t x) = imtime x.
Proof.
  intros t x H. assert (D : dir_of (rehome t x) = dir_of x).
  { unfold rehome, dir_of at 1. cbn. symmetry. apply is_prefix_split. assumption. }
  split; [assumption|]. split; [unfold abs_path; rewrite D; reflexivity|]. cbn. auto.
Qed.

Lemma union_eq_In : forall b a x, In x (union_eq a b) -> In x a \/ In x b.
Proof.
  induction b as [|y b IH]; intros a x H; cbn in H; [left; assumption|].
  destruct (existsb (item_eq y) (union_eq a b)).
  - apply IH in H. destruct H; [left | right; right]; assumption.
  - apply in_app_or in H. destruct H as [H | [H | []]].
    + apply IH in H. destruct H; [left | right; right]; assumption.
    + subst. right. left. reflexivity.
Qed.

(* ------------------------------------------------------------------ the innermost listed ancestor *)

Definition anc (p : path) (d : dobj) : bool := path_prefix (dpath d) p && negb (eqb_path (dpath d) p).

Lemma best_parent_gen : forall p ds best,
  (forall b, best = Some b -> anc p b = true) ->
  match best_parent p ds best with
  | Some r => anc p r = true /\ (In r ds \/ best = Some r) /\
              (forall d, In d ds -> anc p d = true -> length (dpath d) <= length (dpath r)) /\
              (forall b, best = Some b -> length (dpath b) <= length (dpath r))
  | None => best = None /\ forall d, In d ds -> anc p d = false
  end.
Proof.
  intros p. induction ds as [|d ds IH]; intros best Hb; cbn.
  - destruct best as [b|].
    + split; [apply Hb; reflexivity|]. split; [right; reflexivity|]. split; [intros d []|]. intros b' E. inv E. lia.
    + split; [reflexivity|]. intros d [].
  - fold (anc p d). destruct (anc p d) eqn:A.
    + set (nb := match best with Some b => if (length (dpath b) <=? length (dpath d))%nat then Some d else Some b | None => Some d end).
      assert (Hnb : forall b, nb = Some b -> anc p b = true).
      { intros b E. unfold nb in E. destruct best as [b0|]; [|inv E; assumption].
        destruct (length (dpath b0) <=? length (dpath d))%nat; inv E; [assumption | apply Hb; reflexivity]. }
      specialize (IH nb Hnb). destruct (best_parent p ds nb) as [r|].
      * destruct IH as [A1 [A2 [A3 A4]]]. split; [assumption|].
        assert (Ld : length (dpath d) <= length (dpath r)).
        { unfold nb in A4. destruct best as [b0|]; [|apply A4; reflexivity].
          destruct (Nat.leb_spec (length (dpath b0)) (length (dpath d))); [apply A4; reflexivity|].
          specialize (A4 b0 eq_refl). lia. }
        split.
        { destruct A2 as [A2 | A2]; [left; right; assumption|]. unfold nb in A2. destruct best as [b0|]; [|inv A2; left; left; reflexivity].
          destruct (length (dpath b0) <=? length (dpath d))%nat; inv A2; [left; left; reflexivity | right; reflexivity]. }
        split.
        { intros e [He | He] Ae; [subst; assumption | apply A3; assumption]. }
        { intros b E. subst best. unfold nb in A4. destruct (Nat.leb_spec (length (dpath b)) (length (dpath d))); [lia | apply A4; reflexivity]. }
      * destruct IH as [E _]. unfold nb in E. destruct best as [b0|]; [destruct (length (dpath b0) <=? length (dpath d))%nat|]; discriminate.
    + specialize (IH best Hb). destruct (best_parent p ds best) as [r|].
      * destruct IH as [A1 [A2 [A3 A4]]]. split; [assumption|]. split; [destruct A2; [left; right; assumption | right; assumption]|].
        split; [|assumption]. intros e [He | He] Ae; [subst; congruence | apply A3; assumption].
      * destruct IH as [E F]. split; [assumption|]. intros e [He | He]; [subst; assumption | apply F; assumption].
Qed.

Lemma best_parent_some : forall p ds par, best_parent p ds None = Some par ->
  anc p par = true /\ In par ds /\ forall d, In d ds -> anc p d = true -> length (dpath d) <= length (dpath par).
Proof.
  intros p ds par H. pose proof (best_parent_gen p ds None) as G. rewrite H in G.
  destruct G as [A1 [A2 [A3 _]]]; [intros b E; discriminate|]. split; [assumption|]. split; [|assumption].
  destruct A2 as [A2 | A2]; [assumption | discriminate].
Qed.
Lemma best_parent_none : forall p ds, best_parent p ds None = None -> forall d, In d ds -> anc p d = false.
Proof.
  intros p ds H. pose proof (best_parent_gen p ds None) as G. rewrite H in G. destruct G as [_ G]; [intros b E; discriminate|]. exact G.
Qed.

Lemma anc_spec : forall p d, anc p d = true -> path_prefix (dpath d) p = true /\ dpath d <> p /\ length (dpath d) < length p.
Proof.
  intros p d H. unfold anc in H. apply andb_prop in H. destruct H as [H1 H2]. apply negb_true_iff in H2.
  assert (N : dpath d <> p) by (intros E; rewrite E in H2; rewrite eqb_path_refl in H2; discriminate).
  split; [assumption|]. split; [assumption|].
  pose proof (pp_length _ _ H1). destruct (Nat.eq_dec (length (dpath d)) (length p)); [|lia].
  exfalso. apply N. apply pp_eq; [assumption | lia].
Qed.
Lemma anc_intro : forall p d, path_prefix (dpath d) p = true -> dpath d <> p -> anc p d = true.
Proof.
  intros p d H N. unfold anc. rewrite H. cbn. apply negb_true_iff. destruct (eqb_path (dpath d) p) eqn:E; [|reflexivity].
  apply eqb_path_true in E. contradiction.
Qed.

(* ------------------------------------------------------------------ the index invariant *)

Definition owner_ok_l (ds : list dobj) : Prop :=
  forall d x, In d ds -> In x (ditems d) -> oid x = did d /\ opath x = dpath d.
Definition innermost_l (ds : list dobj) : Prop :=
  forall d d' x, In d ds -> In d' ds -> In x (ditems d) -> path_prefix (dpath d') (dir_of x) = true ->
    length (dpath d') <= length (dpath d).
Definition dinv (ds : list dobj) (n : nat) : Prop :=
  NoDup (map dpath ds) /\ NoDup (map did ds) /\ (forall d, In d ds -> did d < n) /\ owner_ok_l ds /\ innermost_l ds.

Lemma NoDup_map_inj_on : forall A B (f : A -> B) l a b, NoDup (map f l) -> In a l -> In b l -> f a = f b -> a = b.
Proof.
  intros A B f. induction l as [|x l IH]; intros a b N Ha Hb E; [destruct Ha|].
  cbn in N. inv N. destruct Ha as [Ha | Ha]; destruct Hb as [Hb | Hb]; subst.
  - reflexivity.
  - exfalso. apply H1. rewrite E. apply in_map. assumption.
  - exfalso. apply H1. rewrite <- E. apply in_map. assumption.
  - apply IH; assumption.
Qed.

Lemma NoDup_map_filter : forall A B (f : A -> B) q l, NoDup (map f l) -> NoDup (map f (filter q l)).
Proof.
  intros A B f q. induction l as [|x l IH]; intros N; cbn; [constructor|].
  cbn in N. inv N. destruct (q x); [|apply IH; assumption]. cbn. constructor; [|apply IH; assumption].
  intros H. apply H1. apply in_map_iff in H. destruct H as [y [E Hy]]. apply filter_In in Hy. destruct Hy as [Hy _].
  rewrite <- E. apply in_map. assumption.
Qed.

Lemma NoDup_map_transfer : forall A B C (f : A -> B) (g : A -> C) l,
  NoDup (map f l) -> (forall a b, In a l -> In b l -> g a = g b -> f a = f b) -> NoDup (map g l).
Proof.
  intros A B C f g. induction l as [|x l IH]; intros N H; cbn; [constructor|].
  cbn in N. inv N. constructor.
  - intros Hi. apply in_map_iff in Hi. destruct Hi as [y [E Hy]]. apply H2. rewrite <- (H y x); [apply in_map; assumption | right; assumption | left; reflexivity | assumption].
  - apply IH; [assumption|]. intros a b Ha Hb. apply H; right; assumption.
Qed.

Lemma dir_of_owner : forall ds d x, owner_ok_l ds -> In d ds -> In x (ditems d) -> path_prefix (dpath d) (dir_of x) = true.
Proof. intros ds d x H Hd Hx. destruct (H d x Hd Hx) as [_ E]. unfold dir_of. rewrite E. apply pp_app. Qed.

(* a sub-list of directories (remove, load_from_settings) *)
Lemma dinv_sub : forall ds n ks, dinv ds n -> (forall e, In e ks -> In e ds) -> NoDup (map dpath ks) -> dinv ks n.
Proof.
  intros ds n ks [N1 [N2 [B [O I]]]] S NK. split; [assumption|]. split.
  - apply (NoDup_map_transfer _ _ _ dpath did ks NK). intros a b Ha Hb E.
    f_equal. apply (NoDup_map_inj_on _ _ did ds); auto.
  - split; [intros d Hd; apply B; apply S; assumption|]. split.
    + intros d x Hd Hx. apply O; [apply S|]; assumption.
    + intros d d' x Hd Hd' Hx. apply I; auto.
Qed.

Lemma replace_dir_In : forall nd ds e, In e (replace_dir nd ds) ->
  (e = nd /\ exists e0, In e0 ds /\ dpath e0 = dpath nd) \/ (In e ds /\ dpath e <> dpath nd).
Proof.
  intros nd ds e H. unfold replace_dir in H. apply in_map_iff in H. destruct H as [e0 [E H]].
  destruct (eqb_path (dpath e0) (dpath nd)) eqn:P.
  - apply eqb_path_true in P. left. split; [symmetry; assumption|]. exists e0. auto.
  - right. subst e0. split; [assumption|]. intros Q. rewrite Q in P. rewrite eqb_path_refl in P. discriminate.
Qed.

Lemma replace_dir_paths : forall nd ds, map dpath (replace_dir nd ds) = map dpath ds.
Proof.
  intros nd ds. unfold replace_dir. rewrite map_map. apply map_ext_in. intros e _.
  destruct (eqb_path (dpath e) (dpath nd)) eqn:P; [|reflexivity]. apply eqb_path_true in P. symmetry. assumption.
Qed.

Lemma replace_dir_dids : forall nd ds d, NoDup (map dpath ds) -> In d ds -> dpath nd = dpath d -> did nd = did d ->
  map did (replace_dir nd ds) = map did ds.
Proof.
  intros nd ds d N Hd P I. unfold replace_dir. rewrite map_map. apply map_ext_in. intros e He.
  destruct (eqb_path (dpath e) (dpath nd)) eqn:Q; [|reflexivity]. apply eqb_path_true in Q.
  assert (e = d) by (apply (NoDup_map_inj_on _ _ dpath ds); auto; congruence). subst e. assumption.
Qed.

(* one listed directory is mutated in place: same identity and path, new settings or items *)
Lemma dinv_replace : forall ds n d nd, dinv ds n -> In d ds -> did nd = did d -> dpath nd = dpath d ->
  (forall x, In x (ditems nd) -> oid x = did d /\ opath x = dpath d) ->
  (forall x d', In x (ditems nd) -> In d' ds -> path_prefix (dpath d') (dir_of x) = true -> length (dpath d') <= length (dpath d)) ->
  dinv (replace_dir nd ds) n.
Proof.
  intros ds n d nd [N1 [N2 [B [O I]]]] Hd Ei Ep HO HI.
  assert (PathOf : forall e, In e (replace_dir nd ds) -> exists e0, In e0 ds /\ dpath e0 = dpath e /\ did e0 = did e).
  { intros e He. apply replace_dir_In in He. destruct He as [[E [e0 [H0 P0]]] | [He _]].
    - subst e. exists d. split; [assumption|]. split; congruence.
    - exists e. auto. }
  split; [rewrite replace_dir_paths; assumption|].
  split; [rewrite (replace_dir_dids nd ds d); assumption|].
  split; [intros e He; destruct (PathOf e He) as [e0 [H0 [_ E]]]; rewrite <- E; apply B; assumption|].
  split.
  - intros e x He Hx. apply replace_dir_In in He. destruct He as [[E _] | [He _]].
    + subst e. rewrite Ei, Ep. apply HO. assumption.
    + apply O; assumption.
  - intros e e' x He He' Hx Hp. destruct (PathOf e' He') as [e0' [H0' [P0' _]]]. rewrite <- P0' in *.
    apply replace_dir_In in He. destruct He as [[E _] | [He _]].
    + subst e. rewrite Ep. apply (HI x e0'); assumption.
    + apply (I e e0' x); assumption.
Qed.

Lemma NoDup_app_snoc : forall A (l : list A) a, NoDup l -> ~ In a l -> NoDup (l ++ [a]).
Proof.
  intros A. induction l as [|x l IH]; intros a N H; cbn; [constructor; [intros []|constructor]|].
  inv N. constructor.
  - intros Hi. apply in_app_or in Hi. destruct Hi as [Hi | [Hi | []]]; [contradiction|]. subst. apply H. left. reflexivity.
  - apply IH; [assumption|]. intros Hi. apply H. right. assumption.
Qed.

(* a new directory is appended *)
Lemma dinv_snoc : forall ds n nd, dinv ds n -> did nd = n -> (forall d, In d ds -> dpath d <> dpath nd) ->
  (forall x, In x (ditems nd) -> oid x = n /\ opath x = dpath nd) ->
  (forall x d', In x (ditems nd) -> In d' ds -> path_prefix (dpath d') (dir_of x) = true -> length (dpath d') <= length (dpath nd)) ->
  (forall d x, In d ds -> In x (ditems d) -> path_prefix (dpath nd) (dir_of x) = true -> length (dpath nd) <= length (dpath d)) ->
  dinv (ds ++ [nd]) (S n).
Proof.
  intros ds n nd [N1 [N2 [B [O I]]]] Ei Fresh HO HA HB.
  split.
  { rewrite map_app. cbn. apply NoDup_app_snoc; [assumption|]. intros H. apply in_map_iff in H. destruct H as [d [E Hd]]. exact (Fresh d Hd E). }
  split.
  { rewrite map_app. cbn. apply NoDup_app_snoc; [assumption|]. intros H. apply in_map_iff in H. destruct H as [d [E Hd]]. specialize (B d Hd). lia. }
  split.
  { intros d Hd. apply in_app_or in Hd. destruct Hd as [Hd | [Hd | []]]; [specialize (B d Hd); lia | subst; lia]. }
  split.
  - intros d x Hd Hx. apply in_app_or in Hd. destruct Hd as [Hd | [Hd | []]]; [apply O; assumption|]. subst d. rewrite Ei. apply HO. assumption.
  - intros d d' x Hd Hd' Hx Hp. apply in_app_or in Hd. apply in_app_or in Hd'.
    destruct Hd as [Hd | [Hd | []]]; destruct Hd' as [Hd' | [Hd' | []]]; subst.
    + apply (I d d' x); assumption.
    + apply (HB d x); assumption.
    + apply (HA x d'); assumption.
    + lia.
Qed.

Definition sinv (s : state) : Prop := dinv (listed s) (next_id s).

Lemma build_listed : forall its s, listed (build_term_map s its) = listed s /\ next_id (build_term_map s its) = next_id s.
Proof. unfold build_term_map. induction its as [|x its IH]; intros s; cbn; [auto|]. destruct (IH (index_item s x)) as [A B]. rewrite A, B. auto. Qed.
Lemma fold_build_listed : forall ds s, listed (fold_left (fun st d => build_term_map st (ditems d)) ds s) = listed s /\
  next_id (fold_left (fun st d => build_term_map st (ditems d)) ds s) = next_id s.
Proof.
  induction ds as [|d ds IH]; intros s; cbn; [auto|]. destruct (IH (build_term_map s (ditems d))) as [A B].
  destruct (build_listed (ditems d) s) as [C D]. rewrite A, B, C, D. auto.
Qed.
Lemma rebuild_listed : forall s, listed (rebuild s) = listed s /\ next_id (rebuild s) = next_id s.
Proof. intros s. unfold rebuild. destruct (fold_build_listed (listed s) (mkState (listed s) [] [] (next_id s))) as [A B]. rewrite A, B. auto. Qed.

Lemma sinv_ext : forall s s', listed s' = listed s -> next_id s' = next_id s -> sinv s -> sinv s'.
Proof. intros s s' A B H. unfold sinv. rewrite A, B. exact H. Qed.

Lemma find_listed_none : forall p ds, find_listed p ds = None -> forall d, In d ds -> dpath d <> p.
Proof.
  intros p ds H d Hd E. unfold find_listed in H. pose proof (find_none _ _ H d Hd) as F. cbn in F.
  rewrite E in F. rewrite eqb_path_refl in F. discriminate.
Qed.
Lemma find_listed_path : forall p ds d, find_listed p ds = Some d -> dpath d = p /\ In d ds.
Proof. unfold find_listed. intros p ds d H. apply find_some in H. destruct H as [H1 H2]. apply eqb_path_true in H2. tauto. Qed.

Lemma dinv_mono : forall ds n m, dinv ds n -> n <= m -> dinv ds m.
Proof. intros ds n m [A [B [C D]]] L. split; [assumption|]. split; [assumption|]. split; [|assumption]. intros d Hd. specialize (C d Hd). lia. Qed.

Lemma sinv_add : forall s p a m us, sinv s -> sinv (add_raw s p a m us).
Proof.
  intros s p a m us H. unfold add_raw; rewrite ?choose_parent_eq. destruct (find_listed p (listed s)) eqn:F; [assumption|].
  pose proof (find_listed_none p (listed s) F) as Fresh.
  pose proof H as [N1 [N2 [B [O I]]]].
  destruct (best_parent p (listed s) None) as [par|] eqn:BP.
  - destruct (best_parent_some p (listed s) par BP) as [A [Hpar Max]].
    destruct (anc_spec p par A) as [PP [NE LT]].
    set (par' := set_items par (filter (fun x => negb (under p x)) (ditems par))).
    set (nd0 := mkDir (next_id s) p a m us []).
    set (moved := union_eq [] (map (rehome nd0) (filter (under p) (ditems par)))).
    unfold sinv. destruct (build_listed moved (mkState (replace_dir par' (listed s) ++ [set_items nd0 moved]) (keys s) (indexed s) (S (next_id s)))) as [L1 L2].
    rewrite L1, L2. cbn [listed next_id].
    assert (D1 : dinv (replace_dir par' (listed s)) (next_id s)).
    { apply (dinv_replace (listed s) (next_id s) par par'); auto.
      - intros x Hx. cbn in Hx. apply filter_In in Hx. destruct Hx as [Hx _]. apply O; assumption.
      - intros x d' Hx Hd' Hp. cbn in Hx. apply filter_In in Hx. destruct Hx as [Hx _]. apply (I par d' x); assumption. }
    assert (MovedFrom : forall x, In x moved -> exists x0, In x0 (ditems par) /\ under p x0 = true /\ x = rehome nd0 x0).
    { intros x Hx. unfold moved in Hx. apply union_eq_In in Hx. destruct Hx as [[] | Hx].
      apply in_map_iff in Hx. destruct Hx as [x0 [E Hx0]]. apply filter_In in Hx0. exists x0. destruct Hx0. auto. }
    apply dinv_snoc; auto.
    + intros d Hd. cbn. apply replace_dir_In in Hd. destruct Hd as [[E _] | [Hd _]]; [subst d; cbn; assumption | apply Fresh; assumption].
    + intros x Hx. cbn in Hx. destruct (MovedFrom x Hx) as [x0 [H0 [U E]]]. subst x. cbn. auto.
    + intros x d' Hx Hd' Hp. cbn in Hx. destruct (MovedFrom x Hx) as [x0 [H0 [U E]]]. subst x.
      destruct (rehome_spec nd0 x0 U) as [DO _]. rewrite DO in Hp. cbn [dpath set_items nd0].
      assert (EX : exists e, In e (listed s) /\ dpath e = dpath d').
      { apply replace_dir_In in Hd'. destruct Hd' as [[E _] | [Hd' _]]; [subst d'; exists par; auto | exists d'; auto]. }
      destruct EX as [e [He Pe]]. rewrite <- Pe in *. pose proof (I par e x0 Hpar He H0 Hp). cbn. lia.
    + intros d x Hd Hx Hp. cbn [dpath set_items nd0] in *. apply replace_dir_In in Hd. destruct Hd as [[E _] | [Hd NP]].
      * subst d. cbn in Hx. apply filter_In in Hx. destruct Hx as [_ Hx]. unfold under in Hx. rewrite Hp in Hx. discriminate.
      * cbn in NP. destruct (Nat.le_gt_cases (length p) (length (dpath d))) as [|G]; [assumption|]. exfalso.
        pose proof (dir_of_owner _ d x O Hd Hx) as PD.
        assert (PDp : path_prefix (dpath d) p = true) by (apply (pp_cmp _ _ (dir_of x)); auto; lia).
        assert (Ad : anc p d = true) by (apply anc_intro; [assumption | intros E; rewrite E in G; lia]).
        pose proof (Max d Hd Ad) as M1.
        assert (PPx : path_prefix (dpath par) (dir_of x) = true) by (eapply pp_trans; eassumption).
        pose proof (I d par x Hd Hpar Hx PPx) as M2.
        assert (PE : path_prefix (dpath d) (dpath par) = true) by (apply (pp_cmp _ _ p); auto).
        apply NP. apply pp_eq; [assumption | lia].
  - unfold sinv. cbn [listed next_id].
    apply dinv_snoc; [exact H | reflexivity | | | |].
    + intros d Hd. cbn. apply Fresh. assumption.
    + intros x [].
    + intros x d' [].
    + intros d x Hd Hx Hp. cbn in *. destruct (Nat.le_gt_cases (length p) (length (dpath d))) as [|G]; [assumption|]. exfalso.
      pose proof (dir_of_owner _ d x O Hd Hx) as PD.
      assert (PDp : path_prefix (dpath d) p = true) by (apply (pp_cmp _ _ (dir_of x)); auto; lia).
      assert (Ad : anc p d = true) by (apply anc_intro; [assumption | intros E; rewrite E in G; lia]).
      rewrite (best_parent_none p (listed s) BP d Hd) in Ad. discriminate.
Qed.

Lemma sinv_update : forall s p m us, sinv s -> sinv (update_raw s p m us).
Proof.
  intros s p m us H. unfold update_raw. destruct (find_listed p (listed s)) as [d|] eqn:F; [|assumption].
  destruct (find_listed_path _ _ _ F) as [_ Hd]. pose proof H as [N1 [N2 [B [O I]]]].
  unfold sinv. cbn [listed next_id]. apply (dinv_replace (listed s) (next_id s) d); [exact H | exact Hd | reflexivity | reflexivity | |].
  - intros x Hx. cbn in Hx. apply O; assumption.
  - intros x d' Hx Hd' Hp. cbn in Hx. apply (I d d' x); assumption.
Qed.

Lemma filter_sub : forall A (q : A -> bool) l e, In e (filter q l) -> In e l.
Proof. intros A q l e H. apply filter_In in H. tauto. Qed.

Lemma sinv_remove : forall s p, sinv s -> sinv (remove_raw s p).
Proof.
  intros s p H. unfold remove_raw; rewrite ?choose_parent_eq. destruct (find_listed p (listed s)) as [d|] eqn:F; [|assumption].
  destruct (find_listed_path _ _ _ F) as [Pd Hd]. pose proof H as [N1 [N2 [B [O I]]]].
  set (rest := filter (fun e => negb (eqb_path (dpath e) p)) (listed s)).
  assert (DR : dinv rest (next_id s)).
  { apply (dinv_sub (listed s)); [assumption | intros e He; eapply filter_sub; exact He | apply NoDup_map_filter; assumption]. }
  assert (RestNe : forall e, In e rest -> In e (listed s) /\ dpath e <> p).
  { intros e He. apply filter_In in He. destruct He as [He Q]. split; [assumption|]. intros E. rewrite E in Q. rewrite eqb_path_refl in Q. discriminate. }
  eapply sinv_ext; [apply rebuild_listed | apply rebuild_listed |]. unfold sinv. cbn [listed next_id].
  destruct (best_parent p rest None) as [par|] eqn:BP; [|assumption].
  destruct (best_parent_some p rest par BP) as [A [Hpar Max]].
  destruct (anc_spec p par A) as [PP [NE LT]].
  destruct (RestNe par Hpar) as [HparL _].
  assert (Under : forall x0, In x0 (ditems d) -> path_prefix (dpath par) (dir_of x0) = true).
  { intros x0 H0. apply (pp_trans _ p); [assumption|]. rewrite <- Pd. apply (dir_of_owner (listed s)); assumption. }
  apply (dinv_replace rest (next_id s) par); [exact DR | exact Hpar | reflexivity | reflexivity | |].
  - intros x Hx. cbn in Hx. apply union_eq_In in Hx. destruct Hx as [Hx | Hx]; [apply O; assumption|].
    apply in_map_iff in Hx. destruct Hx as [x0 [E H0]]. subst x. cbn. auto.
  - intros x d' Hx Hd' Hp. cbn in Hx. destruct (RestNe d' Hd') as [Hd'L NP].
    apply union_eq_In in Hx. destruct Hx as [Hx | Hx]; [apply (I par d' x); assumption|].
    apply in_map_iff in Hx. destruct Hx as [x0 [E H0]]. subst x.
    destruct (rehome_spec par x0 (Under x0 H0)) as [DO _]. rewrite DO in Hp.
    pose proof (I d d' x0 Hd Hd'L H0 Hp) as L1. rewrite Pd in L1.
    assert (PD : path_prefix p (dir_of x0) = true) by (rewrite <- Pd; apply (dir_of_owner (listed s)); assumption).
    assert (P1 : path_prefix (dpath d') p = true) by (apply (pp_cmp _ _ (dir_of x0)); assumption).
    apply Max; [assumption|]. apply anc_intro; assumption.
Qed.

Lemma nodup_files_spec : forall disk seen,
  NoDup (map fst (nodup_files seen disk)) /\
  (forall f, In f (nodup_files seen disk) -> In f disk /\ ~ In (fst f) seen).
Proof.
  induction disk as [|f disk IH]; intros seen; cbn; [split; [constructor | intros f []]|].
  destruct (existsb (eqb_path (fst f)) seen) eqn:E.
  - destruct (IH seen) as [A B]. split; [assumption|]. intros g Hg. destruct (B g Hg). split; [right|]; assumption.
  - destruct (IH (fst f :: seen)) as [A B]. split.
    + cbn. constructor; [|assumption]. intros Hi. apply in_map_iff in Hi. destruct Hi as [g [Eg Hg]].
      destruct (B g Hg) as [_ N]. apply N. left. symmetry. assumption.
    + intros g [Hg | Hg].
      * subst g. split; [left; reflexivity|]. intros Hi. assert (X : existsb (eqb_path (fst f)) seen = true); [|congruence].
        apply existsb_exists. exists (fst f). split; [assumption | apply eqb_path_refl].
      * destruct (B g Hg) as [B1 B2]. split; [right; assumption|]. intros Hi. apply B2. right. assumption.
Qed.

(* the files scan_directory picks for directory d: below d, and not inside a nested shared directory *)
Definition in_region (d : dobj) (children : list dobj) (fp : path) : Prop :=
  path_prefix (dpath d) fp = true /\ skipn (length (dpath d)) fp <> [] /\
  existsb (fun ch => path_prefix (dpath ch) (removelast fp)) children = false.

Lemma scan_file_spec : forall d ch f x, In x (scan_file d ch f) ->
  in_region d ch (fst f) /\ abs_path x = fst f /\ imtime x = snd f /\ opath x = dpath d /\ oid x = did d.
Proof.
  intros d ch f x H. unfold scan_file in H.
  destruct (skipn (length (dpath d)) (fst f)) as [|r rel] eqn:E; [destruct H|].
  destruct (path_prefix (dpath d) (fst f)) eqn:P; cbn [andb] in H; [|destruct H].
  destruct (existsb (fun c0 => path_prefix (dpath c0) (removelast (fst f))) ch) eqn:X; cbn [negb] in H; [destruct H|].
  destruct H as [H | []]. subst x. unfold in_region. rewrite P, E, X. split; [repeat split; discriminate|].
  split; [|cbn; tauto]. unfold abs_path, dir_of. cbn [opath isub iname]. rewrite <- app_assoc.
  rewrite <- (app_removelast_last (l := r :: rel) []) by discriminate.
  rewrite <- E. symmetry. apply is_prefix_split. assumption.
Qed.

Lemma scan_file_complete : forall d ch f, in_region d ch (fst f) -> exists x, In x (scan_file d ch f).
Proof.
  intros d ch f [P [E X]]. unfold scan_file. destruct (skipn (length (dpath d)) (fst f)) as [|r rel]; [contradiction|].
  rewrite P, X. cbn. eexists. left. reflexivity.
Qed.

Lemma abs_dir : forall x, removelast (abs_path x) = dir_of x.
Proof. intros x. unfold abs_path. apply removelast_last. Qed.

Lemma reconcile_In : forall old sc y, In y (reconcile old sc) -> exists x, In x sc /\ (y = x \/ (In y old /\ item_eq x y = true)).
Proof.
  intros old sc y H. unfold reconcile in H. apply in_map_iff in H. destruct H as [x [H Hx]].
  exists x. split; [assumption|]. destruct (find (item_eq x) old) as [o|] eqn:F.
  - subst y. apply find_some in F. right. assumption.
  - left. symmetry. assumption.
Qed.
Lemma reconcile_complete : forall old sc x, In x sc -> exists y, In y (reconcile old sc) /\ (y = x \/ item_eq x y = true).
Proof.
  intros old sc x H. exists (match find (item_eq x) old with Some o => o | None => x end). split.
  - unfold reconcile. apply in_map_iff. exists x. split; [reflexivity|assumption].
  - destruct (find (item_eq x) old) as [o|] eqn:F; [right; apply find_some in F; tauto | left; reflexivity].
Qed.

Definition scanned_items (s : state) (d : dobj) (disk : list file) : list item :=
  reconcile (ditems d) (scan_set d (children_of d (listed s)) disk).

Lemma scan_raw_listed : forall s p disk d, find_listed p (listed s) = Some d ->
  listed (scan_raw s p disk) = replace_dir (set_items d (scanned_items s d disk)) (listed s) /\
  next_id (scan_raw s p disk) = next_id s.
Proof.
  intros s p disk d F. unfold scan_raw. rewrite F. fold (scanned_items s d disk).
  set (s1 := prune _). unfold cleanup. cbn [listed next_id].
  destruct (build_listed (scanned_items s d disk) s1) as [A B]. rewrite A, B. split; reflexivity.
Qed.

Lemma sinv_scan : forall s p disk, sinv s -> sinv (scan_raw s p disk).
Proof.
  intros s p disk H. destruct (find_listed p (listed s)) as [d|] eqn:F; [|unfold scan_raw; rewrite F; assumption].
  destruct (find_listed_path _ _ _ F) as [Pd Hd]. pose proof H as [N1 [N2 [B [O I]]]].
  destruct (scan_raw_listed s p disk d F) as [L1 L2]. unfold sinv. rewrite L1, L2.
  assert (Spec : forall y, In y (scanned_items s d disk) -> exists x f, In x (scan_file d (children_of d (listed s)) f) /\
            opath y = opath x /\ dir_of y = dir_of x /\ (y = x \/ In y (ditems d))).
  { intros y Hy. destruct (reconcile_In _ _ y Hy) as [x [Hx E]]. unfold scan_set in Hx. apply in_flat_map in Hx.
    destruct Hx as [f [_ Hx]]. exists x, f. split; [assumption|]. destruct E as [E | [E1 E2]]; [subst; auto|].
    apply item_eq_abs in E2. destruct E2 as [_ [_ [E3 [_ E5]]]]. auto. }
  apply (dinv_replace (listed s) (next_id s) d); [exact H | exact Hd | reflexivity | reflexivity | |].
  - intros y Hy. cbn in Hy. destruct (Spec y Hy) as [x [f [Hx [E1 [E2 E3]]]]].
    destruct E3 as [E3 | E3]; [|apply O; assumption]. subst y.
    destruct (scan_file_spec _ _ _ _ Hx) as [_ [_ [_ [A1 A2]]]]. auto.
  - intros y d' Hy Hd' Hp. cbn in Hy. destruct (Spec y Hy) as [x [f [Hx [E1 [E2 _]]]]]. rewrite E2 in Hp.
    destruct (scan_file_spec _ _ _ _ Hx) as [[R1 [R2 R3]] [A0 [_ [A1 _]]]].
    assert (DX : dir_of x = removelast (fst f)) by (rewrite <- A0; symmetry; apply abs_dir).
    destruct (Nat.le_gt_cases (length (dpath d')) (length (dpath d))) as [|G]; [assumption|]. exfalso.
    assert (PDx : path_prefix (dpath d) (dir_of x) = true) by (unfold dir_of; rewrite A1; apply pp_app).
    assert (PC : path_prefix (dpath d) (dpath d') = true) by (apply (pp_cmp _ _ (dir_of x)); auto; lia).
    assert (In d' (children_of d (listed s))).
    { unfold children_of. apply filter_In. split; [assumption|]. rewrite PC.
      destruct (eqb_path (dpath d') (dpath d)) eqn:Q; [apply eqb_path_true in Q; rewrite Q in G; lia | reflexivity]. }
    assert (X : existsb (fun ch => path_prefix (dpath ch) (removelast (fst f))) (children_of d (listed s)) = true).
    { apply existsb_exists. exists d'. split; [assumption|]. rewrite <- DX. assumption. }
    congruence.
Qed.

Lemma sinv_load_entry : forall s e, sinv s -> sinv (load_entry s e).
Proof.
  intros s [[[p a] m] us] H. unfold load_entry. destruct (find_listed p (listed s)); [apply sinv_update | apply sinv_add]; assumption.
Qed.

Lemma keep_dirs_spec : forall ds es acc, NoDup (map dpath acc) -> (forall e, In e acc -> In e ds) ->
  NoDup (map dpath (keep_dirs ds es acc)) /\ (forall e, In e (keep_dirs ds es acc) -> In e ds).
Proof.
  intros ds. induction es as [|en es IH]; intros acc N S; cbn; [auto|].
  destruct (find_listed (e_path en) ds) as [d|] eqn:F; [|apply IH; assumption].
  destruct (existsb (fun k => eqb_path (dpath k) (dpath d)) acc) eqn:E; [apply IH; assumption|].
  apply IH.
  - rewrite map_app. cbn. apply NoDup_app_snoc; [assumption|]. intros Hi. apply in_map_iff in Hi. destruct Hi as [k [Ek Hk]].
    assert (X : existsb (fun k => eqb_path (dpath k) (dpath d)) acc = true); [|congruence].
    apply existsb_exists. exists k. split; [assumption|]. rewrite Ek. apply eqb_path_refl.
  - intros e He. apply in_app_or in He. destruct He as [He | [He | []]]; [apply S; assumption|]. subst e. apply (find_listed_path _ _ _ F).
Qed.

Lemma sinv_load : forall s es, sinv s -> sinv (load_raw s es).
Proof.
  intros s es H. unfold load_raw.
  assert (G : forall es s, sinv s -> sinv (fold_left load_entry es s)).
  { induction es0 as [|e es0 IH]; intros s0 H0; cbn; [assumption|]. apply IH. apply sinv_load_entry. assumption. }
  specialize (G es s H). set (s1 := fold_left load_entry es s) in *.
  eapply sinv_ext; [apply rebuild_listed | apply rebuild_listed |]. unfold sinv. cbn [listed next_id].
  destruct (keep_dirs_spec (listed s1) es []) as [K1 K2]; [constructor | intros e [] |].
  apply (dinv_sub (listed s1)); [exact G | exact K2 | exact K1].
Qed.

Lemma sinv_step : forall s o, sinv s -> sinv (step s o).
Proof.
  intros s o H. unfold step. eapply sinv_ext; [reflexivity | reflexivity |]. destruct o; cbn.
  - apply sinv_add; assumption.
  - apply sinv_remove; assumption.
  - apply sinv_update; assumption.
  - apply sinv_scan; assumption.
  - apply sinv_load; assumption.
Qed.

Lemma sinv_run_from : forall ops s, sinv s -> sinv (run_from s ops).
Proof.
  unfold run_from. induction ops as [|o ops IH]; intros s H; cbn; [assumption|]. apply IH.
  apply sinv_step; assumption.
Qed.

Lemma sinv_run : forall ops, sinv (run ops).
Proof.
  intros ops. apply sinv_run_from. unfold sinv, init, dinv, owner_ok_l, innermost_l. cbn.
  split; [constructor|]. split; [constructor|]. split; [intros d []|]. split; [intros d x []|intros d d' x []].
Qed.

(* ------------------------------------------------------------------ no directory holds a file twice *)

Definition nodup_l (ds : list dobj) : Prop := forall d, In d ds -> NoDup (map abs_path (ditems d)).

Lemma nodup_union : forall b a, NoDup (map abs_path a) -> NoDup (map abs_path b) ->
  (forall x y, In x a -> In y b -> abs_path x <> abs_path y) -> NoDup (map abs_path (union_eq a b)).
Proof.
  induction b as [|y b IH]; intros a Na Nb D; cbn; [assumption|]. cbn in Nb. inv Nb.
  assert (R : NoDup (map abs_path (union_eq a b))) by (apply IH; auto; intros x z Hx Hz; apply D; [assumption | right; assumption]).
  destruct (existsb (item_eq y) (union_eq a b)); [assumption|].
  rewrite map_app. cbn. apply NoDup_app_snoc; [assumption|]. intros Hi. apply in_map_iff in Hi. destruct Hi as [z [E Hz]].
  apply union_eq_In in Hz. destruct Hz as [Hz | Hz].
  - exact (D z y Hz (or_introl eq_refl) E).
  - apply H1. rewrite <- E. apply in_map. assumption.
Qed.

Lemma map_abs_rehome : forall t l, (forall x, In x l -> path_prefix (dpath t) (dir_of x) = true) ->
  map abs_path (map (rehome t) l) = map abs_path l.
Proof. intros t l H. rewrite map_map. apply map_ext_in. intros x Hx. apply (rehome_spec t x (H x Hx)). Qed.

Lemma map_abs_reconcile : forall old sc, map abs_path (reconcile old sc) = map abs_path sc.
Proof.
  intros old sc. unfold reconcile. rewrite map_map. apply map_ext. intros x.
  destruct (find (item_eq x) old) as [o|] eqn:F; [|reflexivity]. apply find_some in F. destruct F as [_ F].
  apply item_eq_abs in F. symmetry. tauto.
Qed.

Lemma nodup_scan_files : forall d ch l, NoDup (map fst l) -> NoDup (map abs_path (flat_map (scan_file d ch) l)).
Proof.
  intros d ch. induction l as [|f l IH]; intros N; cbn; [constructor|]. cbn in N. inv N. rewrite map_app.
  assert (T : NoDup (map abs_path (flat_map (scan_file d ch) l))) by (apply IH; assumption).
  destruct (scan_file d ch f) as [|x [|x' r]] eqn:E.
  - assumption.
  - cbn. constructor; [|assumption]. intros Hi. apply in_map_iff in Hi. destruct Hi as [z [Ez Hz]].
    apply in_flat_map in Hz. destruct Hz as [g [Hg Hz]].
    assert (Hx : In x (scan_file d ch f)) by (rewrite E; left; reflexivity).
    destruct (scan_file_spec _ _ _ _ Hx) as [_ [A _]]. destruct (scan_file_spec _ _ _ _ Hz) as [_ [A' _]].
    apply H1. rewrite <- A, <- Ez, A'. apply in_map. assumption.
  - exfalso. unfold scan_file in E. destruct (skipn (length (dpath d)) (fst f)); [discriminate|].
    destruct (path_prefix (dpath d) (fst f) && negb (existsb (fun c0 => path_prefix (dpath c0) (removelast (fst f))) ch)); discriminate.
Qed.

Lemma nodup_replace : forall nd ds, nodup_l ds -> NoDup (map abs_path (ditems nd)) -> nodup_l (replace_dir nd ds).
Proof.
  intros nd ds H N e He. apply replace_dir_In in He. destruct He as [[E _] | [He _]]; [subst; assumption | apply H; assumption].
Qed.

Definition sinv2 (s : state) : Prop := sinv s /\ nodup_l (listed s).

Lemma sinv2_ext : forall s s', listed s' = listed s -> next_id s' = next_id s -> sinv2 s -> sinv2 s'.
Proof. intros s s' A B [H1 H2]. split; [eapply sinv_ext; eassumption | rewrite A; assumption]. Qed.

Lemma nodup_add : forall s p a m us, sinv2 s -> nodup_l (listed (add_raw s p a m us)).
Proof.
  intros s p a m us [H ND]. unfold add_raw; rewrite ?choose_parent_eq. destruct (find_listed p (listed s)) eqn:F; [assumption|].
  pose proof H as [N1 [N2 [B [O I]]]].
  destruct (best_parent p (listed s) None) as [par|] eqn:BP.
  - destruct (best_parent_some p (listed s) par BP) as [A [Hpar Max]].
    set (par' := set_items par (filter (fun x => negb (under p x)) (ditems par))).
    set (nd0 := mkDir (next_id s) p a m us []).
    set (moved := union_eq [] (map (rehome nd0) (filter (under p) (ditems par)))).
    rewrite (proj1 (build_listed moved _)). cbn [listed].
    intros e He. apply in_app_or in He. destruct He as [He | [He | []]].
    + revert e He. apply nodup_replace; [assumption|]. cbn. apply NoDup_map_filter. apply ND. assumption.
    + subst e. cbn. unfold moved. apply nodup_union; [constructor | | intros x y []].
      rewrite map_abs_rehome.
      * apply NoDup_map_filter. apply ND. assumption.
      * intros x Hx. apply filter_In in Hx. destruct Hx as [_ U]. exact U.
  - cbn [listed]. intros e He. apply in_app_or in He. destruct He as [He | [He | []]]; [apply ND; assumption | subst e; cbn; constructor].
Qed.

Lemma nodup_update : forall s p m us, sinv2 s -> nodup_l (listed (update_raw s p m us)).
Proof.
  intros s p m us [H ND]. unfold update_raw. destruct (find_listed p (listed s)) as [d|] eqn:F; [|assumption].
  destruct (find_listed_path _ _ _ F) as [_ Hd]. cbn [listed]. apply nodup_replace; [assumption|]. cbn. apply ND. assumption.
Qed.

Lemma nodup_remove : forall s p, sinv2 s -> nodup_l (listed (remove_raw s p)).
Proof.
  intros s p [H ND]. unfold remove_raw; rewrite ?choose_parent_eq. destruct (find_listed p (listed s)) as [d|] eqn:F; [|assumption].
  destruct (find_listed_path _ _ _ F) as [Pd Hd]. pose proof H as [N1 [N2 [B [O I]]]].
  rewrite (proj1 (rebuild_listed _)). cbn [listed].
  set (rest := filter (fun e => negb (eqb_path (dpath e) p)) (listed s)).
  assert (NR : nodup_l rest) by (intros e He; apply ND; eapply filter_sub; exact He).
  destruct (best_parent p rest None) as [par|] eqn:BP; [|assumption].
  destruct (best_parent_some p rest par BP) as [A [Hpar Max]].
  destruct (anc_spec p par A) as [PP [NE LT]].
  assert (HparL : In par (listed s)) by (eapply filter_sub; exact Hpar).
  assert (Under : forall x0, In x0 (ditems d) -> path_prefix (dpath par) (dir_of x0) = true).
  { intros x0 H0. apply (pp_trans _ p); [assumption|]. rewrite <- Pd. apply (dir_of_owner (listed s)); assumption. }
  apply nodup_replace; [assumption|]. cbn. apply nodup_union.
  - apply ND. assumption.
  - rewrite map_abs_rehome by assumption. apply ND. assumption.
  - intros x y Hx Hy E. apply in_map_iff in Hy. destruct Hy as [y0 [Ey Hy0]]. subst y.
    destruct (rehome_spec par y0 (Under y0 Hy0)) as [_ [AE _]]. rewrite AE in E.
    assert (DE : dir_of x = dir_of y0) by (unfold abs_path in E; apply app_inj_tail in E; tauto).
    assert (PD : path_prefix (dpath d) (dir_of x) = true) by (rewrite DE; apply (dir_of_owner (listed s)); assumption).
    pose proof (I par d x HparL Hd Hx PD) as L. rewrite Pd in L. lia.
Qed.

Lemma nodup_scan : forall s p disk, sinv2 s -> nodup_l (listed (scan_raw s p disk)).
Proof.
  intros s p disk [H ND]. destruct (find_listed p (listed s)) as [d|] eqn:F; [|unfold scan_raw; rewrite F; assumption].
  rewrite (proj1 (scan_raw_listed s p disk d F)). apply nodup_replace; [assumption|]. cbn.
  unfold scanned_items. rewrite map_abs_reconcile. unfold scan_set. apply nodup_scan_files. apply nodup_files_spec.
Qed.

Lemma sinv2_step : forall s o, sinv2 s -> sinv2 (step s o).
Proof.
  intros s o H. split; [apply sinv_step; apply H|]. unfold step. cbn [listed prune]. destruct o; cbn [step_raw].
  - apply nodup_add; assumption.
  - apply nodup_remove; assumption.
  - apply nodup_update; assumption.
  - apply nodup_scan; assumption.
  - unfold load_raw. rewrite (proj1 (rebuild_listed _)). cbn [listed].
    assert (G : forall es s, sinv2 s -> sinv2 (fold_left load_entry es s)).
    { induction es as [|e es IH]; intros s0 H0; cbn; [assumption|]. apply IH. destruct e as [[[p a] m] us]. unfold load_entry.
      destruct (find_listed p (listed s0)).
      - split; [apply sinv_update; apply H0 | apply nodup_update; assumption].
      - split; [apply sinv_add; apply H0 | apply nodup_add; assumption]. }
    destruct (G entries s H) as [_ N]. intros e He.
    destruct (keep_dirs_spec (listed (fold_left load_entry entries s)) entries []) as [_ K2]; [constructor | intros e0 [] |].
    apply N. apply K2. assumption.
Qed.

Lemma sinv2_run : forall ops, sinv2 (run ops).
Proof.
  intros ops. unfold run.
  assert (G : forall ops s, sinv2 s -> sinv2 (run_from s ops)).
  { unfold run_from. induction ops0 as [|o ops0 IH]; intros s H; cbn; [assumption|]. apply IH. apply sinv2_step; assumption. }
  apply G. split; [apply (sinv_run []) | intros d []].
Qed.

(* ------------------------------------------------------------------ consequences of the invariant *)

Lemma find_by_did : forall ds d, NoDup (map did ds) -> In d ds -> find (fun e => Nat.eqb (did e) (did d)) ds = Some d.
Proof.
  induction ds as [|e ds IH]; intros d N H; [destruct H|]. cbn in N. inv N. cbn.
  destruct H as [H | H].
  - subst. rewrite Nat.eqb_refl. reflexivity.
  - destruct (Nat.eqb (did e) (did d)) eqn:E; [|apply IH; assumption].
    apply Nat.eqb_eq in E. exfalso. apply H2. rewrite E. apply in_map. assumption.
Qed.

(* the owner pointer of every held item is the directory that holds it *)
Lemma owner_pointer : forall ops d x, In d (listed (run ops)) -> In x (ditems d) ->
  oid x = did d /\ opath x = dpath d /\ find_obj (run ops) (oid x) = Some d.
Proof.
  intros ops d x Hd Hx. destruct (sinv_run ops) as [N1 [N2 [B [O I]]]].
  destruct (O d x Hd Hx) as [E1 E2]. split; [assumption|]. split; [assumption|].
  unfold find_obj. rewrite E1. apply find_by_did; assumption.
Qed.

Lemma app_inj_last : forall A (a b : list A) x y, a ++ [x] = b ++ [y] -> a = b /\ x = y.
Proof. intros. apply app_inj_tail. assumption. Qed.

(* each file is held at most once across the shared directories, by the innermost one containing it *)
Lemma index_partition : forall ops,
  let s := run ops in
  (forall d x, In d (listed s) -> In x (ditems d) ->
     path_prefix (dpath d) (dir_of x) = true /\
     forall d', In d' (listed s) -> path_prefix (dpath d') (dir_of x) = true -> length (dpath d') <= length (dpath d)) /\
  (forall d d' x y, In d (listed s) -> In d' (listed s) -> In x (ditems d) -> In y (ditems d') ->
     abs_path x = abs_path y -> d = d') /\
  (forall d, In d (listed s) -> NoDup (map abs_path (ditems d))).
Proof.
  intros ops s. destruct (sinv2_run ops) as [[N1 [N2 [B [O I]]]] ND]. fold s in N1, N2, B, O, I, ND.
  split; [|split; [|exact ND]].
  - intros d x Hd Hx. split; [apply (dir_of_owner (listed s)); assumption|]. intros d' Hd' Hp. apply (I d d' x); assumption.
  - intros d d' x y Hd Hd' Hx Hy E.
    assert (DE : dir_of x = dir_of y) by (unfold abs_path in E; apply app_inj_tail in E; tauto).
    pose proof (dir_of_owner _ d x O Hd Hx) as P1. pose proof (dir_of_owner _ d' y O Hd' Hy) as P2.
    assert (L1 : length (dpath d') <= length (dpath d)) by (apply (I d d' x); auto; rewrite DE; assumption).
    assert (L2 : length (dpath d) <= length (dpath d')) by (apply (I d' d y); auto; rewrite <- DE; assumption).
    apply (NoDup_map_inj_on _ _ dpath (listed s)); auto.
    apply pp_eq; [|lia]. apply (pp_cmp _ _ (dir_of x)); [assumption | rewrite DE; assumption | lia].
Qed.

(* what the weak sets hold is held by a listed directory *)
Lemma held_by_In : forall ds x, held_by ds x = true -> In x (flat_map ditems ds).
Proof.
  intros ds x H. unfold held_by in H. apply existsb_exists in H. destruct H as [d [Hd H]].
  apply existsb_exists in H. destruct H as [y [Hy E]]. apply item_same_eq in E. subst y.
  apply in_flat_map. exists d. auto.
Qed.

Lemma indexed_listed : forall ops x, In x (indexed (run ops)) -> In x (listed_items (run ops)).
Proof.
  intros ops. unfold run.
  assert (G : forall ops s, (forall x, In x (indexed s) -> In x (listed_items s)) ->
                            forall x, In x (indexed (run_from s ops)) -> In x (listed_items (run_from s ops))).
  { unfold run_from. induction ops0 as [|o ops0 IH]; intros s H; cbn; [assumption|]. apply IH.
    intros x Hx. unfold step, prune in *. cbn in *. apply filter_In in Hx. destruct Hx as [_ Hx]. apply held_by_In. assumption. }
  apply G. intros x [].
Qed.

(* ------------------------------------------------------------------ scan *)

Lemma nodup_files_id : forall disk seen, NoDup (map fst disk) -> (forall f, In f disk -> ~ In (fst f) seen) ->
  nodup_files seen disk = disk.
Proof.
  induction disk as [|f disk IH]; intros seen N H; cbn; [reflexivity|]. cbn in N. inv N.
  destruct (existsb (eqb_path (fst f)) seen) eqn:E.
  - exfalso. apply existsb_exists in E. destruct E as [q [Hq E]]. apply eqb_path_true in E. subst q. exact (H f (or_introl eq_refl) Hq).
  - f_equal. apply IH; [assumption|]. intros g Hg [Q | Q]; [apply H2; rewrite Q; apply in_map; assumption | exact (H g (or_intror Hg) Q)].
Qed.

(* the item set a scan leaves in the directory = the files of the disk in its region, each with its mtime,
   named relative to the scanned directory and pointing at it *)
Lemma scanned_items_exact : forall s d disk, NoDup (map fst disk) ->
  (forall f, In f disk -> in_region d (children_of d (listed s)) (fst f) ->
     exists y, In y (scanned_items s d disk) /\ abs_path y = fst f /\ imtime y = snd f /\ opath y = dpath d) /\
  (forall y, In y (scanned_items s d disk) ->
     exists f, In f disk /\ in_region d (children_of d (listed s)) (fst f) /\ abs_path y = fst f /\ imtime y = snd f /\ opath y = dpath d).
Proof.
  intros s d disk ND. unfold scanned_items, scan_set. rewrite (nodup_files_id disk []) by (auto; intros f _ []). split.
  - intros f Hf R. destruct (scan_file_complete d _ f R) as [x Hx].
    assert (Hs : In x (flat_map (scan_file d (children_of d (listed s))) disk)) by (apply in_flat_map; exists f; split; assumption).
    destruct (reconcile_complete (ditems d) _ x Hs) as [y [Hy E]]. exists y. split; [exact Hy|].
    destruct (scan_file_spec d _ f x Hx) as [_ [A [M [O _]]]].
    destruct E as [E | E]; [subst y; tauto|]. apply item_eq_abs in E. destruct E as [E1 [E2 [E3 _]]].
    rewrite <- E1, <- E2, <- E3. tauto.
  - intros y Hy. destruct (reconcile_In _ _ y Hy) as [x [Hx E]].
    apply in_flat_map in Hx. destruct Hx as [f [Hf Hx]].
    destruct (scan_file_spec d _ f x Hx) as [R [A [M [O _]]]]. exists f. split; [assumption|]. split; [assumption|].
    destruct E as [E | [_ E]]; [subst y; tauto|]. apply item_eq_abs in E. destruct E as [E1 [E2 [E3 _]]].
    rewrite <- E1, <- E2, <- E3. tauto.
Qed.

Lemma find_replace : forall p nd ds d, find_listed p ds = Some d -> dpath nd = p -> find_listed p (replace_dir nd ds) = Some nd.
Proof.
  unfold find_listed, replace_dir. intros p nd ds d H Hp. subst p. revert d H.
  induction ds as [|e ds IH]; intros d H; cbn in *; [discriminate|].
  destruct (eqb_path (dpath e) (dpath nd)) eqn:E.
  - rewrite eqb_path_refl. reflexivity.
  - rewrite E. eapply IH; eassumption.
Qed.

Lemma scan_exact : forall s p disk d, find_listed p (listed s) = Some d ->
  exists d', find_listed p (listed (step s (Scan p disk))) = Some d' /\ ditems d' = scanned_items s d disk /\
             dpath d' = p /\ dmode d' = dmode d /\ dusers d' = dusers d.
Proof.
  intros s p disk d H. exists (set_items d (scanned_items s d disk)).
  destruct (find_listed_path _ _ _ H) as [Hp _]. split; [|cbn; tauto].
  unfold step. cbn [step_raw listed prune]. rewrite (proj1 (scan_raw_listed s p disk d H)).
  eapply find_replace; [eassumption|]. cbn. assumption.
Qed.

(* ------------------------------------------------------------------ stats *)

Lemma stats_files : forall s, snd (get_stats s) = length (listed_items s).
Proof.
  intros s. unfold get_stats, listed_items. cbn. induction (listed s) as [|d ds IH]; cbn; [reflexivity|].
  rewrite app_length. rewrite IH. reflexivity.
Qed.

(* ------------------------------------------------------------------ witnesses for the non-vacuity examples *)

Definition c (s : list nat) : str := map N.of_nat s.
Definition w_d := c [100]. Definition w_sing := c [115;105;110;103;46;109;112;51]. Definition w_ring := c [114;105;110;103;46;109;112;51].
Definition w_ing := c [105;110;103].
Definition ops_f04 : list op :=
  [Add [w_d] (c [97]) Everyone []; Scan [w_d] [([w_d; w_sing], 5%N); ([w_d; w_ring], 6%N)]].
Definition q_f04 : query := mkQuery [] [w_ing] [].
Definition w_P := c [80]. Definition w_C := c [67]. Definition w_top := c [116;111;112]. Definition w_deep := c [100;101;101;112].
Definition ops_zombie : list op :=
  [Add [w_P] (c [97]) Everyone []; Scan [w_P] [([w_P; w_top], 5%N); ([w_P; w_C; w_deep], 6%N)];
   Add [w_P; w_C] (c [98]) Everyone []; Remove [w_P]].

(* ------------------------------------------------------------------ the term-map pass is only an optimisation *)

(* ANY selection of indexed items that keeps every item the regular expressions accept yields the same query result
   (e.g. the union instead of the intersection of the term-map sets: a superset of the intersection, hence sound) *)
Lemma prefilter_benign : forall s q ph (pf : list item) x,
  tm_inv s -> has_inclusion q = true -> lowered q ->
  (forall y, In y pf -> In y (indexed s)) ->
  (forall y, In y (indexed s) -> matches q y = true -> In y pf) ->
  (In x (filter (fun y => matches q y && phrase_free ph y) pf) <-> In x (query_all s q ph)).
Proof.
  intros s q ph pf x Hinv Hi Hl Sub Sound. rewrite (query_all_exact s q ph x Hinv Hi Hl). rewrite filter_In. split.
  - intros [H1 H2]. apply andb_prop in H2. destruct H2. auto.
  - intros [H1 [H2 H3]]. split; [apply Sound; assumption | rewrite H2, H3; reflexivity].
Qed.

(* ------------------------------------------------------------------ folder count *)

Lemma existsb_eqb_path_In : forall x l, existsb (eqb_path x) l = true <-> In x l.
Proof.
  intros x l. rewrite existsb_exists. split.
  - intros [y [Hy E]]. apply eqb_path_true in E. subst. assumption.
  - intros H. exists x. split; [assumption | apply eqb_path_refl].
Qed.

Lemma dedup_map_equiv : forall A (f g : A -> path) l,
  (forall a b, In a l -> In b l -> (f a = f b <-> g a = g b)) -> length (dedup (map f l)) = length (dedup (map g l)).
Proof.
  intros A f g. induction l as [|x l IH]; intros H; cbn; [reflexivity|].
  assert (R : length (dedup (map f l)) = length (dedup (map g l))) by (apply IH; intros a b Ha Hb; apply H; right; assumption).
  assert (E : existsb (eqb_path (f x)) (map f l) = existsb (eqb_path (g x)) (map g l)).
  { apply eq_true_iff_eq. rewrite !existsb_eqb_path_In, !in_map_iff. split; intros [y [Ey Hy]]; exists y; (split; [|assumption]).
    - symmetry. apply (H x y); [left; reflexivity | right; assumption | symmetry; assumption].
    - symmetry. apply (H x y); [left; reflexivity | right; assumption | symmetry; assumption]. }
  rewrite E. destruct (existsb (eqb_path (g x)) (map g l)); cbn; congruence.
Qed.

Lemma dedup_app_disjoint : forall l1 l2, (forall a, In a l1 -> ~ In a l2) ->
  length (dedup (l1 ++ l2)) = length (dedup l1) + length (dedup l2).
Proof.
  induction l1 as [|x l1 IH]; intros l2 H; cbn; [reflexivity|].
  rewrite existsb_app.
  assert (F : existsb (eqb_path x) l2 = false).
  { destruct (existsb (eqb_path x) l2) eqn:E; [|reflexivity]. apply existsb_eqb_path_In in E. exfalso. exact (H x (or_introl eq_refl) E). }
  rewrite F, orb_false_r. specialize (IH l2 (fun a Ha => H a (or_intror Ha))).
  destruct (existsb (eqb_path x) l1); cbn; lia.
Qed.

(* the folder count of get_stats is the number of distinct directories (absolute paths) that contain a held file *)
Lemma stats_folders_l : forall ds n, dinv ds n ->
  fold_right (fun d k => length (dedup (map isub (ditems d))) + k) 0 ds = length (dedup (map dir_of (flat_map ditems ds))).
Proof.
  induction ds as [|d ds IH]; intros n H; cbn; [reflexivity|].
  pose proof H as [N1 [N2 [B [O I]]]].
  assert (Hsub : dinv ds n).
  { apply (dinv_sub (d :: ds) n ds H); [intros e He; right; assumption | cbn in N1; inv N1; assumption]. }
  rewrite (IH n Hsub). rewrite map_app. rewrite dedup_app_disjoint.
  - f_equal. apply dedup_map_equiv. intros a b Ha Hb.
    destruct (O d a (or_introl eq_refl) Ha) as [_ Ea]. destruct (O d b (or_introl eq_refl) Hb) as [_ Eb].
    unfold dir_of. rewrite Ea, Eb. split; [intros E; rewrite E; reflexivity | intros E; apply app_inv_head in E; assumption].
  - intros p Hp Hq. apply in_map_iff in Hp. destruct Hp as [x [Ex Hx]]. apply in_map_iff in Hq. destruct Hq as [y [Ey Hy]].
    apply in_flat_map in Hy. destruct Hy as [d' [Hd' Hy]]. subst p.
    pose proof (dir_of_owner _ d x O (or_introl eq_refl) Hx) as P1. pose proof (dir_of_owner _ d' y O (or_intror Hd') Hy) as P2.
    assert (L1 : length (dpath d') <= length (dpath d)) by (apply (I d d' x); auto; [left; reflexivity | right; assumption | rewrite <- Ey; assumption]).
    assert (L2 : length (dpath d) <= length (dpath d')) by (apply (I d' d y); auto; [right; assumption | left; reflexivity | rewrite Ey; assumption]).
    assert (E : dpath d = dpath d') by (apply pp_eq; [|lia]; apply (pp_cmp _ _ (dir_of x)); [assumption | rewrite <- Ey; assumption | lia]).
    cbn in N1. inv N1. apply H2. rewrite E. apply in_map. assumption.
Qed.

Lemma stats_folders : forall ops,
  fst (get_stats (run ops)) = length (dedup (map dir_of (listed_items (run ops)))).
Proof. intros ops. unfold get_stats, listed_items. cbn [fst]. apply (stats_folders_l _ _ (sinv_run ops)). Qed.

(* a settings list that names a path twice (the F29 witness) lists the directory once *)
Definition ops_dup : list op :=
  [LoadSettings [([w_d], c [97], Everyone, []); ([w_d], c [97], Friends, [])]; Scan [w_d] [([w_d; w_sing], 5%N)]].

(* items of different shared directories are never equal in the sense of Python (SharedItem.__eq__ includes the directory):
   files with the same relative path and mtime below two directories stay two items in every set *)
Lemma items_distinct : forall ops d d' x y, In d (listed (run ops)) -> In d' (listed (run ops)) ->
  In x (ditems d) -> In y (ditems d') -> item_eq x y = true -> d = d'.
Proof.
  intros ops d d' x y Hd Hd' Hx Hy E. destruct (sinv_run ops) as [N1 [_ [_ [O _]]]].
  apply item_eq_fields in E. destruct E as [E _].
  destruct (O d x Hd Hx) as [_ P1]. destruct (O d' y Hd' Hy) as [_ P2].
  apply (NoDup_map_inj_on _ _ dpath (listed (run ops))); auto. congruence.
Qed.
