From Slsk Require Import Base.Tac.
From SlskGen Require Import CharTable.
From Slsk Require Import C07.Model.

(* ------------------------------------------------------------------ character table *)

Lemma table_ok_true : table_ok = true.
Proof. vm_compute. reflexivity. Qed.

Lemma bst_find_in : forall t c e, bst_find t c = Some e -> In e (bst_list t) /\ fst e = c.
Proof.
  induction t as [|l IHl k v r IHr]; intros c e H; cbn in H; [discriminate|].
  destruct (N.compare c k) eqn:E.
  - inv H. apply N.compare_eq_iff in E. subst. split; [|reflexivity]. cbn. apply in_or_app. right. left. reflexivity.
  - destruct (IHl c e H) as [H1 H2]. split; [|assumption]. cbn. apply in_or_app. left. assumption.
  - destruct (IHr c e H) as [H1 H2]. split; [|assumption]. cbn. apply in_or_app. right. right. assumption.
Qed.

Lemma lookup_in : forall c e, lookup c = Some e -> In e table /\ fst e = c.
Proof. unfold lookup, table. intros c e H. apply bst_find_in. exact H. Qed.

Lemma entry_ok_all : forall c e, lookup c = Some e -> entry_ok e = true.
Proof.
  intros c e H. apply lookup_in in H. destruct H as [H _].
  pose proof table_ok_true as T. unfold table_ok in T. rewrite forallb_forall in T. apply T. exact H.
Qed.

Lemma lower_idem : forall c, lower (lower c) = lower c.
Proof.
  intros c. destruct (lookup c) as [e|] eqn:E.
  - pose proof (entry_ok_all c e E) as H. destruct (lookup_in c e E) as [_ F].
    unfold entry_ok in H. rewrite F in H. apply andb_prop in H. destruct H as [H _].
    apply andb_prop in H. destruct H as [H _]. apply N.eqb_eq in H. exact H.
  - assert (L : lower c = c) by (unfold lower; rewrite E; reflexivity). rewrite L. exact L.
Qed.

Lemma is_word_lower : forall c, is_word (lower c) = is_word c.
Proof.
  intros c. destruct (lookup c) as [e|] eqn:E.
  - pose proof (entry_ok_all c e E) as H. destruct (lookup_in c e E) as [_ F].
    unfold entry_ok in H. rewrite F in H. apply andb_prop in H. destruct H as [H _].
    apply andb_prop in H. destruct H as [_ H]. apply eqb_prop in H. exact H.
  - assert (L : lower c = c) by (unfold lower; rewrite E; reflexivity). rewrite L. reflexivity.
Qed.

Lemma lower_s_idem : forall s, lower_s (lower_s s) = lower_s s.
Proof. induction s; cbn; [reflexivity|]. rewrite lower_idem. f_equal. exact IHs. Qed.

(* ------------------------------------------------------------------ boolean equalities *)

Lemma eqb_list_true : forall A (e : A -> A -> bool), (forall x y, e x y = true <-> x = y) ->
  forall a b, eqb_list e a b = true <-> a = b.
Proof.
  intros A e He. induction a as [|x a IH]; destruct b as [|y b]; cbn; split; intros H; try reflexivity; try discriminate.
  - apply andb_prop in H. destruct H as [H1 H2]. apply He in H1. apply IH in H2. subst. reflexivity.
  - inv H. apply andb_true_intro. split; [apply He; reflexivity | apply IH; reflexivity].
Qed.
Lemma eqb_str_true : forall a b, eqb_str a b = true <-> a = b.
Proof. apply eqb_list_true. intros; apply N.eqb_eq. Qed.
Lemma eqb_path_true : forall a b, eqb_path a b = true <-> a = b.
Proof. apply eqb_list_true. apply eqb_str_true. Qed.
Lemma eqb_str_refl : forall a, eqb_str a a = true.
Proof. intros; apply eqb_str_true; reflexivity. Qed.
Lemma eqb_path_refl : forall a, eqb_path a a = true.
Proof. intros; apply eqb_path_true; reflexivity. Qed.

Lemma mem_str_In : forall w l, mem_str w l = true <-> In w l.
Proof.
  intros w l. unfold mem_str. rewrite existsb_exists. split.
  - intros [x [H1 H2]]. apply eqb_str_true in H2. subst. exact H1.
  - intros H. exists w. split; [exact H | apply eqb_str_refl].
Qed.

(* ------------------------------------------------------------------ words *)

Lemma split_nw_nonnil : forall s, split_nw s <> [].
Proof.
  induction s as [|c s IH]; cbn; [discriminate|].
  destruct (is_word c); [destruct (split_nw s); discriminate | discriminate].
Qed.

(* a non-word character cuts the string for re.split *)
Lemma split_nw_cut : forall a d b, is_word d = false -> split_nw (a ++ d :: b) = split_nw a ++ split_nw b.
Proof.
  induction a as [|c a IH]; intros d b Hd; cbn.
  - rewrite Hd. reflexivity.
  - rewrite (IH d b Hd). destruct (is_word c); [|reflexivity].
    destruct (split_nw a) as [|w ws] eqn:E; [exfalso; exact (split_nw_nonnil a E)|]. reflexivity.
Qed.

Lemma words_nil : words [] = [].
Proof. reflexivity. Qed.

Lemma words_cut : forall a d b, is_word d = false -> words (a ++ d :: b) = words a ++ words b.
Proof. intros. unfold words. rewrite split_nw_cut by assumption. apply filter_app. Qed.

Lemma words_cons_nw : forall d b, is_word d = false -> words (d :: b) = words b.
Proof. intros d b H. exact (words_cut [] d b H). Qed.

Lemma words_snoc_nw : forall a d, is_word d = false -> words (a ++ [d]) = words a.
Proof. intros a d H. rewrite (words_cut a d [] H). rewrite words_nil. apply app_nil_r. Qed.

(* left / right delimiters as the regular expressions see them *)
Definition bnd_before (pre : str) : Prop := pre = [] \/ exists pre' d, pre = pre' ++ [d] /\ is_word d = false.

Lemma words_app_bnd_after : forall a b, bnd_after b = true -> words (a ++ b) = words a ++ words b.
Proof.
  intros a b H. destruct b as [|d b]; cbn in H.
  - rewrite app_nil_r, words_nil, app_nil_r. reflexivity.
  - apply negb_true_iff in H. rewrite words_cut by assumption. rewrite (words_cons_nw d b H). reflexivity.
Qed.

Lemma words_app_bnd_before : forall a b, bnd_before a -> words (a ++ b) = words a ++ words b.
Proof.
  intros a b [H | [pre [d [H Hd]]]]; subst; [reflexivity|].
  rewrite <- app_assoc. cbn. rewrite words_cut by assumption. rewrite words_snoc_nw by assumption. reflexivity.
Qed.

(* ------------------------------------------------------------------ matcher *)

Lemma prefix_ci_lower : forall t p r, lower_s t = t -> prefix_ci t p = Some r -> lower_s p = t ++ lower_s r.
Proof.
  induction t as [|a t IH]; intros p r Ht H; cbn in *.
  - inv H. reflexivity.
  - destruct p as [|b p]; [discriminate|]. inv Ht. destruct (ci_eq a b) eqn:E; [|discriminate].
    unfold ci_eq in E. apply N.eqb_eq in E. cbn. rewrite <- E. rewrite H1. rewrite H1 in *.
    rewrite H2. f_equal. apply IH; assumption.
Qed.

Lemma bnd_after_lower : forall r, bnd_after (lower_s r) = bnd_after r.
Proof. destruct r; cbn; [reflexivity|]. rewrite is_word_lower. reflexivity. Qed.

Lemma bnd_before_lower : forall pre, bnd_before pre -> bnd_before (lower_s pre).
Proof.
  intros pre [H | [pre' [d [H Hd]]]]; subst; [left; reflexivity|].
  right. exists (lower_s pre'), (lower d). split.
  - unfold lower_s. rewrite map_app. reflexivity.
  - rewrite is_word_lower. exact Hd.
Qed.

(* what a successful search of the plain pattern means *)
Lemma occ_plain_inv : forall t p at_b run, occ false t at_b run p = true ->
  exists pre post r, p = pre ++ post /\ prefix_ci t post = Some r /\ bnd_after r = true /\
    ((pre = [] /\ at_b = true) \/ exists pre' d, pre = pre' ++ [d] /\ is_word d = false).
Proof.
  intros t. induction p as [|c p IH]; intros at_b run H; cbn in H.
  - rewrite orb_false_r in H. apply andb_prop in H. destruct H as [Ha Hh]. unfold hit in Hh.
    destruct (prefix_ci t []) as [r|] eqn:E; [|discriminate].
    exists [], [], r. repeat split; try assumption. left. split; [reflexivity|assumption].
  - apply orb_prop in H. destruct H as [H | H].
    + apply andb_prop in H. destruct H as [Ha Hh]. unfold hit in Hh.
      destruct (prefix_ci t (c :: p)) as [r|] eqn:E; [|discriminate].
      exists [], (c :: p), r. repeat split; try assumption. left. split; [reflexivity|assumption].
    + apply IH in H. destruct H as [pre [post [r [Hp [Hpre [Hb Hl]]]]]].
      exists (c :: pre), post, r. split; [cbn; rewrite Hp; reflexivity|]. split; [assumption|]. split; [assumption|].
      right. destruct Hl as [[Hn Hat] | [pre' [d [Hn Hd]]]].
      * subst pre. exists [], c. split; [reflexivity|]. apply negb_true_iff in Hat. exact Hat.
      * subst pre. exists (c :: pre'), d. split; [reflexivity|assumption].
Qed.

(* Appendix D of DESIGN.md: a term accepted by the plain pattern contributes whole words of the lower-cased path *)
Lemma plain_words : forall t p, lower_s t = t -> term_occurs false t p = true -> incl (words t) (words (lower_s p)).
Proof.
  intros t p Ht H. unfold term_occurs in H. apply occ_plain_inv in H.
  destruct H as [pre [post [r [Hp [Hpre [Hb Hl]]]]]].
  assert (Bb : bnd_before pre).
  { destruct Hl as [[Hn _] | Hx]; [left; assumption | right; assumption]. }
  pose proof (prefix_ci_lower t post r Ht Hpre) as E.
  subst p. unfold lower_s at 1. rewrite map_app. fold (lower_s pre). fold (lower_s post). rewrite E.
  rewrite words_app_bnd_before by (apply bnd_before_lower; assumption).
  rewrite words_app_bnd_after by (rewrite bnd_after_lower; assumption).
  intros w Hw. apply in_or_app. right. apply in_or_app. left. exact Hw.
Qed.

(* the wildcard pattern never constrains the left side: "(?:(?<=\W|_)|^)[^\W_]*" can always reach back to a word start *)
Lemma occ_wild_run : forall t p at_b, occ true t at_b true p = (fix any (p : str) : bool := hit t p || match p with [] => false | _ :: p' => any p' end) p.
Proof.
  intros t. induction p as [|c p IH]; intros at_b; cbn; [reflexivity|].
  assert (R : (negb (is_word c) || is_word c) = true) by (destruct (is_word c); reflexivity).
  rewrite R. rewrite IH. reflexivity.
Qed.

(* ------------------------------------------------------------------ term map invariant *)

Definition tm_inv (s : state) : Prop :=
  forall x, In x (indexed s) -> forall w, In w (item_words x) -> In w (keys s).

Lemma add_keys_keeps : forall ws ks w, In w ks -> In w (add_keys ws ks).
Proof.
  unfold add_keys. induction ws as [|u ws IH]; intros ks w H; cbn; [assumption|].
  apply IH. destruct (mem_str u ks); [assumption | apply in_or_app; left; assumption].
Qed.
Lemma add_keys_adds : forall ws ks w, In w ws -> In w (add_keys ws ks).
Proof.
  unfold add_keys. induction ws as [|u ws IH]; intros ks w H; cbn; [destruct H|].
  destruct H as [H | H].
  - subst. apply add_keys_keeps. destruct (mem_str w ks) eqn:E; [apply mem_str_In; assumption | apply in_or_app; right; left; reflexivity].
  - apply IH. assumption.
Qed.

Lemma tm_inv_index_item : forall s x, tm_inv s -> tm_inv (index_item s x).
Proof.
  intros s x H y Hy w Hw. unfold index_item in *. cbn in *.
  destruct (existsb (item_eq x) (indexed s)).
  - apply add_keys_keeps. eapply H; eassumption.
  - apply in_app_or in Hy. destruct Hy as [Hy | [Hy | []]].
    + apply add_keys_keeps. eapply H; eassumption.
    + subst y. apply add_keys_adds. assumption.
Qed.

Lemma tm_inv_build : forall its s, tm_inv s -> tm_inv (build_term_map s its).
Proof.
  unfold build_term_map. induction its as [|x its IH]; intros s H; cbn; [assumption|].
  apply IH. apply tm_inv_index_item. assumption.
Qed.

Lemma tm_inv_cleanup : forall s, tm_inv s -> tm_inv (cleanup s).
Proof.
  intros s H x Hx w Hw. unfold cleanup in *. cbn in *. apply filter_In. split.
  - eapply H; eassumption.
  - apply existsb_exists. exists x. split; [assumption|]. apply mem_str_In. assumption.
Qed.

Lemma tm_inv_prune : forall s, tm_inv s -> tm_inv (prune s).
Proof.
  intros s H x Hx w Hw. unfold prune in *. cbn in *. apply filter_In in Hx. destruct Hx as [Hx _]. eapply H; eassumption.
Qed.

Lemma tm_inv_rc_prune : forall s, tm_inv s -> tm_inv (rc_prune s).
Proof.
  intros s H x Hx w Hw. unfold rc_prune in *. cbn in *. apply filter_In in Hx. destruct Hx as [Hx _]. eapply H; eassumption.
Qed.

(* tm_inv only looks at keys and indexed *)
Lemma tm_inv_ext : forall s s', keys s' = keys s -> indexed s' = indexed s -> tm_inv s -> tm_inv s'.
Proof. intros s s' Hk Hi H x Hx w Hw. rewrite Hk. rewrite Hi in Hx. eapply H; eassumption. Qed.

Lemma add_raw_tm : forall s p a m us, keys (add_raw s p a m us) = keys s /\ indexed (add_raw s p a m us) = indexed s.
Proof.
  intros. unfold add_raw. destruct (find_listed p (listed s)); [split; reflexivity|].
  destruct (best_parent p (listed s) None); split; reflexivity.
Qed.
Lemma update_raw_tm : forall s p m us, keys (update_raw s p m us) = keys s /\ indexed (update_raw s p m us) = indexed s.
Proof. intros. unfold update_raw. destruct (find_listed p (listed s)); split; reflexivity. Qed.

Lemma tm_inv_add : forall s p a m us, tm_inv s -> tm_inv (add_raw s p a m us).
Proof. intros. destruct (add_raw_tm s p a m us). eapply tm_inv_ext; eassumption. Qed.
Lemma tm_inv_update : forall s p m us, tm_inv s -> tm_inv (update_raw s p m us).
Proof. intros. destruct (update_raw_tm s p m us). eapply tm_inv_ext; eassumption. Qed.

Lemma tm_inv_remove : forall s p, tm_inv s -> tm_inv (remove_raw s p).
Proof.
  intros s p H. unfold remove_raw. destruct (find_listed p (listed s)); [|assumption].
  apply tm_inv_cleanup. eapply tm_inv_ext; [| |exact H]; reflexivity.
Qed.

Lemma tm_inv_scan : forall s p disk, tm_inv s -> tm_inv (scan_raw s p disk).
Proof.
  intros s p disk H. unfold scan_raw. destruct (find_listed p (listed s)); [|assumption].
  apply tm_inv_cleanup. apply tm_inv_build. apply tm_inv_rc_prune. eapply tm_inv_ext; [| |exact H]; reflexivity.
Qed.

Lemma tm_inv_load_entry : forall s e, tm_inv s -> tm_inv (load_entry s e).
Proof.
  intros s [[[p a] m] us] H. unfold load_entry. destruct (find_listed p (listed s)); [apply tm_inv_update | apply tm_inv_add]; assumption.
Qed.

Lemma tm_inv_fold_build : forall ds s, tm_inv s -> tm_inv (fold_left (fun st d => build_term_map st (ditems d)) ds s).
Proof. induction ds as [|d ds IH]; intros s H; cbn; [assumption|]. apply IH. apply tm_inv_build. assumption. Qed.

Lemma tm_inv_load : forall s es, tm_inv s -> tm_inv (load_raw s es).
Proof.
  intros s es H. unfold load_raw. apply tm_inv_fold_build. intros x Hx. cbn in Hx. destruct Hx.
Qed.

Lemma tm_inv_step : forall s o, tm_inv s -> tm_inv (step s o).
Proof.
  intros s o H. unfold step. apply tm_inv_prune. destruct o; cbn.
  - apply tm_inv_add; assumption.
  - apply tm_inv_remove; assumption.
  - apply tm_inv_update; assumption.
  - apply tm_inv_scan; assumption.
  - apply tm_inv_load; assumption.
Qed.

Lemma tm_inv_run_from : forall ops s, tm_inv s -> tm_inv (run_from s ops).
Proof. unfold run_from. induction ops as [|o ops IH]; intros s H; cbn; [assumption|]. apply IH. apply tm_inv_step. assumption. Qed.

Lemma termmap_inv : forall ops, tm_inv (run ops).
Proof. intros. unfold run. apply tm_inv_run_from. intros x Hx. destruct Hx. Qed.

(* after a scan every item of the scanned directory is filed in the term map (up to Python equality) *)
Lemma index_item_has : forall s x, existsb (item_eq x) (indexed (index_item s x)) = true.
Proof.
  intros s x. unfold index_item. cbn. destruct (existsb (item_eq x) (indexed s)) eqn:E; [assumption|].
  rewrite existsb_app. cbn. unfold item_eq at 2. rewrite !eqb_path_refl, eqb_str_refl, N.eqb_refl. cbn. apply orb_true_r.
Qed.
Lemma index_item_mono : forall s y x, existsb (item_eq x) (indexed s) = true -> existsb (item_eq x) (indexed (index_item s y)) = true.
Proof.
  intros s y x H. unfold index_item. cbn. destruct (existsb (item_eq y) (indexed s)); [assumption|].
  rewrite existsb_app. rewrite H. reflexivity.
Qed.
Lemma build_mono : forall its s x, existsb (item_eq x) (indexed s) = true -> existsb (item_eq x) (indexed (build_term_map s its)) = true.
Proof.
  unfold build_term_map. induction its as [|y its IH]; intros s x H; cbn; [assumption|]. apply IH. apply index_item_mono. assumption.
Qed.
Lemma build_has : forall its s x, In x its -> existsb (item_eq x) (indexed (build_term_map s its)) = true.
Proof.
  unfold build_term_map. induction its as [|y its IH]; intros s x H; cbn; [destruct H|].
  destruct H as [H | H].
  - subst. apply (build_mono its). apply index_item_has.
  - apply IH. assumption.
Qed.

(* ------------------------------------------------------------------ prefilter *)

Lemma incl_keys_all : forall ks l, (forall u, In u l -> In u ks) -> incl_keys ks l = Some l.
Proof.
  induction l as [|u l IH]; intros H; cbn; [reflexivity|].
  assert (M : mem_str u ks = true) by (apply mem_str_In; apply H; left; reflexivity).
  rewrite M. rewrite IH; [reflexivity|]. intros v Hv. apply H. right. assumption.
Qed.

Lemma collect_all : forall A (f : A -> option (list str)) (P : str -> Prop) l,
  (forall t, In t l -> exists r, f t = Some r /\ forall u, In u r -> P u) ->
  exists kl, collect f l = Some kl /\ forall u, In u kl -> P u.
Proof.
  intros A f P. induction l as [|t l IH]; intros H; cbn.
  - exists []. split; [reflexivity|]. intros u [].
  - destruct (H t (or_introl eq_refl)) as [r [Hr Pr]].
    destruct IH as [kl [Hk Pk]]; [intros t' Ht'; apply H; right; assumption|].
    rewrite Hr, Hk. exists (r ++ kl). split; [reflexivity|].
    intros u Hu. apply in_app_or in Hu. destruct Hu; [apply Pr | apply Pk]; assumption.
Qed.

Definition lowered (q : query) : Prop := forall t, In t (q_incl q) -> lower_s t = t.

Lemma prefilter_sound_partial : forall s q x,
  tm_inv s -> q_wild q = [] -> lowered q -> In x (indexed s) ->
  (forall t, In t (q_incl q) -> term_occurs false t (qpath x) = true) ->
  In x (prefilter s q).
Proof.
  intros s q x Hinv Hw Hl Hx Hocc. unfold prefilter, prefilter_keys. rewrite Hw. cbn.
  destruct (collect_all str (fun t => incl_keys (keys s) (words t)) (fun u => In u (item_words x)) (q_incl q)) as [kl [Hk Pk]].
  { intros t Ht. exists (words t). split.
    - apply incl_keys_all. intros u Hu. apply (Hinv x Hx). unfold item_words. apply (plain_words t (qpath x)); auto.
    - intros u Hu. unfold item_words. apply (plain_words t (qpath x)); auto. }
  rewrite Hk. rewrite app_nil_r. apply filter_In. split; [assumption|].
  apply forallb_forall. intros k Hkk. unfold filed_under. apply mem_str_In. apply Pk. assumption.
Qed.

(* ------------------------------------------------------------------ query *)

Lemma prefilter_sub : forall s q x, In x (prefilter s q) -> In x (indexed s).
Proof.
  intros s q x H. unfold prefilter in H. destruct (prefilter_keys (keys s) q); [|destruct H].
  apply filter_In in H. tauto.
Qed.

Lemma firstn_In : forall A n (l : list A) x, In x (firstn n l) -> In x l.
Proof. intros A n l x H. rewrite <- (firstn_skipn n l). apply in_or_app. left. assumption. Qed.

Lemma query_all_sound : forall s q ph x, In x (query_all s q ph) ->
  In x (indexed s) /\ matches q x = true /\ phrase_free ph x = true.
Proof.
  intros s q ph x H. unfold query_all in H. destruct (has_inclusion q); [|destruct H].
  apply filter_In in H. destruct H as [H1 H2]. apply andb_prop in H2. destruct H2.
  split; [eapply prefilter_sub; eassumption|]. split; assumption.
Qed.

Lemma query_sound : forall s q ph n x, In x (query_items s q ph n) ->
  In x (indexed s) /\ matches q x = true /\ phrase_free ph x = true.
Proof. intros s q ph n x H. apply query_all_sound. unfold query_items in H. eapply firstn_In; eassumption. Qed.

Lemma matches_incl : forall q x, matches q x = true -> forall t, In t (q_incl q) -> term_occurs false t (qpath x) = true.
Proof.
  intros q x H t Ht. unfold matches in H. apply andb_prop in H. destruct H as [H _]. apply andb_prop in H. destruct H as [H _].
  rewrite forallb_forall in H. apply H. assumption.
Qed.

Lemma query_all_exact_partial : forall s q ph x,
  tm_inv s -> q_wild q = [] -> q_incl q <> [] -> lowered q ->
  (In x (query_all s q ph) <-> In x (indexed s) /\ matches q x = true /\ phrase_free ph x = true).
Proof.
  intros s q ph x Hinv Hw Hne Hl. split; [apply query_all_sound|].
  intros [Hx [Hm Hp]]. unfold query_all.
  assert (Hi : has_inclusion q = true) by (unfold has_inclusion; destruct (q_incl q); [contradiction | reflexivity]).
  rewrite Hi. apply filter_In. split.
  - apply prefilter_sound_partial; auto. apply matches_incl. assumption.
  - rewrite Hm, Hp. reflexivity.
Qed.

Lemma query_exact_partial : forall s q ph n x,
  tm_inv s -> q_wild q = [] -> q_incl q <> [] -> lowered q -> length (query_all s q ph) <= n ->
  (In x (query_items s q ph n) <-> In x (indexed s) /\ matches q x = true /\ phrase_free ph x = true).
Proof.
  intros s q ph n x Hinv Hw Hne Hl Hn. unfold query_items. rewrite firstn_all2 by assumption.
  apply query_all_exact_partial; assumption.
Qed.

Lemma cap : forall s q ph n,
  length (query_items s q ph n) = Nat.min n (length (query_all s q ph)) /\
  (forall x, In x (query_items s q ph n) -> In x (query_all s q ph)).
Proof.
  intros. unfold query_items. split; [apply firstn_length|]. intros x H. eapply firstn_In; eassumption.
Qed.

(* the parser only produces lower-cased terms *)
Lemma add_term_In : forall t l u, In u (add_term t l) -> u = t \/ In u l.
Proof.
  intros t l u H. unfold add_term in H. destruct (mem_str t l); [right; assumption|].
  apply in_app_or in H. destruct H as [H | [H | []]]; [right; assumption | left; symmetry; assumption].
Qed.

Lemma parse_term_lowered : forall q term, lowered q -> lowered (parse_term q term).
Proof.
  intros q term H. unfold parse_term. destruct (negb (existsb is_word (lower_s term))); [assumption|].
  destruct term as [|c term]; [assumption|].
  destruct (N.eqb c STAR); [exact H|]. destruct (N.eqb c DASH); [exact H|].
  intros t Ht. cbn in Ht. apply add_term_In in Ht. destruct Ht as [Ht | Ht]; [|apply H; assumption].
  subst t. exact (lower_s_idem (c :: term)).
Qed.

Lemma parse_lowered : forall s, lowered (parse s).
Proof.
  intros s. unfold parse. generalize (split_ws s). intros l.
  assert (G : forall l q, lowered q -> lowered (fold_left parse_term l q)).
  { induction l0 as [|t l0 IH]; intros q H; cbn; [assumption|]. apply IH. apply parse_term_lowered. assumption. }
  apply G. intros t [].
Qed.

(* ------------------------------------------------------------------ refutations (finding F04, F05b) *)

Definition c (s : list nat) : str := map N.of_nat s.
Definition w_d := c [100]. Definition w_sing := c [115;105;110;103;46;109;112;51]. Definition w_ring := c [114;105;110;103;46;109;112;51].
Definition w_ing := c [105;110;103].
Definition ops_f04 : list op :=
  [Add [w_d] (c [97]) Everyone []; Scan [w_d] [([w_d; w_sing], 5%N); ([w_d; w_ring], 6%N)]].
Definition q_f04 : query := mkQuery [] [w_ing] [].

Lemma prefilter_sound_refuted : exists ops q x,
  In x (indexed (run ops)) /\ matches q x = true /\ ~ In x (prefilter (run ops) q).
Proof.
  exists ops_f04, q_f04, (mkItem 0 [w_d] [] w_sing 5%N).
  split; [vm_compute; left; reflexivity|]. split; [vm_compute; reflexivity|]. vm_compute. intros [].
Qed.

Lemma query_exact_refuted : exists ops q x n,
  length (query_all (run ops) q []) <= n /\
  In x (indexed (run ops)) /\ matches q x = true /\ phrase_free [] x = true /\ ~ In x (query_items (run ops) q [] n).
Proof.
  exists ops_f04, q_f04, (mkItem 0 [w_d] [] w_sing 5%N), 100.
  split; [vm_compute; lia|]. split; [vm_compute; left; reflexivity|].
  split; [vm_compute; reflexivity|]. split; [reflexivity|]. vm_compute. intros [].
Qed.

(* "only files of shared directories are returned" *)
Definition w_P := c [80]. Definition w_C := c [67]. Definition w_top := c [116;111;112]. Definition w_deep := c [100;101;101;112].
Definition ops_zombie : list op :=
  [Add [w_P] (c [97]) Everyone []; Scan [w_P] [([w_P; w_top], 5%N); ([w_P; w_C; w_deep], 6%N)];
   Add [w_P; w_C] (c [98]) Everyone []; Remove [w_P]].

Lemma query_only_listed_refuted : exists ops q x,
  In x (query_items (run ops) q [] 100) /\ ~ In x (listed_items (run ops)).
Proof.
  exists ops_zombie, (mkQuery [w_top] [] []), (mkItem 0 [w_P] [] w_top 5%N).
  split; [vm_compute; left; reflexivity|]. vm_compute. intros [H | []]. discriminate H.
Qed.

(* F05: after adding a nested directory the moved item still points at (and is named relative to) the parent *)
Lemma owner_pointer_refuted : exists ops d x,
  In d (listed (run ops)) /\ In x (ditems d) /\ oid x <> did d /\ opath x <> dpath d.
Proof.
  exists (firstn 3 ops_zombie), (mkDir 1 [w_P; w_C] (c [98]) Everyone [] [mkItem 0 [w_P] [w_C] w_deep 6%N]), (mkItem 0 [w_P] [w_C] w_deep 6%N).
  split; [vm_compute; right; left; reflexivity|]. split; [left; reflexivity|]. split; cbn; [lia | discriminate].
Qed.

(* ------------------------------------------------------------------ scan *)

Lemma is_prefix_split : forall (a b : path), path_prefix a b = true -> b = a ++ skipn (length a) b.
Proof.
  unfold path_prefix. induction a as [|x a IH]; intros b H; cbn in *; [reflexivity|].
  destruct b as [|y b]; [discriminate|]. apply andb_prop in H. destruct H as [H1 H2].
  apply eqb_str_true in H1. subst y. cbn. f_equal. apply IH. assumption.
Qed.

Lemma item_eq_fields : forall x y, item_eq x y = true ->
  opath x = opath y /\ isub x = isub y /\ iname x = iname y /\ imtime x = imtime y.
Proof.
  intros x y H. unfold item_eq in H. repeat (apply andb_prop in H; destruct H as [H ?]).
  apply eqb_path_true in H. apply eqb_path_true in H2. apply eqb_str_true in H1. apply N.eqb_eq in H0. tauto.
Qed.

Lemma item_eq_abs : forall x y, item_eq x y = true -> abs_path x = abs_path y /\ imtime x = imtime y /\ opath x = opath y /\ qpath x = qpath y.
Proof.
  intros x y H. apply item_eq_fields in H. destruct H as [H1 [H2 [H3 H4]]].
  unfold abs_path, qpath. rewrite H1, H2, H3. tauto.
Qed.

(* the files scan_directory picks for directory d: below d, and not inside a nested shared directory *)
Definition in_region (d : dobj) (children : list dobj) (fp : path) : Prop :=
  path_prefix (dpath d) fp = true /\ skipn (length (dpath d)) fp <> [] /\
  existsb (fun ch => path_prefix (dpath ch) (removelast fp)) children = false.

Lemma scan_file_spec : forall d ch f x, In x (scan_file d ch f) ->
  in_region d ch (fst f) /\ abs_path x = fst f /\ imtime x = snd f /\ opath x = dpath d /\ oid x = did d.
Proof.
  intros d ch f x H. unfold scan_file in H.
  destruct (skipn (length (dpath d)) (fst f)) as [|r rel] eqn:E; [destruct H|].
  destruct (path_prefix (dpath d) (fst f)) eqn:P; cbn in H; [|destruct H].
  destruct (existsb (fun c0 => path_prefix (dpath c0) (removelast (fst f))) ch) eqn:X; cbn in H; [destruct H|].
  destruct H as [H | []]. subst x. unfold in_region. rewrite P, E, X. split; [repeat split; discriminate|].
  split; [|cbn; tauto]. unfold abs_path. cbn [opath isub iname].
  change (dpath d ++ removelast (r :: rel) ++ [last (r :: rel) []] = fst f).
  rewrite <- (app_removelast_last (l := r :: rel) []) by discriminate.
  rewrite <- E. symmetry. apply is_prefix_split. assumption.
Qed.

Lemma scan_file_complete : forall d ch f, in_region d ch (fst f) -> exists x, In x (scan_file d ch f).
Proof.
  intros d ch f [P [E X]]. unfold scan_file. destruct (skipn (length (dpath d)) (fst f)) as [|r rel]; [contradiction|].
  rewrite P, X. cbn. eexists. left. reflexivity.
Qed.

Lemma reconcile_In : forall old sc y, In y (reconcile old sc) -> exists x, In x sc /\ (y = x \/ (In y old /\ item_eq x y = true)).
Proof.
  intros old sc y H. unfold reconcile in H. apply in_map_iff in H. destruct H as [x [H Hx]].
  exists x. split; [assumption|]. destruct (find (item_eq x) old) as [o|] eqn:F.
  - subst y. apply find_some in F. right. assumption.
  - left. symmetry. assumption.
Qed.
Lemma reconcile_complete : forall old sc x, In x sc -> exists y, In y (reconcile old sc) /\ (y = x \/ item_eq x y = true).
Proof.
  intros old sc x H. exists (match find (item_eq x) old with Some o => o | None => x end). split.
  - unfold reconcile. apply in_map_iff. exists x. split; [reflexivity|assumption].
  - destruct (find (item_eq x) old) as [o|] eqn:F; [right; apply find_some in F; tauto | left; reflexivity].
Qed.

Definition scanned_items (s : state) (d : dobj) (disk : list file) : list item :=
  reconcile (ditems d) (scan_set d (children_of d (listed s)) disk).

(* the item set a scan leaves in the directory = the files of the disk in its region, each with its mtime,
   named relative to the scanned directory *)
Lemma scanned_items_exact : forall s d disk,
  (forall f, In f disk -> in_region d (children_of d (listed s)) (fst f) ->
     exists y, In y (scanned_items s d disk) /\ abs_path y = fst f /\ imtime y = snd f /\ opath y = dpath d) /\
  (forall y, In y (scanned_items s d disk) ->
     exists f, In f disk /\ in_region d (children_of d (listed s)) (fst f) /\ abs_path y = fst f /\ imtime y = snd f /\ opath y = dpath d).
Proof.
  intros s d disk. split.
  - intros f Hf R. destruct (scan_file_complete d _ f R) as [x Hx].
    assert (Hs : In x (scan_set d (children_of d (listed s)) disk)) by (unfold scan_set; apply in_flat_map; exists f; split; assumption).
    destruct (reconcile_complete (ditems d) _ x Hs) as [y [Hy E]]. exists y. split; [exact Hy|].
    destruct (scan_file_spec d _ f x Hx) as [_ [A [M [O _]]]].
    destruct E as [E | E]; [subst y; tauto|]. apply item_eq_abs in E. destruct E as [E1 [E2 [E3 _]]].
    rewrite <- E1, <- E2, <- E3. tauto.
  - intros y Hy. destruct (reconcile_In _ _ y Hy) as [x [Hx E]].
    unfold scan_set in Hx. apply in_flat_map in Hx. destruct Hx as [f [Hf Hx]].
    destruct (scan_file_spec d _ f x Hx) as [R [A [M [O _]]]]. exists f. split; [assumption|]. split; [assumption|].
    destruct E as [E | [_ E]]; [subst y; tauto|]. apply item_eq_abs in E. destruct E as [E1 [E2 [E3 _]]].
    rewrite <- E1, <- E2, <- E3. tauto.
Qed.

Lemma build_listed : forall its s, listed (build_term_map s its) = listed s.
Proof. unfold build_term_map. induction its as [|x its IH]; intros s; cbn; [reflexivity|]. rewrite IH. reflexivity. Qed.

Lemma find_replace : forall p nd ds d, find_listed p ds = Some d -> dpath nd = p -> find_listed p (replace_dir nd ds) = Some nd.
Proof.
  unfold find_listed, replace_dir. intros p nd ds d H Hp. subst p. revert d H.
  induction ds as [|e ds IH]; intros d H; cbn in *; [discriminate|].
  destruct (eqb_path (dpath e) (dpath nd)) eqn:E.
  - rewrite eqb_path_refl. reflexivity.
  - rewrite E. eapply IH; eassumption.
Qed.

Lemma find_listed_path : forall p ds d, find_listed p ds = Some d -> dpath d = p /\ In d ds.
Proof. unfold find_listed. intros p ds d H. apply find_some in H. destruct H as [H1 H2]. apply eqb_path_true in H2. tauto. Qed.

Lemma scan_exact : forall s p disk d, find_listed p (listed s) = Some d ->
  exists d', find_listed p (listed (step s (Scan p disk))) = Some d' /\ ditems d' = scanned_items s d disk /\
             dpath d' = p /\ dmode d' = dmode d /\ dusers d' = dusers d.
Proof.
  intros s p disk d H. exists (set_items d (scanned_items s d disk)).
  destruct (find_listed_path _ _ _ H) as [Hp _].
  split; [|cbn; tauto].
  unfold step. cbn [step_raw]. unfold scan_raw. rewrite H. cbn [listed prune cleanup]. rewrite build_listed. cbn [listed rc_prune].
  eapply find_replace; [eassumption|]. cbn. assumption.
Qed.

(* after a scan, every item of the scanned directory is filed in the term map under (an item equal to) itself *)
Lemma existsb_item_eq_filter : forall (f : item -> bool) l x, In x l -> f x = true -> existsb (item_eq x) (filter f l) = true.
Proof.
  intros f l x H Hf. apply existsb_exists. exists x. split; [apply filter_In; tauto|].
  unfold item_eq. rewrite !eqb_path_refl, eqb_str_refl, N.eqb_refl. reflexivity.
Qed.

(* ------------------------------------------------------------------ stats *)

Lemma stats_files : forall s, snd (get_stats s) = length (listed_items s).
Proof.
  intros s. unfold get_stats, listed_items. cbn. induction (listed s) as [|d ds IH]; cbn; [reflexivity|].
  rewrite app_length. rewrite IH. reflexivity.
Qed.
