(* C07 model: shares index (SharesManager) and query.  Definitions only, executable.

   Characters are N (code points); the classes is_word / lower / is_space come from the
   regenerated SlskGen.CharTable.  Paths are lists of components (each a list of characters),
   relative to a root the harness chooses.

   This is the model of the REPAIRED code (fixes F04 F05 F27 F29):
   * a SharedDirectory object is a [dobj] with a unique [did];
   * a SharedItem is an [item]; its [oid] is the identity of the SharedDirectory object it points
     at (item.shared_directory) and [opath] that object's (immutable) path.  Python equality/hash of
     items (dataclass eq over shared_directory, subdir, filename, modified) is [item_eq]; object
     identity is [item_same].  Items that move between nested shared directories are re-created
     for their new directory ([rehome], SharesManager._move_items);
   * the term map (word -> WeakSet of items) is [keys] (the dict keys, possibly stale) plus
     [indexed] (the union of the weak sets: items added to the map and still alive); the set stored
     under word w is { x in indexed | w in words of x }.
   Liveness: an item leaves the weak sets when no listed directory holds it any more ([prune]):
   items dropped by a scan or replaced by a move are only referenced by the set they are removed
   from (reference counting frees them at once); remove_shared_directory and load_from_settings
   rebuild the map from the listed directories, so the removed directory <-> items cycle that only
   the cyclic collector frees is not in the map. *)
From Coq Require Import NArith List Bool Arith.
From SlskGen Require Import CharTable SharesGen.
Import ListNotations.

Definition str := list N.

Fixpoint eqb_list {A} (e : A -> A -> bool) (a b : list A) : bool :=
  match a, b with
  | [], [] => true
  | x :: a', y :: b' => e x y && eqb_list e a' b'
  | _, _ => false
  end.
Definition eqb_str : str -> str -> bool := eqb_list N.eqb.
Definition path := list str.
Definition eqb_path : path -> path -> bool := eqb_list eqb_str.

Fixpoint is_prefix {A} (e : A -> A -> bool) (a b : list A) : bool :=
  match a, b with
  | [], _ => true
  | x :: a', y :: b' => e x y && is_prefix e a' b'
  | _ :: _, [] => false
  end.
Definition path_prefix : path -> path -> bool := is_prefix eqb_str.
Definition mem_str (w : str) (l : list str) : bool := existsb (eqb_str w) l.

(* ---------------------------------------------------------------- words *)

(* re.split(r"[\W_]", s): every non-word character separates; empty pieces are kept *)
Fixpoint split_nw (s : str) : list str :=
  match s with
  | [] => [[]]
  | c :: s' =>
      if is_word c then
        match split_nw s' with
        | w :: ws => (c :: w) :: ws
        | [] => [[c]]
        end
      else [] :: split_nw s'
  end.
Definition nonempty (w : str) : bool := match w with [] => false | _ => true end.
Definition words (s : str) : list str := filter nonempty (split_nw s).
Definition lower_s (s : str) : str := map lower s.

(* ---------------------------------------------------------------- matcher *)

Definition ci_eq (a b : N) : bool := N.eqb (lower a) (lower b).
Fixpoint prefix_ci (t p : str) : option str :=
  match t, p with
  | [], _ => Some p
  | a :: t', b :: p' => if ci_eq a b then prefix_ci t' p' else None
  | _ :: _, [] => None
  end.
(* (?=[\W_]|$) *)
Definition bnd_after (r : str) : bool := match r with [] => true | c :: _ => negb (is_word c) end.
Definition hit (t p : str) : bool := match prefix_ci t p with Some r => bnd_after r | None => false end.

(* create_term_pattern(term, wildcard).search(p), scanning positions left to right.
   at_b : the position is the start of the string or follows a non-word character  ((?<=\W|_)|^)
   run  : some earlier-or-equal position i has at_b and only word characters lie between i and here
          (what "(?:(?<=\W|_)|^)[^\W_]*" can consume before the term) *)
Fixpoint occ (w : bool) (t : str) (at_b run : bool) (p : str) : bool :=
  ((if w then run else at_b) && hit t p) ||
  match p with
  | [] => false
  | c :: p' => let nb := negb (is_word c) in occ w t nb (nb || (run && is_word c)) p'
  end.
Definition term_occurs (w : bool) (t p : str) : bool := occ w t true true p.

(* "phrase in path" of Python strings *)
Fixpoint prefix_exact (t p : str) : bool :=
  match t, p with
  | [], _ => true
  | a :: t', b :: p' => N.eqb a b && prefix_exact t' p'
  | _ :: _, [] => false
  end.
Fixpoint substring (t p : str) : bool :=
  prefix_exact t p || match p with [] => false | _ :: p' => substring t p' end.
Definition ends_with (k u : str) : bool := prefix_exact (rev u) (rev k).

(* ---------------------------------------------------------------- items and directories *)

(* [mode] (DirectoryShareMode) comes from the regenerated SlskGen.SharesGen *)
Definition eqb_mode (a b : mode) : bool :=
  match a, b with Everyone, Everyone | Friends, Friends | Users, Users => true | _, _ => false end.

Record item := mkItem { oid : nat; opath : path; isub : path; iname : str; imtime : N }.
Record dobj := mkDir { did : nat; dpath : path; dalias : str; dmode : mode; dusers : list str; ditems : list item }.

Definition item_eq (x y : item) : bool :=
  eqb_path (opath x) (opath y) && eqb_path (isub x) (isub y) && eqb_str (iname x) (iname y) && N.eqb (imtime x) (imtime y).
Definition item_same (x y : item) : bool := Nat.eqb (oid x) (oid y) && item_eq x y.
(* the directory the file is in, and the file itself, as absolute component paths *)
Definition dir_of (x : item) : path := opath x ++ isub x.
Definition abs_path (x : item) : path := dir_of x ++ [iname x].

Fixpoint join_bs (cs : path) : str :=
  match cs with
  | [] => []
  | [c] => c
  | c :: cs' => c ++ BACKSLASH :: join_bs cs'
  end.
(* SharedItem.get_query_path() *)
Definition qpath (x : item) : str := join_bs (isub x ++ [iname x]).
(* the words under which _add_item_to_term_map files the item *)
Definition item_words (x : item) : list str := words (lower_s (qpath x)).
(* SharedItem.get_remote_path(): "@@" alias "\" subdir "\" filename; the alias is the owner object's *)
Definition AT : N := 64%N.
Definition remote_path (alias : str) (x : item) : str := AT :: AT :: join_bs (alias :: isub x ++ [iname x]).

Definition set_items (d : dobj) (its : list item) : dobj := mkDir (did d) (dpath d) (dalias d) (dmode d) (dusers d) its.
Definition set_share (d : dobj) (m : mode) (us : list str) : dobj := mkDir (did d) (dpath d) (dalias d) m us (ditems d).

Record state := mkState { listed : list dobj; keys : list str; indexed : list item; next_id : nat }.
Definition init : state := mkState [] [] [] 0.

Definition find_listed (p : path) (ds : list dobj) : option dobj := find (fun d => eqb_path (dpath d) p) ds.

(* _get_parent_directories(...)[-1]: the listed strict ancestor with the longest path (later wins ties) *)
Fixpoint best_parent (p : path) (ds : list dobj) (best : option dobj) : option dobj :=
  match ds with
  | [] => best
  | d :: ds' =>
      if path_prefix (dpath d) p && negb (eqb_path (dpath d) p) then
        best_parent p ds'
          (match best with
           | Some b => if (length (dpath b) <=? length (dpath d))%nat then Some d else Some b
           | None => Some d
           end)
      else best_parent p ds' best
  end.

(* the other selections the source could make (only used when the regenerated flags say so) *)
Definition anc_b (p : path) (d : dobj) : bool := path_prefix (dpath d) p && negb (eqb_path (dpath d) p).
Fixpoint last_anc (p : path) (ds : list dobj) (best : option dobj) : option dobj :=
  match ds with [] => best | d :: r => last_anc p r (if anc_b p d then Some d else best) end.
Fixpoint first_anc (p : path) (ds : list dobj) : option dobj :=
  match ds with [] => None | d :: r => if anc_b p d then Some d else first_anc p r end.
Fixpoint shortest_anc (p : path) (ds : list dobj) (best : option dobj) : option dobj :=
  match ds with
  | [] => best
  | d :: r => shortest_anc p r (if anc_b p d then match best with
                                                   | Some b => if (length (dpath d) <? length (dpath b))%nat then Some d else Some b
                                                   | None => Some d
                                                   end else best)
  end.
(* parents = _get_parent_directories(d) (sorted by path length or not), then parents[-1] or parents[0]: as the source says now *)
Definition choose_parent (p : path) (ds : list dobj) : option dobj :=
  match parents_sorted_by_length, parent_pick_last with
  | true, true => best_parent p ds None
  | true, false => shortest_anc p ds None
  | false, true => last_anc p ds None
  | false, false => first_anc p ds
  end.

(* in-place mutation of the listed object with that path (listed paths are unique: add refuses duplicates) *)
Definition replace_dir (nd : dobj) (ds : list dobj) : list dobj :=
  map (fun d => if eqb_path (dpath d) (dpath nd) then nd else d) ds.

(* Python set.add / "|=": an element is added unless an equal one is present *)
Fixpoint union_eq (a b : list item) : list item :=
  match b with
  | [] => a
  | x :: b' => let a' := union_eq a b' in if existsb (item_eq x) a' then a' else a' ++ [x]
  end.

(* SharesManager._move_items: the item is re-created for the directory that takes it over
   (owner pointer, and subdir relative to it) *)
Definition rehome (t : dobj) (x : item) : item :=
  mkItem (did t) (dpath t) (skipn (length (dpath t)) (dir_of x)) (iname x) (imtime x).

(* ---------------------------------------------------------------- liveness *)

Definition held_by (ds : list dobj) (x : item) : bool := existsb (fun d => existsb (item_same x) (ditems d)) ds.
Definition prune (s : state) : state :=
  mkState (listed s) (keys s) (filter (held_by (listed s)) (indexed s)) (next_id s).

(* ---------------------------------------------------------------- term map *)

Definition add_keys (ws : list str) (ks : list str) : list str :=
  fold_left (fun k w => if mem_str w k then k else k ++ [w]) ws ks.
(* _add_item_to_term_map: WeakSet.add is a no-op when an equal item is present *)
Definition index_item (s : state) (x : item) : state :=
  mkState (listed s) (add_keys (item_words x) (keys s))
          (if existsb (item_eq x) (indexed s) then indexed s else indexed s ++ [x]) (next_id s).
Definition build_term_map (s : state) (its : list item) : state := fold_left index_item its s.
(* _cleanup_term_map: drop the words whose weak set is empty *)
Definition cleanup (s : state) : state :=
  mkState (listed s)
          (filter (fun k => existsb (fun x => mem_str k (item_words x)) (indexed s)) (keys s))
          (indexed s) (next_id s).
(* rebuild_term_map *)
Definition rebuild (s : state) : state :=
  fold_left (fun st d => build_term_map st (ditems d)) (listed s) (mkState (listed s) [] [] (next_id s)).

(* ---------------------------------------------------------------- operations *)

Definition file := (path * N)%type.   (* absolute component path (last = file name), mtime *)

Inductive op :=
| Add (p : path) (alias : str) (m : mode) (us : list str)
| Remove (p : path)
| Update (p : path) (m : option mode) (us : option (list str))
| Scan (p : path) (disk : list file)
| LoadSettings (entries : list (path * str * mode * list str)).

(* the file lies in directory p or below (SharedDirectory.get_items_for_directory; a shared directory whose
   path equals the path of a FILE is not modelled) *)
Definition under (p : path) (x : item) : bool := path_prefix p (dir_of x).

(* add_shared_directory, without the final release of the replaced items *)
Definition add_raw (s : state) (p : path) (alias : str) (m : mode) (us : list str) : state :=
  match find_listed p (listed s) with
  | Some _ => s
  | None =>
      let nid := next_id s in
      match choose_parent p (listed s) with
      | Some par =>
          let nd0 := mkDir nid p alias m us [] in
          let moved := union_eq [] (map (rehome nd0) (filter (under p) (ditems par))) in
          let par' := set_items par (filter (fun x => negb (under p x)) (ditems par)) in
          build_term_map (mkState (replace_dir par' (listed s) ++ [set_items nd0 moved]) (keys s) (indexed s) (S nid)) moved
      | None =>
          mkState (listed s ++ [mkDir nid p alias m us []]) (keys s) (indexed s) (S nid)
      end
  end.

Definition update_raw (s : state) (p : path) (m : option mode) (us : option (list str)) : state :=
  match find_listed p (listed s) with
  | None => s
  | Some d =>
      let d' := set_share d (match m with Some m' => m' | None => dmode d end) (match us with Some u => u | None => dusers d end) in
      mkState (replace_dir d' (listed s)) (keys s) (indexed s) (next_id s)
  end.

Definition remove_raw (s : state) (p : path) : state :=
  match find_listed p (listed s) with
  | None => s
  | Some d =>
      let rest := filter (fun e => negb (eqb_path (dpath e) p)) (listed s) in
      let rest' := match choose_parent p rest with
                   | Some par => replace_dir (set_items par (union_eq (ditems par) (map (rehome par) (ditems d)))) rest
                   | None => rest
                   end in
      rebuild (mkState rest' (keys s) (indexed s) (next_id s))
  end.

(* scan_directory(shared_directory, children) over the files of [disk] (os.walk reports every path once) *)
Definition scan_file (d : dobj) (children : list dobj) (f : file) : list item :=
  let fp := fst f in
  match skipn (length (dpath d)) fp with
  | [] => []
  | r :: rel =>
      if path_prefix (dpath d) fp && negb (existsb (fun c => path_prefix (dpath c) (removelast fp)) children)
      then [mkItem (did d) (dpath d) (removelast (r :: rel)) (last (r :: rel) []) (snd f)]
      else []
  end.
Fixpoint nodup_files (seen : list path) (disk : list file) : list file :=
  match disk with
  | [] => []
  | f :: r => if existsb (eqb_path (fst f)) seen then nodup_files seen r else f :: nodup_files (fst f :: seen) r
  end.
Definition scan_set (d : dobj) (children : list dobj) (disk : list file) : list item :=
  flat_map (scan_file d children) (nodup_files [] disk).
Definition children_of (d : dobj) (ds : list dobj) : list dobj :=
  filter (fun c => negb (eqb_path (dpath c) (dpath d)) && path_prefix (dpath d) (dpath c)) ds.
(* items |= scanned; items -= items ^ scanned : the scanned set, keeping the old object where an equal one exists *)
Definition reconcile (old scanned : list item) : list item :=
  map (fun x => match find (item_eq x) old with Some o => o | None => x end) scanned.

Definition scan_raw (s : state) (p : path) (disk : list file) : state :=
  match find_listed p (listed s) with
  | None => s
  | Some d =>
      let its := reconcile (ditems d) (scan_set d (children_of d (listed s)) disk) in
      let s1 := prune (mkState (replace_dir (set_items d its) (listed s)) (keys s) (indexed s) (next_id s)) in
      cleanup (build_term_map s1 its)
  end.

Definition entry := (path * str * mode * list str)%type.
Definition e_path (e : entry) : path := fst (fst (fst e)).
Definition load_entry (s : state) (e : entry) : state :=
  match e with
  | (p, alias, m, us) =>
      match find_listed p (listed s) with
      | Some _ => update_raw s p (Some m) (Some us)
      | None => add_raw s p alias m us
      end
  end.
(* the new list of load_from_settings: the directory of every entry, once ("if shared_directory not in new_shared_directories") *)
Fixpoint keep_dirs (ds : list dobj) (es : list entry) (acc : list dobj) : list dobj :=
  match es with
  | [] => acc
  | e :: r =>
      match find_listed (e_path e) ds with
      | Some d => keep_dirs ds r (if existsb (fun k => eqb_path (dpath k) (dpath d)) acc then acc else acc ++ [d])
      | None => keep_dirs ds r acc
      end
  end.
Definition load_raw (s : state) (es : list entry) : state :=
  let s1 := fold_left load_entry es s in
  rebuild (mkState (keep_dirs (listed s1) es []) (keys s1) (indexed s1) (next_id s1)).

Definition step_raw (s : state) (o : op) : state :=
  match o with
  | Add p a m us => add_raw s p a m us
  | Remove p => remove_raw s p
  | Update p m us => update_raw s p m us
  | Scan p disk => scan_raw s p disk
  | LoadSettings es => load_raw s es
  end.
Definition step (s : state) (o : op) : state := prune (step_raw s o).
Definition run_from (s : state) (ops : list op) : state := fold_left step ops s.
Definition run (ops : list op) : state := run_from init ops.

(* ---------------------------------------------------------------- query *)

Record query := mkQuery { q_incl : list str; q_wild : list str; q_excl : list str }.

(* str.split() *)
Fixpoint split_ws_aux (cur : str) (s : str) : list str :=
  match s with
  | [] => match cur with [] => [] | _ => [rev cur] end
  | c :: s' => if is_space c then match cur with [] => split_ws_aux [] s' | _ => rev cur :: split_ws_aux [] s' end
               else split_ws_aux (c :: cur) s'
  end.
Definition split_ws (s : str) : list str := split_ws_aux [] s.
Definition add_term (t : str) (l : list str) : list str := if mem_str t l then l else l ++ [t].
(* SearchQuery.parse *)
Definition parse_term (q : query) (term : str) : query :=
  let l := lower_s term in
  if negb (existsb is_word l) then q
  else match term with
       | c :: _ =>
           if N.eqb c STAR then mkQuery (q_incl q) (add_term (tl l) (q_wild q)) (q_excl q)
           else if N.eqb c DASH then mkQuery (q_incl q) (q_wild q) (add_term (tl l) (q_excl q))
           else mkQuery (add_term l (q_incl q)) (q_wild q) (q_excl q)
       | [] => q
       end.
Definition parse (s : str) : query := fold_left parse_term (split_ws s) (mkQuery [] [] []).

(* first pass of SharesManager.query: the list of constraints every candidate must satisfy; a constraint is a list
   of term-map keys of which the item must be filed under at least one (an include word: just that word; the first
   sub-term of a wildcard term: every key ending with it).  None = one of the "optimisation" early returns *)
Fixpoint incl_keys (ks : list str) (subs : list str) : option (list (list str)) :=
  match subs with
  | [] => Some []
  | u :: r => if mem_str u ks then option_map (cons [u]) (incl_keys ks r) else None
  end.
Definition wild_first (ks : list str) (u0 : str) : option (list (list str)) :=
  match u0 with
  | [] => Some []
  | _ => match filter (fun k => ends_with k u0) ks with [] => None | m => Some [m] end
  end.
Definition wild_keys (ks : list str) (t : str) : option (list (list str)) :=
  match split_nw t with
  | [] => Some []
  | u0 :: r =>
      match wild_first ks u0, incl_keys ks (filter nonempty r) with
      | Some a, Some b => Some (a ++ b)
      | _, _ => None
      end
  end.
Fixpoint collect {A} (f : A -> option (list (list str))) (l : list A) : option (list (list str)) :=
  match l with
  | [] => Some []
  | x :: r => match f x, collect f r with Some a, Some b => Some (a ++ b) | _, _ => None end
  end.
Definition prefilter_keys (ks : list str) (q : query) : option (list (list str)) :=
  match collect (fun t => incl_keys ks (words t)) (q_incl q), collect (wild_keys ks) (q_wild q) with
  | Some a, Some b => Some (a ++ b)
  | _, _ => None
  end.
Definition filed_under (x : item) (k : str) : bool := mem_str k (item_words x).
(* the set operators are the ones the source uses now (regenerated): union over the keys matching a wildcard,
   intersection over the constraints *)
Definition satisfies (x : item) (alts : list str) : bool :=
  if wildcard_sets_united then existsb (filed_under x) alts else forallb (filed_under x) alts.
Definition passes (x : item) (cl : list (list str)) : bool :=
  if include_sets_intersected then forallb (satisfies x) cl else existsb (satisfies x) cl.
Definition prefilter (s : state) (q : query) : list item :=
  match prefilter_keys (keys s) q with
  | None => []
  | Some cl => filter (fun x => passes x cl) (indexed s)
  end.

(* the regular-expression pass *)
Definition matches (q : query) (x : item) : bool :=
  let p := qpath x in
  forallb (fun t => term_occurs false t p) (q_incl q) &&
  forallb (fun t => term_occurs true t p) (q_wild q) &&
  forallb (fun t => negb (term_occurs false t p)) (q_excl q).
(* excluded phrases: case-insensitive containment (phrase and path lower-cased) *)
Definition phrase_free (phrases : list str) (x : item) : bool :=
  forallb (fun ph => negb (substring (if phrase_lowered then lower_s ph else ph) (lower_s (qpath x)))) phrases.
Definition nonempty_l {A} (l : list A) : bool := match l with [] => false | _ => true end.
Definition has_inclusion (q : query) : bool := nonempty_l (q_incl q) || nonempty_l (q_wild q).

(* all matches, in the iteration order of the model; query = the first max_results of them.
   (The implementation iterates a Python set: WHICH matches survive the cap is unspecified.) *)
Definition query_all (s : state) (q : query) (phrases : list str) : list item :=
  if has_inclusion q then filter (fun x => matches q x && phrase_free phrases x) (prefilter s q) else [].
Definition query_items (s : state) (q : query) (phrases : list str) (maxr : nat) : list item :=
  firstn (if cap_ge then maxr else S maxr) (query_all s q phrases).   (* "len(to_keep) >= max_results" *)

(* ---------------------------------------------------------------- lock split, stats *)

Definition find_obj (s : state) (i : nat) : option dobj := find (fun d => Nat.eqb (did d) i) (listed s).
(* is_directory_locked *)
Definition dir_locked (friends : list str) (d : dobj) (user : str) : bool :=
  gen_dir_locked (dmode d) (mem_str user friends) (mem_str user (dusers d)).
(* is_item_locked: through the item's own pointer (item.shared_directory) *)
Definition item_locked (s : state) (friends : list str) (user : str) (x : item) : bool :=
  match find_obj s (oid x) with Some d => dir_locked friends d user | None => false end.

Fixpoint dedup (l : list path) : list path :=
  match l with
  | [] => []
  | x :: r => if existsb (eqb_path x) r then dedup r else x :: dedup r
  end.
(* get_stats: (sum over listed directories of distinct subdir values, sum of item counts) *)
Definition get_stats (s : state) : nat * nat :=
  (fold_right (fun d n => length (dedup (map isub (ditems d))) + n) 0 (listed s),
   fold_right (fun d n => length (ditems d) + n) 0 (listed s)).

(* ---------------------------------------------------------------- observation used by the correspondence check *)

Definition obs_item (s : state) (friends : list str) (user : str) (x : item) : path * str * bool :=
  (abs_path x, qpath x, match user with [] => false | _ => item_locked s friends user x end).
Definition listed_items (s : state) : list item := flat_map ditems (listed s).

(* ---------------------------------------------------------------- support for the generated case files *)

Definition obs := (path * str * bool)%type.
Definition eqb_obs (a b : obs) : bool :=
  eqb_path (fst (fst a)) (fst (fst b)) && eqb_str (snd (fst a)) (snd (fst b)) && Bool.eqb (snd a) (snd b).
Definition subset_obs (a b : list obs) : bool := forallb (fun x => existsb (eqb_obs x) b) a.
Definition same_obs (a b : list obs) : bool := Nat.eqb (length a) (length b) && subset_obs a b && subset_obs b a.

(* one query observed on the implementation: visible+locked results as obs *)
Record qcheck := mkQ { c_query : str; c_user : str; c_friends : list str; c_phrases : list str; c_max : nat; c_result : list obs }.
Definition check_query (s : state) (c : qcheck) : bool :=
  let all := map (obs_item s (c_friends c) (c_user c)) (query_all s (parse (c_query c)) (c_phrases c)) in
  if (length all <=? c_max c)%nat then same_obs all (c_result c)
  else Nat.eqb (length (c_result c)) (c_max c) && subset_obs (c_result c) all.

(* the index observed on the implementation: per listed directory its path and items (abs path, query path, owner alias),
   the term map keys, the number of items in the union of the weak sets, get_stats() *)
Definition iobs := (path * str * str)%type.
Definition eqb_iobs (a b : iobs) : bool :=
  eqb_path (fst (fst a)) (fst (fst b)) && eqb_str (snd (fst a)) (snd (fst b)) && eqb_str (snd a) (snd b).
Definition same_iobs (a b : list iobs) : bool :=
  Nat.eqb (length a) (length b) && forallb (fun x => existsb (eqb_iobs x) b) a && forallb (fun x => existsb (eqb_iobs x) a) b.
Definition owner_alias (s : state) (x : item) : str :=
  match find_obj s (oid x) with Some d => dalias d | None => [] end.
Definition dir_obs (s : state) (d : dobj) : list iobs := map (fun x => (abs_path x, qpath x, owner_alias s x)) (ditems d).
Fixpoint same_dirs (s : state) (ds : list dobj) (e : list (path * list iobs)) : bool :=
  match ds, e with
  | [], [] => true
  | d :: ds', (p, its) :: e' => eqb_path (dpath d) p && same_iobs (dir_obs s d) its && same_dirs s ds' e'
  | _, _ => false
  end.
Definition same_strs (a b : list str) : bool :=
  Nat.eqb (length a) (length b) && forallb (fun x => mem_str x b) a && forallb (fun x => mem_str x a) b.
Record icheck := mkI { i_dirs : list (path * list iobs); i_keys : list str; i_nindexed : nat; i_stats : nat * nat }.
Definition check_index (s : state) (c : icheck) : bool :=
  same_dirs s (listed s) (i_dirs c) && same_strs (keys s) (i_keys c) && Nat.eqb (length (indexed s)) (i_nindexed c)
  && Nat.eqb (fst (get_stats s)) (fst (i_stats c)) && Nat.eqb (snd (get_stats s)) (snd (i_stats c)).

Inductive hstep := HOp (o : op) | HQuery (c : qcheck) | HIndex (c : icheck).
(* numbers (positions in the history) of the checks that fail *)
Fixpoint run_history (s : state) (n : nat) (h : list hstep) : list nat :=
  match h with
  | [] => []
  | HOp o :: r => run_history (step s o) (S n) r
  | HQuery c :: r => (if check_query s c then [] else [n]) ++ run_history s (S n) r
  | HIndex c :: r => (if check_index s c then [] else [n]) ++ run_history s (S n) r
  end.

(* regex engine vs term_occurs: expected bit i of the mask <-> the pattern matched path i *)
Definition occ_mask (w : bool) (t : str) (ps : list str) : N :=
  fold_right (fun p acc => (2 * acc + (if term_occurs w t p then 1 else 0))%N) 0%N ps.
Fixpoint bad_masks (ps : list str) (n : nat) (l : list (bool * str * N)) : list nat :=
  match l with
  | [] => []
  | (w, t, m) :: r => (if N.eqb (occ_mask w t ps) m then [] else [n]) ++ bad_masks ps (S n) r
  end.
