(* C07 property theorems (statements; proofs are in Proofs.v).
   Model: C07/Model.v (hand-written, tied to /repo by the correspondence check of checks/c07.py);
   character classes: SlskGen.CharTable, regenerated from the running interpreter on every run. *)
From Slsk Require Import Base.Tac.
From SlskGen Require Import CharTable.
From Slsk Require Import C07.Model C07.Proofs.

(* the generated character table has the closure properties the proofs use *)
Theorem C07_table_ok : table_ok = true /\ (forall c, lower (lower c) = lower c) /\ (forall c, is_word (lower c) = is_word c).
Proof. exact (conj table_ok_true (conj lower_idem is_word_lower)). Qed.

(* the wildcard pattern "(?:(?<=\W|_)|^)[^\W_]*TERM(?=[\W_]|$)" puts no condition on what precedes TERM:
   it matches iff TERM occurs somewhere followed by a delimiter *)
Theorem C07_wildcard_left_free : forall t p,
  term_occurs true t p = (fix any (p : str) : bool := hit t p || match p with [] => false | _ :: p' => any p' end) p.
Proof. intros t p. exact (occ_wild_run t p true). Qed.

(* the term map invariant holds after every sequence of operations: every item in a weak set is
   reachable from each of its words (all its words are keys) *)
Theorem C07_termmap_inv : forall ops x w,
  In x (indexed (run ops)) -> In w (item_words x) -> In w (keys (run ops)) /\ filed_under x w = true.
Proof.
  intros ops x w Hx Hw. split; [exact (termmap_inv ops x Hx w Hw)|]. unfold filed_under. apply mem_str_In. exact Hw.
Qed.

(* prefilter soundness for queries without wildcard terms: what the regular expressions accept is never
   dropped by the term-map pass (terms are lower-cased by the parser: C07_parse_lowered) *)
Theorem C07_prefilter_sound_partial : forall ops q x,
  q_wild q = [] -> lowered q -> In x (indexed (run ops)) ->
  (forall t, In t (q_incl q) -> term_occurs false t (qpath x) = true) ->
  In x (prefilter (run ops) q).
Proof. intros ops q x. apply prefilter_sound_partial. exact (termmap_inv ops). Qed.

(* ... and it is false with a wildcard term (finding F04): "*ing" over sing.mp3, ring.mp3 *)
Theorem C07_prefilter_sound_refuted : exists ops q x,
  In x (indexed (run ops)) /\ matches q x = true /\ ~ In x (prefilter (run ops) q).
Proof. exact prefilter_sound_refuted. Qed.

Theorem C07_parse_lowered : forall s, lowered (parse s).
Proof. exact parse_lowered. Qed.

(* every query: whatever is returned is indexed, satisfies every include / wildcard / exclude matcher and
   contains no excluded phrase (as the code compares them) *)
Theorem C07_query_sound : forall ops q ph n x, In x (query_items (run ops) q ph n) ->
  In x (indexed (run ops)) /\ matches q x = true /\ phrase_free ph x = true.
Proof. intros ops. apply query_sound. Qed.

(* below the cap, a query without wildcard terms returns exactly the indexed items that match *)
Theorem C07_query_exact_partial : forall ops qs ph n x,
  let s := run ops in let q := parse qs in
  q_wild q = [] -> q_incl q <> [] -> length (query_all s q ph) <= n ->
  (In x (query_items s q ph n) <-> In x (indexed s) /\ matches q x = true /\ phrase_free ph x = true).
Proof.
  intros ops qs ph n x s q Hw Hi Hn. apply query_exact_partial; try assumption.
  - exact (termmap_inv ops).
  - apply parse_lowered.
Qed.

Theorem C07_query_exact_refuted : exists ops q x n,
  length (query_all (run ops) q []) <= n /\
  In x (indexed (run ops)) /\ matches q x = true /\ phrase_free [] x = true /\ ~ In x (query_items (run ops) q [] n).
Proof. exact query_exact_refuted. Qed.

Theorem C07_cap : forall ops q ph n,
  length (query_items (run ops) q ph n) = Nat.min n (length (query_all (run ops) q ph)) /\
  (forall x, In x (query_items (run ops) q ph n) -> In x (query_all (run ops) q ph)).
Proof. intros ops. apply cap. Qed.

(* a scan leaves in the scanned directory exactly the files of the disk that lie below it and not inside a
   nested shared directory, each once per disk entry, with its mtime, named relative to the scanned directory *)
Theorem C07_scan_exact : forall s p disk d, find_listed p (listed s) = Some d ->
  exists d', find_listed p (listed (step s (Scan p disk))) = Some d' /\ dpath d' = p /\
    (forall f, In f disk -> in_region d (children_of d (listed s)) (fst f) ->
       exists y, In y (ditems d') /\ abs_path y = fst f /\ imtime y = snd f /\ opath y = p) /\
    (forall y, In y (ditems d') ->
       exists f, In f disk /\ in_region d (children_of d (listed s)) (fst f) /\ abs_path y = fst f /\ imtime y = snd f /\ opath y = p).
Proof.
  intros s p disk d H. destruct (scan_exact s p disk d H) as [d' [F [I [P _]]]].
  destruct (find_listed_path _ _ _ H) as [Hp _].
  exists d'. split; [exact F|]. split; [exact P|]. rewrite I. rewrite <- Hp. apply scanned_items_exact.
Qed.

(* the reported file count is the number of items held by the listed directories *)
Theorem C07_stats : forall s, snd (get_stats s) = length (listed_items s).
Proof. exact stats_files. Qed.

(* "only files of shared directories are returned" is false (finding F05b): the items of a removed parent stay
   in the weak sets while an item moved into a nested directory still points at the parent object *)
Theorem C07_query_only_listed_refuted : exists ops q x,
  In x (query_items (run ops) q [] 100) /\ ~ In x (listed_items (run ops)).
Proof. exact query_only_listed_refuted. Qed.

(* finding F05: an item moved into a nested shared directory keeps its owner pointer and parent-relative name *)
Theorem C07_owner_pointer_refuted : exists ops d x,
  In d (listed (run ops)) /\ In x (ditems d) /\ oid x <> did d /\ opath x <> dpath d.
Proof. exact owner_pointer_refuted. Qed.

(* non-vacuity: a concrete reachable state, a parsed query with a non-empty result below the cap *)
Example C07_nonvacuous :
  let s := run ops_f04 in let q := parse w_sing in
  q_wild q = [] /\ q_incl q <> [] /\ length (query_all s q []) <= 100 /\
  In (mkItem 0 [w_d] [] w_sing 5%N) (query_items s q [] 100) /\ keys s <> [] /\
  find_listed [w_d] (listed (run (firstn 1 ops_f04))) <> None.
Proof. vm_compute. repeat split; try discriminate; try lia. left. reflexivity. Qed.
