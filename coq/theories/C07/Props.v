(* C07 property theorems (statements; proofs are in Proofs.v) about the REPAIRED code (fixes F04 F05 F27 F29).
   Model: C07/Model.v (hand-written, tied to the source by the correspondence check of checks/c07.py);
   character classes: SlskGen.CharTable, regenerated from the running interpreter on every run.
   Phase 5: fix F29 adopted, the theorems no longer need a premise on the LoadSettings operations. *)
From Slsk Require Import Base.Tac.
From SlskGen Require Import CharTable SharesGen.
From Slsk Require Import C07.Model C07.Proofs.

(* the generated character table has the closure properties the proofs use *)
Theorem C07_table_ok : table_ok = true /\ (forall c, lower (lower c) = lower c) /\ (forall c, is_word (lower c) = is_word c).
Proof. exact (conj table_ok_true (conj lower_idem is_word_lower)). Qed.

(* the wildcard pattern "(?:(?<=\W|_)|^)[^\W_]*TERM(?=[\W_]|$)" puts no condition on what precedes TERM *)
Theorem C07_wildcard_left_free : forall t p,
  term_occurs true t p = (fix any (p : str) : bool := hit t p || match p with [] => false | _ :: p' => any p' end) p.
Proof. intros t p. exact (occ_wild_run t p true). Qed.

(* term map invariant after every sequence of operations: every item in a weak set is filed under each of its words *)
Theorem C07_termmap_inv : forall ops x w,
  In x (indexed (run ops)) -> In w (item_words x) -> In w (keys (run ops)) /\ filed_under x w = true.
Proof.
  intros ops x w Hx Hw. split; [exact (termmap_inv ops x Hx w Hw)|]. unfold filed_under. apply mem_str_In. exact Hw.
Qed.

(* prefilter soundness, ALL queries (include and wildcard terms): what the regular expressions accept is never
   dropped by the term-map pass *)
Theorem C07_prefilter_sound : forall ops q x,
  lowered q -> In x (indexed (run ops)) ->
  (forall t, In t (q_incl q) -> term_occurs false t (qpath x) = true) ->
  (forall t, In t (q_wild q) -> term_occurs true t (qpath x) = true) ->
  In x (prefilter (run ops) q).
Proof. intros ops q x. apply prefilter_sound. exact (termmap_inv ops). Qed.

Theorem C07_parse_lowered : forall s, lowered (parse s).
Proof. exact parse_lowered. Qed.

(* whatever a query returns is indexed, satisfies every include / wildcard / exclude matcher, contains no excluded
   phrase (case-insensitively) *)
Theorem C07_query_sound : forall ops q ph n x, In x (query_items (run ops) q ph n) ->
  In x (indexed (run ops)) /\ matches q x = true /\ phrase_free ph x = true.
Proof. intros ops. apply query_sound. Qed.

(* below the cap a query returns EXACTLY the indexed items that match, for every parsed query with a positive term *)
Theorem C07_query_exact : forall ops qs ph n x,
  let s := run ops in let q := parse qs in
  has_inclusion q = true -> length (query_all s q ph) <= n ->
  (In x (query_items s q ph n) <-> In x (indexed s) /\ matches q x = true /\ phrase_free ph x = true).
Proof.
  intros ops qs ph n x s q Hi Hn. apply query_exact; try assumption.
  - exact (termmap_inv ops).
  - apply parse_lowered.
Qed.

(* the term-map pass is only an optimisation: any selection of indexed items that keeps what the regular expressions accept
   (such as the UNION of the term-map sets instead of their intersection) gives exactly the same query results; a change of
   the set operator for include terms can therefore not produce a failing input: broken tie without counterexample *)
Theorem C07_prefilter_benign : forall ops qs ph (pf : list item) x,
  let s := run ops in let q := parse qs in
  has_inclusion q = true ->
  (forall y, In y pf -> In y (indexed s)) ->
  (forall y, In y (indexed s) -> matches q y = true -> In y pf) ->
  (In x (filter (fun y => matches q y && phrase_free ph y) pf) <-> In x (query_all s q ph)).
Proof.
  intros ops qs ph pf x s q Hi. apply prefilter_benign; [exact (termmap_inv ops) | exact Hi | apply parse_lowered].
Qed.

Theorem C07_cap : forall ops q ph n,
  length (query_items (run ops) q ph n) = Nat.min n (length (query_all (run ops) q ph)) /\
  (forall x, In x (query_items (run ops) q ph n) -> In x (query_all (run ops) q ph)).
Proof. intros ops. apply cap. Qed.

(* only files held by a listed (shared) directory are ever returned *)
Theorem C07_query_only_listed : forall ops q ph n x,
  In x (query_items (run ops) q ph n) -> In x (listed_items (run ops)).
Proof. intros ops q ph n x H. apply indexed_listed. apply (query_sound _ _ _ _ _ H). Qed.

(* every held item points at the directory object that holds it (and is named relative to it) *)
Theorem C07_owner_pointer : forall ops d x, In d (listed (run ops)) -> In x (ditems d) ->
  oid x = did d /\ opath x = dpath d /\ find_obj (run ops) (oid x) = Some d.
Proof. exact owner_pointer. Qed.

(* INDEX PARTITION, all operation sequences: every held file lies below the directory that holds it, that directory is
   the innermost listed one containing the file, no file is held by two directories, and no directory holds a file twice:
   each file is indexed at most once, under the innermost shared directory containing it *)
Theorem C07_index_partition : forall ops,
  let s := run ops in
  (forall d x, In d (listed s) -> In x (ditems d) ->
     path_prefix (dpath d) (dir_of x) = true /\
     forall d', In d' (listed s) -> path_prefix (dpath d') (dir_of x) = true -> length (dpath d') <= length (dpath d)) /\
  (forall d d' x y, In d (listed s) -> In d' (listed s) -> In x (ditems d) -> In y (ditems d') ->
     abs_path x = abs_path y -> d = d') /\
  (forall d, In d (listed s) -> NoDup (map abs_path (ditems d))).
Proof. exact index_partition. Qed.

(* files with the same relative path and mtime below two shared directories are two different items (Python equality of
   SharedItem includes the directory): no set operation can merge them *)
Theorem C07_items_distinct : forall ops d d' x y, In d (listed (run ops)) -> In d' (listed (run ops)) ->
  In x (ditems d) -> In y (ditems d') -> item_eq x y = true -> d = d'.
Proof. exact items_distinct. Qed.

(* a scan leaves in the scanned directory exactly the files of the disk that lie below it and not inside a nested shared
   directory, with their mtimes, named relative to the scanned directory *)
Theorem C07_scan_exact : forall s p disk d, NoDup (map fst disk) -> find_listed p (listed s) = Some d ->
  exists d', find_listed p (listed (step s (Scan p disk))) = Some d' /\ dpath d' = p /\
    (forall f, In f disk -> in_region d (children_of d (listed s)) (fst f) ->
       exists y, In y (ditems d') /\ abs_path y = fst f /\ imtime y = snd f /\ opath y = p) /\
    (forall y, In y (ditems d') ->
       exists f, In f disk /\ in_region d (children_of d (listed s)) (fst f) /\ abs_path y = fst f /\ imtime y = snd f /\ opath y = p).
Proof.
  intros s p disk d ND H. destruct (scan_exact s p disk d H) as [d' [F [I [P _]]]].
  destruct (find_listed_path _ _ _ H) as [Hp _].
  exists d'. split; [exact F|]. split; [exact P|]. rewrite I. rewrite <- Hp. apply scanned_items_exact. exact ND.
Qed.

(* the reported file count is the number of items held by the listed directories *)
Theorem C07_stats : forall s, snd (get_stats s) = length (listed_items s).
Proof. exact stats_files. Qed.

(* the reported folder count is the number of distinct directories (absolute paths) containing a held file *)
Theorem C07_stats_folders : forall ops,
  fst (get_stats (run ops)) = length (dedup (map dir_of (listed_items (run ops)))).
Proof. exact stats_folders. Qed.

(* non-vacuity: a reachable state; the wildcard query that used to return nothing (F04) returns both files; after the
   history that used to leave stale pointers (F05) the moved item points at its new directory and is named relative to it *)
Example C07_nonvacuous :
  let s := run ops_f04 in let q := parse (c [42;105;110;103]) in
  listed_items (run ops_dup) = [mkItem 0 [w_d] [] w_sing 5%N] /\ get_stats (run ops_dup) = (1, 1) /\
  has_inclusion q = true /\ length (query_all s q []) = 2 /\ keys s <> [] /\
  listed_items (run ops_zombie) = [mkItem 1 [w_P; w_C] [] w_deep 6%N] /\
  query_items (run ops_zombie) (mkQuery [w_top] [] []) [] 100 = [].
Proof.
  vm_compute. repeat split; try discriminate; try (repeat constructor).
Qed.
