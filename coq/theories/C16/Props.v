(* C16 property theorems (statements only; proofs are in Proofs.v).

   [login_burst], [keeps_watchdog], [watchdog_on_connect] and the cleanup booleans are REGENERATED from the
   source on every run (SlskGen.SessionGen, translate/tr_session.py); [step] is the hand model of the
   remaining, shape-pinned coroutines (tied by the correspondence check on every run); [spec_burst] is what the property says the
   settings imply.  [run auto init es] is the session machine driven by an arbitrary list of events
   from the freshly constructed client; "plain" lists contain no loss in the middle of the login
   emission (LoginCut) - the one situation in which the code still loses track of its session
   (finding C16-N2, kept known), for which the reset statement is refuted below. *)
From Slsk Require Import Base.Tac.
From Slsk Require Import C16.Model C16.Proofs.

(* Login advertises the settings: the burst is exactly what the settings say (F19 repaired), in
   particular the favourite rooms are joined iff auto_join. *)
Theorem C16_burst_exact : forall s ports shares parent,
  login_burst s ports shares parent = spec_burst s ports shares parent /\
  filter is_join (login_burst s ports shares parent) = (if s_auto_join s then map JoinRoom (s_favorites s) else []).
Proof. intros. split; [apply burst_exact|apply burst_joins]. Qed.

(* Commands are refused without a session - in every state. *)
Theorem C16_no_command_without_session : forall auto x,
  step auto x Command = (x, [if session x then OSent else ORefused]).
Proof. reflexivity. Qed.

(* On plain histories a session exists only on an open connection, and whenever the connection is
   not open everything server-derived is gone: client session, the managers' copies, users / rooms /
   tracking, the distributed parameters, a pending automatic login. *)
Theorem C16_loss_resets_partial : forall auto es, forallb plain es = true ->
  reset_ok auto (final auto es) = true.
Proof. intros auto es H. unfold final. apply (invariant_all _ _ reset_ok_preserved auto es init H). reflexivity. Qed.

(* ... and sessions are destroyed exactly once: at every point of a plain history
   #SessionInitialized = #SessionDestroyed + (1 if a session exists now). *)
Theorem C16_loss_resets_once_partial : forall auto es, forallb plain es = true ->
  count OSessionInit (snd (run auto init es)) =
  count OSessionDestroyed (snd (run auto init es)) + (if session (final auto es) then 1 else 0).
Proof. intros auto es H. pose proof (session_balance auto es init H eq_refl) as K. cbn [session init b2n] in K. unfold final, b2n in *. lia. Qed.

(* They fail when the connection breaks while the SessionInitialized handlers are sending (C16-N2):
   afterwards the connection is closed but managers hold a session and tracking state. *)
Theorem C16_loss_resets_refuted_cut :
  let x := final false [Start true; LoginCut HNetwork] in
  conn x = Closed /\ msession x = true /\ derived x = true.
Proof. exact cut_refuted. Qed.

(* Reconnect decision: from every plain-reachable logged-in or connected state that was not stopped,
   after a loss with reason r the next watchdog period opens a connection iff auto-reconnect is on
   and the loss was neither requested nor a server-side EOF. *)
Theorem C16_reconnect_iff : forall auto es r, forallb plain es = true ->
  conn (final auto es) = Connected -> stopped (final auto es) = false ->
  let y := fst (step auto (final auto es) (Lost r)) in
  (0 < count OConnect (snd (step auto y (Tick true))) <-> auto = true /\ keeps_watchdog r = true).
Proof.
  intros auto es r H Hc Hs y.
  pose proof (invariant_all _ _ reset_ok_preserved auto es init H eq_refl) as Hinv. fold (final auto es) in Hinv.
  pose proof (allreason_ok _ (allst_ok _ (reconnect_ok auto) (final auto es)) r) as K. cbv beta zeta in K.
  rewrite Hinv, Hs, Hc in K. cbn [negb andb implb] in K. apply Bool.eqb_prop in K. fold y in K.
  split.
  - intro L. apply Nat.ltb_lt in L. rewrite L in K. symmetry in K. apply andb_prop in K. exact K.
  - intros [A B]. rewrite A, B in K. cbn in K. now apply Nat.ltb_lt.
Qed.

(* ... and which reasons those are, in the code as it is now (regenerated from the CLOSING branch of
   Network._on_server_connection_state_changed): exactly a requested disconnect and a server-side EOF
   stop the watchdog; the watchdog is started on CONNECTED iff auto-reconnect; every cleanup the
   machine relies on exists in the source (regenerated booleans). *)
Theorem C16_reconnect_reasons :
  (forall r, keeps_watchdog r = match r with RRequested | REof => false | RRead | RWrite | RTimeout | RConnectFailed | RUnknown => true end) /\
  (forall auto, watchdog_on_connect auto = auto) /\
  stop_cancels_watchdog = true /\ stop_stops_distributed = true /\ closed_resets_users = true /\ closed_resets_rooms = true /\
  closed_stops_tracking = true /\ closed_destroys_session = true /\ state_change_resets_dist = true.
Proof. repeat split; try reflexivity; intros []; reflexivity. Qed.

(* The watchdog does not give up: a FAILED reconnect attempt (server still down) leaves the connection
   closed with the watchdog running, and the next period with the server up opens a connection. *)
Theorem C16_reconnect_persists : forall auto x,
  conn x = Closed -> watchdog x = true ->
  let y := fst (step auto x (Tick false)) in
  conn y = Closed /\ watchdog y = true /\ count OConnect (snd (step auto x (Tick false))) = 1 /\
  0 < count OConnect (snd (step auto y (Tick true))).
Proof.
  intros auto x Hc Hw y.
  pose proof (allst_ok _ (persists_ok auto) x) as K. cbv beta zeta in K. rewrite Hc, Hw in K. cbn [implb] in K. fold y in K.
  apply andb_prop in K. destruct K as [K K3]. apply andb_prop in K. destruct K as [K1 K2].
  destruct (conn y); try discriminate K1. repeat split; try assumption.
  - now apply Nat.eqb_eq.
  - now apply Nat.ltb_lt.
Qed.

(* stop() is final, from EVERY state (also after a loss in the login burst): afterwards the
   connection is not open, no watchdog, no pending potential-parent connect, and NO later event
   (anything but a new start()) ever opens a connection. *)
Theorem C16_stop_final : forall auto x es,
  forallb not_start es = true ->
  let y := fst (step auto x Stop) in
  quiet_b auto y = true /\ quiet_b auto (fst (run auto y es)) = true /\ count OConnect (snd (run auto y es)) = 0.
Proof.
  intros auto x es Hes y.
  pose proof (allst_ok _ (stop_quiet_ok auto) x) as K. cbv beta in K. fold y in K.
  split; [exact K|]. apply quiet_run; assumption.
Qed.

(* non-vacuity *)
Example C16_nonvacuous :
  let es := [Start true; Login RepOk; Dist; Command; Lost RTimeout; Tick false; Tick true; Login RepOk; Command; Stop; Tick true] in
  forallb plain es = true /\ count OSessionInit (snd (run true init es)) = 2 /\ count OSessionDestroyed (snd (run true init es)) = 2 /\
  count OSent (snd (run true init es)) = 2 /\ count OConnect (snd (run true init es)) = 3 /\
  conn (final true [Start true; Login RepOk]) = Connected /\ stopped (final true [Start true; Login RepOk]) = false /\
  In (JoinRoom 2) (login_burst (mkSettings 6 7 [1] [1] [3] [1; 2] true true true) (6, 7) (3, 4) None) /\
  In (BranchLevel 4) (login_burst (mkSettings 6 7 [1] [1] [3] [1; 2] true true true) (6, 7) (3, 4) (Some (3, 5))) /\
  forallb plain [Start true; Login RepOk; LostInTracking RWrite; Tick true] = true /\
  parents (fst (run true init [Start true; Login RepOk; Parents; Lost RRead])) = true /\ watchdog (fst (run true init [Start true; Login RepOk; Parents; Lost RRead])) = true.
Proof. vm_compute. repeat split; try reflexivity; repeat (first [left; reflexivity | right]). Qed.
