(* C16 property theorems (statements only; proofs are in Proofs.v).

   [login_burst] / [step] model the code of /repo as it is (tied to it by the correspondence check on
   every run); [spec_burst] is what the property says the settings imply.  [run auto init es] is
   the session machine driven by an arbitrary list of events from the freshly constructed client;
   "plain" lists contain no loss in the middle of the login emission (LoginCut) and none noticed
   inside a user tracking task (LostInTracking) - the two situations in which the code loses track
   of its session (findings C16-N2, C16-N3), for which the statements are refuted below. *)
From Slsk Require Import Base.Tac.
From Slsk Require Import C16.Model C16.Proofs.

(* Login advertises the settings: every category except the favourite rooms is exactly what the
   settings say; the favourite rooms are joined iff auto_join is FALSE. *)
Theorem C16_burst_exact_partial : forall s ports shares,
  filter (fun m => negb (is_join m)) (login_burst s ports shares) =
  filter (fun m => negb (is_join m)) (spec_burst s ports shares) /\
  filter is_join (login_burst s ports shares) = (if s_auto_join s then [] else map JoinRoom (s_favorites s)) /\
  filter is_join (spec_burst s ports shares) = (if s_auto_join s then map JoinRoom (s_favorites s) else []) /\
  (s_favorites s = [] -> login_burst s ports shares = spec_burst s ports shares).
Proof.
  intros. split; [apply burst_other_categories|]. split; [apply burst_joins|]. split; [apply burst_joins|].
  apply burst_exact_when_consistent.
Qed.

(* ... so the burst is NOT what the settings say (finding F19: rooms.auto_join is tested inverted). *)
Theorem C16_burst_exact_refuted : exists s ports shares,
  In (JoinRoom 1) (spec_burst s ports shares) /\ ~ In (JoinRoom 1) (login_burst s ports shares).
Proof. exact burst_refuted. Qed.

(* Commands are refused without a session - in every state. *)
Theorem C16_no_command_without_session : forall auto x,
  step auto x Command = (x, [if session x then OSent else ORefused]).
Proof. reflexivity. Qed.

(* On plain histories a session exists only on an open connection, and whenever the connection is
   not open everything server-derived is gone: client session, the managers' copies, users / rooms /
   tracking, the distributed parameters, a pending automatic login. *)
Theorem C16_loss_resets_partial : forall auto es, forallb plain es = true ->
  reset_ok auto (final auto es) = true.
Proof. intros auto es H. unfold final. apply (invariant_all _ _ reset_ok_preserved auto es init H). reflexivity. Qed.

(* ... and sessions are destroyed exactly once: at every point of a plain history
   #SessionInitialized = #SessionDestroyed + (1 if a session exists now). *)
Theorem C16_loss_resets_once_partial : forall auto es, forallb plain es = true ->
  count OSessionInit (snd (run auto init es)) =
  count OSessionDestroyed (snd (run auto init es)) + (if session (final auto es) then 1 else 0).
Proof. intros auto es H. pose proof (session_balance auto es init H eq_refl) as K. cbn [session init b2n] in K. unfold final, b2n in *. lia. Qed.

(* Both fail in general.  C16-N2: the connection breaks while the SessionInitialized handlers are
   sending: afterwards the connection is closed but managers hold a session and tracking state. *)
Theorem C16_loss_resets_refuted_cut :
  let x := final false [Start true; LoginCut HNetwork] in
  conn x = Closed /\ msession x = true /\ derived x = true.
Proof. exact cut_refuted. Qed.

(* C16-N3: the loss is noticed inside a user tracking task: connection closed, session never destroyed,
   a command is still accepted, and the next login initialises a second session (2 inits, 0 destroys). *)
Theorem C16_loss_resets_refuted_tracking :
  let p := run true init [Start true; Login RepOk; LostInTracking RWrite; Command; Tick true; Login RepOk] in
  conn (fst (run true init [Start true; Login RepOk; LostInTracking RWrite])) = Closed /\
  session (fst (run true init [Start true; Login RepOk; LostInTracking RWrite])) = true /\
  count OSent (snd p) = 1 /\ count OSessionInit (snd p) = 2 /\ count OSessionDestroyed (snd p) = 0.
Proof. exact tracking_refuted. Qed.

(* Reconnect decision: from every plain-reachable logged-in or connected state that was not stopped,
   after a loss with reason r the next watchdog period opens a connection iff auto-reconnect is on
   and the loss was neither requested nor a server-side EOF. *)
Theorem C16_reconnect_iff : forall auto es r, forallb plain es = true ->
  conn (final auto es) = Connected -> stopped (final auto es) = false ->
  let y := fst (step auto (final auto es) (Lost r)) in
  (0 < count OConnect (snd (step auto y (Tick true))) <-> auto = true /\ keeps_watchdog r = true).
Proof.
  intros auto es r H Hc Hs y.
  pose proof (invariant_all _ _ reset_ok_preserved auto es init H eq_refl) as Hinv. fold (final auto es) in Hinv.
  pose proof (allreason_ok _ (allst_ok _ (reconnect_ok auto) (final auto es)) r) as K. cbv beta zeta in K.
  rewrite Hinv, Hs, Hc in K. cbn [negb andb implb] in K. apply Bool.eqb_prop in K. fold y in K.
  split.
  - intro L. apply Nat.ltb_lt in L. rewrite L in K. symmetry in K. apply andb_prop in K. exact K.
  - intros [A B]. rewrite A, B in K. cbn in K. now apply Nat.ltb_lt.
Qed.

(* stop() is final when, at the time of the call, the connection is open or no watchdog is left
   over, no potential-parent connect is pending and no tracking task is wedged: afterwards the
   connection is not open, no watchdog, no pending connect task, and NO later event (anything but a
   new start()) ever opens a connection. *)
Theorem C16_stop_final_partial : forall auto x es,
  stop_pre x = true -> forallb not_start es = true ->
  let y := fst (step auto x Stop) in
  quiet_b auto y = true /\ quiet_b auto (fst (run auto y es)) = true /\ count OConnect (snd (run auto y es)) = 0.
Proof.
  intros auto x es Hp Hes y.
  pose proof (allst_ok _ (stop_quiet_ok auto) x) as K. cbv beta in K. rewrite Hp in K. cbn [implb] in K. fold y in K.
  split; [exact K|]. apply quiet_run; assumption.
Qed.

(* It is not final in general.  F20: potential-parent connect tasks survive stop(). *)
Theorem C16_stop_final_refuted_parents :
  parents (final false [Start true; Login RepOk; Parents; Stop]) = true.
Proof. exact stop_refuted_parents. Qed.

(* C16-N1: stop() after an unrequested loss leaves the watchdog, which reconnects after stop(). *)
Theorem C16_stop_final_refuted_watchdog :
  let p := run true init [Start true; Login RepOk; Lost RRead; Stop; Tick true] in
  stopped (fst p) = true /\ conn (fst p) = Connected /\ count OConnect (snd p) = 2.
Proof. exact stop_refuted_watchdog. Qed.

(* non-vacuity *)
Example C16_nonvacuous :
  let es := [Start true; Login RepOk; Dist; Command; Lost RTimeout; Tick false; Tick true; Login RepOk; Command; Stop; Tick true] in
  forallb plain es = true /\ count OSessionInit (snd (run true init es)) = 2 /\ count OSessionDestroyed (snd (run true init es)) = 2 /\
  count OSent (snd (run true init es)) = 2 /\ count OConnect (snd (run true init es)) = 3 /\
  stop_pre (fst (run true init [Start true; Login RepOk; Dist])) = true /\
  conn (final true [Start true; Login RepOk]) = Connected /\ stopped (final true [Start true; Login RepOk]) = false /\
  In (JoinRoom 2) (login_burst (mkSettings 6 7 [1] [1] [3] [1; 2] false true true) (6, 7) (3, 4)).
Proof. vm_compute. repeat split; try reflexivity. repeat (first [left; reflexivity | right]). Qed.
