(* C16 proofs: burst vs what the settings say; invariants of the session machine. *)
From Slsk Require Import Base.Tac.
From Slsk Require Import C16.Model.

(* ---------------------------------------------------------------------------------------- *)
(* burst *)

Lemma filter_map_join : forall l, filter is_join (map JoinRoom l) = map JoinRoom l.
Proof. induction l; cbn; congruence. Qed.
Lemma filter_map_nojoin : forall (f : nat -> bmsg) l, (forall x, is_join (f x) = false) -> filter is_join (map f l) = [].
Proof. intros f l H. induction l; cbn; [reflexivity|]. now rewrite H. Qed.
Lemma filter_neg_map_join : forall l, filter (fun m => negb (is_join m)) (map JoinRoom l) = [].
Proof. induction l; cbn; congruence. Qed.
Lemma filter_neg_map_nojoin : forall (f : nat -> bmsg) l, (forall x, is_join (f x) = false) ->
  filter (fun m => negb (is_join m)) (map f l) = map f l.
Proof. intros f l H. induction l; cbn; [reflexivity|]. rewrite H. cbn. congruence. Qed.

(* the burst is what the settings say (the generated burst against the hand-written reading of the property) *)
Lemma burst_exact : forall s p sh par, login_burst s p sh par = spec_burst s p sh par.
Proof.
  intros. unfold login_burst, burst_network, burst_distributed, burst_users, burst_rooms, burst_interests, burst_shares, spec_burst, spec_branch.
  rewrite ?app_nil_r. rewrite <- !app_assoc. destruct par as [[lvl root]|]; reflexivity.
Qed.

(* and the favourite rooms are in it iff auto_join *)
Lemma burst_joins : forall s p sh par,
  filter is_join (login_burst s p sh par) = (if s_auto_join s then map JoinRoom (s_favorites s) else []).
Proof.
  intros. rewrite burst_exact. unfold spec_burst, spec_branch.
  destruct par as [[lvl root]|]; cbn [app filter is_join negb];
  rewrite !filter_app; cbn [filter is_join]; rewrite !filter_app;
  rewrite !(filter_map_nojoin AddUser), !(filter_map_nojoin AddInterest), !(filter_map_nojoin AddHatedInterest) by reflexivity;
  cbn [filter is_join app]; rewrite !app_nil_r;
  destruct (s_auto_join s); cbn [filter]; rewrite ?filter_map_join; reflexivity.
Qed.

(* ---------------------------------------------------------------------------------------- *)
(* machine *)

Lemma run_app : forall auto es1 es2 x,
  run auto x (es1 ++ es2) =
  let '(y, o) := run auto x es1 in let '(z, o') := run auto y es2 in (z, o ++ o').
Proof.
  intros auto es1. induction es1 as [|e es1 IH]; intros es2 x; cbn [run app].
  - destruct (run auto x es2). reflexivity.
  - destruct (step auto x e) as [y o]. rewrite IH.
    destruct (run auto y es1) as [y1 o1]. destruct (run auto y1 es2) as [z o2]. now rewrite app_assoc.
Qed.

(* generic invariant principle over event lists satisfying a filter *)
Lemma run_invariant : forall auto (ok : event -> bool) (P : st -> Prop),
  (forall x e, ok e = true -> P x -> P (fst (step auto x e))) ->
  forall es x, forallb ok es = true -> P x -> P (fst (run auto x es)).
Proof.
  intros auto ok P H es. induction es as [|e es IH]; intros x Hok Px; cbn [run]; [exact Px|].
  cbn in Hok. apply andb_prop in Hok. destruct Hok as [He Hes].
  specialize (H x e He Px). destruct (step auto x e) as [y o]. cbn in H.
  specialize (IH y Hes H). destruct (run auto y es). exact IH.
Qed.

(* ---- finite case analysis: states and events are finite types; the LISTS of events are not, they
   are handled by induction (run_invariant) ---- *)
Definition allb (f : bool -> bool) : bool := f true && f false.
Lemma allb_ok : forall f, allb f = true -> forall b, f b = true.
Proof. intros f H b. unfold allb in H. apply andb_prop in H. destruct H. destruct b; assumption. Qed.

Definition allc (f : cstate -> bool) : bool := f Uninit && f Connecting && f Connected && f Closed.
Lemma allc_ok : forall f, allc f = true -> forall c, f c = true.
Proof. intros f H c. unfold allc in H. repeat match goal with K : _ && _ = true |- _ => apply andb_prop in K; destruct K end. destruct c; assumption. Qed.

Definition allst (f : st -> bool) : bool :=
  allc (fun c => allb (fun a1 => allb (fun a2 => allb (fun a3 => allb (fun a4 => allb (fun a5 => allb (fun a6 =>
  allb (fun a7 => allb (fun a8 => f (mkSt c a1 a2 a3 a4 a5 a6 a7 a8)))))))))).
Lemma allst_ok : forall f, allst f = true -> forall x, f x = true.
Proof.
  intros f H [c a1 a2 a3 a4 a5 a6 a7 a8]. unfold allst in H.
  apply (allb_ok _ (allb_ok _ (allb_ok _ (allb_ok _ (allb_ok _ (allb_ok _ (allb_ok _ (allb_ok _ (allc_ok _ H c) a1) a2) a3) a4) a5) a6) a7) a8).
Qed.

Definition allreason (f : reason -> bool) : bool := f REof && f RRead && f RWrite && f RTimeout && f RRequested && f RConnectFailed && f RUnknown.
Lemma allreason_ok : forall f, allreason f = true -> forall r, f r = true.
Proof. intros f H r. unfold allreason in H. repeat (apply andb_prop in H; destruct H as [H ?]). destruct r; assumption. Qed.
Definition allreply (f : reply -> bool) : bool := f RepOk && f RepRejected && f RepGarbled && f RepEof.
Lemma allreply_ok : forall f, allreply f = true -> forall r, f r = true.
Proof. intros f H r. unfold allreply in H. repeat (apply andb_prop in H; destruct H as [H ?]). destruct r; assumption. Qed.
Definition allhandler (f : handler -> bool) : bool :=
  f HNetwork && f HDistributed && f HUsers && f HRooms && f HInterests && f HShares && f HTransfers && f HSearches.
Lemma allhandler_ok : forall f, allhandler f = true -> forall h, f h = true.
Proof. intros f H h. unfold allhandler in H. repeat (apply andb_prop in H; destruct H as [H ?]). destruct h; assumption. Qed.

Definition allev (f : event -> bool) : bool :=
  allb (fun b => f (Start b)) && allreply (fun r => f (Login r)) && allhandler (fun h => f (LoginCut h)) && f Dist && f Parents && f ParentUp &&
  allreason (fun r => f (Lost r)) && allreason (fun r => f (LostInTracking r)) && allb (fun b => f (Tick b)) && f TickSlow && allb (fun b => f (ConnectDone b)) && f Command && f Stop.
Lemma allev_ok : forall f, allev f = true -> forall e, f e = true.
Proof.
  intros f H e. unfold allev, allb, allreply, allhandler, allreason in H.
  repeat match goal with K : _ && _ = true |- _ => apply andb_prop in K; destruct K end.
  destruct e as [[]|[]|[]| | |[]|[]| |[]| |[]| | ]; assumption.
Qed.

(* a boolean state predicate preserved by every step whose event passes [ok] *)
Definition preserved (ok : event -> bool) (pb : bool -> st -> bool) : bool :=
  allb (fun auto => allst (fun x => allev (fun e => implb (ok e && pb auto x) (pb auto (fst (step auto x e)))))).

Lemma preserved_ok : forall ok pb, preserved ok pb = true ->
  forall auto x e, ok e = true -> pb auto x = true -> pb auto (fst (step auto x e)) = true.
Proof.
  intros ok pb H auto x e He Hx. unfold preserved in H.
  pose proof (allev_ok _ (allst_ok _ (allb_ok _ H auto) x) e) as K. cbv beta in K.
  rewrite He, Hx in K. exact K.
Qed.

Lemma invariant_all : forall ok pb, preserved ok pb = true ->
  forall auto es x, forallb ok es = true -> pb auto x = true -> pb auto (fst (run auto x es)) = true.
Proof.
  intros ok pb H auto es x Hes Hx.
  apply (run_invariant auto ok (fun x => pb auto x = true)); try assumption.
  intros. now apply (preserved_ok ok pb H).
Qed.

(* ---- the invariants ---- *)

(* plain fragment: session exactly on an open connection; nothing server-derived survives a loss *)
Definition reset_ok (auto : bool) (x : st) : bool :=
  implb (session x) (msession x && derived x) &&
  implb (msession x || derived x || dist x) (session x) &&
  implb (watchdog x) auto &&
  match conn x with
  | Connected => Bool.eqb (watchdog x) auto || stopped x
  | Connecting => watchdog x && negb (session x) && negb (msession x) && negb (dist x) && negb (derived x) && negb (pending x)
  | _ => negb (session x) && negb (msession x) && negb (dist x) && negb (derived x) && negb (pending x)
  end.

Lemma reset_ok_preserved : preserved plain reset_ok = true.
Proof. vm_compute. reflexivity. Qed.

(* after stop() from a state with no watchdog left over and no potential-parent task: quiet forever *)
Definition not_start (e : event) : bool := match e with Start _ => false | _ => true end.
Definition quiet_b (auto : bool) (x : st) : bool :=
  stopped x && negb (watchdog x) && negb (parents x) && match conn x with Connected | Connecting => false | _ => true end.

Lemma quiet_preserved : preserved not_start quiet_b = true.
Proof. vm_compute. reflexivity. Qed.

Definition no_connect (auto : bool) : bool :=
  allst (fun x => allev (fun e => implb (not_start e && quiet_b auto x) (Nat.eqb (count OConnect (snd (step auto x e))) 0))).
Lemma no_connect_ok : forall auto, no_connect auto = true.
Proof. intros []; vm_compute; reflexivity. Qed.

Lemma quiet_run : forall auto es x, forallb not_start es = true -> quiet_b auto x = true ->
  quiet_b auto (fst (run auto x es)) = true /\ count OConnect (snd (run auto x es)) = 0.
Proof.
  intros auto es. induction es as [|e es IH]; intros x Hes Hx; cbn [run]; [split; [exact Hx|reflexivity]|].
  cbn in Hes. apply andb_prop in Hes. destruct Hes as [He Hes].
  pose proof (preserved_ok _ _ quiet_preserved auto x e He Hx) as Hy.
  pose proof (allev_ok _ (allst_ok _ (no_connect_ok auto) x) e) as Hc. cbv beta in Hc. rewrite He, Hx in Hc. cbn [andb implb] in Hc.
  destruct (step auto x e) as [y o]. cbn [fst snd] in *.
  destruct (IH y Hes Hy) as [Hq Hn]. destruct (run auto y es) as [z o']. cbn [fst snd] in *.
  split; [exact Hq|]. apply Nat.eqb_eq in Hc.
  clear - Hc Hn. induction o as [|a o IHo]; cbn in *; [exact Hn|]. destruct a; cbn in *; try discriminate; auto.
Qed.

(* Stop itself: quiet afterwards, from EVERY state *)
Definition stop_quiet (auto : bool) : bool :=
  allst (fun x => quiet_b auto (fst (step auto x Stop))).
Lemma stop_quiet_ok : forall auto, stop_quiet auto = true.
Proof. intros []; vm_compute; reflexivity. Qed.

(* sessions are destroyed exactly once: inits = destroys + (1 if a session exists) *)
Definition b2n (b : bool) : nat := if b then 1 else 0.
Definition balance (auto : bool) : bool :=
  allst (fun x => allev (fun e => implb (plain e && reset_ok auto x)
    (let p := step auto x e in
     Nat.eqb (count OSessionInit (snd p) + b2n (session x)) (count OSessionDestroyed (snd p) + b2n (session (fst p)))))).
Lemma balance_ok : forall auto, balance auto = true.
Proof. intros []; vm_compute; reflexivity. Qed.

Lemma count_app : forall o l1 l2, count o (l1 ++ l2) = count o l1 + count o l2.
Proof. intros o l1 l2. induction l1 as [|a l1 IH]; cbn; [reflexivity|]. rewrite IH. lia. Qed.

Lemma session_balance : forall auto es x, forallb plain es = true -> reset_ok auto x = true ->
  count OSessionInit (snd (run auto x es)) + b2n (session x) =
  count OSessionDestroyed (snd (run auto x es)) + b2n (session (fst (run auto x es))).
Proof.
  intros auto es. induction es as [|e es IH]; intros x Hes Hx; cbn [run]; [cbn; lia|].
  cbn in Hes. apply andb_prop in Hes. destruct Hes as [He Hes].
  pose proof (preserved_ok _ _ reset_ok_preserved auto x e He Hx) as Hy.
  pose proof (allev_ok _ (allst_ok _ (balance_ok auto) x) e) as Hb. cbv beta zeta in Hb. rewrite He, Hx in Hb. cbn [andb implb] in Hb.
  apply Nat.eqb_eq in Hb.
  destruct (step auto x e) as [y o]. cbn [fst snd] in *.
  specialize (IH y Hes Hy). destruct (run auto y es) as [z o']. cbn [fst snd] in *.
  rewrite !count_app. lia.
Qed.

(* reconnect decision *)
Definition reconnect_b (auto : bool) : bool :=
  allst (fun x => allreason (fun r => implb (reset_ok auto x && negb (stopped x) && match conn x with Connected => true | _ => false end)
    (let y := fst (step auto x (Lost r)) in
     Bool.eqb (Nat.ltb 0 (count OConnect (snd (step auto y (Tick true))))) (auto && keeps_watchdog r)))).
Lemma reconnect_ok : forall auto, reconnect_b auto = true.
Proof. intros []; vm_compute; reflexivity. Qed.

(* a failed reconnect attempt leaves the watchdog running and the connection closed: it tries again *)
Definition persists_b (auto : bool) : bool :=
  allst (fun x => implb (match conn x with Closed => watchdog x | _ => false end)
    (let y := fst (step auto x (Tick false)) in
     (match conn y with Closed => watchdog y | _ => false end) &&
     Nat.eqb (count OConnect (snd (step auto x (Tick false)))) 1 && Nat.ltb 0 (count OConnect (snd (step auto y (Tick true)))))).
Lemma persists_ok : forall auto, persists_b auto = true.
Proof. intros []; vm_compute; reflexivity. Qed.

(* ---- refutations: concrete event lists ---- *)
Lemma cut_refuted :
  let x := final false [Start true; LoginCut HNetwork] in
  conn x = Closed /\ msession x = true /\ derived x = true.
Proof. vm_compute. repeat split. Qed.
