(* C16 vocabulary shared by the generated file (SlskGen.SessionGen) and the hand model. *)
From Coq Require Import List Bool Arith.
Import ListNotations.

Record settings := mkSettings {
  s_port : nat; s_obf_port : nat;          (* 0 = not configured *)
  s_friends : list nat; s_liked : list nat; s_hated : list nat; s_favorites : list nat;
  s_auto_join : bool; s_invites : bool; s_reconnect : bool }.

Inductive bmsg :=
| SetListenPort (port obf_amount obf_port : nat)
| CheckPrivileges
| SetStatusOnline
| AddUser (u : nat)                     (* 0 = the own name *)
| AddInterest (i : nat)
| AddHatedInterest (i : nat)
| TogglePrivateRoomInvites (b : bool)
| JoinRoom (r : nat)
| SharedFoldersFiles (folders files : nat)
| BranchLevel (l : nat)
| BranchRoot (u : nat)
| ToggleParentSearch (b : bool).

(* connection.py CloseReason *)
Inductive reason := REof | RRead | RWrite | RTimeout | RRequested | RConnectFailed | RUnknown.
