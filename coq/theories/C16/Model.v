(* C16 model: session life cycle of SoulSeekClient.

   (1) [login_burst]: what the SessionInitializedEvent handlers of /repo send after a successful login
       (network/network.py 329-339,1167; distributed.py 249-265,581; user/manager.py 467-482;
        room/manager.py 533-538; interest/manager.py 155; shares/manager.py 931-947).
   (2) the session machine: connection state of the server connection, the client's session, the
       managers' copies of it, whether server-derived state (users, rooms, tracking) is non-empty,
       the server-sent distributed parameters, the reconnect watchdog, the potential-parent connect
       tasks, and whether stop() was called.  One event = one step of the harness scenario; the
       machine is compared with the real client after every step.

   Definitions only; executable.  It models the code AS IT IS after the repairs of F19 (auto_join),
   F20 (DistributedNetwork is a service; a cancelled connect race cancels its children: C11-N1),
   C16-N1 (stop() cancels the watchdog) and C16-N3 (the CLOSED notification is no longer cut short
   when a tracking task notices the loss), and still including C16-N2: a loss during the
   SessionInitialized emission (later handlers still run on the dead connection). *)
From Coq Require Import List Bool Arith.
From Slsk Require Export C16.Types.
From SlskGen Require Export SessionGen.
Import ListNotations.

(* ---------------------------------------------------------------------------------------- *)
(* (1) the burst *)

(* [login_burst s ports shares] is GENERATED (SlskGen.SessionGen) from the six SessionInitialized handlers;
   ports = the listening ports actually open (0 when not open), as returned by get_listening_ports *)

(* what the property says must be sent: the same, with the favourite rooms iff auto_join *)
(* the branch position: top of the own branch and looking for a parent when there is no distributed parent,
   else one level below the parent in the parent's branch and not looking *)
Definition spec_branch (parent : option (nat * nat)) : list bmsg :=
  match parent with
  | None => [BranchLevel 0; BranchRoot 0; ToggleParentSearch true]
  | Some (lvl, root) => [BranchLevel (S lvl); BranchRoot root; ToggleParentSearch false]
  end.

Definition spec_burst (s : settings) (ports : nat * nat) (shares : nat * nat) (parent : option (nat * nat)) : list bmsg :=
  [SetListenPort (fst ports) (if Nat.eqb (snd ports) 0 then 0 else 1) (snd ports)]
  ++ spec_branch parent
  ++ [CheckPrivileges; SetStatusOnline]
  ++ AddUser 0 :: map AddUser (s_friends s)
  ++ [TogglePrivateRoomInvites (s_invites s)]
  ++ (if s_auto_join s then map JoinRoom (s_favorites s) else [])
  ++ map AddInterest (s_liked s) ++ map AddHatedInterest (s_hated s)
  ++ [SharedFoldersFiles (fst shares) (snd shares)].

Definition is_join (m : bmsg) : bool := match m with JoinRoom _ => true | _ => false end.

(* ---------------------------------------------------------------------------------------- *)
(* (2) the machine *)

Inductive cstate := Uninit | Connecting | Connected | Closed.   (* Connecting: a reconnect attempt of the watchdog is in flight *)
Inductive reply := RepOk | RepRejected | RepGarbled | RepEof.
(* SessionInitializedEvent listeners, in registration order (client.py 66-82) *)
Inductive handler := HNetwork | HDistributed | HUsers | HRooms | HInterests | HShares | HTransfers | HSearches.

Definition hidx (h : handler) : nat :=
  match h with HNetwork => 0 | HDistributed => 1 | HUsers => 2 | HRooms => 3 | HInterests => 4 | HShares => 5 | HTransfers => 6 | HSearches => 7 end.

Inductive event :=
| Start (ok : bool)                      (* client.start(): connect to the server *)
| Login (r : reply)                      (* client.login(), server answers r *)
| LoginCut (h : handler)                 (* login accepted; the connection breaks (write error) while handler h sends *)
| Dist                                   (* server sends a distributed parameter *)
| Parents                                (* server sends potential parents; the peer connects stay pending *)
| Lost (r : reason)                      (* connection lost, noticed by the reader / an ordinary send / disconnect_server() *)
| LostInTracking (r : reason)            (* write error / timeout noticed inside a user tracking task *)
| ParentUp                               (* a distributed parent connection is established (independent of the server connection) *)
| Tick (ok : bool)                       (* reconnect.timeout passes; the server accepts (ok) or refuses the connect *)
| TickSlow                               (* reconnect.timeout passes; the connect attempt stays in flight (slow handshake) *)
| ConnectDone (ok : bool)                (* the attempt in flight completes: accepted / refused *)
| Command
| Stop.

Inductive out :=
| OSessionInit | OSessionDestroyed | OBurst | ORefused | OSent | OConnect | OLoginSent | OIgnored | OStopRaised.

Record st := mkSt {
  conn : cstate;
  session : bool;        (* SoulSeekClient.session is set *)
  msession : bool;       (* some manager still holds a session object *)
  derived : bool;        (* users / rooms / tracking non-empty *)
  dist : bool;           (* a server-sent distributed parameter is set *)
  watchdog : bool;       (* reconnect watchdog task running *)
  parents : bool;        (* potential-parent connect tasks pending *)
  stopped : bool;
  pending : bool }.      (* the watchdog's automatic login is waiting for the server's reply *)

Definition init : st := mkSt Uninit false false false false false false false false.

(* [keeps_watchdog], [watchdog_on_connect] and the booleans saying which cleanup exists are GENERATED
   (SlskGen.SessionGen) from network.py / client.py / the managers' _on_state_changed listeners. *)

(* the CLOSING + CLOSED notifications of the server connection, delivered completely *)
Definition closed (r : reason) (x : st) : st * list out :=
  (* managers drop their session copy on SessionDestroyedEvent, which is only emitted when the client has a session *)
  let destroyed := session x && closed_destroys_session in
  (mkSt Closed (session x && negb closed_destroys_session) (if destroyed then false else msession x)
        (derived x && negb (closed_resets_users && closed_resets_rooms && closed_stops_tracking))
        (dist x && negb state_change_resets_dist) (watchdog x && keeps_watchdog r) (parents x) (stopped x) false,
   if destroyed then [OSessionDestroyed] else []).

Definition login_sent (x : st) : list out := if pending x then [] else [OLoginSent].

Definition step (auto : bool) (x : st) (e : event) : st * list out :=
  match e with
  | Start ok =>
      match conn x with
      | Uninit =>
          if ok then (mkSt Connected false false false false (watchdog_on_connect auto) false (stopped x) false, [OConnect])
          else (mkSt Closed false false false false false false (stopped x) false, [OConnect])
      | _ => (x, [OIgnored])
      end
  | Login r =>
      match conn x with
      | Connected =>
          (* calling login() a second time on a connection that already has a session is not modelled *)
          if session x then (x, [OIgnored]) else
          match r with
          | RepOk => (mkSt Connected true true true (dist x) (watchdog x) (parents x) (stopped x) false,
                      login_sent x ++ [OSessionInit; OBurst])
          | RepRejected | RepGarbled =>
              (mkSt (conn x) (session x) (msession x) (derived x) (dist x) (watchdog x) (parents x) (stopped x) false, login_sent x)
          | RepEof => let '(y, o) := closed REof x in (y, login_sent x ++ o)
          end
      | _ => (x, [OIgnored])
      end
  | LoginCut h =>
      match conn x with
      | Connected =>
          if session x then (x, [OIgnored]) else
          (* C16-N2: session set, emission starts, handler h breaks the connection: CLOSED is delivered in
             the middle (session destroyed, state reset), then the remaining handlers run *)
          let users_later := Nat.ltb (hidx h) (hidx HUsers) in
          (mkSt Closed false true users_later false (watchdog x) (parents x) (stopped x) false,
           login_sent x ++ [OSessionInit; OSessionDestroyed])
      | _ => (x, [OIgnored])
      end
  | Dist => match conn x with Connected => if session x then (mkSt (conn x) (session x) (msession x) (derived x) true (watchdog x) (parents x) (stopped x) (pending x), []) else (x, [OIgnored]) | _ => (x, [OIgnored]) end
  | Parents => match conn x with Connected => if session x then (mkSt (conn x) (session x) (msession x) (derived x) (dist x) (watchdog x) true (stopped x) (pending x), []) else (x, [OIgnored]) | _ => (x, [OIgnored]) end
  | Lost r =>
      match conn x with
      | Connected => closed r x
      | _ => (x, [OIgnored])
      end
  | LostInTracking r =>
      (* C16-N3 repaired: a loss noticed inside a tracking task is notified like any other loss *)
      match conn x with
      | Connected => if session x then closed r x else (x, [OIgnored])
      | _ => (x, [OIgnored])
      end
  | Tick ok =>
      match conn x with
      | Closed =>
          if watchdog x then
            if ok then (mkSt Connected (session x) (msession x) (derived x) false (watchdog x) (parents x) (stopped x) true, [OConnect; OLoginSent])
            else let '(y, o) := closed RConnectFailed x in (y, OConnect :: o)     (* failed attempt: CLOSING/CLOSED with CONNECT_FAILED *)
          else (x, [])
      | _ => (x, [])
      end
  | TickSlow =>
      match conn x with
      | Closed => if watchdog x then (mkSt Connecting (session x) (msession x) (derived x) (dist x && negb state_change_resets_dist) (watchdog x) (parents x) (stopped x) false, [OConnect]) else (x, [])
      | _ => (x, [])
      end
  | ConnectDone ok =>
      match conn x with
      | Connecting =>
          if ok then (mkSt Connected (session x) (msession x) (derived x) false (watchdog x) (parents x) (stopped x) true, [OLoginSent])
          else closed RConnectFailed x
      | _ => (x, [])
      end
  | ParentUp => (x, [])
  | Command => (x, [if session x then OSent else ORefused])
  | Stop =>
      (* Network.disconnect() cancels the watchdog (C16-N1 repaired); the services' stop() cancels the user
         tracking tasks and the potential-parent tasks with their connect attempts (F20 / C11-N1 repaired) *)
      match conn x with
      | Connected =>
          let '(y, o) := closed RRequested x in
          (mkSt (conn y) (session y) (msession y) (derived y) (dist y) (watchdog y && negb stop_cancels_watchdog)
                (parents y && negb stop_stops_distributed) true false, o)
      | Connecting =>   (* cancelling the watchdog cancels its connect attempt (DataConnection.connect closes with CONNECT_FAILED and
                           re-raises the cancellation); without that cancel the attempt would go on *)
          (mkSt (if stop_cancels_watchdog then Closed else Connecting) (session x) (msession x) false (dist x) (watchdog x && negb stop_cancels_watchdog)
                (parents x && negb stop_stops_distributed) true false, [])
      | _ =>   (* disconnect() of a CLOSED / never opened connection returns at once: no CLOSING notification *)
          (mkSt (conn x) (session x) (msession x) false (dist x) (watchdog x && negb stop_cancels_watchdog)
                (parents x && negb stop_stops_distributed) true (pending x), [])
      end
  end.

Fixpoint run (auto : bool) (x : st) (es : list event) : st * list out :=
  match es with
  | [] => (x, [])
  | e :: r => let '(y, o) := step auto x e in let '(z, o') := run auto y r in (z, o ++ o')
  end.

Fixpoint trace (auto : bool) (x : st) (es : list event) : list (st * list out) :=
  match es with
  | [] => []
  | e :: r => let p := step auto x e in p :: trace auto (fst p) r
  end.

Definition final (auto : bool) (es : list event) : st := fst (run auto init es).

Fixpoint count (o : out) (l : list out) : nat :=
  match l with
  | [] => 0
  | x :: r => (match x, o with
               | OSessionInit, OSessionInit | OSessionDestroyed, OSessionDestroyed | OBurst, OBurst | ORefused, ORefused
               | OSent, OSent | OConnect, OConnect | OLoginSent, OLoginSent | OIgnored, OIgnored | OStopRaised, OStopRaised => 1
               | _, _ => 0 end) + count o r
  end.

(* events of the "well-behaved" fragment: no loss in the middle of the login emission (C16-N2) *)
Definition plain (e : event) : bool := match e with LoginCut _ => false | _ => true end.
Definition is_stop (e : event) : bool := match e with Stop => true | _ => false end.
