(* C20 proofs over the generated limiter (SlskGen.RateGen) and the machine of Model.v *)
From Slsk Require Import Base.Tac.
From SlskGen Require Import RateGen.
From Slsk Require Import C20.Model.
Open Scope Z_scope.

Definition L (l : lim) := limit_bps l.

(* well-formed limiter at clock reading [now]: 0 <= bucket <= limit, limit >= one grant,
   last refill not in the future *)
Definition wfl (l : lim) : Prop := 0 <= bucket l <= limit_bps l /\ 128 <= limit_bps l /\ 0 <= last_refill l.

Lemma quot_div a : 0 <= a -> Z.quot a 1048576 = a / 1048576.
Proof. intros; apply Z.quot_div_nonneg; lia. Qed.

(* ---- one poll ---- *)

(* the two regimes of take_step: bucket full (early return of refill, timestamp left stale)
   or a real refill covering (last_refill, now] *)
Lemma take_full l now :
  wfl l -> bucket l = limit_bps l ->
  take l now = (mkLim (limit_bps l) (limit_bps l - 128) (last_refill l), 128).
Proof.
  intros (Hb & HL & _) E. unfold take, take_step, refill.
  rewrite E, Z.eqb_refl. cbn. destruct l as [lb b lr]; cbn in *; subst. reflexivity.
Qed.

Lemma take_real l now :
  wfl l -> bucket l <> limit_bps l -> last_refill l <= now ->
  let '(l', g) := take l now in
  limit_bps l' = limit_bps l /\ last_refill l' = now /\ 0 <= bucket l' /\ 0 <= g /\
  bucket l' + g <= limit_bps l /\
  (bucket l' + g) * 1048576 <= bucket l * 1048576 + (limit_bps l - bucket l) * (now - last_refill l) /\
  (g = 0 \/ g = 128) /\ bucket l <= bucket l' + g.
Proof.
  intros (Hb & HL & Hlr) NE Hnow. unfold take, take_step, refill, add_tokens, is_empty.
  destruct l as [lb b lr]; cbn [limit_bps bucket last_refill fst snd] in *.
  destruct (Z.eqb_spec lb b) as [->|_]; [lia|].
  assert (Hlt : (b <? lb) = true) by lia. rewrite Hlt.
  set (x := (lb - b) * (now - lr)).
  assert (Hx : 0 <= x) by (apply Z.mul_nonneg_nonneg; lia).
  rewrite (quot_div x Hx).
  cbn [limit_bps bucket last_refill fst snd].
  destruct (lb <? b + x / 1048576) eqn:E1; cbn [limit_bps bucket last_refill fst snd];
    destruct (_ <? 128) eqn:E2; cbn [negb limit_bps bucket last_refill fst snd]; lia.
Qed.

Lemma take_wf l now :
  wfl l -> last_refill l <= now ->
  wfl (fst (take l now)) /\ limit_bps (fst (take l now)) = limit_bps l /\
  last_refill (fst (take l now)) <= now /\ last_refill l <= last_refill (fst (take l now)) /\
  0 <= snd (take l now).
Proof.
  intros W Hn. destruct (Z.eq_dec (bucket l) (limit_bps l)) as [E|NE].
  - rewrite (take_full l now W E). destruct W as (Hb & HL & Hlr). cbn. unfold wfl; cbn. lia.
  - pose proof (take_real l now W NE Hn) as H. destruct (take l now) as [l' g].
    destruct W as (Hb & HL & Hlr). cbn. unfold wfl. lia.
Qed.

(* ---- accumulated grants ---- *)

Lemma run_cons l t ts :
  run l (t :: ts) = (fst (run (fst (take l t)) ts), (t, snd (take l t)) :: snd (run (fst (take l t)) ts)).
Proof. cbn [run]. destruct (take l t) as [l1 g]. cbn [fst snd]. destruct (run l1 ts) as [l2 tr]. reflexivity. Qed.

Lemma granted_upto_cons tend t g tr :
  granted_upto tend ((t, g) :: tr) = (if t <=? tend then g + granted_upto tend tr else granted_upto tend tr).
Proof. reflexivity. Qed.

Lemma sorted_from_weaken t t' ts : t' <= t -> sorted_from t ts -> sorted_from t' ts.
Proof. destruct ts; cbn; [auto|]. intros ? [? ?]; split; [lia|auto]. Qed.

Lemma granted_zero_after l ts tend :
  forall t, sorted_from t ts -> tend < t -> granted_upto tend (snd (run l ts)) = 0.
Proof.
  revert l. induction ts as [|x r IH]; intros l t S Ht; [reflexivity|].
  destruct S as [Hx S]. rewrite run_cons. cbn [snd]. rewrite granted_upto_cons.
  assert ((x <=? tend) = false) as -> by lia. eapply IH; [exact S|lia].
Qed.

Lemma grants_nonneg l ts tend :
  wfl l -> sorted_from (last_refill l) ts -> 0 <= granted_upto tend (snd (run l ts)).
Proof.
  revert l. induction ts as [|x r IH]; intros l W S; [cbn; lia|].
  destruct S as [Hx S]. rewrite run_cons. cbn [snd]. rewrite granted_upto_cons.
  destruct (take_wf l x W Hx) as (W' & _ & Hl & _ & Hg).
  specialize (IH (fst (take l x)) W' (sorted_from_weaken _ _ _ Hl S)).
  destruct (x <=? tend); lia.
Qed.

(* Lemma A: every real refill covers the interval (last_refill, now], the early return adds
   nothing and does not move the timestamp; so grants up to [tend] are paid for by the
   bucket content plus limit * elapsed time since the last refill. *)
Lemma lemA ts : forall l tend,
  wfl l -> sorted_from (last_refill l) ts -> last_refill l <= tend ->
  granted_upto tend (snd (run l ts)) * 1048576
    <= bucket l * 1048576 + limit_bps l * (tend - last_refill l).
Proof.
  induction ts as [|x r IH]; intros l tend W S Ht.
  - cbn. destruct W as (Hb & HL & _).
    assert (0 <= limit_bps l * (tend - last_refill l)) by (apply Z.mul_nonneg_nonneg; lia). lia.
  - destruct S as [Hx S]. rewrite run_cons. cbn [snd]. rewrite granted_upto_cons.
    destruct (Z.leb_spec x tend) as [Hle|Hgt].
    2:{ rewrite (granted_zero_after _ r tend x S Hgt). destruct W as (Hb & HL & _).
        assert (0 <= limit_bps l * (tend - last_refill l)) by (apply Z.mul_nonneg_nonneg; lia). lia. }
    destruct (Z.eq_dec (bucket l) (limit_bps l)) as [E|NE].
    + rewrite (take_full l x W E). cbn [fst snd].
      set (l1 := mkLim (limit_bps l) (limit_bps l - 128) (last_refill l)).
      assert (W1 : wfl l1) by (destruct W as (Hb & HL & Hlr); unfold wfl, l1; cbn; lia).
      specialize (IH l1 tend W1). cbn [l1 last_refill bucket limit_bps] in IH.
      specialize (IH (sorted_from_weaken _ _ _ Hx S) Ht). lia.
    + pose proof (take_real l x W NE Hx) as H.
      pose proof (take_wf l x W Hx) as (W' & _ & _ & _ & _).
      destruct (take l x) as [l' g]. cbn [fst snd] in *.
      destruct H as (HL' & Hlr' & Hb' & Hg & Hcap & Hpot & _ & _).
      assert (S' : sorted_from (last_refill l') r) by (rewrite Hlr'; exact S).
      specialize (IH l' tend W' S'). rewrite Hlr', HL' in IH. specialize (IH Hle).
      destruct W as (Hb & HL & Hlr).
      assert (bucket l * (x - last_refill l) >= 0) by (apply Z.le_ge, Z.mul_nonneg_nonneg; lia).
      lia.
Qed.

(* Lemma B: from the first poll at or after t0, whatever the past. *)
Lemma lemB ts : forall l t0 tend,
  wfl l -> sorted_from (last_refill l) ts -> sorted_from t0 ts -> t0 <= tend ->
  granted_upto tend (snd (run l ts)) * 1048576
    <= limit_bps l * 1048576 + 128 * 1048576 + limit_bps l * (tend - t0).
Proof.
  intros l t0 tend W S S0 Ht.
  assert (Hpos : 0 <= limit_bps l * (tend - t0)) by (destruct W as (_ & ? & _); apply Z.mul_nonneg_nonneg; lia).
  destruct ts as [|x r]; [cbn; destruct W as (? & ? & _); lia|].
  destruct S as [Hx S]. destruct S0 as [Hx0 S0].
  rewrite run_cons. cbn [snd]. rewrite granted_upto_cons.
  destruct (Z.leb_spec x tend) as [Hle|Hgt].
  2:{ rewrite (granted_zero_after _ r tend x S Hgt). destruct W as (? & ? & _); lia. }
  (* second phase: after a real refill at time y >= t0 the state is tight *)
  assert (Tight : forall l1 y rest g1, wfl l1 -> limit_bps l1 = limit_bps l -> last_refill l1 = y ->
            t0 <= y -> y <= tend -> sorted_from y rest -> bucket l1 + g1 <= limit_bps l ->
            (g1 + granted_upto tend (snd (run l1 rest))) * 1048576 <= limit_bps l * 1048576 + limit_bps l * (tend - t0)).
  { intros l1 y rest g1 W1 HL1 Hy Hy0 Hyt Sr Hcap.
    pose proof (lemA rest l1 tend W1) as A. rewrite Hy in A. specialize (A Sr Hyt). rewrite HL1 in A.
    assert (limit_bps l * (tend - y) <= limit_bps l * (tend - t0))
      by (destruct W as (_ & ? & _); apply Z.mul_le_mono_nonneg_l; lia).
    lia. }
  destruct (Z.eq_dec (bucket l) (limit_bps l)) as [E|NE].
  - rewrite (take_full l x W E). cbn [fst snd].
    set (l1 := mkLim (limit_bps l) (limit_bps l - 128) (last_refill l)).
    assert (W1 : wfl l1) by (destruct W as (Hb & HL & Hlr); unfold wfl, l1; cbn; lia).
    destruct r as [|y r']; [cbn; destruct W as (? & ? & _); lia|].
    destruct S as [Hy S]. destruct S0 as [_ S0].
    rewrite run_cons. cbn [snd]. rewrite granted_upto_cons.
    destruct (Z.leb_spec y tend) as [Hyle|Hygt].
    2:{ rewrite (granted_zero_after _ r' tend y S Hygt). destruct W as (? & ? & _); lia. }
    assert (NE1 : bucket l1 <> limit_bps l1) by (unfold l1; cbn; lia).
    assert (Hy1 : last_refill l1 <= y) by (unfold l1; cbn; lia).
    pose proof (take_real l1 y W1 NE1 Hy1) as H.
    pose proof (take_wf l1 y W1 Hy1) as (W2 & _ & _ & _ & _).
    destruct (take l1 y) as [l2 g2]. cbn [fst snd] in *.
    destruct H as (HL2 & Hlr2 & Hb2 & Hg2 & Hcap2 & _ & _ & _).
    unfold l1 in HL2, Hcap2; cbn in HL2, Hcap2.
    specialize (Tight l2 y r' g2 W2 HL2 Hlr2 ltac:(lia) Hyle S Hcap2). lia.
  - pose proof (take_real l x W NE Hx) as H.
    pose proof (take_wf l x W Hx) as (W' & _ & _ & _ & _).
    destruct (take l x) as [l' g]. cbn [fst snd] in *.
    destruct H as (HL' & Hlr' & Hb' & Hg & Hcap & _ & _ & _).
    specialize (Tight l' x r g W' HL' Hlr' Hx0 Hle S Hcap). lia.
Qed.

Lemma granted_in_upto t0 tend l ts :
  sorted_from t0 ts -> granted_in t0 tend (snd (run l ts)) = granted_upto tend (snd (run l ts)).
Proof.
  revert l t0. induction ts as [|x r IH]; intros l t0 S; [reflexivity|].
  destruct S as [Hx S]. rewrite run_cons. cbn [snd]. unfold granted_in, granted_upto in *. cbn [fold_right fst snd].
  rewrite (IH _ t0 (sorted_from_weaken _ _ _ Hx S)).
  assert ((t0 <=? x) = true) as -> by lia. reflexivity.
Qed.

(* the window bound that the current code satisfies: limit*T + one second of burst + one grant *)
Lemma window_bound_partial ts : forall l t0 T,
  wfl l -> sorted_from (last_refill l) ts -> 0 <= T ->
  granted_in t0 (t0 + T) (snd (run l ts)) * 1048576
    <= limit_bps l * T + limit_bps l * 1048576 + 128 * 1048576.
Proof.
  induction ts as [|x r IH]; intros l t0 T W S HT.
  - cbn. destruct W as (? & ? & _). assert (0 <= limit_bps l * T) by (apply Z.mul_nonneg_nonneg; lia). lia.
  - destruct (Z.leb_spec t0 x) as [Hin|Hout].
    + rewrite (granted_in_upto t0 (t0 + T) l (x :: r)) by (destruct S as [? S]; split; [lia|exact S]).
      pose proof (lemB (x :: r) l t0 (t0 + T) W S) as B.
      assert (S0 : sorted_from t0 (x :: r)) by (destruct S as [? S]; split; [lia|exact S]).
      specialize (B S0 ltac:(lia)). replace (t0 + T - t0) with T in B by lia. lia.
    + destruct S as [Hx S]. rewrite run_cons. cbn [snd].
      unfold granted_in at 1. cbn [fold_right fst snd]. fold (granted_in t0 (t0 + T) (snd (run (fst (take l x)) r))).
      assert ((t0 <=? x) = false) as -> by lia. cbn [andb].
      destruct (take_wf l x W Hx) as (W' & HL' & Hl & _ & _).
      specialize (IH (fst (take l x)) t0 T W' (sorted_from_weaken _ _ _ Hl S) HT). rewrite HL' in IH. exact IH.
Qed.

(* the strict bound of the property statement (limit*T + one second of burst) is false of the
   current code: a full bucket idle since 0, three polls at t = 1 s under 1 KiB/s *)
Lemma window_bound_refuted :
  exists l ts t0 T, wfl l /\ sorted_from (last_refill l) ts /\ 0 <= T /\
    ~ (granted_in t0 (t0 + T) (snd (run l ts)) * 1048576 <= limit_bps l * T + limit_bps l * 1048576).
Proof.
  exists (mkLim 1024 1024 0), (repeat 1048576 10), 1048576, 0.
  split; [unfold wfl; cbn; lia|]. split; [cbn [repeat sorted_from last_refill]; lia|]. split; [lia|].
  intros H. vm_compute in H. apply H. reflexivity.
Qed.

(* ---- invariant of the network-level machine ---- *)

Definition wfo (c : option lim) : Prop := match c with None => True | Some l => wfl l end.

Lemma copy_tokens_wf new old :
  wfl new -> 0 <= bucket old -> 0 <= last_refill old ->
  wfl (fst (copy_tokens new old)) /\ limit_bps (fst (copy_tokens new old)) = limit_bps new /\
  last_refill (fst (copy_tokens new old)) = last_refill old.
Proof.
  intros (Hb & HL & Hlr) Ho Hlo. unfold copy_tokens, add_tokens, wfl.
  cbn [limit_bps bucket last_refill fst snd].
  destruct (limit_bps new <? bucket new + bucket old) eqn:E; cbn [limit_bps bucket last_refill fst snd]; lia.
Qed.

Lemma set_limit_wf c k : wfo c -> 1 <= k \/ k = 0 -> wfo (set_limit c k).
Proof.
  intros W Hk. unfold set_limit, create_limiter. destruct (Z.eqb_spec k 0) as [->|NE]; [exact I|].
  assert (Wn : wfl (mk_limited k)) by (unfold wfl, mk_limited; cbn; lia).
  destruct c as [o|]; cbn [wfo] in *.
  - destruct W as (? & ? & ?). apply copy_tokens_wf; [exact Wn|lia|lia].
  - apply copy_tokens_wf; [exact Wn|cbn; lia|cbn; lia].
Qed.

(* ops with non-decreasing non-negative clock readings and legal limits *)
Fixpoint ops_ok (t : Z) (ops : list op) : Prop :=
  match ops with
  | [] => True
  | Take now :: r => t <= now /\ ops_ok now r
  | SetLimit k :: r => (1 <= k \/ k = 0) /\ ops_ok t r
  end.

Definition last_of (c : option lim) : Z := match c with Some l => last_refill l | None => 0 end.

Lemma mstep_inv c o t :
  wfo c -> last_of c <= t -> ops_ok t [o] ->
  wfo (fst (mstep c o)) /\
  last_of (fst (mstep c o)) <= (match o with Take now => now | _ => t end).
Proof.
  intros W Hl Ho. destruct o as [now|k]; cbn [mstep].
  - destruct c as [l|]; cbn [wfo last_of fst] in *; [|split; [exact I|cbn in Ho; lia]].
    cbn in Ho. destruct Ho as [Hn _].
    destruct (take_wf l now W ltac:(lia)) as (W' & _ & Hl' & _ & _).
    destruct (take l now) as [l' g]. cbn [fst] in *. split; [exact W'|exact Hl'].
  - cbn in Ho. destruct Ho as [Hk _]. cbn [fst]. split; [apply set_limit_wf; assumption|].
    unfold set_limit, create_limiter. destruct (Z.eqb_spec k 0); [cbn; destruct c; cbn in *; [destruct W as (_&_&?)|]; lia|].
    assert (Wn : wfl (mk_limited k)) by (unfold wfl, mk_limited; cbn; lia).
    destruct c as [o|]; cbn [wfo last_of] in *.
    + destruct W as (? & ? & ?). destruct (copy_tokens_wf (mk_limited k) o Wn) as (_ & _ & E); [lia|lia|]. rewrite E. exact Hl.
    + destruct (copy_tokens_wf (mk_limited k) unlimited_as_lim Wn) as (_ & _ & E); [cbn; lia|cbn; lia|]. rewrite E. cbn. lia.
Qed.

Fixpoint mstate (c : option lim) (ops : list op) : option lim :=
  match ops with [] => c | o :: r => mstate (fst (mstep c o)) r end.

Lemma reachable_wf ops : forall c t, wfo c -> last_of c <= t -> 0 <= t -> ops_ok t ops ->
  wfo (mstate c ops) /\ exists t', last_of (mstate c ops) <= t'.
Proof.
  induction ops as [|o r IH]; intros c t W Hl Ht Ho; cbn [mstate]; [split; [exact W|eauto]|].
  destruct o as [now|k].
  - destruct Ho as [Hn Ho]. destruct (mstep_inv c (Take now) t W Hl) as (W' & Hl'); [cbn; auto|].
    eapply (IH _ now); eauto; lia.
  - destruct Ho as [Hk Ho]. destruct (mstep_inv c (SetLimit k) t W Hl) as (W' & Hl'); [cbn; auto|].
    eapply (IH _ t); eauto.
Qed.

Lemma bucket_le_limit ops : forall t, 0 <= t -> ops_ok t ops ->
  match mstate None ops with Some l => 0 <= bucket l <= limit_bps l | None => True end.
Proof.
  intros t Ht Ho. destruct (reachable_wf ops None t I ltac:(cbn; lia) Ht Ho) as (W & _).
  destruct (mstate None ops); [destruct W as (? & _); assumption|exact I].
Qed.

(* ---- bounded wait ---- *)

Lemma wait_step l now :
  wfl l -> 1024 <= limit_bps l -> last_refill l + 10485 <= now ->
  snd (take l now) = 128 \/
  (snd (take l now) = 0 /\ bucket l + 8 <= bucket (fst (take l now)) /\ bucket (fst (take l now)) < 128 /\
   last_refill (fst (take l now)) = now).
Proof.
  intros W HL Hn. destruct (Z.eq_dec (bucket l) (limit_bps l)) as [E|NE].
  - left. rewrite (take_full l now W E). reflexivity.
  - destruct W as (Hb & HL' & Hlr).
    unfold take, take_step, refill, add_tokens, is_empty.
    destruct l as [lb b lr]; cbn [limit_bps bucket last_refill fst snd] in *.
    destruct (Z.eqb_spec lb b) as [->|_]; [lia|].
    assert (Hlt : (b <? lb) = true) by lia. rewrite Hlt.
    set (x := (lb - b) * (now - lr)).
    assert (Hx : 0 <= x) by (apply Z.mul_nonneg_nonneg; lia).
    rewrite (quot_div x Hx). cbn [limit_bps bucket last_refill fst snd].
    destruct (Z.ltb_spec b 128) as [Hsmall|Hbig].
    + assert (897 * 10485 <= x) by (unfold x; apply Z.mul_le_mono_nonneg; lia).
      destruct (lb <? b + x / 1048576) eqn:E1; cbn [limit_bps bucket last_refill fst snd];
        destruct (_ <? 128) eqn:E2; cbn [negb limit_bps bucket last_refill fst snd]; lia.
    + left. destruct (lb <? b + x / 1048576) eqn:E1; cbn [limit_bps bucket last_refill fst snd];
        destruct (_ <? 128) eqn:E2; cbn [negb limit_bps bucket last_refill fst snd]; lia.
Qed.

Lemma gaps_sorted g t ts : 0 <= g -> gaps_from g t ts -> sorted_from t ts.
Proof.
  intros Hg. revert t. induction ts as [|x r IH]; intros t G; [exact I|].
  destruct G as [Hx G]. split; [lia|apply IH; exact G].
Qed.

Lemma total_nonneg ts : forall l, wfl l -> sorted_from (last_refill l) ts -> 0 <= total (snd (run l ts)).
Proof.
  induction ts as [|x r IH]; intros l W S; [cbn; lia|].
  destruct S as [Hx S]. rewrite run_cons. cbn [snd]. unfold total. cbn [fold_right snd].
  fold (total (snd (run (fst (take l x)) r))).
  destruct (take_wf l x W Hx) as (W' & _ & Hl & _ & Hg).
  specialize (IH (fst (take l x)) W' (sorted_from_weaken _ _ _ Hl S)). lia.
Qed.

(* [k] further polls at gaps >= INTERVAL suffice when the bucket is at most 8k short of a grant *)
Lemma bounded_wait_aux k : forall l ts,
  wfl l -> 1024 <= limit_bps l -> gaps_from 10485 (last_refill l) ts ->
  128 - 8 * Z.of_nat k <= bucket l -> (length ts = S k)%nat ->
  128 <= total (snd (run l ts)).
Proof.
  induction k as [|k IH]; intros l ts W HL G Hb Hlen.
  - destruct ts as [|x [|? ?]]; try discriminate. destruct G as [Hx _].
    rewrite run_cons. cbn [snd run total fold_right].
    destruct (wait_step l x W HL Hx) as [->|(_ & ? & ? & _)]; lia.
  - destruct ts as [|x r]; [discriminate|]. destruct G as [Hx G].
    rewrite run_cons. cbn [snd]. unfold total. cbn [fold_right snd]. fold (total (snd (run (fst (take l x)) r))).
    destruct (take_wf l x W ltac:(lia)) as (W' & HL' & Hl' & _ & Hg).
    destruct (wait_step l x W HL Hx) as [->|(Hz & Hinc & _ & Hlr)].
    + pose proof (total_nonneg r (fst (take l x)) W'
                    (sorted_from_weaken _ _ _ Hl' (gaps_sorted 10485 x r ltac:(lia) G))). lia.
    + rewrite Hz. rewrite <- Hlr in G. rewrite <- HL' in HL.
      specialize (IH (fst (take l x)) r W' HL G ltac:(lia) ltac:(cbn in Hlen; lia)). lia.
Qed.

(* a waiter is granted within 18 polls: the first at any time, the others INTERVAL apart *)
Lemma bounded_wait l t0 ts :
  wfl l -> 1024 <= limit_bps l -> last_refill l <= t0 -> gaps_from 10485 t0 ts -> length ts = 17%nat ->
  128 <= total (snd (run l (t0 :: ts))).
Proof.
  intros W HL Ht G Hlen. rewrite run_cons. cbn [snd]. unfold total. cbn [fold_right snd].
  fold (total (snd (run (fst (take l t0)) ts))).
  destruct (take_wf l t0 W Ht) as (W' & HL' & Hl' & Hmono & Hg).
  destruct (Z.eq_dec (bucket l) (limit_bps l)) as [E|NE].
  - pose proof (take_full l t0 W E) as Ef. rewrite Ef in *. cbn [fst snd] in *.
    pose proof (total_nonneg ts _ W' (sorted_from_weaken _ _ _ Hl' (gaps_sorted 10485 t0 ts ltac:(lia) G))). lia.
  - pose proof (take_real l t0 W NE Ht) as H. destruct (take l t0) as [l' g]. cbn [fst snd] in *.
    destruct H as (_ & Hlr' & Hb' & _ & _ & _ & _ & _).
    rewrite <- Hlr' in G. rewrite <- HL' in HL.
    pose proof (bounded_wait_aux 16 l' ts W' HL G ltac:(lia) Hlen). lia.
Qed.

(* ---- replaced limiter objects still polled by in-flight waiters ---- *)

Fixpoint nops_ok (t : Z) (ops : list nop) : Prop :=
  match ops with
  | [] => True
  | NTake now :: r => t <= now /\ nops_ok now r
  | NTakeStale _ now :: r => t <= now /\ nops_ok now r
  | NSet k :: r => (1 <= k \/ k = 0) /\ nops_ok t r
  end.

Definition wfn (t : Z) (n : net) : Prop :=
  wfo (cur n) /\ last_of (cur n) <= t /\ Forall (fun l => wfl l /\ last_refill l <= t) (stale n).

Lemma Forall_weaken_time t t' ls : t <= t' ->
  Forall (fun l => wfl l /\ last_refill l <= t) ls -> Forall (fun l => wfl l /\ last_refill l <= t') ls.
Proof. intros Ht H. eapply Forall_impl; [|exact H]. cbn. intros l [? ?]. split; [assumption|lia]. Qed.

Lemma poll_nth_inv i : forall now t ls, t <= now ->
  Forall (fun l => wfl l /\ last_refill l <= t) ls ->
  Forall (fun l => wfl l /\ last_refill l <= now) (fst (poll_nth i now ls)) /\ 0 <= snd (poll_nth i now ls).
Proof.
  induction i as [|j IH]; intros now t ls Ht H; destruct ls as [|l r]; cbn [poll_nth fst snd].
  - split; [constructor|lia].
  - inversion H as [|? ? [Wl Hl] Hr]; subst.
    destruct (take_wf l now Wl ltac:(lia)) as (W' & _ & Hl' & _ & Hg).
    split; [constructor; [split; assumption|eapply Forall_weaken_time; [exact Ht|exact Hr]]|exact Hg].
  - split; [constructor|lia].
  - inversion H as [|? ? [Wl Hl] Hr]; subst.
    destruct (IH now t r Ht Hr) as (Hr' & Hg).
    split; [constructor; [split; [assumption|lia]|exact Hr']|exact Hg].
Qed.

Lemma nstep_inv n o t :
  wfn t n -> nops_ok t [o] ->
  wfn (match o with NTake now => now | NTakeStale _ now => now | NSet _ => t end) (fst (nstep n o)) /\
  0 <= snd (nstep n o).
Proof.
  intros (Wc & Hc & Hs) Ho. destruct o as [now|k|i now]; cbn [nstep fst snd].
  - cbn in Ho. destruct Ho as [Hn _].
    destruct (mstep_inv (cur n) (Take now) t Wc Hc) as (W' & Hl'); [cbn; auto|].
    split.
    + unfold wfn; cbn [cur stale]. split; [exact W'|]. split; [exact Hl'|exact (Forall_weaken_time t now (stale n) Hn Hs)].
    + cbn [mstep]. destruct (cur n) as [l|]; cbn [wfo last_of] in *.
      * destruct (take_wf l now Wc ltac:(lia)) as (_ & _ & _ & _ & Hg). destruct (take l now); exact Hg.
      * cbn. unfold unlimited_take, UNLIMITED_GRANT. lia.
  - cbn in Ho. destruct Ho as [Hk _].
    destruct (mstep_inv (cur n) (SetLimit k) t Wc Hc) as (W' & Hl'); [cbn; auto|]. cbn [mstep fst] in W', Hl'.
    split; [|lia]. unfold wfn; cbn [cur stale]. split; [exact W'|]. split; [exact Hl'|].
    destruct (cur n) as [l|]; [constructor; [split; [exact Wc|exact Hc]|exact Hs]|exact Hs].
  - cbn in Ho. destruct Ho as [Hn _].
    destruct (poll_nth_inv i now t (stale n) Hn Hs) as (Hs' & Hg).
    split; [|exact Hg]. unfold wfn; cbn [cur stale]. split; [exact Wc|]. split; [lia|exact Hs'].
Qed.

Lemma nrun_wf ops : forall n t, 0 <= t -> wfn t n -> nops_ok t ops -> exists t', wfn t' (nrun n ops).
Proof.
  induction ops as [|o r IH]; intros n t Ht W Ho; cbn [nrun]; [eauto|].
  destruct o as [now|k|i now]; cbn [nops_ok] in Ho; destruct Ho as [H1 Ho].
  - destruct (nstep_inv n (NTake now) t W) as (W' & _); [cbn; auto|]. eapply (IH _ now); eauto; lia.
  - destruct (nstep_inv n (NSet k) t W) as (W' & _); [cbn; auto|]. eapply (IH _ t); eauto.
  - destruct (nstep_inv n (NTakeStale i now) t W) as (W' & _); [cbn; auto|]. eapply (IH _ now); eauto; lia.
Qed.

(* every limiter object that exists after any history (the current one and every replaced one that an
   in-flight waiter may still poll) is well-formed, so the window bound holds for each of them *)
Lemma all_limiters_wf ops t : 0 <= t -> nops_ok t ops ->
  wfo (cur (nrun (mkNet None []) ops)) /\ Forall wfl (stale (nrun (mkNet None []) ops)).
Proof.
  intros Ht Ho. destruct (nrun_wf ops (mkNet None []) t Ht) as (t' & W & _ & Hs); [|exact Ho|].
  - unfold wfn; cbn. split; [exact I|]. split; [lia|constructor].
  - split; [exact W|]. eapply Forall_impl; [|exact Hs]. cbn. tauto.
Qed.
