(* C20 property theorems (statements only; proofs are in Proofs.v).
   The limiter functions take/run/... are built on SlskGen.RateGen, regenerated from
   /repo/src/aioslsk/network/rate_limiter.py on every run.  Time is in ticks of 2^-20 s. *)
From Slsk Require Import Base.Tac.
From SlskGen Require Import RateGen.
From Slsk Require Import C20.Model C20.Proofs.
Open Scope Z_scope.

(* The bucket never exceeds one second of traffic, for every history of polls and limit changes. *)
Theorem C20_bucket_le_limit : forall ops t, 0 <= t -> ops_ok t ops ->
  match mstate None ops with Some l => 0 <= bucket l <= limit_bps l | None => True end.
Proof. exact bucket_le_limit. Qed.

(* Window bound satisfied by the current code: bytes granted in ANY window [t0, t0+T], by any
   number of connections polling the shared bucket in any order at any (monotone) times, from any
   well-formed state (hence after any history and any limit change), are at most
   limit*T + one second of burst + ONE EXTRA GRANT (128 B).  The extra grant is finding F25. *)
Theorem C20_window_bound_partial : forall ts l t0 T,
  wfl l -> sorted_from (last_refill l) ts -> 0 <= T ->
  granted_in t0 (t0 + T) (snd (run l ts)) * TICK <= limit_bps l * T + limit_bps l * TICK + 128 * TICK.
Proof. exact window_bound_partial. Qed.

(* The bound as the property states it (no extra grant) is false of the current code. *)
Theorem C20_window_bound_refuted :
  exists l ts t0 T, wfl l /\ sorted_from (last_refill l) ts /\ 0 <= T /\
    ~ (granted_in t0 (t0 + T) (snd (run l ts)) * TICK <= limit_bps l * T + limit_bps l * TICK).
Proof. exact window_bound_refuted. Qed.

(* Every reachable limiter state is well-formed, so the window bound applies after any history,
   in particular right after a limit change (no burst beyond the new limit's second). *)
Theorem C20_reachable_wf : forall ops c t, wfo c -> last_of c <= t -> 0 <= t -> ops_ok t ops ->
  wfo (mstate c ops).
Proof. intros ops c t W Hl Ht Ho. exact (proj1 (reachable_wf ops c t W Hl Ht Ho)). Qed.

Theorem C20_limit_change_no_burst : forall c k ts t0 T, wfo c -> 1 <= k ->
  match set_limit c k with
  | Some l => limit_bps l = k * 1024 /\
      (sorted_from (last_refill l) ts -> 0 <= T ->
       granted_in t0 (t0 + T) (snd (run l ts)) * TICK <= limit_bps l * T + limit_bps l * TICK + 128 * TICK)
  | None => False
  end.
Proof.
  intros c k ts t0 T W Hk. pose proof (set_limit_wf c k W (or_introl Hk)) as W'.
  unfold set_limit, create_limiter in *. destruct (Z.eqb_spec k 0); [lia|]. cbn [wfo] in W'.
  split; [|intros; apply window_bound_partial; assumption].
  assert (Wn : wfl (mk_limited k)) by (unfold wfl, mk_limited; cbn; lia).
  destruct c as [o|]; cbn [wfo] in W.
  - destruct W as (? & ? & ?). destruct (copy_tokens_wf (mk_limited k) o Wn) as (_ & E & _); [lia|lia|]. rewrite E. reflexivity.
  - destruct (copy_tokens_wf (mk_limited k) unlimited_as_lim Wn) as (_ & E & _); [cbn; lia|cbn; lia|]. rewrite E. reflexivity.
Qed.

(* Limit changes while waiters are in flight: a connection suspended inside take_tokens keeps polling the
   REPLACED limiter object until it is granted once.  For every history of polls of the current limiter,
   polls of any replaced limiter and limit changes, every limiter object in existence is well-formed -
   so C20_window_bound_partial bounds what each of them can grant, in particular the new one from the
   moment of the change, and a replaced one cannot grant more than its own (old) limit allows. *)
Theorem C20_all_limiters_wf : forall ops t, 0 <= t -> nops_ok t ops ->
  wfo (cur (nrun (mkNet None []) ops)) /\ Forall wfl (stale (nrun (mkNet None []) ops)).
Proof. exact all_limiters_wf. Qed.

(* No limit: a poll is granted at once (no await on that path: shape-checked by the translator) *)
Theorem C20_unlimited_never_waits : forall now, snd (mstep None (Take now)) = UNLIMITED_GRANT /\ 0 < UNLIMITED_GRANT.
Proof. intros now. split; [reflexivity|reflexivity]. Qed.

(* Bounded wait: under any limit >= 1 KiB/s a waiter polling every INTERVAL (or slower) is granted
   within 18 polls, whatever the state it starts from. *)
Theorem C20_bounded_wait : forall l t0 ts,
  wfl l -> 1024 <= limit_bps l -> last_refill l <= t0 -> gaps_from INTERVAL_TICKS t0 ts -> length ts = 17%nat ->
  128 <= total (snd (run l (t0 :: ts))).
Proof. exact bounded_wait. Qed.

(* non-vacuity: concrete states meeting the hypotheses *)
Example C20_nonvacuous :
  wfl (mk_limited 50) /\ sorted_from 0 [5; 5; 1048576; 99999999] /\
  ops_ok 0 [SetLimit 10; Take 3; SetLimit 0; Take 4; SetLimit 2; Take 2000000] /\
  gaps_from INTERVAL_TICKS 7 [10492; 20977] /\
  nops_ok 0 [NSet 10; NTake 1048576; NSet 1; NTakeStale 0 1048577; NTake 2000000; NSet 0; NTakeStale 1 2000001].
Proof. unfold wfl, mk_limited, INTERVAL_TICKS; cbn; lia. Qed.
