(* C20 model: the limiter functions are GENERATED (SlskGen.RateGen, from
   network/rate_limiter.py); this file adds the shared-bucket machine on top.
   Definitions only; must stay executable (used by the correspondence check). *)
From Coq Require Import ZArith List Bool.
From SlskGen Require Import RateGen.
Import ListNotations.
Open Scope Z_scope.

(* One connection polling the shared limiter once at time [now] (= one iteration of the
   take_tokens loop).  Which connection polls is irrelevant for the total. *)
Definition take (l : lim) (now : Z) : lim * Z := take_step l now.

(* trace of (time, granted bytes) *)
Fixpoint run (l : lim) (ts : list Z) : lim * list (Z * Z) :=
  match ts with
  | [] => (l, [])
  | t :: ts' =>
      let '(l1, g) := take l t in
      let '(l2, tr) := run l1 ts' in
      (l2, (t, g) :: tr)
  end.

Definition granted_upto (tend : Z) (tr : list (Z * Z)) : Z :=
  fold_right (fun p acc => if Z.leb (fst p) tend then snd p + acc else acc) 0 tr.

Definition granted_in (t0 t1 : Z) (tr : list (Z * Z)) : Z :=
  fold_right (fun p acc => if andb (Z.leb t0 (fst p)) (Z.leb (fst p) t1) then snd p + acc else acc) 0 tr.

Definition total (tr : list (Z * Z)) : Z := fold_right (fun p acc => snd p + acc) 0 tr.

(* The network-level machine: the upload (or download) limiter slot of Network, replaced by
   set_*_speed_limit: new := create_limiter k; new.copy_tokens(old); slot := new.
   None = UnlimitedRateLimiter (bucket 0, last_refill 0 as left by RateLimiter.__init__). *)
Inductive op := Take (now : Z) | SetLimit (kbps : Z).

Definition unlimited_as_lim : lim := mkLim 0 0 0.

Definition set_limit (cur : option lim) (kbps : Z) : option lim :=
  match create_limiter kbps with
  | None => None
  | Some new =>
      let old := match cur with Some o => o | None => unlimited_as_lim end in
      Some (fst (copy_tokens new old))
  end.

Definition mstep (cur : option lim) (o : op) : option lim * Z :=
  match o with
  | Take now =>
      match cur with
      | None => (None, unlimited_take)
      | Some l => let '(l', g) := take l now in (Some l', g)
      end
  | SetLimit k => (set_limit cur k, 0)
  end.

(* observations: grant and bucket after every op (bucket of unlimited = 0) *)
Fixpoint mrun (cur : option lim) (ops : list op) : list (Z * Z) :=
  match ops with
  | [] => []
  | o :: r =>
      let '(c', g) := mstep cur o in
      (g, match c' with Some l => bucket l | None => 0 end) :: mrun c' r
  end.

Definition wf (l : lim) : Prop := 0 <= bucket l <= limit_bps l.
Definition wfb (l : lim) : bool := andb (Z.leb 0 (bucket l)) (Z.leb (bucket l) (limit_bps l)).

(* times are non-decreasing and not before [t] *)
Fixpoint sorted_from (t : Z) (ts : list Z) : Prop :=
  match ts with
  | [] => True
  | x :: r => t <= x /\ sorted_from x r
  end.

(* consecutive polls at least [gap] apart, the first at least [gap] after [t] *)
Fixpoint gaps_from (gap t : Z) (ts : list Z) : Prop :=
  match ts with
  | [] => True
  | x :: r => t + gap <= x /\ gaps_from gap x r
  end.

(* ---- replaced limiter objects ----
   A connection that is suspended inside take_tokens of a limiter object when the limit is changed
   keeps polling THAT object until it is granted once (send_file/receive_file read the limiter
   attribute again only at the next chunk).  [stale] over-approximates the set of such objects: every
   replaced limited limiter is kept and may be polled at any later time. *)
Record net := mkNet { cur : option lim; stale : list lim }.
Inductive nop := NTake (now : Z) | NSet (kbps : Z) | NTakeStale (i : nat) (now : Z).

Fixpoint poll_nth (i : nat) (now : Z) (ls : list lim) : list lim * Z :=
  match ls, i with
  | [], _ => ([], 0)
  | l :: r, O => (fst (take l now) :: r, snd (take l now))
  | l :: r, S j => (l :: fst (poll_nth j now r), snd (poll_nth j now r))
  end.

Definition nstep (n : net) (o : nop) : net * Z :=
  match o with
  | NTake now => (mkNet (fst (mstep (cur n) (Take now))) (stale n), snd (mstep (cur n) (Take now)))
  | NSet k => (mkNet (set_limit (cur n) k)
                     (match cur n with Some l => l :: stale n | None => stale n end), 0)
  | NTakeStale i now => (mkNet (cur n) (fst (poll_nth i now (stale n))), snd (poll_nth i now (stale n)))
  end.

Fixpoint nrun (n : net) (ops : list nop) : net :=
  match ops with [] => n | o :: r => nrun (fst (nstep n o)) r end.

(* observations of the net machine: grant, and bucket of the limiter object that was polled
   (for NSet: bucket of the new current limiter; unlimited = 0) *)
Definition bucket_of (c : option lim) : Z := match c with Some l => bucket l | None => 0 end.

Fixpoint nobs (n : net) (ops : list nop) : list (Z * Z) :=
  match ops with
  | [] => []
  | o :: r =>
      let n' := fst (nstep n o) in
      let g := snd (nstep n o) in
      let b := match o with
               | NTake _ | NSet _ => bucket_of (cur n')
               | NTakeStale i _ => bucket_of (nth_error (stale n') i)
               end in
      (g, b) :: nobs n' r
  end.
