(* C19 specification, written from the PROPERTY TEXT, not from the code.

   "After any sequence of server notifications, each room's joined flag, user list, owner,
    member set, operator set, tickers and privacy flag, and each referenced user's status, stats
    and privileges, equal what replaying those notifications in order implies (join adds, leave
    removes, grant adds, revoke removes, lists replace).  Chat, ticker and membership events carry
    the room and user they were announced for, and messages from users blocked for the
    corresponding kind are not reported."

   Shape: the spec has NO state record and no handlers.  Every observable is its own question
   ("is u an operator of r?") answered by replaying the notification list with a tiny step
   function that only looks at the clauses of the text that concern that one question.  The hand
   model of the handlers (Model.v) shares nothing with this file except the vocabulary (the type
   of notifications and of reported events), which is defined here.

   Readings of the text that had to be fixed (DESIGN.md appendix C):
   * the user list of a JoinRoom reply is read as "every listed user is announced as being in the
     room" (join adds): it does not forget users announced earlier for that room;
   * the privacy flag follows the most recent explicit statement (room list: public iff in the
     public list; join reply: private iff it names an owner); a room first heard of through a
     private-room notification starts private, through any other notification public;
   * a room list forgets every room it does not name (as public, owned or member-of);
   * losing membership ends operator status. *)
From Coq Require Import ZArith List Bool Arith.
Import ListNotations.

Definition name := nat.
Definition room := nat.
Definition text := nat.
Definition stats := (Z * Z * Z * Z)%type.       (* avg_speed, uploads, files, folders *)

(* blocked users: name, private messages blocked, room messages blocked *)
Definition blockmap := list (name * (bool * bool)).

Inductive msg :=
| RoomListM (pub owned priv operated : list room)
| JoinRoomM (r : room) (users : list (name * (Z * stats))) (owner : option name) (ops : list name)
| LeaveRoomM (r : room)
| UserJoinedM (r : room) (u : name) (st : Z) (ss : stats)
| UserLeftM (r : room) (u : name)
| MemberGrantM (r : room) (u : name)          (* PrivateRoomGrantMembership: someone else *)
| MemberRevokeM (r : room) (u : name)
| MembershipGrantedM (r : room)               (* PrivateRoomMembershipGranted: the logged-in user *)
| MembershipRevokedM (r : room)
| MembersM (r : room) (l : list name)
| OperatorsM (r : room) (l : list name)
| OpGrantM (r : room) (u : name)              (* PrivateRoomGrantOperator: someone else *)
| OpRevokeM (r : room) (u : name)
| OpGrantedM (r : room)                       (* PrivateRoomOperatorGranted: the logged-in user *)
| OpRevokedM (r : room)
| TickersM (r : room) (l : list (name * text))
| TickerAddM (r : room) (u : name) (t : text)
| TickerRemM (r : room) (u : name)
| RoomChatM (r : room) (u : name) (t : text)
| PublicChatM (r : room) (u : name) (t : text)
| PrivateChatM (u : name) (t : text)
| UserStatusM (u : name) (st : Z) (privileged : bool)
| UserStatsM (u : name) (ss : stats)
| AddUserM (u : name) (exist : bool) (st : Z) (ss : option stats)
| PrivUsersM (l : list name)
| AddPrivUserM (u : name).

Inductive label :=
| LRoomMessage | LPublicMessage | LPrivateMessage
| LRoomJoined | LRoomLeft
| LRoomTickers | LTickerAdded | LTickerRemoved
| LMembershipGranted | LMembershipRevoked | LMembers
| LOperatorGranted | LOperatorRevoked | LOperators
| LRoomList | LUserStatus | LUserStats | LPrivilegedUsers | LPrivilegedUserAdded.

(* a reported event: what it is, and the room / user it is about (None for the user = "it is
   about the logged-in user", as documented for the Room* events) *)
Record event := mkEv { ev_label : label; ev_room : option room; ev_user : option name }.

(* ---------------------------------------------------------------------------------------- *)
(* small vocabulary of the spec                                                                *)

Definition isin (x : nat) (l : list nat) : bool := existsb (Nat.eqb x) l.

Fixpoint lookup_block (u : name) (bl : blockmap) : bool * bool :=
  match bl with
  | [] => (false, false)
  | (u', f) :: r => if Nat.eqb u u' then f else lookup_block u r
  end.
Definition blocked_private (bl : blockmap) (u : name) : bool := fst (lookup_block u bl).
Definition blocked_room (bl : blockmap) (u : name) : bool := snd (lookup_block u bl).

(* "messages from users blocked for the corresponding kind" *)
Definition suppressed (bl : blockmap) (m : msg) : bool :=
  match m with
  | RoomChatM _ u _ | PublicChatM _ u _ => blocked_room bl u
  | PrivateChatM u _ => blocked_private bl u
  | _ => false
  end.

(* the last statement about key k in an association list (later entries override earlier ones) *)
Fixpoint last_of {A} (k : nat) (l : list (nat * A)) : option A :=
  match l with
  | [] => None
  | (k', a) :: r => match last_of k r with Some x => Some x | None => if Nat.eqb k k' then Some a else None end
  end.

Definition replay {A} (step : A -> msg -> A) (a : A) (ms : list msg) : A := fold_left step ms a.

(* the room a notification is about, and whether it is a private-room notification *)
Definition about (m : msg) : option (room * bool) :=
  match m with
  | RoomListM _ _ _ _ => None
  | JoinRoomM r _ _ _ | LeaveRoomM r | UserJoinedM r _ _ _ | UserLeftM r _
  | TickersM r _ | TickerAddM r _ _ | TickerRemM r _ | RoomChatM r _ _ | PublicChatM r _ _ => Some (r, false)
  | MemberGrantM r _ | MemberRevokeM r _ | MembershipGrantedM r | MembershipRevokedM r | MembersM r _
  | OperatorsM r _ | OpGrantM r _ | OpRevokeM r _ | OpGrantedM r | OpRevokedM r => Some (r, true)
  | _ => None
  end.

(* a room list names a room as public, as owned by us, or as one we are a member of *)
Definition listed (r : room) (pub owned priv : list room) : bool := isin r pub || isin r owned || isin r priv.

(* ---------------------------------------------------------------------------------------- *)
(* one question at a time                                                                      *)

Section Questions.
  Variable me : name.
  Variable bl : blockmap.

  (* Is room r known, and is it private?  None = not known. *)
  Definition private_step (r : room) (p : option bool) (m : msg) : option bool :=
    if suppressed bl m then p else
    match m with
    | RoomListM pub owned priv _ => if listed r pub owned priv then Some (negb (isin r pub)) else None
    | JoinRoomM r' _ owner _ => if Nat.eqb r r' then Some (match owner with Some _ => true | None => false end) else p
    | _ => match about m with
           | Some (r', kind) => if Nat.eqb r r' then (match p with None => Some kind | Some _ => p end) else p
           | None => p
           end
    end.

  (* Have we joined room r? *)
  Definition joined_step (r : room) (j : bool) (m : msg) : bool :=
    match m with
    | JoinRoomM r' _ _ _ => if Nat.eqb r r' then true else j       (* join adds *)
    | LeaveRoomM r' => if Nat.eqb r r' then false else j            (* leave removes *)
    | RoomListM pub owned priv _ => if listed r pub owned priv then j else false
    | _ => j
    end.

  (* Is user u in room r? *)
  Definition inroom_step (r : room) (u : name) (b : bool) (m : msg) : bool :=
    match m with
    | UserJoinedM r' u' _ _ => if Nat.eqb r r' && Nat.eqb u u' then true else b
    | UserLeftM r' u' => if Nat.eqb r r' && Nat.eqb u u' then false else b
    | JoinRoomM r' users _ _ => if Nat.eqb r r' && isin u (map fst users) then true else b
    | LeaveRoomM r' => if Nat.eqb r r' then false else b
    | RoomListM pub owned priv _ => if listed r pub owned priv then b else false
    | _ => b
    end.

  (* Who owns room r? *)
  Definition owner_step (r : room) (o : option name) (m : msg) : option name :=
    match m with
    | JoinRoomM r' _ owner _ => if Nat.eqb r r' then owner else o
    | RoomListM pub owned priv _ =>
        if listed r pub owned priv then
          if isin r owned then Some me
          else match o with Some x => if Nat.eqb x me then None else o | None => None end
        else None
    | _ => o
    end.

  (* Is u a member of private room r? *)
  Definition member_step (r : room) (u : name) (b : bool) (m : msg) : bool :=
    match m with
    | MemberGrantM r' u' => if Nat.eqb r r' && Nat.eqb u u' then true else b       (* grant adds *)
    | MembershipGrantedM r' => if Nat.eqb r r' && Nat.eqb u me then true else b
    | MemberRevokeM r' u' => if Nat.eqb r r' && Nat.eqb u u' then false else b     (* revoke removes *)
    | MembershipRevokedM r' => if Nat.eqb r r' && Nat.eqb u me then false else b
    | MembersM r' l => if Nat.eqb r r' then isin u l else b                         (* lists replace *)
    | RoomListM pub owned priv _ =>
        if listed r pub owned priv then (if Nat.eqb u me then isin r priv else b) else false
    | _ => b
    end.

  (* Is u an operator of private room r? *)
  Definition operator_step (r : room) (u : name) (b : bool) (m : msg) : bool :=
    match m with
    | OpGrantM r' u' => if Nat.eqb r r' && Nat.eqb u u' then true else b           (* grant adds *)
    | OpGrantedM r' => if Nat.eqb r r' && Nat.eqb u me then true else b
    | OpRevokeM r' u' => if Nat.eqb r r' && Nat.eqb u u' then false else b         (* revoke removes *)
    | OpRevokedM r' => if Nat.eqb r r' && Nat.eqb u me then false else b
    | MemberRevokeM r' u' => if Nat.eqb r r' && Nat.eqb u u' then false else b     (* no longer a member *)
    | MembershipRevokedM r' => if Nat.eqb r r' && Nat.eqb u me then false else b
    | OperatorsM r' l => if Nat.eqb r r' then isin u l else b                       (* lists replace *)
    | JoinRoomM r' _ _ ops => if Nat.eqb r r' then isin u ops else b
    | RoomListM pub owned priv operated =>
        if listed r pub owned priv then (if Nat.eqb u me then isin r operated else b) else false
    | _ => b
    end.

  (* What is u's ticker in room r? *)
  Definition ticker_step (r : room) (u : name) (t : option text) (m : msg) : option text :=
    match m with
    | TickersM r' l => if Nat.eqb r r' then last_of u l else t                      (* lists replace *)
    | TickerAddM r' u' t' => if Nat.eqb r r' && Nat.eqb u u' then Some t' else t
    | TickerRemM r' u' => if Nat.eqb r r' && Nat.eqb u u' then None else t
    | RoomListM pub owned priv _ => if listed r pub owned priv then t else None
    | _ => t
    end.

  (* user questions: the most recent announcement wins *)
  Definition status_step (u : name) (s : Z) (m : msg) : Z :=
    match m with
    | UserStatusM u' st _ => if Nat.eqb u u' then st else s
    | UserJoinedM _ u' st _ => if Nat.eqb u u' then st else s
    | JoinRoomM _ users _ _ => match last_of u users with Some (st, _) => st | None => s end
    | AddUserM u' true st _ => if Nat.eqb u u' then st else s
    | _ => s
    end.

  Definition stats_step (u : name) (s : option stats) (m : msg) : option stats :=
    match m with
    | UserStatsM u' ss => if Nat.eqb u u' then Some ss else s
    | UserJoinedM _ u' _ ss => if Nat.eqb u u' then Some ss else s
    | JoinRoomM _ users _ _ => match last_of u users with Some (_, ss) => Some ss | None => s end
    | AddUserM u' true _ (Some ss) => if Nat.eqb u u' then Some ss else s
    | _ => s
    end.

  Definition privileged_step (u : name) (b : bool) (m : msg) : bool :=
    match m with
    | PrivUsersM l => isin u l                                                        (* lists replace *)
    | AddPrivUserM u' => if Nat.eqb u u' then true else b
    | UserStatusM u' _ p => if Nat.eqb u u' then p else b
    | _ => b
    end.

  (* ------------------------------------------------------------------------------------ *)
  (* what is reported for one notification *)
  Definition announced (m : msg) : option event :=
    match m with
    | RoomListM _ _ _ _ => Some (mkEv LRoomList None None)
    | JoinRoomM r _ _ _ => Some (mkEv LRoomJoined (Some r) None)
    | LeaveRoomM r => Some (mkEv LRoomLeft (Some r) None)
    | UserJoinedM r u _ _ => Some (mkEv LRoomJoined (Some r) (Some u))
    | UserLeftM r u => Some (mkEv LRoomLeft (Some r) (Some u))
    | MemberGrantM r u => Some (mkEv LMembershipGranted (Some r) (Some u))
    | MemberRevokeM r u => Some (mkEv LMembershipRevoked (Some r) (Some u))
    | MembershipGrantedM r => Some (mkEv LMembershipGranted (Some r) None)
    | MembershipRevokedM r => Some (mkEv LMembershipRevoked (Some r) None)
    | MembersM r _ => Some (mkEv LMembers (Some r) None)
    | OperatorsM r _ => Some (mkEv LOperators (Some r) None)
    | OpGrantM r u => Some (mkEv LOperatorGranted (Some r) (Some u))
    | OpRevokeM r u => Some (mkEv LOperatorRevoked (Some r) (Some u))
    | OpGrantedM r => Some (mkEv LOperatorGranted (Some r) None)
    | OpRevokedM r => Some (mkEv LOperatorRevoked (Some r) None)
    | TickersM r _ => Some (mkEv LRoomTickers (Some r) None)
    | TickerAddM r u _ => Some (mkEv LTickerAdded (Some r) (Some u))
    | TickerRemM r u => Some (mkEv LTickerRemoved (Some r) (Some u))
    | RoomChatM r u _ => Some (mkEv LRoomMessage (Some r) (Some u))
    | PublicChatM r u _ => Some (mkEv LPublicMessage (Some r) (Some u))
    | PrivateChatM u _ => Some (mkEv LPrivateMessage None (Some u))
    | UserStatusM u _ _ => Some (mkEv LUserStatus None (Some u))
    | UserStatsM u _ => Some (mkEv LUserStats None (Some u))
    | AddUserM _ _ _ _ => None
    | PrivUsersM _ => Some (mkEv LPrivilegedUsers None None)
    | AddPrivUserM u => Some (mkEv LPrivilegedUserAdded None (Some u))
    end.

  Definition reported (m : msg) : list event :=
    if suppressed bl m then [] else match announced m with Some e => [e] | None => [] end.
End Questions.
