(* C19 property theorems (statements only; proofs are in Proofs.v).

   Model.v is the hand model of the room / user notification handlers of /repo (tied to the real
   RoomManager / UserManager by the correspondence check on every run); Spec.v is the property
   text read question by question.  [fold me bl s0 ms] is the state of the handlers after the
   notifications ms from state s0; [replay step a ms] is the spec's own replay of one question.
   The theorems hold for every initial state s0 (hence also after login: init_state), every list
   of notifications, all room / user names, every block map. *)
From Slsk Require Import Base.Tac.
From Slsk Require Import C19.Spec C19.Model C19.Proofs.
From SlskGen Require Import RoomGen.

(* Known/privacy flag, joined flag, user list, owner, member set, OPERATOR SET, tickers, and every
   user's status, stats and privileges equal the replay - for ALL notification lists, with no side
   condition (the own-operator-grant handler was repaired: F24). *)
Theorem C19_fold : forall me bl s0 ms r u, agrees me bl s0 ms r u.
Proof. exact fold_agrees. Qed.

(* Every notification is reported with the label, room and user it was announced for - and a
   message of a user blocked for that kind is not reported. *)
Theorem C19_event_labels : forall me bl s m, snd (apply_msg me bl s m) = reported bl m.
Proof. exact events_ok. Qed.

(* ... and such a message leaves the whole view untouched. *)
Theorem C19_blocked_silent : forall me bl s m, suppressed bl m = true -> apply_msg me bl s m = (s, []).
Proof. exact blocked_silent. Qed.

(* Representation: in every reachable state the model's lists ARE Python containers - Room.users,
   members, operators and the privileged set have no duplicates, and rooms / users / tickers have
   unique keys (so the set / map reading of the questions above loses nothing). *)
Theorem C19_containers_wf : forall me bl ms s0, wf_state s0 -> wf_state (fold me bl s0 ms).
Proof. intros me bl ms s0. apply wf_state_fold. Qed.

(* non-vacuity *)
Example C19_wf_nonvacuous : forall me, wf_state (init_state me).
Proof. exact wf_state_init. Qed.

Example C19_fold_nonvacuous :
  let ms := [RoomListM [0] [1] [] [1]; JoinRoomM 1 [(1, (2%Z, (5, 0, 7, 1)%Z)); (2, (1%Z, (0, 0, 0, 0)%Z))] (Some 0) [2];
             OpGrantM 1 1; OpGrantedM 1; OpRevokeM 1 2; TickerAddM 1 1 3; LeaveRoomM 1; UserJoinedM 1 2 2%Z (1, 1, 1, 1)%Z] in
  q_operator (fold 0 [] (init_state 0) ms) 1 1 = true /\ q_operator (fold 0 [] (init_state 0) ms) 1 0 = true /\ q_operator (fold 0 [] (init_state 0) ms) 1 2 = false /\
  q_owner (fold 0 [] (init_state 0) ms) 1 = Some 0 /\ q_inroom (fold 0 [] (init_state 0) ms) 1 2 = true /\
  q_private (fold 0 [] (init_state 0) ms) 0 = Some false /\ q_private (fold 0 [] (init_state 0) ms) 1 = Some true /\
  q_status (fold 0 [] (init_state 0) ms) 2 = 2%Z.
Proof. vm_compute. repeat split. Qed.

Example C19_blocked_nonvacuous :
  suppressed [(1, (false, true))] (RoomChatM 0 1 2) = true /\ suppressed [(1, (false, true))] (PrivateChatM 1 2) = false /\
  reported [(1, (false, true))] (PrivateChatM 1 2) = [mkEv LPrivateMessage None (Some 1)].
Proof. vm_compute. repeat split. Qed.
