From Slsk Require Import Base.Tac.
From Slsk Require Import C19.Spec C19.Model.
