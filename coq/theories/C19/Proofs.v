(* C19 proofs: every question of Spec.v, asked of the handler model, is answered by the spec's
   own replay.  One "step" lemma per question (case analysis over the 26 notifications), lifted to
   all notification lists by [fold_replay]. *)
From Slsk Require Import Base.Tac.
From Slsk Require Import C19.Spec C19.Model.
From SlskGen Require Import RoomGen.

(* ---------------------------------------------------------------------------------------- *)
(* containers *)

Lemma eqb_sym_b : forall a b, Nat.eqb a b = Nat.eqb b a.
Proof. intros. apply Nat.eqb_sym. Qed.

Lemma mem_app : forall x l1 l2, mem x (l1 ++ l2) = mem x l1 || mem x l2.
Proof. intros. unfold mem. apply existsb_app. Qed.

Lemma mem_sadd : forall x y l, mem x (sadd y l) = Nat.eqb x y || mem x l.
Proof.
  intros x y l. unfold sadd. destruct (mem y l) eqn:E.
  - destruct (Nat.eqb_spec x y); subst; cbn; [now rewrite E|reflexivity].
  - rewrite mem_app. cbn. rewrite orb_false_r. apply orb_comm.
Qed.

Lemma mem_sdiscard : forall x y l, mem x (sdiscard y l) = negb (Nat.eqb x y) && mem x l.
Proof.
  intros x y l. unfold mem, sdiscard. induction l as [|a l IH]; cbn; [now rewrite andb_false_r|].
  destruct (Nat.eqb_spec y a); cbn.
  - subst. rewrite IH. destruct (Nat.eqb_spec x a); cbn; reflexivity.
  - rewrite IH. destruct (Nat.eqb_spec x a); cbn; [|reflexivity].
    subst. destruct (Nat.eqb_spec a y); [congruence|reflexivity].
Qed.

Lemma mem_cons : forall x a l, mem x (a :: l) = Nat.eqb x a || mem x l.
Proof. reflexivity. Qed.

Lemma mem_fold_sadd : forall x l acc, mem x (fold_left (fun a y => sadd y a) l acc) = mem x l || mem x acc.
Proof.
  intros x l. induction l as [|a l IH]; intros acc; cbn [fold_left]; [reflexivity|].
  rewrite IH, mem_sadd, mem_cons. destruct (Nat.eqb x a), (mem x l), (mem x acc); reflexivity.
Qed.

Lemma mem_sof : forall x l, mem x (sof l) = mem x l.
Proof. intros. unfold sof. rewrite mem_fold_sadd. cbn. apply orb_false_r. Qed.

Lemma sadd_idem : forall x l, sadd x (sadd x l) = sadd x l.
Proof. intros. unfold sadd at 1. rewrite mem_sadd, Nat.eqb_refl. reflexivity. Qed.

Lemma aget_aset : forall A k k' (a : A) l, aget k (aset k' a l) = if Nat.eqb k k' then Some a else aget k l.
Proof.
  intros A k k' a l. induction l as [|[k0 a0] l IH]; cbn.
  - destruct (Nat.eqb k k'); reflexivity.
  - destruct (Nat.eqb_spec k' k0); cbn.
    + subst. destruct (Nat.eqb k k0); reflexivity.
    + rewrite IH. destruct (Nat.eqb_spec k k0); [|reflexivity].
      subst. destruct (Nat.eqb_spec k0 k'); [congruence|reflexivity].
Qed.

Lemma aget_adel : forall A k k' (l : list (nat * A)), aget k (adel k' l) = if Nat.eqb k k' then None else aget k l.
Proof.
  intros A k k' l. unfold adel. induction l as [|[k0 a0] l IH]; cbn.
  - destruct (Nat.eqb k k'); reflexivity.
  - destruct (Nat.eqb_spec k' k0); cbn.
    + subst. rewrite IH. destruct (Nat.eqb k k0); reflexivity.
    + rewrite IH. destruct (Nat.eqb_spec k k0); [|reflexivity].
      subst. destruct (Nat.eqb_spec k0 k'); [congruence|reflexivity].
Qed.

Lemma aget_filter_key : forall A (P : nat -> bool) k (l : list (nat * A)),
  aget k (filter (fun p => P (fst p)) l) = if P k then aget k l else None.
Proof.
  intros A P k l. induction l as [|[k0 a0] l IH]; cbn; [destruct (P k); reflexivity|].
  destruct (P k0) eqn:E0; cbn.
  - rewrite IH. destruct (Nat.eqb_spec k k0); [subst; now rewrite E0|reflexivity].
  - rewrite IH. destruct (Nat.eqb_spec k k0); [subst; now rewrite E0|reflexivity].
Qed.

Lemma aget_map_key : forall A B (g : nat -> A -> B) k (l : list (nat * A)),
  aget k (map (fun p => (fst p, g (fst p) (snd p))) l) = option_map (g k) (aget k l).
Proof.
  intros A B g k l. induction l as [|[k0 a0] l IH]; cbn; [reflexivity|].
  destruct (Nat.eqb_spec k k0); [subst; reflexivity|apply IH].
Qed.

Lemma aget_fold_aset : forall A k (l acc : list (nat * A)),
  aget k (fold_left (fun a p => aset (fst p) (snd p) a) l acc) =
  match last_of k l with Some x => Some x | None => aget k acc end.
Proof.
  intros A k l. induction l as [|[k0 a0] l IH]; intros acc; cbn; [reflexivity|].
  rewrite IH. destruct (last_of k l); [reflexivity|]. rewrite aget_aset. destruct (Nat.eqb k k0); reflexivity.
Qed.

Lemma aget_aof : forall A k (l : list (nat * A)), aget k (aof l) = last_of k l.
Proof. intros. unfold aof. rewrite aget_fold_aset. destruct (last_of k l); reflexivity. Qed.

(* ---------------------------------------------------------------------------------------- *)
(* rooms *)

Lemma aget_upd_rooms : forall r r' p f rs,
  aget r (upd_rooms r' p f rs) = if Nat.eqb r r' then Some (f (room_obj rs r' p)) else aget r rs.
Proof. intros. unfold upd_rooms. apply aget_aset. Qed.

Lemma rooms_upd_user : forall u f s, rooms (upd_user u f s) = rooms s.
Proof. reflexivity. Qed.
Lemma rooms_touch_user : forall u s, rooms (touch_user u s) = rooms s.
Proof. reflexivity. Qed.
Lemma rooms_upd_room : forall r p f s, rooms (upd_room r p f s) = upd_rooms r p f (rooms s).
Proof. reflexivity. Qed.

Lemma rooms_fold_touch : forall A (g : A -> name) l s, rooms (fold_left (fun s x => touch_user (g x) s) l s) = rooms s.
Proof. intros A g l. induction l; intros s; cbn; [reflexivity|]. now rewrite IHl. Qed.

Lemma aget_fold_upd : forall p f (Hf : forall x, f (f x) = f x) r l rs,
  aget r (fold_left (fun rs r' => upd_rooms r' p f rs) l rs) =
  if mem r l then Some (f (room_obj rs r p)) else aget r rs.
Proof.
  intros p f Hf r l. induction l as [|a l IH]; intros rs; cbn; [reflexivity|].
  rewrite IH. unfold room_obj at 1. rewrite !aget_upd_rooms.
  destruct (Nat.eqb_spec r a); cbn.
  - subst. rewrite Hf. destruct (mem a l); reflexivity.
  - reflexivity.
Qed.

(* ---------------------------------------------------------------------------------------- *)
(* users *)

Lemma user_obj_upd_user : forall u u' f s,
  user_obj (upd_user u' f s) u = if Nat.eqb u u' then f (user_obj s u') else user_obj s u.
Proof.
  intros. unfold user_obj at 1, upd_user. cbn. rewrite aget_aset.
  destruct (Nat.eqb u u'); reflexivity.
Qed.

Lemma user_obj_touch : forall u u' s, user_obj (touch_user u' s) u = user_obj s u.
Proof.
  intros. unfold touch_user. rewrite user_obj_upd_user.
  destruct (Nat.eqb_spec u u'); [subst|]; reflexivity.
Qed.

Lemma user_obj_upd_room : forall u r p f s, user_obj (upd_room r p f s) u = user_obj s u.
Proof. reflexivity. Qed.

Lemma user_obj_fold_touch : forall A (g : A -> name) u l s,
  user_obj (fold_left (fun s x => touch_user (g x) s) l s) u = user_obj s u.
Proof. intros A g u l. induction l; intros s; cbn; [reflexivity|]. now rewrite IHl, user_obj_touch. Qed.

(* ---------------------------------------------------------------------------------------- *)
(* rooms: one notification *)

Lemma room_obj_upd : forall r r' p q f rs,
  room_obj (upd_rooms r' p f rs) r q = if Nat.eqb r r' then f (room_obj rs r' p) else room_obj rs r q.
Proof. intros. unfold room_obj at 1. rewrite aget_upd_rooms. destruct (Nat.eqb r r'); reflexivity. Qed.

Lemma ro_users : forall rs r, r_users (room_obj rs r true) = r_users (room_obj rs r false).
Proof. intros. unfold room_obj. destruct (aget r rs); reflexivity. Qed.
Lemma ro_joined : forall rs r, r_joined (room_obj rs r true) = r_joined (room_obj rs r false).
Proof. intros. unfold room_obj. destruct (aget r rs); reflexivity. Qed.
Lemma ro_tickers : forall rs r, r_tickers (room_obj rs r true) = r_tickers (room_obj rs r false).
Proof. intros. unfold room_obj. destruct (aget r rs); reflexivity. Qed.
Lemma ro_members : forall rs r, r_members (room_obj rs r true) = r_members (room_obj rs r false).
Proof. intros. unfold room_obj. destruct (aget r rs); reflexivity. Qed.
Lemma ro_owner : forall rs r, r_owner (room_obj rs r true) = r_owner (room_obj rs r false).
Proof. intros. unfold room_obj. destruct (aget r rs); reflexivity. Qed.
Lemma ro_ops : forall rs r, r_ops (room_obj rs r true) = r_ops (room_obj rs r false).
Proof. intros. unfold room_obj. destruct (aget r rs); reflexivity. Qed.

Ltac push_rooms :=
  repeat (rewrite ?rooms_upd_room, ?rooms_upd_user, ?rooms_touch_user, ?rooms_fold_touch).

Ltac proj := cbn [r_private r_users r_joined r_tickers r_members r_owner r_ops
                  set_private set_users set_joined set_tickers set_members set_owner set_ops].

Ltac eqbs :=
  repeat match goal with
  | |- context [Nat.eqb ?a ?b] => destruct (Nat.eqb_spec a b); subst
  end.

Ltac fin :=
  rewrite ?Nat.eqb_refl; proj;
  rewrite ?ro_users, ?ro_joined, ?ro_tickers, ?ro_members, ?ro_owner, ?ro_ops;
  rewrite ?mem_sadd, ?mem_sdiscard, ?mem_sof, ?aget_aset, ?aget_adel, ?aget_aof;
  eqbs; cbn [andb orb negb]; try reflexivity; try congruence.


Definition rl_base (me : name) (pub owned priv operated : list room) (rs : list (room * rrec)) (r : room) : option rrec :=
  let a1 := if mem r pub then Some (room_obj rs r false) else aget r rs in
  let o1 p := match a1 with Some x => x | None => new_room p end in
  let a2 := if mem r owned then Some (set_owner (Some me) (o1 true)) else a1 in
  let o2 p := match a2 with Some x => x | None => new_room p end in
  let a3 := if mem r priv then Some (set_members (sadd me (r_members (o2 true))) (o2 true)) else a2 in
  let o3 p := match a3 with Some x => x | None => new_room p end in
  if mem r operated then Some (set_ops (sadd me (r_ops (o3 true))) (o3 true)) else a3.

Lemma room_obj_fold_upd : forall p f (Hf : forall x, f (f x) = f x) r q l rs,
  room_obj (fold_left (fun rs r' => upd_rooms r' p f rs) l rs) r q =
  if mem r l then f (room_obj rs r p) else room_obj rs r q.
Proof. intros. unfold room_obj at 1. rewrite aget_fold_upd by assumption. destruct (mem r l); reflexivity. Qed.

Lemma aget_room_list : forall me pub owned priv operated s r,
  aget r (rooms (on_room_list me pub owned priv operated s)) =
  if mem r pub || mem r priv || mem r owned
  then option_map (fix_room me pub owned priv operated r) (rl_base me pub owned priv operated (rooms s) r)
  else None.
Proof.
  intros. unfold on_room_list. cbn [rooms].
  rewrite (aget_map_key _ _ (fix_room me pub owned priv operated)).
  rewrite (aget_filter_key _ (fun r => mem r pub || mem r priv || mem r owned)).
  destruct (mem r pub || mem r priv || mem r owned); [|reflexivity]. f_equal.
  unfold rl_base.
  repeat first [ rewrite aget_fold_upd by (intros; cbn; now rewrite ?sadd_idem)
               | rewrite room_obj_fold_upd by (intros; cbn; now rewrite ?sadd_idem) ].
  unfold room_obj, touch_user, upd_user; cbn [rooms].
  destruct (mem r operated), (mem r priv), (mem r owned), (mem r pub), (aget r (rooms s)); reflexivity.
Qed.

Lemma rooms_fold_join : forall r (us : list (name * (Z * stats))) s,
  rooms (fold_left (fun s p =>
           let s' := upd_user (fst p) (set_status_stats (fst (snd p)) (snd (snd p))) s in
           upd_room r false (fun x => set_users (sadd (fst p) (r_users x)) x) s') us s) =
  fold_left (fun rs p => upd_rooms r false (fun x => set_users (sadd (fst p) (r_users x)) x) rs) us (rooms s).
Proof. intros r us. induction us as [|p us IH]; intros s; cbn [fold_left]; [reflexivity|]. rewrite IH. reflexivity. Qed.

Lemma aget_fold_join : forall r (us : list (name * (Z * stats))) rs x0 r',
  aget r rs = Some x0 ->
  aget r' (fold_left (fun rs p => upd_rooms r false (fun x => set_users (sadd (fst p) (r_users x)) x) rs) us rs) =
  if Nat.eqb r' r then Some (set_users (fold_left (fun a y => sadd y a) (map fst us) (r_users x0)) x0) else aget r' rs.
Proof.
  intros r us. induction us as [|p us IH]; intros rs x0 r' H; cbn [fold_left map].
  - destruct (Nat.eqb_spec r' r); [subst; rewrite H; destruct x0; reflexivity|reflexivity].
  - erewrite IH.
    2:{ rewrite aget_upd_rooms, Nat.eqb_refl. unfold room_obj. rewrite H. reflexivity. }
    rewrite aget_upd_rooms. destruct (Nat.eqb r' r); reflexivity.
Qed.

Definition join_final (r : room) (us : list (name * (Z * stats))) (owner : option name) (ops : list name) (x : rrec) : rrec :=
  let x1 := set_private (match owner with Some _ => true | None => false end) (set_joined true x) in
  set_ops (sof ops) (set_owner owner (set_users (fold_left (fun a y => sadd y a) (map fst us) (r_users x1)) x1)).

Lemma aget_join_room : forall r us owner ops s r',
  aget r' (rooms (on_join_room r us owner ops s)) =
  if Nat.eqb r' r then Some (join_final r us owner ops (room_obj (rooms s) r false)) else aget r' (rooms s).
Proof.
  intros. unfold on_join_room. rewrite rooms_upd_room, aget_upd_rooms.
  rewrite rooms_fold_join, rooms_upd_room.
  set (x1 := set_private (match owner with Some _ => true | None => false end) (set_joined true (room_obj (rooms s) r false))).
  assert (H : aget r (upd_rooms r false (fun x => set_private (match owner with Some _ => true | None => false end) (set_joined true x)) (rooms s)) = Some x1).
  { rewrite aget_upd_rooms, Nat.eqb_refl. reflexivity. }
  destruct (Nat.eqb_spec r' r).
  - subst r'. unfold room_obj. rewrite (aget_fold_join _ _ _ _ _ H), Nat.eqb_refl. reflexivity.
  - rewrite (aget_fold_join _ _ _ _ _ H). destruct (Nat.eqb_spec r' r); [congruence|].
    rewrite aget_upd_rooms. destruct (Nat.eqb_spec r' r); [congruence|reflexivity].
Qed.

(* ---------------------------------------------------------------------------------------- *)
(* step lemmas: one question, one notification *)

(* ---------------------------------------------------------------------------------------- *)
(* representation invariant: the lists really are Python sets / dicts / duplicate-free user lists *)

Definition keys {A} (l : list (nat * A)) : list nat := map fst l.

Definition wf_room (x : rrec) : Prop :=
  NoDup (r_users x) /\ NoDup (r_members x) /\ NoDup (r_ops x) /\ NoDup (keys (r_tickers x)).

Lemma mem_In : forall x l, mem x l = true <-> In x l.
Proof.
  intros x l. unfold mem. rewrite existsb_exists. split.
  - intros [y [H1 H2]]. apply Nat.eqb_eq in H2. now subst.
  - intros H. exists x. split; [assumption|apply Nat.eqb_refl].
Qed.

Lemma NoDup_snoc : forall (x : nat) l, NoDup l -> ~ In x l -> NoDup (l ++ [x]).
Proof.
  intros x l H Hx. induction H as [|a l Ha Hl IH]; cbn; [constructor; [intros []|constructor]|].
  constructor.
  - intro K. apply in_app_or in K. destruct K as [K|[K|[]]]; [contradiction|]. subst. apply Hx. now left.
  - apply IH. intro K. apply Hx. now right.
Qed.

Lemma NoDup_sadd : forall x l, NoDup l -> NoDup (sadd x l).
Proof.
  intros x l H. unfold sadd. destruct (mem x l) eqn:E; [assumption|].
  apply NoDup_snoc; [assumption|]. intro K. apply mem_In in K. congruence.
Qed.

Lemma NoDup_filter : forall A (f : A -> bool) l, NoDup l -> NoDup (filter f l).
Proof.
  intros A f l H. induction H as [|a l Ha Hl IH]; cbn; [constructor|].
  destruct (f a); [constructor; [|assumption]|assumption].
  intro K. apply filter_In in K. tauto.
Qed.

Lemma NoDup_sdiscard : forall x l, NoDup l -> NoDup (sdiscard x l).
Proof. intros. unfold sdiscard. now apply NoDup_filter. Qed.

Lemma NoDup_fold_sadd : forall l acc, NoDup acc -> NoDup (fold_left (fun a y => sadd y a) l acc).
Proof. intros l. induction l; intros acc H; cbn [fold_left]; [assumption|]. apply IHl. now apply NoDup_sadd. Qed.

Lemma NoDup_sof : forall l, NoDup (sof l).
Proof. intros. unfold sof. apply NoDup_fold_sadd. constructor. Qed.

Lemma keys_aset : forall A k (a : A) l, keys (aset k a l) = if mem k (keys l) then keys l else keys l ++ [k].
Proof.
  intros A k a l. unfold keys, mem. induction l as [|[k0 a0] l IH]; cbn; [reflexivity|].
  destruct (Nat.eqb_spec k k0); cbn; [subst; reflexivity|]. rewrite IH.
  destruct (existsb (Nat.eqb k) (map fst l)); reflexivity.
Qed.

Lemma NoDup_keys_aset : forall A k (a : A) l, NoDup (keys l) -> NoDup (keys (aset k a l)).
Proof.
  intros A k a l H. rewrite keys_aset. destruct (mem k (keys l)) eqn:E; [assumption|].
  apply NoDup_snoc; [assumption|]. intro K. apply mem_In in K. congruence.
Qed.

Lemma keys_filter_sub : forall A (f : nat * A -> bool) l, NoDup (keys l) -> NoDup (keys (filter f l)).
Proof.
  intros A f l. induction l as [|[k a] l IH]; cbn; intros H; [constructor|].
  inversion H as [|? ? Hk Hl]; subst. destruct (f (k, a)); cbn; [constructor; [|now apply IH]|now apply IH].
  intro K. apply Hk. unfold keys in *. apply in_map_iff in K. destruct K as [[k' a'] [E K]]. cbn in E. subst.
  apply filter_In in K. destruct K as [K _]. apply in_map_iff. now exists (k, a').
Qed.

Lemma NoDup_keys_adel : forall A k (l : list (nat * A)), NoDup (keys l) -> NoDup (keys (adel k l)).
Proof. intros. unfold adel. now apply keys_filter_sub. Qed.

Lemma NoDup_keys_fold_aset : forall A (l acc : list (nat * A)), NoDup (keys acc) ->
  NoDup (keys (fold_left (fun a p => aset (fst p) (snd p) a) l acc)).
Proof. intros A l. induction l; intros acc H; cbn [fold_left]; [assumption|]. apply IHl. now apply NoDup_keys_aset. Qed.

Lemma NoDup_keys_aof : forall A (l : list (nat * A)), NoDup (keys (aof l)).
Proof. intros. unfold aof. apply NoDup_keys_fold_aset. constructor. Qed.

Lemma Forall_aset : forall A (P : nat * A -> Prop) k a l, Forall P l -> P (k, a) -> Forall P (aset k a l).
Proof.
  intros A P k a l H Hk. induction H as [|[k0 a0] l H0 Hl IH]; cbn; [repeat constructor; assumption|].
  destruct (Nat.eqb k k0); constructor; assumption.
Qed.

Lemma aget_Forall : forall A (P : nat * A -> Prop) k l x, Forall P l -> aget k l = Some x -> P (k, x).
Proof.
  intros A P k l x H. induction H as [|[k0 a0] l H0 Hl IH]; cbn; [discriminate|].
  destruct (Nat.eqb_spec k k0); [intros E; inversion E; subst; assumption|exact IH].
Qed.

Lemma keys_map_key : forall A B (g : nat * A -> B) (l : list (nat * A)), keys (map (fun p => (fst p, g p)) l) = keys l.
Proof. intros. unfold keys. rewrite map_map. cbn [fst]. reflexivity. Qed.

Definition wf_rooms (rs : list (room * rrec)) : Prop := NoDup (keys rs) /\ Forall (fun p => wf_room (snd p)) rs.

Lemma wf_new_room : forall p, wf_room (new_room p).
Proof. intros. unfold wf_room, new_room. cbn. repeat split; constructor. Qed.

Lemma wf_room_obj : forall rs r p, wf_rooms rs -> wf_room (room_obj rs r p).
Proof.
  intros rs r p [_ H]. unfold room_obj. destruct (aget r rs) eqn:E; [|apply wf_new_room].
  apply (aget_Forall _ (fun p => wf_room (snd p)) r rs r0 H E).
Qed.

Lemma wf_upd_rooms : forall r p f rs, (forall x, wf_room x -> wf_room (f x)) -> wf_rooms rs -> wf_rooms (upd_rooms r p f rs).
Proof.
  intros r p f rs Hf H. pose proof (wf_room_obj rs r p H) as Ho. destruct H as [H1 H2]. unfold upd_rooms. split.
  - now apply NoDup_keys_aset.
  - apply Forall_aset; [assumption|]. cbn. now apply Hf.
Qed.

Lemma wf_fold_upd : forall p f, (forall x, wf_room x -> wf_room (f x)) ->
  forall l rs, wf_rooms rs -> wf_rooms (fold_left (fun rs r => upd_rooms r p f rs) l rs).
Proof. intros p f Hf l. induction l; intros rs H; cbn [fold_left]; [assumption|]. apply IHl. now apply wf_upd_rooms. Qed.

Ltac wfr := unfold wf_room in *; cbn [r_users r_members r_ops r_tickers set_private set_users set_joined set_tickers set_members set_owner set_ops] in *;
  intuition (auto using NoDup_sadd, NoDup_sdiscard, NoDup_sof, NoDup_keys_aset, NoDup_keys_adel, NoDup_keys_aof, NoDup_nil).

Lemma wf_users_upd : forall u f s, NoDup (keys (users s)) -> NoDup (keys (users (upd_user u f s))).
Proof. intros. unfold upd_user. cbn [users]. now apply NoDup_keys_aset. Qed.

Definition wf_state (s : state) : Prop := wf_rooms (rooms s) /\ NoDup (keys (users s)) /\ NoDup (privset s).

Lemma wf_state_upd_room : forall r p f s, (forall x, wf_room x -> wf_room (f x)) -> wf_state s -> wf_state (upd_room r p f s).
Proof. intros r p f s Hf (H1 & H2 & H3). unfold wf_state, upd_room. cbn [rooms users privset]. split; [now apply wf_upd_rooms|tauto]. Qed.

Lemma wf_state_upd_user : forall u f s, wf_state s -> wf_state (upd_user u f s).
Proof. intros u f s (H1 & H2 & H3). unfold wf_state. cbn [rooms privset]. split; [assumption|]. split; [now apply wf_users_upd|assumption]. Qed.

Lemma wf_state_touch : forall u s, wf_state s -> wf_state (touch_user u s).
Proof. intros. now apply wf_state_upd_user. Qed.

Lemma wf_state_fold_touch : forall A (g : A -> name) l s, wf_state s -> wf_state (fold_left (fun s x => touch_user (g x) s) l s).
Proof. intros A g l. induction l; intros s H; cbn [fold_left]; [assumption|]. apply IHl. now apply wf_state_touch. Qed.

Lemma wf_fix_room : forall me pub owned priv operated r x, wf_room x -> wf_room (fix_room me pub owned priv operated r x).
Proof.
  intros. unfold fix_room.
  destruct (negb (mem r owned)), (negb (mem r operated)), (negb (mem r priv)), (r_owner x) as [o|]; try destruct (Nat.eqb o me); wfr.
Qed.

Lemma wf_state_room_list : forall me pub owned priv operated s, wf_state s -> wf_state (on_room_list me pub owned priv operated s).
Proof.
  intros me pub owned priv operated s H. apply (wf_state_touch me) in H. destruct H as (H1 & H2 & H3).
  unfold on_room_list, wf_state. cbn [rooms users privset]. split; [|tauto].
  match goal with |- wf_rooms (map _ (filter _ ?rs4)) => assert (W : wf_rooms rs4) end.
  { repeat apply wf_fold_upd; try assumption; intros; wfr. }
  destruct W as [W1 W2]. split.
  - rewrite (keys_map_key _ _ (fun p => fix_room me pub owned priv operated (fst p) (snd p))). now apply keys_filter_sub.
  - apply Forall_map. cbn [snd]. apply Forall_forall. intros [k x] Hin. apply filter_In in Hin. destruct Hin as [Hin _].
    apply wf_fix_room. rewrite Forall_forall in W2. apply (W2 (k, x) Hin).
Qed.

Lemma wf_state_fold_join : forall r (us : list (name * (Z * stats))) s, wf_state s ->
  wf_state (fold_left (fun s p =>
         let s' := upd_user (fst p) (set_status_stats (fst (snd p)) (snd (snd p))) s in
         upd_room r false (fun x => set_users (sadd (fst p) (r_users x)) x) s') us s).
Proof.
  intros r us. induction us; intros s H; cbn [fold_left]; [assumption|]. apply IHus.
  apply wf_state_upd_room; [intros; wfr|]. now apply wf_state_upd_user.
Qed.

Lemma wf_state_apply : forall me bl s m, wf_state s -> wf_state (fst (apply_msg me bl s m)).
Proof.
  intros me bl s m H. destruct m; cbn [apply_msg fst]; unfold on_room_tickers, on_privileged_users;
  try match goal with |- context [blocked_room ?b ?x] => destruct (blocked_room b x) end;
  try match goal with |- context [blocked_private ?b ?x] => destruct (blocked_private b x) end; cbn [fst];
  repeat match goal with
  | |- context [if ?b then _ else _] => is_var b; destruct b
  | |- context [match ?o with Some _ => _ | None => _ end] => is_var o; destruct o
  end; cbn beta; try assumption;
  try (apply wf_state_room_list; assumption);
  repeat first [ apply wf_state_upd_room; [intros; wfr|] | apply wf_state_touch | apply wf_state_upd_user
               | apply wf_state_fold_touch | apply (wf_state_fold_touch _ (@fst name text)) | apply wf_state_fold_join ]; try assumption.
  all: try (unfold on_join_room; apply wf_state_upd_room; [intros; wfr|]; apply wf_state_fold_join; apply wf_state_upd_room; [intros; wfr|assumption]).
  (* PrivUsers *)
  destruct H as (H1 & H2 & H3). unfold wf_state. cbn [rooms users privset]. split; [assumption|]. split; [|apply NoDup_sof].
  now rewrite (keys_map_key _ _ (fun p => mkU (u_status (snd p)) (u_stats (snd p)) (mem (fst p) l))).
Qed.

Lemma wf_state_fold : forall me bl ms s, wf_state s -> wf_state (fold me bl s ms).
Proof. intros me bl ms. unfold fold. induction ms; intros s H; cbn [fold_left]; [assumption|]. apply IHms. now apply wf_state_apply. Qed.

Lemma wf_state_init : forall me, wf_state (init_state me).
Proof.
  intros. unfold wf_state, wf_rooms, init_state. cbn. repeat split; try constructor; try (intros []); constructor.
Qed.

(* ---------------------------------------------------------------------------------------- *)
(* users: one notification *)

Lemma user_obj_room_list : forall me pub owned priv operated s u,
  user_obj (on_room_list me pub owned priv operated s) u = user_obj s u.
Proof. intros. unfold on_room_list. change (user_obj (touch_user me s) u = user_obj s u). apply user_obj_touch. Qed.

Lemma user_obj_fold_join : forall r (us : list (name * (Z * stats))) s u,
  user_obj (fold_left (fun s p =>
             let s' := upd_user (fst p) (set_status_stats (fst (snd p)) (snd (snd p))) s in
             upd_room r false (fun x => set_users (sadd (fst p) (r_users x)) x) s') us s) u =
  match last_of u us with
  | Some (st, ss) => mkU st (Some ss) (u_priv (user_obj s u))
  | None => user_obj s u
  end.
Proof.
  intros r us. induction us as [|[u0 [st0 ss0]] us IH]; intros s u; cbn [fold_left last_of]; [reflexivity|].
  rewrite IH. cbn [fst snd]. rewrite user_obj_upd_room, user_obj_upd_user.
  destruct (last_of u us) as [[st ss]|]; destruct (Nat.eqb_spec u u0); subst; reflexivity.
Qed.

Lemma user_obj_join_room : forall r us owner ops s u,
  user_obj (on_join_room r us owner ops s) u =
  match last_of u us with
  | Some (st, ss) => mkU st (Some ss) (u_priv (user_obj s u))
  | None => user_obj s u
  end.
Proof. intros. unfold on_join_room. rewrite user_obj_upd_room, user_obj_fold_join, user_obj_upd_room. reflexivity. Qed.

Lemma user_obj_priv_users : forall s l u,
  user_obj (mkS (rooms s) (map (fun p => (fst p, mkU (u_status (snd p)) (u_stats (snd p)) (mem (fst p) l))) (users s)) (sof l)) u =
  mkU (u_status (user_obj s u)) (u_stats (user_obj s u)) (mem u l).
Proof.
  intros. unfold user_obj. cbn [users privset].
  rewrite (aget_map_key _ _ (fun k x => mkU (u_status x) (u_stats x) (mem k l))).
  destruct (aget u (users s)); cbn; [reflexivity|]. unfold new_user. cbn. now rewrite mem_sof.
Qed.

Local Arguments mem : simpl never.
Local Arguments sadd : simpl never.
Local Arguments sdiscard : simpl never.
Local Arguments sof : simpl never.
Local Arguments aget : simpl never.
Local Arguments aset : simpl never.
Local Arguments adel : simpl never.
Local Arguments aof : simpl never.

Ltac split_binders :=
  repeat match goal with
  | |- context [if ?b then _ else _] => is_var b; destruct b
  | |- context [match ?o with Some _ => _ | None => _ end] => is_var o; destruct o
  end.

Ltac split_blocked :=
  try match goal with |- context [blocked_room ?b ?x] => destruct (blocked_room b x) eqn:?Hb end;
  try match goal with |- context [blocked_private ?b ?x] => destruct (blocked_private b x) eqn:?Hb end.

(* room questions of the form Q (room_obj (rooms s) r false) *)
Ltac room_step m :=
  destruct m as [pub owned priv operated | | | | | | | | | | | | | | | | | | | | | | | | | ];
  [ (* RoomList *)
    cbn [apply_msg fst]; unfold room_obj; rewrite aget_room_list; unfold rl_base, listed, fix_room, room_obj; change isin with mem;
    match goal with |- context [aget ?r (rooms ?s)] =>
      destruct (mem r pub), (mem r owned), (mem r priv), (mem r operated);
      destruct (aget r (rooms s)) as [[p0 us0 j0 tk0 mb0 [o0|] op0]|] end;
    cbn; eqbs; cbn; fin
  | (* JoinRoom *)
    cbn [apply_msg fst]; unfold room_obj; rewrite aget_join_room;
    match goal with |- context [Nat.eqb ?r ?r0] => destruct (Nat.eqb_spec r r0); [subst|] end;
    unfold join_final, room_obj; change isin with mem; proj; rewrite ?mem_fold_sadd, ?mem_sof; cbn [andb];
    try match goal with |- context [mem ?u (map fst ?l)] => destruct (mem u (map fst l)) end; fin
  | .. ];
  cbn [apply_msg fst]; unfold on_room_tickers, on_privileged_users; split_blocked; cbn [fst]; split_binders; cbn beta;
  push_rooms; cbn [rooms]; rewrite ?room_obj_upd; try reflexivity;
  try (match goal with |- context [Nat.eqb ?r ?r0] => destruct (Nat.eqb_spec r r0); [subst r0|] end; cbn [andb]; try reflexivity);
  change isin with mem; fin.

Section Steps.
  Variable me : name.
  Variable bl : blockmap.

  Lemma joined_step_ok : forall s m r,
    q_joined (fst (apply_msg me bl s m)) r = joined_step r (q_joined s r) m.
  Proof. intros s m r. unfold q_joined, q_room, joined_step. room_step m. Qed.

  Lemma inroom_step_ok : forall s m r u,
    q_inroom (fst (apply_msg me bl s m)) r u = inroom_step r u (q_inroom s r u) m.
  Proof. intros s m r u. unfold q_inroom, q_room, inroom_step. room_step m. Qed.

  Lemma owner_step_ok : forall s m r,
    q_owner (fst (apply_msg me bl s m)) r = owner_step me r (q_owner s r) m.
  Proof. intros s m r. unfold q_owner, q_room, owner_step. room_step m. Qed.

  Lemma member_step_ok : forall s m r u,
    q_member (fst (apply_msg me bl s m)) r u = member_step me r u (q_member s r u) m.
  Proof. intros s m r u. unfold q_member, q_room, member_step. room_step m. Qed.

  Lemma ticker_step_ok : forall s m r u,
    q_ticker (fst (apply_msg me bl s m)) r u = ticker_step r u (q_ticker s r u) m.
  Proof. intros s m r u. unfold q_ticker, q_room, ticker_step. room_step m. Qed.

  Lemma private_step_ok : forall s m r,
    q_private (fst (apply_msg me bl s m)) r = private_step bl r (q_private s r) m.
  Proof.
    intros s m r. unfold q_private, private_step.
    destruct m as [pub owned priv operated | | | | | | | | | | | | | | | | | | | | | | | | | ];
    [ cbn [apply_msg fst suppressed]; rewrite aget_room_list; unfold rl_base, listed, fix_room, room_obj; change isin with mem;
      destruct (mem r pub), (mem r owned), (mem r priv), (mem r operated);
      destruct (aget r (rooms s)) as [[p0 us0 j0 tk0 mb0 [o0|] op0]|]; cbn; eqbs; cbn; fin
    | cbn [apply_msg fst suppressed]; rewrite aget_join_room;
      match goal with |- context [Nat.eqb ?r ?r0] => destruct (Nat.eqb_spec r r0); [subst|] end;
      unfold join_final; cbn; destruct owner; reflexivity
    | .. ];
    cbn [apply_msg fst suppressed about]; unfold on_room_tickers, on_privileged_users; split_blocked; cbn [fst]; split_binders; cbn beta;
    push_rooms; cbn [rooms]; rewrite ?aget_upd_rooms; try reflexivity;
    try (match goal with |- context [Nat.eqb ?r ?r0] => destruct (Nat.eqb_spec r r0); [subst r0|] end; try reflexivity);
    repeat (unfold room_obj; rewrite ?aget_upd_rooms, ?Nat.eqb_refl);
    destruct (aget r (rooms s)) as [[p0 us0 j0 tk0 mb0 o0 op0]|]; reflexivity.
  Qed.

  Lemma operator_step_ok : forall s m r u,
    q_operator (fst (apply_msg me bl s m)) r u = operator_step me r u (q_operator s r u) m.
  Proof. intros s m r u. unfold q_operator, q_room, operator_step. room_step m. Qed.

  Ltac user_step m :=
    destruct m;
    [ cbn [apply_msg fst]; rewrite user_obj_room_list; reflexivity
    | cbn [apply_msg fst]; rewrite user_obj_join_room;
      match goal with |- context [last_of ?u ?l] => destruct (last_of u l) as [[? ?]|] end; reflexivity
    | .. ];
    cbn [apply_msg fst]; unfold on_room_tickers, on_privileged_users; split_blocked; cbn [fst]; split_binders; cbn beta;
    repeat (rewrite ?user_obj_fold_touch, ?(user_obj_fold_touch _ (@fst name text)), ?user_obj_priv_users,
                    ?user_obj_upd_room, ?user_obj_touch, ?user_obj_upd_user); try reflexivity;
    change isin with mem;
    repeat match goal with
    | |- context [Nat.eqb ?a ?b] => destruct (Nat.eqb_spec a b); subst
    | |- context [if ?b then _ else _] => is_var b; destruct b
    | |- context [match ?o with Some _ => _ | None => _ end] => is_var o; destruct o
    end; try reflexivity; try (exfalso; congruence).

  Lemma status_step_ok : forall s m u, q_status (fst (apply_msg me bl s m)) u = status_step u (q_status s u) m.
  Proof. intros s m u. unfold q_status, status_step. user_step m. Qed.

  Lemma stats_step_ok : forall s m u, q_stats (fst (apply_msg me bl s m)) u = stats_step u (q_stats s u) m.
  Proof. intros s m u. unfold q_stats, stats_step. user_step m. Qed.

  Lemma privileged_step_ok : forall s m u, q_privileged (fst (apply_msg me bl s m)) u = privileged_step u (q_privileged s u) m.
  Proof. intros s m u. unfold q_privileged, privileged_step. user_step m. Qed.
End Steps.

(* ---------------------------------------------------------------------------------------- *)
(* all notification lists *)

Lemma fold_replay : forall A me bl (q : state -> A) (step : A -> msg -> A),
  (forall s m, q (fst (apply_msg me bl s m)) = step (q s) m) ->
  forall ms s, q (fold me bl s ms) = replay step (q s) ms.
Proof.
  intros A me bl q step H ms. unfold fold, replay.
  induction ms as [|m ms IH]; intros s; cbn [fold_left]; [reflexivity|]. rewrite IH, H. reflexivity.
Qed.

Lemma fold_replay_if : forall A me bl (q : state -> A) (step : A -> msg -> A) (ok : msg -> bool),
  (forall s m, ok m = true -> q (fst (apply_msg me bl s m)) = step (q s) m) ->
  forall ms s, forallb ok ms = true -> q (fold me bl s ms) = replay step (q s) ms.
Proof.
  intros A me bl q step ok H ms. unfold fold, replay.
  induction ms as [|m ms IH]; intros s Hok; cbn [fold_left]; [reflexivity|].
  cbn in Hok. apply andb_prop in Hok. destruct Hok as [H1 H2]. rewrite IH by exact H2. rewrite H by exact H1. reflexivity.
Qed.

(* Everything the property lists *)
Definition agrees (me : name) (bl : blockmap) (s0 : state) (ms : list msg) (r : room) (u : name) : Prop :=
  let s := fold me bl s0 ms in
  q_private s r = replay (private_step bl r) (q_private s0 r) ms /\
  q_joined s r = replay (joined_step r) (q_joined s0 r) ms /\
  q_inroom s r u = replay (inroom_step r u) (q_inroom s0 r u) ms /\
  q_owner s r = replay (owner_step me r) (q_owner s0 r) ms /\
  q_member s r u = replay (member_step me r u) (q_member s0 r u) ms /\
  q_operator s r u = replay (operator_step me r u) (q_operator s0 r u) ms /\
  q_ticker s r u = replay (ticker_step r u) (q_ticker s0 r u) ms /\
  q_status s u = replay (status_step u) (q_status s0 u) ms /\
  q_stats s u = replay (stats_step u) (q_stats s0 u) ms /\
  q_privileged s u = replay (privileged_step u) (q_privileged s0 u) ms.

Lemma fold_agrees : forall me bl s0 ms r u, agrees me bl s0 ms r u.
Proof.
  intros. unfold agrees. cbv zeta.
  repeat split.
  - apply (fold_replay _ me bl (fun s => q_private s r)). intros; apply private_step_ok.
  - apply (fold_replay _ me bl (fun s => q_joined s r)). intros; apply joined_step_ok.
  - apply (fold_replay _ me bl (fun s => q_inroom s r u)). intros; apply inroom_step_ok.
  - apply (fold_replay _ me bl (fun s => q_owner s r)). intros; apply owner_step_ok.
  - apply (fold_replay _ me bl (fun s => q_member s r u)). intros; apply member_step_ok.
  - apply (fold_replay _ me bl (fun s => q_operator s r u)). intros; apply operator_step_ok.
  - apply (fold_replay _ me bl (fun s => q_ticker s r u)). intros; apply ticker_step_ok.
  - apply (fold_replay _ me bl (fun s => q_status s u)). intros; apply status_step_ok.
  - apply (fold_replay _ me bl (fun s => q_stats s u)). intros; apply stats_step_ok.
  - apply (fold_replay _ me bl (fun s => q_privileged s u)). intros; apply privileged_step_ok.
Qed.

(* what the handlers report *)
Lemma events_ok : forall me bl s m, snd (apply_msg me bl s m) = reported bl m.
Proof.
  intros me bl s m. unfold reported. destruct m; cbn [apply_msg suppressed announced snd];
  try match goal with |- context [blocked_room ?b ?x] => destruct (blocked_room b x) end;
  try match goal with |- context [blocked_private ?b ?x] => destruct (blocked_private b x) end; reflexivity.
Qed.

Lemma blocked_silent : forall me bl s m, suppressed bl m = true -> apply_msg me bl s m = (s, []).
Proof.
  intros me bl s m H. destruct m; cbn in H; try discriminate; cbn [apply_msg]; rewrite H; reflexivity.
Qed.



