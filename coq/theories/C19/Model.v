(* C19 model: hand model of the room / user notification handlers of
   /repo/src/aioslsk/room/manager.py (141-522) and user/manager.py (317-451), one clause per
   @on_message handler, statement by statement.  Definitions only; executable (vm_compute) - the
   correspondence check runs [run] against the real RoomManager / UserManager.

   Only the vocabulary (msg, event, blockmap) is taken from Spec.v; none of its step functions
   is used here.

   Data: RoomManager._rooms is an insertion-ordered dict  -> association list, new keys appended;
         Room.users a list without duplicates (add_user) -> list;
         Room.members / Room.operators are Python sets    -> duplicate-free lists (compared sorted);
         Room.tickers an (Ordered)dict                    -> association list, assignment keeps position;
         UserManager._users a (weak) dict name -> User    -> association list (the harness pins the
         users, so garbage collection does not enter);  _privileged_users -> list. *)
From Coq Require Import ZArith List Bool Arith.
From Slsk Require Import C19.Spec.
Import ListNotations.

(* ---- Python containers ---- *)
Definition mem (x : nat) (l : list nat) : bool := existsb (Nat.eqb x) l.
Definition sadd (x : nat) (l : list nat) : list nat := if mem x l then l else l ++ [x].     (* set.add / Room.add_user *)
Definition sdiscard (x : nat) (l : list nat) : list nat := filter (fun y => negb (Nat.eqb x y)) l.  (* set.discard / remove_user *)
Definition sof (l : list nat) : list nat := fold_left (fun acc x => sadd x acc) l [].      (* set(list) *)

Fixpoint aget {A} (k : nat) (l : list (nat * A)) : option A :=
  match l with
  | [] => None
  | (k', a) :: r => if Nat.eqb k k' then Some a else aget k r
  end.
Fixpoint aset {A} (k : nat) (a : A) (l : list (nat * A)) : list (nat * A) :=      (* d[k] = a *)
  match l with
  | [] => [(k, a)]
  | (k', a') :: r => if Nat.eqb k k' then (k, a) :: r else (k', a') :: aset k a r
  end.
Definition adel {A} (k : nat) (l : list (nat * A)) : list (nat * A) :=            (* del d[k] if present *)
  filter (fun p => negb (Nat.eqb k (fst p))) l.
Definition aof {A} (l : list (nat * A)) : list (nat * A) :=
  fold_left (fun acc p => aset (fst p) (snd p) acc) l [].

(* ---- records ---- *)
Record urec := mkU { u_status : Z; u_stats : option stats; u_priv : bool }.
Record rrec := mkR { r_private : bool; r_users : list name; r_joined : bool; r_tickers : list (name * text);
                     r_members : list name; r_owner : option name; r_ops : list name }.
Record state := mkS { rooms : list (room * rrec); users : list (name * urec); privset : list name }.

Definition STATUS_UNKNOWN : Z := (-1)%Z.
Definition new_user (ps : list name) (u : name) : urec := mkU STATUS_UNKNOWN None (mem u ps).
Definition new_room (private : bool) : rrec := mkR private [] false [] [] None [].

(* UserManager.get_user_object *)
Definition user_obj (s : state) (u : name) : urec :=
  match aget u (users s) with Some x => x | None => new_user (privset s) u end.
Definition upd_user (u : name) (f : urec -> urec) (s : state) : state :=
  mkS (rooms s) (aset u (f (user_obj s u)) (users s)) (privset s).
Definition touch_user (u : name) (s : state) : state := upd_user u (fun x => x) s.

(* RoomManager.get_or_create_room, followed by attribute updates *)
Definition room_obj (rs : list (room * rrec)) (r : room) (private : bool) : rrec :=
  match aget r rs with Some x => x | None => new_room private end.
Definition upd_rooms (r : room) (private : bool) (f : rrec -> rrec) (rs : list (room * rrec)) :=
  aset r (f (room_obj rs r private)) rs.
Definition upd_room (r : room) (private : bool) (f : rrec -> rrec) (s : state) : state :=
  mkS (upd_rooms r private f (rooms s)) (users s) (privset s).

(* field setters *)
Definition set_private b x := mkR b (r_users x) (r_joined x) (r_tickers x) (r_members x) (r_owner x) (r_ops x).
Definition set_users l x := mkR (r_private x) l (r_joined x) (r_tickers x) (r_members x) (r_owner x) (r_ops x).
Definition set_joined b x := mkR (r_private x) (r_users x) b (r_tickers x) (r_members x) (r_owner x) (r_ops x).
Definition set_tickers t x := mkR (r_private x) (r_users x) (r_joined x) t (r_members x) (r_owner x) (r_ops x).
Definition set_members l x := mkR (r_private x) (r_users x) (r_joined x) (r_tickers x) l (r_owner x) (r_ops x).
Definition set_owner o x := mkR (r_private x) (r_users x) (r_joined x) (r_tickers x) (r_members x) o (r_ops x).
Definition set_ops l x := mkR (r_private x) (r_users x) (r_joined x) (r_tickers x) (r_members x) (r_owner x) l.

Definition set_status_stats (st : Z) (ss : stats) (x : urec) := mkU st (Some ss) (u_priv x).

(* ---- the handlers ---- *)
Section Handlers.
  Variable me : name.
  Variable bl : blockmap.

  Definition ev (l : label) (r : option room) (u : option name) : list event := [mkEv l r u].

  (* _on_room_list *)
  Definition fix_room (pub owned priv operated : list room) (r : room) (x : rrec) : rrec :=
    let x1 := if negb (mem r owned) then
                (match r_owner x with Some o => if Nat.eqb o me then set_owner None x else x | None => x end)
              else x in
    let x2 := if negb (mem r operated) then set_ops (sdiscard me (r_ops x1)) x1 else x1 in
    let x3 := if negb (mem r priv) then set_members (sdiscard me (r_members x2)) x2 else x2 in
    set_private (negb (mem r pub)) x3.

  Definition on_room_list (pub owned priv operated : list room) (s : state) : state :=
    let s0 := touch_user me s in
    let rs1 := fold_left (fun rs r => upd_rooms r false (fun x => x) rs) pub (rooms s0) in
    let rs2 := fold_left (fun rs r => upd_rooms r true (set_owner (Some me)) rs) owned rs1 in
    let rs3 := fold_left (fun rs r => upd_rooms r true (fun x => set_members (sadd me (r_members x)) x) rs) priv rs2 in
    let rs4 := fold_left (fun rs r => upd_rooms r true (fun x => set_ops (sadd me (r_ops x)) x) rs) operated rs3 in
    let keep := fun r => mem r pub || mem r priv || mem r owned in
    let rs5 := filter (fun p => keep (fst p)) rs4 in
    let rs6 := map (fun p => (fst p, fix_room pub owned priv operated (fst p) (snd p))) rs5 in
    mkS rs6 (users s0) (privset s0).

  (* _on_join_room: room first, then per listed user: user fields, room.add_user *)
  Definition on_join_room (r : room) (us : list (name * (Z * stats))) (owner : option name) (ops : list name) (s : state) : state :=
    let s1 := upd_room r false (fun x => set_private (match owner with Some _ => true | None => false end) (set_joined true x)) s in
    let s2 := fold_left (fun s p =>
                let s' := upd_user (fst p) (set_status_stats (fst (snd p)) (snd (snd p))) s in
                upd_room r false (fun x => set_users (sadd (fst p) (r_users x)) x) s') us s1 in
    upd_room r false (fun x => set_ops (sof ops) (set_owner owner x)) s2.

  Definition apply_msg (s : state) (m : msg) : state * list event :=
    match m with
    | RoomListM pub owned priv operated =>
        (on_room_list pub owned priv operated s, ev LRoomList None None)
    | JoinRoomM r us owner ops =>
        (on_join_room r us owner ops s, ev LRoomJoined (Some r) None)
    | LeaveRoomM r =>
        (upd_room r false (fun x => set_users [] (set_joined false x)) s, ev LRoomLeft (Some r) None)
    | UserJoinedM r u st ss =>
        let s1 := upd_user u (set_status_stats st ss) s in
        (upd_room r false (fun x => set_users (sadd u (r_users x)) x) s1, ev LRoomJoined (Some r) (Some u))
    | UserLeftM r u =>
        let s1 := touch_user u s in
        (upd_room r false (fun x => set_users (sdiscard u (r_users x)) x) s1, ev LRoomLeft (Some r) (Some u))
    | MemberGrantM r u =>
        let s1 := upd_room r true (fun x => x) s in
        let s2 := touch_user u s1 in
        (upd_room r true (fun x => set_members (sadd u (r_members x)) x) s2, ev LMembershipGranted (Some r) (Some u))
    | MembershipGrantedM r =>
        let s1 := upd_room r true (fun x => x) s in
        let s2 := touch_user me s1 in
        (upd_room r true (fun x => set_members (sadd me (r_members x)) x) s2, ev LMembershipGranted (Some r) None)
    | MemberRevokeM r u =>
        let s1 := upd_room r true (fun x => x) s in
        let s2 := touch_user u s1 in
        (upd_room r true (fun x => set_ops (sdiscard u (r_ops x)) (set_members (sdiscard u (r_members x)) x)) s2,
         ev LMembershipRevoked (Some r) (Some u))
    | MembershipRevokedM r =>
        let s1 := upd_room r true (fun x => x) s in
        let s2 := touch_user me s1 in
        (upd_room r true (fun x => set_ops (sdiscard me (r_ops x)) (set_members (sdiscard me (r_members x)) x)) s2,
         ev LMembershipRevoked (Some r) None)
    | MembersM r l =>
        let s1 := upd_room r true (fun x => set_members (sof l) x) s in
        (fold_left (fun s u => touch_user u s) l s1, ev LMembers (Some r) None)
    | OperatorsM r l =>
        let s1 := upd_room r true (fun x => set_ops (sof l) x) s in
        (fold_left (fun s u => touch_user u s) (sof l) s1, ev LOperators (Some r) None)
    | OpGrantedM r =>
        (* room/manager.py _on_operator_granted: room.operators.add(own name)   (F24 repaired) *)
        let s1 := upd_room r true (fun x => x) s in
        let s2 := touch_user me s1 in
        (upd_room r true (fun x => set_ops (sadd me (r_ops x)) x) s2, ev LOperatorGranted (Some r) None)
    | OpRevokedM r =>
        let s1 := upd_room r true (fun x => x) s in
        let s2 := touch_user me s1 in
        (upd_room r true (fun x => set_ops (sdiscard me (r_ops x)) x) s2, ev LOperatorRevoked (Some r) None)
    | OpGrantM r u =>
        let s1 := touch_user u s in
        (upd_room r true (fun x => set_ops (sadd u (r_ops x)) x) s1, ev LOperatorGranted (Some r) (Some u))
    | OpRevokeM r u =>
        let s1 := touch_user u s in
        (upd_room r true (fun x => set_ops (sdiscard u (r_ops x)) x) s1, ev LOperatorRevoked (Some r) (Some u))
    | TickersM r l =>
        let s1 := upd_room r false (fun x => x) s in
        let s2 := fold_left (fun s p => touch_user (fst p) s) l s1 in
        (upd_room r false (set_tickers (aof l)) s2, ev LRoomTickers (Some r) None)
    | TickerAddM r u t =>
        let s1 := upd_room r false (fun x => x) s in
        let s2 := touch_user u s1 in
        (upd_room r false (fun x => set_tickers (aset u t (r_tickers x)) x) s2, ev LTickerAdded (Some r) (Some u))
    | TickerRemM r u =>
        let s1 := upd_room r false (fun x => x) s in
        let s2 := touch_user u s1 in
        (upd_room r false (fun x => set_tickers (adel u (r_tickers x)) x) s2, ev LTickerRemoved (Some r) (Some u))
    | RoomChatM r u t =>
        if blocked_room bl u then (s, [])
        else (upd_room r false (fun x => x) (touch_user u s), ev LRoomMessage (Some r) (Some u))
    | PublicChatM r u t =>
        if blocked_room bl u then (s, [])
        else (touch_user u (upd_room r false (fun x => x) s), ev LPublicMessage (Some r) (Some u))
    | PrivateChatM u t =>
        if blocked_private bl u then (s, [])
        else (touch_user u s, ev LPrivateMessage None (Some u))
    | UserStatusM u st p =>
        (upd_user u (fun x => mkU st (u_stats x) p) s, ev LUserStatus None (Some u))
    | UserStatsM u ss =>
        (upd_user u (fun x => mkU (u_status x) (Some ss) (u_priv x)) s, ev LUserStats None (Some u))
    | AddUserM u ex st ss =>
        (upd_user u (fun x => if ex then mkU st (match ss with Some v => Some v | None => u_stats x end) (u_priv x) else x) s, [])
    | PrivUsersM l =>
        let us := map (fun p => (fst p, mkU (u_status (snd p)) (u_stats (snd p)) (mem (fst p) l))) (users s) in
        let s1 := mkS (rooms s) us (sof l) in
        (fold_left (fun s u => touch_user u s) l s1, ev LPrivilegedUsers None None)
    | AddPrivUserM u =>
        (upd_user u (fun x => mkU (u_status x) (u_stats x) true) s, ev LPrivilegedUserAdded None (Some u))
    end.

  Fixpoint run (s : state) (ms : list msg) : state * list (list event) :=
    match ms with
    | [] => (s, [])
    | m :: r => let '(s1, e) := apply_msg s m in let '(s2, es) := run s1 r in (s2, e :: es)
    end.

  Definition fold (s : state) (ms : list msg) : state := fold_left (fun s m => fst (apply_msg s m)) ms s.

  (* all intermediate (state, events) pairs: what the correspondence check compares *)
  Fixpoint trace (s : state) (ms : list msg) : list (state * list event) :=
    match ms with
    | [] => []
    | m :: r => let p := apply_msg s m in p :: trace (fst p) r
    end.
End Handlers.

(* ---- the observable view of a state (the questions of Spec.v asked of the model) ---- *)
Definition q_private (s : state) (r : room) : option bool := option_map r_private (aget r (rooms s)).
Definition q_room (s : state) (r : room) : rrec := room_obj (rooms s) r false.
Definition q_joined (s : state) (r : room) : bool := r_joined (q_room s r).
Definition q_inroom (s : state) (r : room) (u : name) : bool := mem u (r_users (q_room s r)).
Definition q_owner (s : state) (r : room) : option name := r_owner (q_room s r).
Definition q_member (s : state) (r : room) (u : name) : bool := mem u (r_members (q_room s r)).
Definition q_operator (s : state) (r : room) (u : name) : bool := mem u (r_ops (q_room s r)).
Definition q_ticker (s : state) (r : room) (u : name) : option text := aget u (r_tickers (q_room s r)).
Definition q_status (s : state) (u : name) : Z := u_status (user_obj s u).
Definition q_stats (s : state) (u : name) : option stats := u_stats (user_obj s u).
Definition q_privileged (s : state) (u : name) : bool := u_priv (user_obj s u).

(* the state right after login: the own user exists and is ONLINE (user/manager.py 467-476) *)
Definition init_state (me : name) : state := mkS [] [(me, mkU 2%Z None false)] [].
