(* C19 model, base part: the Python containers, the records, the primitive state transformers
   (get_user_object / get_or_create_room + one attribute update) and the four handlers with loops
   (_on_room_list, _on_join_room, _on_chat_room_tickers, _on_privileged_users: hand-modelled and
   shape-pinned by translate/tr_rooms.py).  The clauses of the 22 straight-line handlers and
   [apply_msg] itself are GENERATED from the source into SlskGen.RoomGen on every run.
   Definitions only; executable (vm_compute).

   Only the vocabulary (msg, event, blockmap) is taken from Spec.v; none of its step functions
   is used here.

   Data: RoomManager._rooms is an insertion-ordered dict  -> association list, new keys appended;
         Room.users a list without duplicates (add_user) -> list;
         Room.members / Room.operators are Python sets    -> duplicate-free lists (compared sorted);
         Room.tickers an (Ordered)dict                    -> association list, assignment keeps position;
         UserManager._users a (weak) dict name -> User    -> association list (the harness pins the
         users, so garbage collection does not enter);  _privileged_users -> list. *)
From Coq Require Import ZArith List Bool Arith.
From Slsk Require Import C19.Spec.
Import ListNotations.

(* ---- Python containers ---- *)
Definition mem (x : nat) (l : list nat) : bool := existsb (Nat.eqb x) l.
Definition sadd (x : nat) (l : list nat) : list nat := if mem x l then l else l ++ [x].     (* set.add / Room.add_user *)
Definition sdiscard (x : nat) (l : list nat) : list nat := filter (fun y => negb (Nat.eqb x y)) l.  (* set.discard / remove_user *)
Definition sof (l : list nat) : list nat := fold_left (fun acc x => sadd x acc) l [].      (* set(list) *)

Fixpoint aget {A} (k : nat) (l : list (nat * A)) : option A :=
  match l with
  | [] => None
  | (k', a) :: r => if Nat.eqb k k' then Some a else aget k r
  end.
Fixpoint aset {A} (k : nat) (a : A) (l : list (nat * A)) : list (nat * A) :=      (* d[k] = a *)
  match l with
  | [] => [(k, a)]
  | (k', a') :: r => if Nat.eqb k k' then (k, a) :: r else (k', a') :: aset k a r
  end.
Definition adel {A} (k : nat) (l : list (nat * A)) : list (nat * A) :=            (* del d[k] if present *)
  filter (fun p => negb (Nat.eqb k (fst p))) l.
Definition aof {A} (l : list (nat * A)) : list (nat * A) :=
  fold_left (fun acc p => aset (fst p) (snd p) acc) l [].

(* ---- records ---- *)
Record urec := mkU { u_status : Z; u_stats : option stats; u_priv : bool }.
Record rrec := mkR { r_private : bool; r_users : list name; r_joined : bool; r_tickers : list (name * text);
                     r_members : list name; r_owner : option name; r_ops : list name }.
Record state := mkS { rooms : list (room * rrec); users : list (name * urec); privset : list name }.

Definition STATUS_UNKNOWN : Z := (-1)%Z.
Definition new_user (ps : list name) (u : name) : urec := mkU STATUS_UNKNOWN None (mem u ps).
Definition new_room (private : bool) : rrec := mkR private [] false [] [] None [].

(* UserManager.get_user_object *)
Definition user_obj (s : state) (u : name) : urec :=
  match aget u (users s) with Some x => x | None => new_user (privset s) u end.
Definition upd_user (u : name) (f : urec -> urec) (s : state) : state :=
  mkS (rooms s) (aset u (f (user_obj s u)) (users s)) (privset s).
Definition touch_user (u : name) (s : state) : state := upd_user u (fun x => x) s.

(* RoomManager.get_or_create_room, followed by attribute updates *)
Definition room_obj (rs : list (room * rrec)) (r : room) (private : bool) : rrec :=
  match aget r rs with Some x => x | None => new_room private end.
Definition upd_rooms (r : room) (private : bool) (f : rrec -> rrec) (rs : list (room * rrec)) :=
  aset r (f (room_obj rs r private)) rs.
Definition upd_room (r : room) (private : bool) (f : rrec -> rrec) (s : state) : state :=
  mkS (upd_rooms r private f (rooms s)) (users s) (privset s).

(* field setters *)
Definition set_private b x := mkR b (r_users x) (r_joined x) (r_tickers x) (r_members x) (r_owner x) (r_ops x).
Definition set_users l x := mkR (r_private x) l (r_joined x) (r_tickers x) (r_members x) (r_owner x) (r_ops x).
Definition set_joined b x := mkR (r_private x) (r_users x) b (r_tickers x) (r_members x) (r_owner x) (r_ops x).
Definition set_tickers t x := mkR (r_private x) (r_users x) (r_joined x) t (r_members x) (r_owner x) (r_ops x).
Definition set_members l x := mkR (r_private x) (r_users x) (r_joined x) (r_tickers x) l (r_owner x) (r_ops x).
Definition set_owner o x := mkR (r_private x) (r_users x) (r_joined x) (r_tickers x) (r_members x) o (r_ops x).
Definition set_ops l x := mkR (r_private x) (r_users x) (r_joined x) (r_tickers x) (r_members x) (r_owner x) l.

Definition set_status_stats (st : Z) (ss : stats) (x : urec) := mkU st (Some ss) (u_priv x).

(* ---- the handlers ---- *)
Section Handlers.
  Variable me : name.
  Variable bl : blockmap.

  (* _on_room_list *)
  Definition fix_room (pub owned priv operated : list room) (r : room) (x : rrec) : rrec :=
    let x1 := if negb (mem r owned) then
                (match r_owner x with Some o => if Nat.eqb o me then set_owner None x else x | None => x end)
              else x in
    let x2 := if negb (mem r operated) then set_ops (sdiscard me (r_ops x1)) x1 else x1 in
    let x3 := if negb (mem r priv) then set_members (sdiscard me (r_members x2)) x2 else x2 in
    set_private (negb (mem r pub)) x3.

  Definition on_room_list (pub owned priv operated : list room) (s : state) : state :=
    let s0 := touch_user me s in
    let rs1 := fold_left (fun rs r => upd_rooms r false (fun x => x) rs) pub (rooms s0) in
    let rs2 := fold_left (fun rs r => upd_rooms r true (set_owner (Some me)) rs) owned rs1 in
    let rs3 := fold_left (fun rs r => upd_rooms r true (fun x => set_members (sadd me (r_members x)) x) rs) priv rs2 in
    let rs4 := fold_left (fun rs r => upd_rooms r true (fun x => set_ops (sadd me (r_ops x)) x) rs) operated rs3 in
    let keep := fun r => mem r pub || mem r priv || mem r owned in
    let rs5 := filter (fun p => keep (fst p)) rs4 in
    let rs6 := map (fun p => (fst p, fix_room pub owned priv operated (fst p) (snd p))) rs5 in
    mkS rs6 (users s0) (privset s0).

  (* _on_join_room: room first, then per listed user: user fields, room.add_user *)
  Definition on_join_room (r : room) (us : list (name * (Z * stats))) (owner : option name) (ops : list name) (s : state) : state :=
    let s1 := upd_room r false (fun x => set_private (match owner with Some _ => true | None => false end) (set_joined true x)) s in
    let s2 := fold_left (fun s p =>
                let s' := upd_user (fst p) (set_status_stats (fst (snd p)) (snd (snd p))) s in
                upd_room r false (fun x => set_users (sadd (fst p) (r_users x)) x) s') us s1 in
    upd_room r false (fun x => set_ops (sof ops) (set_owner owner x)) s2.

  (* _on_chat_room_tickers: room first, every ticker's user object is fetched, the new dict replaces the old *)
  Definition on_room_tickers (r : room) (l : list (name * text)) (s : state) : state :=
    let s1 := upd_room r false (fun x => x) s in
    let s2 := fold_left (fun s p => touch_user (fst p) s) l s1 in
    upd_room r false (set_tickers (aof l)) s2.

  (* _on_privileged_users: every known user is re-flagged, the set is replaced, the listed user objects are fetched *)
  Definition on_privileged_users (l : list name) (s : state) : state :=
    let us := map (fun p => (fst p, mkU (u_status (snd p)) (u_stats (snd p)) (mem (fst p) l))) (users s) in
    let s1 := mkS (rooms s) us (sof l) in
    fold_left (fun s u => touch_user u s) l s1.
End Handlers.

(* ---- the observable view of a state (the questions of Spec.v asked of the model) ---- *)
Definition q_private (s : state) (r : room) : option bool := option_map r_private (aget r (rooms s)).
Definition q_room (s : state) (r : room) : rrec := room_obj (rooms s) r false.
Definition q_joined (s : state) (r : room) : bool := r_joined (q_room s r).
Definition q_inroom (s : state) (r : room) (u : name) : bool := mem u (r_users (q_room s r)).
Definition q_owner (s : state) (r : room) : option name := r_owner (q_room s r).
Definition q_member (s : state) (r : room) (u : name) : bool := mem u (r_members (q_room s r)).
Definition q_operator (s : state) (r : room) (u : name) : bool := mem u (r_ops (q_room s r)).
Definition q_ticker (s : state) (r : room) (u : name) : option text := aget u (r_tickers (q_room s r)).
Definition q_status (s : state) (u : name) : Z := u_status (user_obj s u).
Definition q_stats (s : state) (u : name) : option stats := u_stats (user_obj s u).
Definition q_privileged (s : state) (u : name) : bool := u_priv (user_obj s u).

(* the state right after login: the own user exists and is ONLINE (user/manager.py 467-476) *)
Definition init_state (me : name) : state := mkS [] [(me, mkU 2%Z None false)] [].
