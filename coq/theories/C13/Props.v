(* C13 property theorems (statements only; proofs are in Proofs.v).
   The tree machine step/run is C13/Model.v (the code after the repairs of F10 and F11);
   check_new_child, child_limits, calculate_max_children, advertised, take_as_parent,
   parent_update_tells_server and the constants are SlskGen.DistGen, regenerated from
   /repo/src/aioslsk/distributed.py and constants.py on every run. *)
From Slsk Require Import Base.Tac.
From SlskGen Require Import DistGen.
From Slsk Require Import C13.Model C13.Proofs.
Open Scope Z_scope.

(* Admission, from ANY state: a step adds a connection to the children only if it is an incoming
   (not requested) PeerInit, child acceptance is on, #children < max, and the peer's name is not
   among the potential parents proposed by the server. *)
Theorem C13_admission : forall s e c, gained_child s (step s e) c ->
  exists n, e = PeerInit c n false /\ accept s = true /\ Z.of_nat (length (children s)) < maxc s /\ memn n (cands s) = false.
Proof. exact admission. Qed.

(* The child limit computed from the upload speed (generated arithmetic). *)
Theorem C13_child_limit_spec : forall speed mn rt, 0 <= speed -> 0 < rt ->
  let r := child_limits speed mn rt in
  let below := fst (fst r) in let acc := snd (fst r) in let mx := snd r in
  (below = true <-> speed < mn * 1024) /\
  (below = true -> acc = false /\ mx = 0) /\
  (below = false -> acc = true /\ mx * (rt * 1024) <= speed * 10 < (mx + 1) * (rt * 1024)).
Proof. exact child_limit_spec. Qed.

(* Tree invariant after EVERY event list and every Hold/Release schedule: at most one parent (by
   type), parent and children are live connections, no connection is a child twice, the parent is
   not among the children.  (Full statement: F10 is repaired.) *)
Theorem C13_tree_inv : forall evs, tree_inv (run init evs).
Proof. intros evs. apply tree_inv_run. exact tree_inv_init. Qed.

(* What the server was last told (level, root, parent search) is the position derived from the
   current parent, after EVERY event list / schedule, whenever a session exists - also after the
   parent announces new values or is lost.  (Full statement: F11 is repaired.) *)
Theorem C13_advertised_truthful_server : forall evs, server_truthful (run init evs).
Proof. intros evs. apply told_server_run; [exact base_init | exact K_init]. Qed.

(* What every live child was last told is the position derived from the current parent, after
   EVERY event list and schedule, whenever a session exists and no handler is suspended - also for
   children admitted, and parents lost or chosen, while logged out: a new session re-advertises to
   the children ([session_init_readvertises], generated from _on_session_initialized, is true).
   (Full statement: F27 is repaired.  Without a session nothing can be told: the own name is unknown.) *)
Theorem C13_advertised_truthful_children : forall evs,
  pend (run init evs) = [] -> children_truthful_in_session (run init evs).
Proof. apply children_told_full. reflexivity. Qed.

(* The procedural handlers of the source still have the shape the hand-written machine implements:
   effect lists regenerated from _set_parent, _unset_parent, _on_state_changed(CLOSED), _on_session_initialized,
   _on_session_destroyed, reset, _remove_child; order of the three messages to the server; the parent-search flag;
   the level sent to the children when the parent is lost; independent queued sends to the children; a new session
   re-advertises to the children (F27 repair); _add_child reads the advertised values again before the root
   message (F28 repair; the per-connection write suspension itself is explored by the harness only). *)
Theorem C13_model_follows_source :
  set_parent_effects = model_set_parent_effects /\ unset_parent_effects = model_unset_parent_effects /\
  closed_handler_effects = model_closed_handler_effects /\ session_init_effects = model_session_init_effects /\
  session_destroyed_effects = model_session_destroyed_effects /\ reset_effects = model_reset_effects /\
  remove_child_effects = model_remove_child_effects /\
  server_advert_order = [AF_level; AF_root; AF_search] /\ unset_children_level = 0 /\
  (forall b, parent_search_flag b = negb b) /\ children_send_independent = true /\
  session_init_readvertises = true /\ add_child_rereads_values = true.
Proof.
  destruct model_follows_source as (A1 & A2 & A3 & A4 & A5 & A6 & A7 & A8 & A9 & A10 & A11).
  repeat split; first [assumption | reflexivity | exact A10].
Qed.

(* helper values the machine assumes: parent search is enabled in the default debug settings (the model
   sends ToggleParentSearch accordingly); the searches block flag and the default listener priority exist. *)
Theorem C13_helpers_as_assumed : search_for_parent_default = true /\ 0 < BLOCKING_FLAG_SEARCHES /\ 0 < DEFAULT_LISTENER_PRIORITY.
Proof. exact helpers_as_assumed. Qed.

(* non-vacuity: a parent chosen among two candidates, a child admitted, the parent lost under Hold
   and a new one chosen before Release; then the new parent announces another level; and the two
   histories that exhibited F10 / F11 before the repair now satisfy the invariants non-trivially *)
Definition nv_history : list event :=
  [SessionInit; PotentialParents [1%nat; 2%nat]; PeerInit 1%nat 1%nat true; PeerInit 2%nat 2%nat true; PeerInit 3%nat 3%nat false;
   BranchLevel 1%nat 4; BranchLevel 2%nat 0; Hold; ConnClosed 2%nat; PeerInit 4%nat 1%nat true; BranchRoot 4%nat 6%nat; BranchLevel 4%nat 1; Release;
   BranchLevel 4%nat 7].
Example C13_nonvacuous :
  along session_present init nv_history = true /\ pend (run init nv_history) = [] /\
  parent (run init nv_history) = Some 4%nat /\ children (run init nv_history) = [3%nat] /\
  told_server (run init nv_history) = Some (8, 6%nat, false) /\
  lookup_told 3%nat (run init nv_history) = Some (8, 6%nat) /\
  gained_child (run init (firstn 4 nv_history)) (step (run init (firstn 4 nv_history)) (PeerInit 3%nat 3%nat false)) 3%nat /\
  (* F10 history: the announcing child is disconnected, not made parent *)
  parent (run init f10_witness) = None /\ children (run init f10_witness) = [] /\ conns (run init f10_witness) = [] /\
  (* F11 history: the server is told the new level of the parent + 1 *)
  told_server (run init f11_witness) = Some (6, 5%nat, false) /\
  (* F27 history: the child admitted while logged out is told the position when the session starts *)
  lookup_told 1%nat (run init f27_witness) = Some (0, me).
Proof. vm_compute. repeat split; try reflexivity. - left; reflexivity. - intros []. Qed.
