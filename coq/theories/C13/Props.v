(* C13 property theorems (statements only; proofs are in Proofs.v).
   The tree machine step/run is C13/Model.v; check_new_child, child_limits,
   calculate_max_children, advertised and the constants are SlskGen.DistGen, regenerated from
   /repo/src/aioslsk/distributed.py and constants.py on every run. *)
From Slsk Require Import Base.Tac.
From SlskGen Require Import DistGen.
From Slsk Require Import C13.Model C13.Proofs.
Open Scope Z_scope.

(* Admission, from ANY state: a step adds a connection to the children only if it is an incoming
   (not requested) PeerInit, child acceptance is on, #children < max, and the peer's name is not
   among the potential parents proposed by the server. *)
Theorem C13_admission : forall s e c, gained_child s (step s e) c ->
  exists n, e = PeerInit c n false /\ accept s = true /\ Z.of_nat (length (children s)) < maxc s /\ memn n (cands s) = false.
Proof. exact admission. Qed.

(* The child limit computed from the upload speed (generated arithmetic). *)
Theorem C13_child_limit_spec : forall speed mn rt, 0 <= speed -> 0 < rt ->
  let r := child_limits speed mn rt in
  let below := fst (fst r) in let acc := snd (fst r) in let mx := snd r in
  (below = true <-> speed < mn * 1024) /\
  (below = true -> acc = false /\ mx = 0) /\
  (below = false -> acc = true /\ mx * (rt * 1024) <= speed * 10 < (mx + 1) * (rt * 1024)).
Proof. exact child_limit_spec. Qed.

(* Tree invariant (<= 1 parent by type; parent and children live, children distinct, parent not a
   child) after every event list and every Hold/Release schedule in which no connection that is
   currently a CHILD announces a branch level / root (the shape of finding F10). *)
Theorem C13_tree_inv_partial : forall evs,
  along (fun s e => negb (child_announces s e)) init evs = true -> tree_inv (run init evs).
Proof. intros evs. apply tree_inv_run. exact tree_inv_init. Qed.

(* Without that side condition the invariant is false of the current code (F10). *)
Theorem C13_tree_inv_refuted : exists evs, ~ tree_inv (run init evs).
Proof. exact tree_inv_refuted. Qed.

(* Unconditionally: the parent is a live distributed connection. *)
Theorem C13_parent_live : forall evs p, parent (run init evs) = Some p -> live p (run init evs) = true.
Proof. exact parent_live. Qed.

(* What the server was last told (level, root, parent search) is the position derived from the
   current parent, after every event list / schedule in which the CURRENT PARENT does not announce
   new values (the shape of finding F11). *)
Theorem C13_advertised_truthful_server_partial : forall evs,
  along (fun s e => negb (parent_updates s e)) init evs = true -> server_truthful (run init evs).
Proof. intros evs. apply told_server_run; [exact base_init | exact K_init]. Qed.

(* With updates from the parent the statement is false of the current code (F11). *)
Theorem C13_advertised_truthful_refuted : exists evs, ~ server_truthful (run init evs).
Proof. exact told_server_refuted. Qed.

(* non-vacuity: a history meeting both side conditions with a parent chosen among two candidates,
   a child admitted, the parent lost under Hold and a new one chosen before Release *)
Definition nv_history : list event :=
  [SessionInit; PotentialParents [1%nat; 2%nat]; PeerInit 1%nat 1%nat true; PeerInit 2%nat 2%nat true; PeerInit 3%nat 3%nat false;
   BranchLevel 1%nat 4; BranchLevel 2%nat 0; Hold; ConnClosed 2%nat; PeerInit 4%nat 1%nat true; BranchRoot 4%nat 6%nat; BranchLevel 4%nat 1; Release].
Example C13_nonvacuous :
  along (fun s e => negb (child_announces s e)) init nv_history = true /\
  along (fun s e => negb (parent_updates s e)) init nv_history = true /\
  parent (run init nv_history) = Some 4%nat /\ children (run init nv_history) = [3%nat] /\
  told_server (run init nv_history) = Some (2, 6%nat, false) /\
  lookup_told 3%nat (run init nv_history) = Some (2, 6%nat) /\
  gained_child (run init (firstn 4 nv_history)) (step (run init (firstn 4 nv_history)) (PeerInit 3%nat 3%nat false)) 3%nat.
Proof. vm_compute. repeat split; try reflexivity. - left; reflexivity. - intros []. Qed.
