(* C13 model: the distributed-tree machine of aioslsk/distributed.py.

   Decision functions and constants are GENERATED (SlskGen.DistGen, by translate/tr_dist.py from
   distributed.py / constants.py): check_new_child, child_limits, calculate_max_children,
   advertised, POTENTIAL_PARENTS_CACHE_SIZE, defaults.  This file adds the hand-written machine
   (handlers of DistributedNetwork) tied to the code by the correspondence check checks/c13.py.

   Handlers are atomic, except that a handler which awaits a send to the SERVER inside
   _set_parent / _unset_parent can be suspended there: while [held] (the server's TCP window is
   closed, drain() blocks) the rest of the handler is pushed on [pend]; [Release] resumes the
   suspended handlers in FIFO order (asyncio wakes drain waiters in order).

   Definitions only; must stay executable (vm_compute in the correspondence check). *)
From Coq Require Import ZArith List Bool Arith.
From SlskGen Require Import DistGen.
Import ListNotations.
Open Scope Z_scope.

Definition conn := nat.
Definition name := nat.
Definition me : name := 0%nat.          (* the logged-in user *)

Record peer := mkPeer { pc : conn; pname : name; plevel : option Z; proot : option name }.

(* rest of a handler suspended at its server send *)
Inductive cont :=
| KSet                (* _set_parent after _notify_server_of_parent: _notify_children_of_branch_values *)
| KUnset (c : conn).  (* _unset_parent after _notify_server_of_parent: level 0 / own name to the children,
                         then (in _on_state_changed) removal of c from children and distributed_peers *)

Inductive smsg := SLevel (n : Z) | SRoot (r : name) | SSearch (b : bool) | SAccept (b : bool).
Inductive cmsg := CLevel (n : Z) | CRoot (r : name) | CSearch (code : Z) (u : name) (t : Z) (q : nat).
Inductive out := OSrv (m : smsg) | OConn (c : conn) (m : cmsg) | OClose (c : conn).

Record state : Type := mkSt {
  session : bool;
  parent : option conn;
  children : list conn;
  peers : list peer;                 (* distributed_peers *)
  conns : list conn;                 (* live (not closing) registered distributed connections *)
  cands : list name;                 (* potential_parents: deque(maxlen=POTENTIAL_PARENTS_CACHE_SIZE) *)
  accept : bool;
  maxc : Z;
  pmin : option Z;
  pratio : option Z;
  held : bool;
  pend : list cont;
  told_server : option (Z * name * bool);       (* last BranchLevel / BranchRoot / ToggleParentSearch *)
  told_child : list (conn * (Z * name));        (* last level/root told per connection (first entry wins) *)
  outs : list out }.                            (* sends / closes of the current step *)

Definition set_session (v : bool) (s : state) : state := mkSt v (parent s) (children s) (peers s) (conns s) (cands s) (accept s) (maxc s) (pmin s) (pratio s) (held s) (pend s) (told_server s) (told_child s) (outs s).
Definition set_parent (v : option conn) (s : state) : state := mkSt (session s) v (children s) (peers s) (conns s) (cands s) (accept s) (maxc s) (pmin s) (pratio s) (held s) (pend s) (told_server s) (told_child s) (outs s).
Definition set_children (v : list conn) (s : state) : state := mkSt (session s) (parent s) v (peers s) (conns s) (cands s) (accept s) (maxc s) (pmin s) (pratio s) (held s) (pend s) (told_server s) (told_child s) (outs s).
Definition set_peers (v : list peer) (s : state) : state := mkSt (session s) (parent s) (children s) v (conns s) (cands s) (accept s) (maxc s) (pmin s) (pratio s) (held s) (pend s) (told_server s) (told_child s) (outs s).
Definition set_conns (v : list conn) (s : state) : state := mkSt (session s) (parent s) (children s) (peers s) v (cands s) (accept s) (maxc s) (pmin s) (pratio s) (held s) (pend s) (told_server s) (told_child s) (outs s).
Definition set_cands (v : list name) (s : state) : state := mkSt (session s) (parent s) (children s) (peers s) (conns s) v (accept s) (maxc s) (pmin s) (pratio s) (held s) (pend s) (told_server s) (told_child s) (outs s).
Definition set_accept (v : bool) (s : state) : state := mkSt (session s) (parent s) (children s) (peers s) (conns s) (cands s) v (maxc s) (pmin s) (pratio s) (held s) (pend s) (told_server s) (told_child s) (outs s).
Definition set_maxc (v : Z) (s : state) : state := mkSt (session s) (parent s) (children s) (peers s) (conns s) (cands s) (accept s) v (pmin s) (pratio s) (held s) (pend s) (told_server s) (told_child s) (outs s).
Definition set_pmin (v : option Z) (s : state) : state := mkSt (session s) (parent s) (children s) (peers s) (conns s) (cands s) (accept s) (maxc s) v (pratio s) (held s) (pend s) (told_server s) (told_child s) (outs s).
Definition set_pratio (v : option Z) (s : state) : state := mkSt (session s) (parent s) (children s) (peers s) (conns s) (cands s) (accept s) (maxc s) (pmin s) v (held s) (pend s) (told_server s) (told_child s) (outs s).
Definition set_held (v : bool) (s : state) : state := mkSt (session s) (parent s) (children s) (peers s) (conns s) (cands s) (accept s) (maxc s) (pmin s) (pratio s) v (pend s) (told_server s) (told_child s) (outs s).
Definition set_pend (v : list cont) (s : state) : state := mkSt (session s) (parent s) (children s) (peers s) (conns s) (cands s) (accept s) (maxc s) (pmin s) (pratio s) (held s) v (told_server s) (told_child s) (outs s).
Definition set_told_server (v : option (Z * name * bool)) (s : state) : state := mkSt (session s) (parent s) (children s) (peers s) (conns s) (cands s) (accept s) (maxc s) (pmin s) (pratio s) (held s) (pend s) v (told_child s) (outs s).
Definition set_told_child (v : list (conn * (Z * name))) (s : state) : state := mkSt (session s) (parent s) (children s) (peers s) (conns s) (cands s) (accept s) (maxc s) (pmin s) (pratio s) (held s) (pend s) (told_server s) v (outs s).
Definition set_outs (v : list out) (s : state) : state := mkSt (session s) (parent s) (children s) (peers s) (conns s) (cands s) (accept s) (maxc s) (pmin s) (pratio s) (held s) (pend s) (told_server s) (told_child s) v.

Inductive event :=
| SessionInit | SessionDestroyed | ServerClosed
| PotentialParents (ns : list name)
| PeerInit (c : conn) (n : name) (requested : bool)
| BranchLevel (c : conn) (n : Z)
| BranchRoot (c : conn) (r : name)
| ConnClosed (c : conn)
| ParentMinSpeed (n : Z) | ParentSpeedRatio (n : Z)
| OwnStats (speed : Z)
| ResetDistributed
| Hold | Release.

(* ---------------------------------------------------------------- helpers *)
Definition memn (x : nat) (l : list nat) : bool := existsb (Nat.eqb x) l.
Definition without (c : nat) (l : list nat) : list nat := filter (fun x => negb (Nat.eqb x c)) l.
Definition is_none {A} (o : option A) : bool := match o with None => true | Some _ => false end.
Definition lastn {A} (n : nat) (l : list A) : list A := skipn (length l - n) l.

Definition emit (o : list out) (s : state) : state := set_outs (outs s ++ o) s.
Definition live (c : conn) (s : state) : bool := memn c (conns s).
Definition registered (c : conn) (s : state) : bool := existsb (fun p => Nat.eqb (pc p) c) (peers s).
Definition find_peer (c : conn) (s : state) : option peer := find (fun p => Nat.eqb (pc p) c) (peers s).
Definition is_parent (c : conn) (s : state) : bool := match parent s with Some p => Nat.eqb p c | None => false end.

(* _get_advertised_branch_values (generated [advertised]) applied to the current parent *)
Definition position (s : state) : Z * name :=
  let rl :=
    match parent s with
    | None => advertised me false me 0
    | Some p =>
        match find_peer p s with
        | Some pr => advertised me true (match proot pr with Some r => r | None => me end)
                                        (match plevel pr with Some l => l | None => 0 end)
        | None => advertised me false me 0
        end
    end in (snd rl, fst rl).

(* _notify_server_of_parent (raises without a session before anything is sent).  The order of the
   three messages ([server_advert_order]) and the parent-search flag ([parent_search_flag]) are generated. *)
Definition tell_server (s : state) : state :=
  if session s then
    let v := position s in let b := parent_search_flag (negb (is_none (parent s))) in
    emit (map (fun f => OSrv (match f with AF_level => SLevel (fst v) | AF_root => SRoot (snd v) | AF_search => SSearch b end))
              server_advert_order)
         (set_told_server (Some (fst v, snd v, b)) s)
  else s.

(* queue_messages on a child connection: nothing is written on a closing / closed connection *)
Definition tell_child (v : Z * name) (s : state) (c : conn) : state :=
  if live c s then
    emit [OConn c (CLevel (fst v)); OConn c (CRoot (snd v))] (set_told_child ((c, v) :: told_child s) s)
  else s.
Definition tell_children (v : Z * name) (s : state) : state := fold_left (tell_child v) (children s) s.
(* _notify_children_of_branch_values *)
Definition notify_children (s : state) : state := if session s then tell_children (position s) s else s.

Definition push (k : cont) (s : state) : state := set_pend (pend s ++ [k]) s.

(* tail of _on_state_changed(CLOSED) *)
Definition finish_close (c : conn) (s : state) : state :=
  set_peers (filter (fun p => negb (Nat.eqb (pc p) c)) (peers s)) (set_children (without c (children s)) s).

(* _on_state_changed(CLOSED) for a registered distributed connection (already removed from the live
   ones; [conns] only holds registered connections, so the `if not peer: return` of the code is
   the [live] test of [close_peer]) *)
Definition on_closed (c : conn) (s : state) : state :=
  if is_parent c s then
    let s1 := set_parent None s in               (* _unset_parent *)
    if session s1 then
      let s2 := tell_server s1 in
      if held s2 then push (KUnset c) s2
      else finish_close c (tell_children (unset_children_level, me) s2)
    else finish_close c s1
  else finish_close c s.

Definition drop_conn (c : conn) (s : state) : state := set_conns (without c (conns s)) s.

(* the connection goes down (EOF from the remote side, or disconnect() by us) *)
Definition close_peer (c : conn) (s : state) : state :=
  if live c s then on_closed c (drop_conn c (emit [OClose c] s)) else s.

(* _notify_server_of_parent followed by _notify_children_of_branch_values (tail of _set_parent, and of
   the handlers of an update from the parent): without a session the first call raises; while the
   server write side is held the handler stays suspended after the server send *)
Definition advertise (s : state) : state :=
  if session s then
    let s1 := tell_server s in
    if held s1 then push KSet s1 else notify_children s1
  else s.

Definition keepers (s : state) : list conn := match parent s with Some p => p :: children s | None => children s end.

(* _set_parent *)
Definition do_set_parent (c : conn) (s : state) : state :=
  let s1 := set_parent (Some c) s in
  let keep := keepers s1 in
  let dropped := filter (fun x => negb (memn x keep)) (conns s1) in
  let s2 := emit (map OClose dropped)
              (set_peers (filter (fun p => memn (pc p) keep || negb (memn (pc p) (conns s1))) (peers s1))
                 (set_conns (filter (fun x => memn x keep) (conns s1)) s1)) in
  advertise s2.

Definition complete (p : peer) : bool := match plevel p, proot p with Some _, Some _ => true | _, _ => false end.

(* after a branch level / root was stored for the peer on connection c.
   [take_as_parent] (generated from _check_if_new_parent) decides between _set_parent and disconnect;
   [parent_update_tells_server] (generated) whether an update from the parent goes to the server too *)
Definition after_announce (c : conn) (s : state) : state :=
  if is_parent c s then (if parent_update_tells_server then advertise s else notify_children s)
  else match find_peer c s with
       | Some p => if complete p then
                     (if take_as_parent (negb (is_none (parent s))) (memn c (children s)) then do_set_parent c s else close_peer c s)
                   else s
       | None => s
       end.

Definition upd_peer (c : conn) (f : peer -> peer) (s : state) : state :=
  set_peers (map (fun p => if Nat.eqb (pc p) c then f p else p) (peers s)) s.

(* a closing / closed connection delivers no messages (reader loop tests _is_closing) *)
Definition on_branch_level (c : conn) (n : Z) (s : state) : state :=
  if registered c s && live c s then
    after_announce c (upd_peer c (fun p => mkPeer (pc p) (pname p) (Some n) (if Z.eqb n 0 then Some (pname p) else proot p)) s)
  else s.

Definition on_branch_root (c : conn) (r : name) (s : state) : state :=
  if negb (live c s) then s else
  match find_peer c s with
  | None => s
  | Some p =>
      match proot p with
      | Some r0 => if Nat.eqb r0 r then s
                   else after_announce c (upd_peer c (fun p => mkPeer (pc p) (pname p) (plevel p) (Some r)) s)
      | None => after_announce c (upd_peer c (fun p => mkPeer (pc p) (pname p) (plevel p) (Some r)) s)
      end
  end.

(* _add_child *)
Definition add_child (c : conn) (s : state) : state :=
  let s1 := set_children (children s ++ [c]) s in
  if session s1 then
    let v := position s1 in
    emit (OConn c (CLevel (fst v)) :: (if Z.eqb (fst v) 0 then [] else [OConn c (CRoot (snd v))]))
         (set_told_child ((c, v) :: told_child s1) s1)
  else s1.

Definition closing (c : conn) (s : state) : bool :=
  existsb (fun k => match k with KUnset c' => Nat.eqb c c' | KSet => false end) (pend s).

(* a new connection object: its id is fresh (not registered, not live, not in a suspended close) *)
Definition on_peer_init (c : conn) (n : name) (requested : bool) (s : state) : state :=
  if registered c s || live c s || closing c s then s else
  let s1 := set_told_child (filter (fun e => negb (Nat.eqb (fst e) c)) (told_child s))
              (set_peers (peers s ++ [mkPeer c n None None]) (set_conns (conns s ++ [c]) s)) in
  if requested then s1 else
  match check_new_child (memn n (cands s1)) (accept s1) (Z.of_nat (length (children s1))) (maxc s1) with
  | CV_ignore => s1
  | CV_reject => close_peer c s1
  | CV_add => add_child c s1
  end.

Definition dflt (o : option Z) (d : Z) : Z := match o with Some v => v | None => d end.

(* _on_get_user_stats for the own user *)
Definition on_own_stats (speed : Z) (s : state) : state :=
  if session s then
    let rt := dflt (pratio s) DEFAULT_PARENT_SPEED_RATIO in
    let r := child_limits speed (dflt (pmin s) DEFAULT_PARENT_MIN_SPEED) rt in
    let below := fst (fst r) in let acc := snd (fst r) in let mx := snd r in
    if below then emit [OSrv (SAccept acc)] (set_maxc mx (set_accept acc s))
    else if Z.eqb rt 0 then set_accept acc s     (* ZeroDivisionError in _calculate_max_children, after accept was assigned *)
    else emit [OSrv (SAccept acc)] (set_maxc mx (set_accept acc s))
  else s.

(* reset(): all children are put into CLOSING first (gather), their CLOSED handlers run in order,
   then the parent (if there still is one) is disconnected *)
Definition reset (s : state) : state :=
  let cs := filter (fun c => live c s) (children s) in
  let s1 := emit (map OClose cs) (set_conns (filter (fun x => negb (memn x cs)) (conns s)) s) in
  let s2 := fold_left (fun a c => on_closed c a) cs s1 in
  match parent s2 with Some p => close_peer p s2 | None => s2 end.

Definition run_cont (s : state) (k : cont) : state :=
  match k with
  | KSet => notify_children s
  | KUnset c => finish_close c (tell_children (unset_children_level, me) s)
  end.

Definition release (s : state) : state := fold_left run_cont (pend s) (set_pend [] (set_held false s)).

Definition step (s0 : state) (e : event) : state :=
  let s := set_outs [] s0 in
  match e with
  | SessionInit => let s1 := set_session true s in
                   if session_init_readvertises then advertise s1 else tell_server s1
  | SessionDestroyed => set_session false s
  | ServerClosed => set_pratio None (set_pmin None s)
  | PotentialParents ns => set_cands (lastn POTENTIAL_PARENTS_CACHE_SIZE (cands s ++ ns)) s
  | PeerInit c n r => on_peer_init c n r s
  | BranchLevel c n => on_branch_level c n s
  | BranchRoot c r => on_branch_root c r s
  | ConnClosed c => close_peer c s
  | ParentMinSpeed n => set_pmin (Some n) s
  | ParentSpeedRatio n => set_pratio (Some n) s
  | OwnStats speed => on_own_stats speed s
  | ResetDistributed => reset s
  | Hold => set_held true s
  | Release => release s
  end.

Definition run (s : state) (evs : list event) : state := fold_left step evs s.

Definition init : state :=
  mkSt false None [] [] [] [] initial_accept_children initial_max_children None None false [] None [] [].

(* states after every event (for the correspondence check) *)
Fixpoint trace (s : state) (evs : list event) : list state :=
  match evs with
  | [] => []
  | e :: r => let s' := step s e in s' :: trace s' r
  end.

(* ---------------------------------------------------------------- shape of the hand-modelled handlers *)
(* The effect lists (in source order) from which the handlers above were written:
     do_set_parent   = set the parent, (cancel connect tasks), close every other distributed connection,
                       server told (suspension point), children told              -> [advertise]
     on_closed       = _on_state_changed(CLOSED): unset if parent; remove from children; remove from peers
       _unset_parent = parent := None; nothing more without a session; server told (suspension point);
                       level [unset_children_level] / own name to the children
     SessionInit     = session set; server told          SessionDestroyed = session cleared
     reset           = children disconnected, then the parent
   The translator regenerates the same lists from the source; C13_model_follows_source compares them. *)
Definition model_set_parent_effects : list eff :=
  [E_set_parent_peer; E_await_cancel_tasks; E_close_other_connections; E_notify_server; E_notify_children].
Definition model_unset_parent_effects : list eff :=
  [E_set_parent_none; E_return_if_no_session; E_read_username; E_notify_server; E_tell_children_level_root].
Definition model_closed_handler_effects : list eff := [E_unset_if_parent; E_remove_if_child; E_remove_peer].
Definition model_session_init_effects : list eff :=
  if session_init_readvertises then [E_set_session; E_notify_server; E_notify_children] else [E_set_session; E_notify_server].
Definition model_session_destroyed_effects : list eff := [E_clear_session].
Definition model_reset_effects : list eff := [E_disconnect_children; E_disconnect_parent].
Definition model_remove_child_effects : list eff := [E_children_remove].

(* ---------------------------------------------------------------- property vocabulary *)
Definition lookup_told (c : conn) (s : state) : option (Z * name) :=
  match find (fun e => Nat.eqb (fst e) c) (told_child s) with Some e => Some (snd e) | None => None end.

(* a connection is gained as child by the step *)
Definition gained_child (s s' : state) (c : conn) : Prop := In c (children s') /\ ~ In c (children s).

(* events that change the tree or resume suspended handlers happen while a session exists
   (the excluded case is finding F27) *)
Definition session_present (s : state) (e : event) : bool :=
  match e with
  | SessionInit | SessionDestroyed | ServerClosed | PotentialParents _ | ParentMinSpeed _ | ParentSpeedRatio _
  | OwnStats _ | Hold => true
  | _ => session s
  end.

(* [along P s evs]: P holds of (state before, event) at every step of the run *)
Fixpoint along (P : state -> event -> bool) (s : state) (evs : list event) : bool :=
  match evs with
  | [] => true
  | e :: r => P s e && along P (step s e) r
  end.

(* ---------------------------------------------------------------- observation (correspondence) *)
Definition srv_of (o : list out) : list smsg :=
  flat_map (fun x => match x with OSrv m => [m] | _ => [] end) o.
Definition conn_of (c : conn) (o : list out) : list cmsg :=
  flat_map (fun x => match x with OConn c' m => if Nat.eqb c c' then [m] else [] | _ => [] end) o.
Definition closed_of (o : list out) : list conn :=
  flat_map (fun x => match x with OClose c => [c] | _ => [] end) o.

(* expected observation of one step, as recorded on the implementation *)
Record obs := mkObs {
  o_parent : option nat; o_children : list nat; o_peers : list (nat * nat * option Z * option nat);
  o_cands : list nat; o_accept : bool; o_max : Z; o_live : list nat;
  o_srv : list smsg; o_conn : list (nat * list cmsg); o_closed : list nat }.

Definition opt_eqb {A} (f : A -> A -> bool) (a b : option A) : bool :=
  match a, b with None, None => true | Some x, Some y => f x y | _, _ => false end.
Fixpoint list_eqb {A B} (f : A -> B -> bool) (a : list A) (b : list B) : bool :=
  match a, b with [], [] => true | x :: a', y :: b' => f x y && list_eqb f a' b' | _, _ => false end.
Definition smsg_eqb (a b : smsg) : bool :=
  match a, b with
  | SLevel x, SLevel y => Z.eqb x y | SRoot x, SRoot y => Nat.eqb x y
  | SSearch x, SSearch y => Bool.eqb x y | SAccept x, SAccept y => Bool.eqb x y | _, _ => false end.
Definition cmsg_eqb (a b : cmsg) : bool :=
  match a, b with
  | CLevel x, CLevel y => Z.eqb x y | CRoot x, CRoot y => Nat.eqb x y
  | CSearch c u t q, CSearch c' u' t' q' => Z.eqb c c' && Nat.eqb u u' && Z.eqb t t' && Nat.eqb q q'
  | _, _ => false end.
Definition peer_eqb (p : peer) (q : nat * nat * option Z * option nat) : bool :=
  let '(c, n, l, r) := q in
  Nat.eqb (pc p) c && Nat.eqb (pname p) n && opt_eqb Z.eqb (plevel p) l && opt_eqb Nat.eqb (proot p) r.
Definition same_set (a b : list nat) : bool := forallb (fun x => memn x b) a && forallb (fun x => memn x a) b.
Definition expected_conn (c : nat) (l : list (nat * list cmsg)) : list cmsg :=
  match find (fun e => Nat.eqb (fst e) c) l with Some e => snd e | None => [] end.

Definition agree_step (K : nat) (s : state) (o : obs) : bool :=
  opt_eqb Nat.eqb (parent s) (o_parent o) && list_eqb Nat.eqb (children s) (o_children o)
  && list_eqb peer_eqb (peers s) (o_peers o) && list_eqb Nat.eqb (cands s) (o_cands o)
  && Bool.eqb (accept s) (o_accept o) && Z.eqb (maxc s) (o_max o) && same_set (conns s) (o_live o)
  && list_eqb smsg_eqb (srv_of (outs s)) (o_srv o)
  && forallb (fun c => list_eqb cmsg_eqb (conn_of c (outs s)) (expected_conn c (o_conn o))) (seq 0 K)
  && same_set (closed_of (outs s)) (o_closed o).

(* index of the first step whose observation differs (length of the run = all agree) *)
Fixpoint first_diff (K : nat) (s : state) (evs : list event) (os : list obs) (i : nat) : nat :=
  match evs, os with
  | e :: evs', o :: os' => let s' := step s e in if agree_step K s' o then first_diff K s' evs' os' (S i) else i
  | _, _ => i
  end.

(* ---------------------------------------------------------------- the tree invariant (property text) *)
(* at most one parent: [parent] is an option.  Parent and children are live distributed
   connections, no connection is a child twice, the parent is not among the children. *)
Definition tree_inv (s : state) : Prop :=
  NoDup (children s) /\
  (forall c, In c (children s) -> live c s = true) /\
  (forall p, parent s = Some p -> live p s = true /\ ~ In p (children s)).

Definition tree_inv_b (s : state) : bool :=
  forallb (fun c => live c s) (children s) &&
  match parent s with Some p => live p s && negb (memn p (children s)) | None => true end.

(* what the server / a child was last told is the position derived from the current parent *)
Definition server_truthful (s : state) : Prop :=
  session s = true -> told_server s = Some (fst (position s), snd (position s), is_none (parent s)).
(* the same while a session exists (nothing can be told without one: the own name is unknown) *)
Definition children_truthful_in_session (s : state) : Prop :=
  session s = true -> forall c, In c (children s) -> live c s = true -> lookup_told c s = Some (position s).
Definition children_truthful (s : state) : Prop :=
  forall c, In c (children s) -> live c s = true -> lookup_told c s = Some (position s).
