(* C13 proofs *)
From Slsk Require Import Base.Tac.
From SlskGen Require Import DistGen.
From Slsk Require Import C13.Model.
Open Scope Z_scope.
Arguments memn : simpl never.
Arguments without : simpl never.

(* ------------------------------------------------------------------ basic list facts *)
Lemma memn_In : forall x l, memn x l = true <-> In x l.
Proof.
  intros x l. unfold memn. rewrite existsb_exists. split.
  - intros (y & Hy & E). apply Nat.eqb_eq in E. subst. exact Hy.
  - intros H. exists x. split; [exact H | apply Nat.eqb_refl].
Qed.

Lemma memn_false : forall x l, memn x l = false <-> ~ In x l.
Proof.
  intros x l. rewrite <- memn_In. destruct (memn x l); split; intro H.
  - discriminate.
  - exfalso. apply H. reflexivity.
  - intro. discriminate.
  - reflexivity.
Qed.

Lemma In_without : forall x c l, In x (without c l) <-> In x l /\ x <> c.
Proof.
  intros x c l. unfold without. rewrite filter_In. rewrite negb_true_iff, Nat.eqb_neq. tauto.
Qed.

Lemma NoDup_filter : forall (A : Type) (f : A -> bool) (l : list A), NoDup l -> NoDup (filter f l).
Proof.
  intros A f l H. induction H; simpl; [constructor|].
  destruct (f x); [constructor|]; auto. rewrite filter_In. tauto.
Qed.

Lemma NoDup_app_single : forall (l : list nat) c, NoDup l -> ~ In c l -> NoDup (l ++ [c]).
Proof.
  intros l c H Hc. induction H; simpl; [constructor; [intros []|constructor]|].
  constructor.
  - intro Hx. apply in_app_or in Hx. destruct Hx as [Hx|[Hx|[]]]; [tauto|]. subst. apply Hc. left; reflexivity.
  - apply IHNoDup. intro. apply Hc. right; assumption.
Qed.

Lemma memn_filter : forall x f l, memn x (filter f l) = true -> memn x l = true /\ f x = true.
Proof. intros x f l M. apply memn_In in M. apply filter_In in M. destruct M as [M F]. split; [apply memn_In; exact M | exact F]. Qed.

Lemma NoDup_without : forall c l, NoDup l -> NoDup (without c l).
Proof. intros. apply NoDup_filter. assumption. Qed.

(* ------------------------------------------------------------------ structure-preserving helpers *)
(* [same_tree s s']: s' differs from s only in told_server / told_child / outs *)
Definition same_tree (s s' : state) : Prop :=
  session s' = session s /\ parent s' = parent s /\ children s' = children s /\ peers s' = peers s /\
  conns s' = conns s /\ cands s' = cands s /\ accept s' = accept s /\ maxc s' = maxc s /\
  held s' = held s /\ pend s' = pend s.

Lemma same_tree_refl : forall s, same_tree s s.
Proof. intros. unfold same_tree. tauto. Qed.

Lemma same_tree_trans : forall a b c, same_tree a b -> same_tree b c -> same_tree a c.
Proof. unfold same_tree. intros a b c H1 H2. intuition congruence. Qed.

Lemma same_tree_emit : forall o s, same_tree s (emit o s).
Proof. intros. unfold same_tree, emit. cbn. tauto. Qed.

Lemma same_tree_tell_server : forall s, same_tree s (tell_server s).
Proof. intros. unfold tell_server. destruct (session s); [|apply same_tree_refl]. unfold same_tree, emit. cbn. tauto. Qed.

Lemma same_tree_tell_child : forall v s c, same_tree s (tell_child v s c).
Proof. intros. unfold tell_child. destruct (live c s); [|apply same_tree_refl]. unfold same_tree, emit. cbn. tauto. Qed.

Lemma same_tree_fold_tell : forall v cs s, same_tree s (fold_left (tell_child v) cs s).
Proof.
  intros v cs. induction cs as [|c cs IH]; intros s; simpl; [apply same_tree_refl|].
  eapply same_tree_trans; [apply same_tree_tell_child | apply IH].
Qed.

Lemma same_tree_tell_children : forall v s, same_tree s (tell_children v s).
Proof. intros. unfold tell_children. apply same_tree_fold_tell. Qed.

Lemma same_tree_notify_children : forall s, same_tree s (notify_children s).
Proof. intros. unfold notify_children. destruct (session s); [apply same_tree_tell_children | apply same_tree_refl]. Qed.

Lemma same_tree_live : forall s s' c, same_tree s s' -> live c s' = live c s.
Proof. unfold same_tree, live. intros s s' c H. destruct H as (_ & _ & _ & _ & E & _). rewrite E. reflexivity. Qed.

Lemma same_tree_position : forall s s', same_tree s s' -> position s' = position s.
Proof.
  unfold same_tree, position, find_peer. intros s s' H. destruct H as (_ & E1 & _ & E2 & _). rewrite E1, E2. reflexivity.
Qed.

Lemma same_tree_is_parent : forall s s' c, same_tree s s' -> is_parent c s' = is_parent c s.
Proof. unfold same_tree, is_parent. intros s s' c H. destruct H as (_ & E1 & _). rewrite E1. reflexivity. Qed.

Lemma advertise_cases : forall s,
  (session s = false /\ advertise s = s) \/
  (session s = true /\ held (tell_server s) = true /\ advertise s = push KSet (tell_server s)) \/
  (session s = true /\ held (tell_server s) = false /\ advertise s = notify_children (tell_server s)).
Proof.
  intros s. unfold advertise. destruct (session s); [|left; tauto]. right.
  destruct (held (tell_server s)); [left|right]; tauto.
Qed.

(* ------------------------------------------------------------------ children never grow except in add_child *)
Definition shrinks (s s' : state) : Prop := incl (children s') (children s).

Lemma shrinks_refl : forall s, shrinks s s.
Proof. intros s x H. exact H. Qed.
Lemma shrinks_trans : forall a b c, shrinks a b -> shrinks b c -> shrinks a c.
Proof. unfold shrinks. intros a b c H1 H2 x H. auto. Qed.
Lemma same_tree_shrinks : forall s s', same_tree s s' -> shrinks s s'.
Proof. unfold same_tree, shrinks. intros s s' H. destruct H as (_ & _ & E & _). rewrite E. apply incl_refl. Qed.

Lemma shrinks_finish_close : forall c s, shrinks s (finish_close c s).
Proof. intros c s x. unfold finish_close. cbn. rewrite In_without. tauto. Qed.
Lemma shrinks_push : forall k s, shrinks s (push k s).
Proof. intros k s x H. exact H. Qed.
Lemma shrinks_set_parent : forall v s, shrinks s (set_parent v s).
Proof. intros v s x H. exact H. Qed.
Lemma shrinks_drop_conn : forall c s, shrinks s (drop_conn c s).
Proof. intros c s x H. exact H. Qed.
Lemma shrinks_emit : forall o s, shrinks s (emit o s).
Proof. intros o s x H. exact H. Qed.
Lemma shrinks_tell_server : forall s, shrinks s (tell_server s).
Proof. intros. apply same_tree_shrinks, same_tree_tell_server. Qed.
Lemma shrinks_tell_children : forall v s, shrinks s (tell_children v s).
Proof. intros. apply same_tree_shrinks, same_tree_tell_children. Qed.
Lemma shrinks_notify_children : forall s, shrinks s (notify_children s).
Proof. intros. apply same_tree_shrinks, same_tree_notify_children. Qed.

(* peel the outermost helper off [shrinks s (f (g (... s)))] *)
Ltac peel := repeat first
  [ apply shrinks_refl
  | eapply shrinks_trans; [| first [ apply shrinks_push | apply shrinks_finish_close | apply shrinks_set_parent
                                   | apply shrinks_drop_conn | apply shrinks_emit | apply shrinks_tell_server
                                   | apply shrinks_tell_children | apply shrinks_notify_children ] ] ].

Lemma shrinks_on_closed : forall c s, shrinks s (on_closed c s).
Proof.
  intros c s. unfold on_closed. destruct (is_parent c s); [|apply shrinks_finish_close].
  destruct (session (set_parent None s)); [|peel].
  destruct (held (tell_server (set_parent None s))); peel.
Qed.

Lemma shrinks_close_peer : forall c s, shrinks s (close_peer c s).
Proof.
  intros c s. unfold close_peer. destruct (live c s); [|apply shrinks_refl].
  eapply shrinks_trans; [|apply shrinks_on_closed]. peel.
Qed.

Lemma shrinks_advertise : forall s, shrinks s (advertise s).
Proof.
  intros s. destruct (advertise_cases s) as [[_ E]|[(_ & _ & E)|(_ & _ & E)]]; rewrite E; peel.
Qed.

Lemma shrinks_do_set_parent : forall c s, shrinks s (do_set_parent c s).
Proof.
  intros c s. unfold do_set_parent. eapply shrinks_trans; [|apply shrinks_advertise]. intros x H; exact H.
Qed.

Lemma shrinks_after_announce : forall c s, shrinks s (after_announce c s).
Proof.
  intros c s. unfold after_announce. destruct (is_parent c s).
  - destruct parent_update_tells_server; [apply shrinks_advertise | apply shrinks_notify_children].
  - destruct (find_peer c s) as [p|]; [|apply shrinks_refl].
    destruct (complete p); [|apply shrinks_refl].
    destruct (take_as_parent _ _); [apply shrinks_do_set_parent | apply shrinks_close_peer].
Qed.

Lemma shrinks_fold_on_closed : forall cs s, shrinks s (fold_left (fun a c => on_closed c a) cs s).
Proof.
  induction cs as [|c cs IH]; intros s; simpl; [apply shrinks_refl|].
  eapply shrinks_trans; [apply shrinks_on_closed | apply IH].
Qed.

Lemma shrinks_reset : forall s, shrinks s (reset s).
Proof.
  intros s. unfold reset.
  match goal with |- shrinks _ (match parent ?s2 with _ => _ end) => set (s2' := s2) end.
  assert (H2 : shrinks s s2').
  { subst s2'. eapply shrinks_trans; [|apply shrinks_fold_on_closed]. intros x H; exact H. }
  destruct (parent s2'); [|exact H2]. eapply shrinks_trans; [exact H2 | apply shrinks_close_peer].
Qed.

Lemma shrinks_run_cont : forall k s, shrinks s (run_cont s k).
Proof. intros [|c] s; simpl; peel. Qed.

Lemma shrinks_fold_run_cont : forall ks s, shrinks s (fold_left run_cont ks s).
Proof.
  induction ks as [|k ks IH]; intros s; simpl; [apply shrinks_refl|].
  eapply shrinks_trans; [apply shrinks_run_cont | apply IH].
Qed.

(* admission: the only step that adds a child is an incoming PeerInit that passes the generated
   check_new_child; holds from ANY state *)
Lemma admission : forall s e c, gained_child s (step s e) c ->
  exists n, e = PeerInit c n false /\ accept s = true /\ Z.of_nat (length (children s)) < maxc s /\ memn n (cands s) = false.
Proof.
  intros s e c [Hin Hnot].
  assert (Hs : forall s', shrinks (set_outs [] s) s' -> In c (children s') -> False).
  { intros s' Hsh Hc. apply Hnot. apply Hsh in Hc. exact Hc. }
  destruct e; simpl in Hin;
    try (exfalso; eapply Hs; [|exact Hin]; first
      [ apply shrinks_refl | apply same_tree_shrinks, same_tree_tell_server
      | eapply shrinks_trans; [|apply shrinks_advertise]; intros x H; exact H
      | destruct session_init_readvertises; [eapply shrinks_trans; [|apply shrinks_advertise]; intros x H; exact H | apply same_tree_shrinks, same_tree_tell_server]
      | apply shrinks_close_peer | apply shrinks_reset
      | unfold on_branch_level; destruct (registered _ _ && live _ _); [eapply shrinks_trans; [|apply shrinks_after_announce]; intros x H; exact H | apply shrinks_refl]
      | unfold release; eapply shrinks_trans; [|apply shrinks_fold_run_cont]; intros x H; exact H
      | intros x H; exact H ]; fail).
  - (* PeerInit *)
    unfold on_peer_init in Hin.
    destruct (registered c0 (set_outs [] s) || live c0 (set_outs [] s) || closing c0 (set_outs [] s)); [exfalso; apply Hnot; exact Hin|].
    destruct requested; [exfalso; apply Hnot; exact Hin|].
    cbn [cands accept children maxc set_told_child set_peers set_conns set_outs] in Hin.
    destruct (check_new_child (memn n (cands s)) (accept s) (Z.of_nat (length (children s))) (maxc s)) eqn:V.
    + exfalso; apply Hnot; exact Hin.
    + exfalso. eapply Hs; [|exact Hin]. eapply shrinks_trans; [|apply shrinks_close_peer]. intros x H; exact H.
    + unfold add_child in Hin. cbn [session children set_children set_told_child set_peers set_conns set_outs] in Hin.
      assert (Hc : In c (children s ++ [c0])).
      { destruct (session s); [unfold emit in Hin; cbn in Hin|]; exact Hin. }
      apply in_app_or in Hc. destruct Hc as [Hc|[Hc|[]]]; [exfalso; apply Hnot; exact Hc|]. subst c0.
      exists n. split; [reflexivity|].
      unfold check_new_child in V.
      destruct (memn n (cands s)); [discriminate|].
      destruct (accept s); cbn in V; [|discriminate].
      destruct (Z.leb (maxc s) (Z.of_nat (length (children s)))) eqn:L; [discriminate|].
      apply Z.leb_gt in L. repeat split; try reflexivity. exact L.
  - (* BranchRoot *)
    exfalso. eapply Hs; [|exact Hin]. unfold on_branch_root.
    destruct (negb (live c0 (set_outs [] s))); [apply shrinks_refl|].
    destruct (find_peer c0 (set_outs [] s)) as [p|]; [|apply shrinks_refl].
    destruct (proot p) as [r0|].
    + destruct (Nat.eqb r0 r); [apply shrinks_refl|]. eapply shrinks_trans; [|apply shrinks_after_announce]. intros x H; exact H.
    + eapply shrinks_trans; [|apply shrinks_after_announce]. intros x H; exact H.
  - (* OwnStats *)
    exfalso. eapply Hs; [|exact Hin]. unfold on_own_stats. destruct (session (set_outs [] s)); [|apply shrinks_refl].
    repeat match goal with |- shrinks _ (if ?b then _ else _) => destruct b end; intros x H; exact H.
Qed.

(* ------------------------------------------------------------------ tree invariant *)
Definition tree_eq (s s' : state) : Prop :=
  parent s' = parent s /\ children s' = children s /\ conns s' = conns s.

Lemma same_tree_tree_eq : forall s s', same_tree s s' -> tree_eq s s'.
Proof. unfold same_tree, tree_eq. intros; tauto. Qed.

Lemma tree_inv_eq : forall s s', tree_eq s s' -> tree_inv s -> tree_inv s'.
Proof.
  unfold tree_eq, tree_inv, live. intros s s' (E1 & E2 & E3) H. rewrite E1, E2, E3. exact H.
Qed.

(* invariant with the connections in D already taken out of the live set *)
Definition tree_exc (D : list conn) (s : state) : Prop :=
  NoDup (children s) /\
  (forall x, In x (children s) -> ~ In x D -> live x s = true) /\
  (forall p, parent s = Some p -> ~ In p (children s) /\ (~ In p D -> live p s = true)).

Lemma tree_exc_eq : forall D s s', tree_eq s s' -> tree_exc D s -> tree_exc D s'.
Proof.
  unfold tree_eq, tree_exc, live. intros D s s' (E1 & E2 & E3) H. rewrite E1, E2, E3. exact H.
Qed.

Lemma tree_exc_nil : forall s, tree_exc [] s <-> tree_inv s.
Proof.
  unfold tree_exc, tree_inv. intros s. split; intros (H1 & H2 & H3); (split; [exact H1|split]).
  - intros c Hc. apply H2; [exact Hc | intros []].
  - intros p Hp. destruct (H3 p Hp) as [A B]. split; [apply B; intros [] | exact A].
  - intros x Hx _. apply H2; exact Hx.
  - intros p Hp. destruct (H3 p Hp) as [A B]. split; [exact B | intros _; exact A].
Qed.

Lemma tree_exc_finish_close : forall D c s, tree_exc D s -> tree_exc D (finish_close c s).
Proof.
  unfold tree_exc, finish_close, live. cbn. intros D c s (H1 & H2 & H3). split; [apply NoDup_without; exact H1|split].
  - intros x Hx. apply In_without in Hx. destruct Hx as [Hx _]. apply H2; exact Hx.
  - intros p Hp. destruct (H3 p Hp) as [A B]. split; [|exact B]. intro Hc. apply In_without in Hc. tauto.
Qed.

(* children of the result that are in D are children that are still to be closed *)
Lemma on_closed_exc : forall D c s, tree_exc D s ->
  tree_exc D (on_closed c s) /\ (forall x, In x (children (on_closed c s)) -> In x (children s) /\ (is_parent c s = false -> x <> c)).
Proof.
  intros D c s H. unfold on_closed. destruct (is_parent c s) eqn:P.
  - assert (H0 : tree_exc D (set_parent None s)).
    { destruct H as (H1 & H2 & H3). split; [exact H1|split; [exact H2|]]. cbn. intros p Hp; discriminate. }
    destruct (session (set_parent None s)).
    + destruct (held (tell_server (set_parent None s))).
      * split.
        -- eapply tree_exc_eq; [|exact H0]. unfold tree_eq, push. cbn.
           destruct (same_tree_tell_server (set_parent None s)) as (_ & E1 & E2 & _ & E3 & _). cbn in *. rewrite E1, E2, E3. tauto.
        -- intros x Hx. split; [|intros; discriminate]. apply shrinks_push in Hx. apply shrinks_tell_server in Hx. exact Hx.
      * split.
        -- apply tree_exc_finish_close. eapply tree_exc_eq; [|exact H0].
           eapply same_tree_tree_eq, same_tree_trans; [apply same_tree_tell_server | apply same_tree_tell_children].
        -- intros x Hx. split; [|intros; discriminate].
           apply shrinks_finish_close in Hx. apply shrinks_tell_children in Hx. apply shrinks_tell_server in Hx. exact Hx.
    + split; [apply tree_exc_finish_close; exact H0|]. intros x Hx. split; [|intros; discriminate].
      apply shrinks_finish_close in Hx. exact Hx.
  - split; [apply tree_exc_finish_close; exact H|]. intros x Hx. unfold finish_close in Hx. cbn in Hx. apply In_without in Hx. tauto.
Qed.

Lemma tree_inv_drop : forall c o s, tree_inv s -> tree_exc [c] (drop_conn c (emit o s)).
Proof.
  unfold tree_inv, tree_exc, drop_conn, emit, live. cbn. intros c o s (H1 & H2 & H3). split; [exact H1|split].
  - intros x Hx Hn. apply memn_In. apply In_without. split; [apply memn_In, H2; exact Hx | intro; apply Hn; left; congruence].
  - intros p Hp. destruct (H3 p Hp) as [A B]. split; [exact B|]. intros Hn. apply memn_In. apply In_without.
    split; [apply memn_In; exact A | intro; apply Hn; left; congruence].
Qed.

Lemma exc_single_done : forall c s, tree_exc [c] s -> ~ In c (children s) -> (forall p, parent s = Some p -> p <> c) -> tree_inv s.
Proof.
  unfold tree_exc, tree_inv. intros c s (H1 & H2 & H3) Hc Hp. split; [exact H1|split].
  - intros x Hx. apply H2; [exact Hx|]. intros [E|[]]. subst. tauto.
  - intros p E. destruct (H3 p E) as [A B]. split; [|exact A]. apply B. intros [E'|[]]. apply (Hp p E). congruence.
Qed.

Lemma parent_on_closed : forall c s p, parent (on_closed c s) = Some p -> parent s = Some p /\ is_parent c s = false.
Proof.
  intros c s p. unfold on_closed. destruct (is_parent c s) eqn:P.
  - cbn [session set_parent]. destruct (session s).
    + destruct (held (tell_server (set_parent None s))).
      * unfold push. cbn. destruct (same_tree_tell_server (set_parent None s)) as (_ & E1 & _). rewrite E1. cbn. discriminate.
      * unfold finish_close. cbn.
        destruct (same_tree_tell_children (unset_children_level, me) (tell_server (set_parent None s))) as (_ & E1 & _).
        destruct (same_tree_tell_server (set_parent None s)) as (_ & E2 & _). rewrite E1, E2. cbn. discriminate.
    + unfold finish_close. cbn. discriminate.
  - unfold finish_close. cbn. tauto.
Qed.

Lemma tree_inv_close_peer : forall c s, tree_inv s -> tree_inv (close_peer c s).
Proof.
  intros c s H. unfold close_peer. destruct (live c s) eqn:L; [|exact H].
  pose proof (tree_inv_drop c [OClose c] s H) as H0.
  destruct (on_closed_exc [c] c _ H0) as [H1 H2].
  apply (exc_single_done c); [exact H1 | |].
  - intro Hc. destruct (H2 c Hc) as [Hin Hne].
    destruct (is_parent c (drop_conn c (emit [OClose c] s))) eqn:P.
    + unfold is_parent in P. cbn in P. destruct (parent s) as [p|] eqn:Ep; [|discriminate]. apply Nat.eqb_eq in P. subst p.
      destruct H as (_ & _ & H3). destruct (H3 c Ep) as [_ B]. apply B. exact Hin.
    + apply Hne; reflexivity.
  - intros p Ep E. subst p. apply parent_on_closed in Ep. destruct Ep as [Ep P]. unfold is_parent in P. rewrite Ep in P.
    rewrite Nat.eqb_refl in P. discriminate.
Qed.

Lemma tree_eq_advertise : forall s, tree_eq s (advertise s).
Proof.
  intros s. destruct (advertise_cases s) as [[_ E]|[(_ & _ & E)|(_ & _ & E)]]; rewrite E.
  - unfold tree_eq; tauto.
  - unfold tree_eq, push. cbn. destruct (same_tree_tell_server s) as (_ & E1 & E2 & _ & E3 & _). tauto.
  - apply same_tree_tree_eq. eapply same_tree_trans; [apply same_tree_tell_server | apply same_tree_notify_children].
Qed.

Lemma tree_inv_do_set_parent : forall c s, tree_inv s -> live c s = true -> ~ In c (children s) -> tree_inv (do_set_parent c s).
Proof.
  intros c s (H1 & H2 & H3) L Hc. unfold do_set_parent.
  eapply tree_inv_eq; [apply tree_eq_advertise|].
  unfold tree_inv, live, emit, keepers. cbn. split; [exact H1|split].
  - intros x Hx. apply memn_In. apply filter_In. split; [apply memn_In, H2; exact Hx|]. apply memn_In. right; exact Hx.
  - intros p Ep. inversion Ep; subst p. split; [|exact Hc]. apply memn_In. apply filter_In. split; [apply memn_In; exact L|].
    apply memn_In. left; reflexivity.
Qed.

Lemma tree_inv_upd_peer : forall c f s, tree_inv s -> tree_inv (upd_peer c f s).
Proof. intros. eapply tree_inv_eq; [|eassumption]. unfold tree_eq, upd_peer. cbn. tauto. Qed.

Lemma live_upd_peer : forall c f x s, live x (upd_peer c f s) = live x s.
Proof. reflexivity. Qed.

(* generated condition of _check_if_new_parent: a connection that is a child is never taken as parent *)
Lemma take_as_parent_not_child : forall hp ic, take_as_parent hp ic = true -> ic = false.
Proof. intros hp ic. unfold take_as_parent. destruct hp, ic; cbn; congruence. Qed.

Lemma tree_inv_after_announce : forall c s, tree_inv s -> live c s = true -> tree_inv (after_announce c s).
Proof.
  intros c s H L. unfold after_announce. destruct (is_parent c s).
  - destruct parent_update_tells_server.
    + eapply tree_inv_eq; [apply tree_eq_advertise | exact H].
    + eapply tree_inv_eq; [apply same_tree_tree_eq, same_tree_notify_children | exact H].
  - destruct (find_peer c s) as [p|]; [|exact H]. destruct (complete p); [|exact H].
    destruct (take_as_parent _ _) eqn:T; [|apply tree_inv_close_peer; exact H].
    apply take_as_parent_not_child in T. apply memn_false in T. apply tree_inv_do_set_parent; assumption.
Qed.

Lemma tree_inv_run_cont : forall k s, tree_inv s -> tree_inv (run_cont s k).
Proof.
  intros [|c] s H; simpl.
  - eapply tree_inv_eq; [apply same_tree_tree_eq, same_tree_notify_children | exact H].
  - apply tree_exc_nil. apply tree_exc_finish_close. apply tree_exc_nil.
    eapply tree_inv_eq; [apply same_tree_tree_eq, same_tree_tell_children | exact H].
Qed.

Lemma tree_inv_fold_run_cont : forall ks s, tree_inv s -> tree_inv (fold_left run_cont ks s).
Proof. induction ks as [|k ks IH]; intros s H; simpl; [exact H|]. apply IH, tree_inv_run_cont, H. Qed.

(* reset: fold of on_closed over the (live) children, which were all taken out of the live set *)
Lemma fold_on_closed_exc : forall D cs s, tree_exc D s -> (forall p, parent s = Some p -> ~ In p cs) ->
  let s' := fold_left (fun a c => on_closed c a) cs s in
  tree_exc D s' /\ (forall x, In x (children s') -> In x (children s) /\ ~ In x cs) /\
  (forall p, parent s' = Some p -> parent s = Some p).
Proof.
  intros D cs. induction cs as [|c cs IH]; intros s H Hp; simpl.
  - split; [exact H|]. split; [intros x Hx; split; [exact Hx | intros []] | intros p E; exact E].
  - destruct (on_closed_exc D c s H) as [H1 H2].
    assert (P : is_parent c s = false).
    { unfold is_parent. destruct (parent s) as [p|] eqn:E; [|reflexivity]. apply Nat.eqb_neq. intro; subst. apply (Hp c eq_refl). left; reflexivity. }
    assert (Hp' : forall p, parent (on_closed c s) = Some p -> ~ In p cs).
    { intros p E. apply parent_on_closed in E. destruct E as [E _]. intro Hin. apply (Hp p E). right; exact Hin. }
    destruct (IH (on_closed c s) H1 Hp') as (A & B & C). split; [exact A|]. split.
    + intros x Hx. destruct (B x Hx) as [Hx1 Hx2]. destruct (H2 x Hx1) as [Hx3 Hx4]. split; [exact Hx3|].
      intros [E|Hin]; [apply (Hx4 P); congruence | tauto].
    + intros p E. apply C in E. apply parent_on_closed in E. tauto.
Qed.

Lemma tree_inv_reset : forall s, tree_inv s -> tree_inv (reset s).
Proof.
  intros s H. unfold reset.
  set (cs := filter (fun c => live c s) (children s)).
  set (s1 := emit (map OClose cs) (set_conns (filter (fun x => negb (memn x cs)) (conns s)) s)).
  assert (Ecs : forall x, In x cs <-> In x (children s)).
  { intros x. subst cs. rewrite filter_In. destruct H as (_ & H2 & _). split; [tauto|]. intros Hx. split; [exact Hx | apply H2; exact Hx]. }
  assert (H1 : tree_exc cs s1).
  { destruct H as (A & B & C). subst s1. unfold tree_exc, emit, live. cbn. split; [exact A|split].
    - intros x Hx Hn. exfalso. apply Hn. apply Ecs. exact Hx.
    - intros p Ep. destruct (C p Ep) as [L N]. split; [exact N|]. intros Hn. apply memn_In. apply filter_In.
      split; [apply memn_In; exact L|]. apply negb_true_iff. apply memn_false. exact Hn. }
  assert (Hp : forall p, parent s1 = Some p -> ~ In p cs).
  { intros p Ep. subst s1. cbn in Ep. destruct H as (_ & _ & C). destruct (C p Ep) as [_ N]. intro Hin. apply N. apply Ecs. exact Hin. }
  destruct (fold_on_closed_exc cs cs s1 H1 Hp) as (A & B & C).
  set (s2 := fold_left (fun a c => on_closed c a) cs s1) in *.
  assert (T2 : tree_inv s2).
  { destruct A as (A1 & A2 & A3). split; [exact A1|split].
    - intros x Hx. apply A2; [exact Hx|]. destruct (B x Hx) as [_ N]. exact N.
    - intros p Ep. destruct (A3 p Ep) as [N L]. split; [|exact N]. apply L. apply Hp. apply C. exact Ep. }
  destruct (parent s2); [apply tree_inv_close_peer; exact T2 | exact T2].
Qed.

Lemma tree_inv_step : forall s e, tree_inv s -> tree_inv (step s e).
Proof.
  intros s0 e H0.
  assert (H : tree_inv (set_outs [] s0)) by (eapply tree_inv_eq; [|exact H0]; unfold tree_eq; cbn; tauto).
  assert (Hch : children (set_outs [] s0) = children s0) by reflexivity.
  unfold step. set (s := set_outs [] s0) in *. destruct e.
  - assert (H' : tree_inv (set_session true s)) by (eapply tree_inv_eq; [|exact H]; unfold tree_eq; cbn; tauto).
    cbv zeta. destruct session_init_readvertises; [eapply tree_inv_eq; [apply tree_eq_advertise | exact H']|].
    eapply tree_inv_eq; [apply same_tree_tree_eq, same_tree_tell_server | exact H'].
  - eapply tree_inv_eq; [|exact H]. unfold tree_eq; cbn; tauto.
  - eapply tree_inv_eq; [|exact H]. unfold tree_eq; cbn; tauto.
  - eapply tree_inv_eq; [|exact H]. unfold tree_eq; cbn; tauto.
  - (* PeerInit *)
    unfold on_peer_init. destruct (registered c s || live c s || closing c s) eqn:G; [exact H|].
    apply orb_false_iff in G. destruct G as [G _]. apply orb_false_iff in G. destruct G as [_ L].
    match goal with |- tree_inv (if requested then ?s1 else _) => set (s1' := s1) end.
    assert (T1 : tree_inv s1').
    { destruct H as (A & B & C). subst s1'. unfold tree_inv, live. cbn. split; [exact A|split].
      - intros x Hx. apply memn_In. apply in_or_app. left. apply memn_In. apply B; exact Hx.
      - intros p Ep. destruct (C p Ep) as [Lp N]. split; [|exact N]. apply memn_In. apply in_or_app. left. apply memn_In; exact Lp. }
    destruct requested; [exact T1|].
    destruct (check_new_child _ _ _ _); [exact T1 | apply tree_inv_close_peer; exact T1|].
    unfold add_child.
    assert (Tc : tree_inv (set_children (children s1' ++ [c]) s1')).
    { destruct H as (A & B & C). subst s1'. unfold tree_inv, live. cbn. split; [|split].
      - apply NoDup_app_single; [exact A|]. intro Hc. apply B in Hc. unfold live in *. congruence.
      - intros x Hx. apply memn_In. apply in_app_or in Hx. destruct Hx as [Hx|[Hx|[]]].
        + apply in_or_app. left. apply memn_In. apply B; exact Hx.
        + subst. apply in_or_app. right. left; reflexivity.
      - intros p Ep. destruct (C p Ep) as [Lp N]. split.
        + apply memn_In. apply in_or_app. left. apply memn_In; exact Lp.
        + intro Hx. apply in_app_or in Hx. destruct Hx as [Hx|[Hx|[]]]; [tauto|]. subst. unfold live in *. congruence. }
    destruct (session (set_children (children s1' ++ [c]) s1')); [|exact Tc].
    eapply tree_inv_eq; [|exact Tc]. unfold tree_eq, emit. cbn. tauto.
  - (* BranchLevel *)
    unfold on_branch_level. destruct (registered c s && live c s) eqn:G; [|exact H].
    apply andb_true_iff in G. destruct G as [_ L].
    apply tree_inv_after_announce; [apply tree_inv_upd_peer; exact H | exact L].
  - (* BranchRoot *)
    unfold on_branch_root. destruct (live c s) eqn:L; simpl; [|exact H].
    destruct (find_peer c s) as [p|]; [|exact H].
    destruct (proot p) as [r0|].
    + destruct (Nat.eqb r0 r); [exact H|]. apply tree_inv_after_announce; [apply tree_inv_upd_peer; exact H | exact L].
    + apply tree_inv_after_announce; [apply tree_inv_upd_peer; exact H | exact L].
  - apply tree_inv_close_peer; exact H.
  - eapply tree_inv_eq; [|exact H]. unfold tree_eq; cbn; tauto.
  - eapply tree_inv_eq; [|exact H]. unfold tree_eq; cbn; tauto.
  - unfold on_own_stats. destruct (session s); [|exact H].
    repeat match goal with |- tree_inv (if ?b then _ else _) => destruct b end;
      (eapply tree_inv_eq; [|exact H]; unfold tree_eq, emit; cbn; tauto).
  - apply tree_inv_reset; exact H.
  - eapply tree_inv_eq; [|exact H]. unfold tree_eq; cbn; tauto.
  - unfold release. apply tree_inv_fold_run_cont. eapply tree_inv_eq; [|exact H]. unfold tree_eq; cbn; tauto.
Qed.

Lemma tree_inv_init : tree_inv init.
Proof. unfold tree_inv, init. cbn. split; [constructor|split]; [intros c []|intros p; discriminate]. Qed.

Lemma tree_inv_run : forall evs s, tree_inv s -> tree_inv (run s evs).
Proof. induction evs as [|e evs IH]; intros s H; simpl; [exact H|]. apply IH, tree_inv_step, H. Qed.

(* the history that made a child the parent before F10 was repaired: the child is disconnected *)
Definition f10_witness : list event := [SessionInit; PeerInit 1%nat 1%nat false; BranchLevel 1%nat 2; BranchRoot 1%nat 5%nat].

(* ------------------------------------------------------------------ base invariant (unconditional) *)
(* the parent is live; a connection whose close handler is suspended is not live.
   [base_exc D]: the same with the connections in D already taken out of the live set *)
Definition base_exc (D : list conn) (s : state) : Prop :=
  (forall p, parent s = Some p -> ~ In p D -> live p s = true) /\
  (forall c, closing c s = true -> live c s = false) /\
  (forall d, In d D -> live d s = false).
Definition base (s : state) : Prop := base_exc [] s.

Definition base_eq (s s' : state) : Prop := parent s' = parent s /\ conns s' = conns s /\ pend s' = pend s.

Lemma same_tree_base_eq : forall s s', same_tree s s' -> base_eq s s'.
Proof. unfold same_tree, base_eq. intros; tauto. Qed.

Lemma base_exc_eq : forall D s s', base_eq s s' -> base_exc D s -> base_exc D s'.
Proof. unfold base_eq, base_exc, live, closing. intros D s s' (E1 & E2 & E3) H. rewrite E1, E2, E3. exact H. Qed.

Lemma base_eq_finish_close : forall c s, base_eq s (finish_close c s).
Proof. intros. unfold base_eq, finish_close. cbn. tauto. Qed.

Lemma closing_push_set : forall c s, closing c (push KSet s) = closing c s.
Proof. intros. unfold closing, push. cbn. rewrite existsb_app. cbn. rewrite orb_false_r. reflexivity. Qed.

Lemma closing_push_unset : forall c x s, closing c (push (KUnset x) s) = closing c s || Nat.eqb c x.
Proof. intros. unfold closing, push. cbn. rewrite existsb_app. cbn. rewrite orb_false_r. reflexivity. Qed.

Lemma base_on_closed : forall D c s, base_exc D s -> In c D -> base_exc D (on_closed c s).
Proof.
  intros D c s H Hc. unfold on_closed. destruct (is_parent c s) eqn:P.
  - assert (H0 : base_exc D (set_parent None s)).
    { destruct H as (H1 & H2 & H3). split; [cbn; intros p E; discriminate|]. split; [exact H2|exact H3]. }
    destruct (session (set_parent None s)).
    + assert (H1 : base_exc D (tell_server (set_parent None s))).
      { eapply base_exc_eq; [apply same_tree_base_eq, same_tree_tell_server | exact H0]. }
      destruct (held (tell_server (set_parent None s))).
      * destruct H1 as (A & B & C). split; [exact A|]. split; [|exact C].
        intros x Hx. rewrite closing_push_unset in Hx. apply orb_true_iff in Hx. destruct Hx as [Hx|Hx].
        -- apply B; exact Hx.
        -- apply Nat.eqb_eq in Hx. subst x. apply C; exact Hc.
      * eapply base_exc_eq; [apply base_eq_finish_close|].
        eapply base_exc_eq; [apply same_tree_base_eq, same_tree_tell_children | exact H1].
    + eapply base_exc_eq; [apply base_eq_finish_close | exact H0].
  - eapply base_exc_eq; [apply base_eq_finish_close | exact H].
Qed.

Lemma parent_on_closed_ne : forall c s p, parent (on_closed c s) = Some p -> p <> c.
Proof.
  intros c s p E. apply parent_on_closed in E. destruct E as [E P]. unfold is_parent in P. rewrite E in P.
  apply Nat.eqb_neq in P. exact P.
Qed.

Lemma live_without : forall x c l, memn x (without c l) = true <-> memn x l = true /\ x <> c.
Proof. intros. rewrite !memn_In. apply In_without. Qed.

Lemma base_close_peer : forall c s, base s -> base (close_peer c s).
Proof.
  intros c s H. unfold close_peer. destruct (live c s) eqn:L; [|exact H].
  assert (H0 : base_exc [c] (drop_conn c (emit [OClose c] s))).
  { destruct H as (A & B & _). unfold base_exc, drop_conn, emit, live, closing in *. cbn. split; [|split].
    - intros p E N. apply live_without. split; [apply A; [exact E | intros []]|]. intro; apply N; left; congruence.
    - intros x Hx. specialize (B x Hx). destruct (memn x (without c (conns s))) eqn:M; [|reflexivity].
      apply live_without in M. destruct M; congruence.
    - intros d [E|[]]. subst d. destruct (memn c (without c (conns s))) eqn:M; [|reflexivity].
      apply live_without in M. destruct M; congruence. }
  pose proof (base_on_closed [c] c _ H0 (or_introl eq_refl)) as (A & B & C).
  split; [|split; [exact B | intros d []]].
  intros p E _. apply A; [exact E|]. intros [E'|[]]. apply parent_on_closed_ne in E. congruence.
Qed.

Lemma base_advertise : forall s, base s -> base (advertise s).
Proof.
  intros s H. destruct (advertise_cases s) as [[_ E]|[(_ & _ & E)|(_ & _ & E)]]; rewrite E; [exact H| |].
  - assert (H3 : base (tell_server s)) by (eapply base_exc_eq; [apply same_tree_base_eq, same_tree_tell_server | exact H]).
    destruct H3 as (A' & B' & C'). split; [exact A'|split; [|exact C']]. intros x Hx. rewrite closing_push_set in Hx. apply B'; exact Hx.
  - eapply base_exc_eq; [apply same_tree_base_eq; eapply same_tree_trans; [apply same_tree_tell_server | apply same_tree_notify_children] | exact H].
Qed.

Lemma base_do_set_parent : forall c s, base s -> live c s = true -> base (do_set_parent c s).
Proof.
  intros c s (A & B & _) L. unfold do_set_parent. apply base_advertise.
  unfold base, base_exc, live, closing, emit, keepers. cbn. split; [|split; [|intros d []]].
  - intros p E _. inversion E; subst p. apply memn_In. apply filter_In. split; [apply memn_In; exact L|]. apply memn_In. left; reflexivity.
  - intros x Hx. specialize (B x Hx). unfold live in B. apply not_true_is_false. intro M.
    apply memn_filter in M. destruct M as [M _]. congruence.
Qed.

Lemma base_after_announce : forall c s, base s -> live c s = true -> base (after_announce c s).
Proof.
  intros c s H L. unfold after_announce. destruct (is_parent c s).
  - destruct parent_update_tells_server; [apply base_advertise; exact H|].
    eapply base_exc_eq; [apply same_tree_base_eq, same_tree_notify_children | exact H].
  - destruct (find_peer c s) as [p|]; [|exact H]. destruct (complete p); [|exact H].
    destruct (take_as_parent _ _); [apply base_do_set_parent; assumption | apply base_close_peer; exact H].
Qed.

Lemma base_run_cont : forall k s, base s -> base (run_cont s k).
Proof.
  intros [|c] s H; simpl.
  - eapply base_exc_eq; [apply same_tree_base_eq, same_tree_notify_children | exact H].
  - eapply base_exc_eq; [apply base_eq_finish_close|].
    eapply base_exc_eq; [apply same_tree_base_eq, same_tree_tell_children | exact H].
Qed.

Lemma fold_on_closed_base : forall D cs s, base_exc D s -> incl cs D ->
  let s' := fold_left (fun a c => on_closed c a) cs s in
  base_exc D s' /\ (forall p, parent s' = Some p -> parent s = Some p /\ ~ In p cs).
Proof.
  intros D cs. induction cs as [|c cs IH]; intros s H Hi; simpl.
  - split; [exact H|]. intros p E. split; [exact E | intros []].
  - assert (Hc : In c D) by (apply Hi; left; reflexivity).
    assert (Hi' : incl cs D) by (intros x Hx; apply Hi; right; exact Hx).
    destruct (IH (on_closed c s) (base_on_closed D c s H Hc) Hi') as [A B]. split; [exact A|].
    intros p E. destruct (B p E) as [E1 N]. split; [apply parent_on_closed in E1; tauto|].
    intros [E'|Hin]; [|tauto]. apply parent_on_closed_ne in E1. congruence.
Qed.

Lemma base_reset : forall s, base s -> base (reset s).
Proof.
  intros s H. unfold reset.
  set (cs := filter (fun c => live c s) (children s)).
  set (s1 := emit (map OClose cs) (set_conns (filter (fun x => negb (memn x cs)) (conns s)) s)).
  assert (H1 : base_exc cs s1).
  { destruct H as (A & B & _). subst s1. unfold base_exc, emit, live, closing in *. cbn. split; [|split].
    - intros p E N. apply memn_In. apply filter_In. split; [apply memn_In, A; [exact E|intros []]|].
      apply negb_true_iff, memn_false. exact N.
    - intros x Hx. specialize (B x Hx). apply not_true_is_false. intro M.
      apply memn_filter in M. destruct M as [M _]. congruence.
    - intros d Hd. apply not_true_is_false. intro M.
      apply memn_filter in M. destruct M as [_ M]. apply negb_true_iff, memn_false in M. tauto. }
  destruct (fold_on_closed_base cs cs s1 H1 (incl_refl _)) as [A B].
  set (s2 := fold_left (fun a c => on_closed c a) cs s1) in *.
  assert (H2 : base s2).
  { destruct A as (A1 & A2 & A3). split; [|split; [exact A2 | intros d []]].
    intros p E _. apply A1; [exact E|]. destruct (B p E) as [_ N]. exact N. }
  destruct (parent s2); [apply base_close_peer; exact H2 | exact H2].
Qed.

Lemma base_fold_run_cont : forall ks s, base s -> base (fold_left run_cont ks s).
Proof. induction ks as [|k ks IH]; intros s H; simpl; [exact H|]. apply IH, base_run_cont, H. Qed.

Lemma base_step : forall s e, base s -> base (step s e).
Proof.
  intros s0 e H0.
  assert (H : base (set_outs [] s0)) by (eapply base_exc_eq; [|exact H0]; unfold base_eq; cbn; tauto).
  unfold step. set (s := set_outs [] s0) in *. destruct e.
  - assert (H' : base (set_session true s)) by (eapply base_exc_eq; [|exact H]; unfold base_eq; cbn; tauto).
    cbv zeta. destruct session_init_readvertises; [apply base_advertise; exact H'|].
    eapply base_exc_eq; [apply same_tree_base_eq, same_tree_tell_server | exact H'].
  - eapply base_exc_eq; [|exact H]; unfold base_eq; cbn; tauto.
  - eapply base_exc_eq; [|exact H]; unfold base_eq; cbn; tauto.
  - eapply base_exc_eq; [|exact H]; unfold base_eq; cbn; tauto.
  - unfold on_peer_init. destruct (registered c s || live c s || closing c s) eqn:G; [exact H|].
    apply orb_false_iff in G. destruct G as [G Cl].
    match goal with |- base (if requested then ?s1 else _) => set (s1' := s1) end.
    assert (T1 : base s1').
    { destruct H as (A & B & _). subst s1'. unfold base, base_exc, live, closing in *. cbn. split; [|split; [|intros d []]].
      - intros p E _. apply memn_In. apply in_or_app. left. apply memn_In. apply A; [exact E|intros []].
      - intros x Hx. specialize (B x Hx). apply not_true_is_false. intro M.
        apply memn_In in M. apply in_app_or in M. destruct M as [M|[M|[]]].
        + apply (proj2 (memn_In _ _)) in M. exact (eq_true_false_abs _ M B).
        + subst x. exact (eq_true_false_abs _ Hx Cl). }
    destruct requested; [exact T1|].
    destruct (check_new_child _ _ _ _); [exact T1 | apply base_close_peer; exact T1|].
    unfold add_child.
    assert (Tc : base (set_children (children s1' ++ [c]) s1')) by (eapply base_exc_eq; [|exact T1]; unfold base_eq; cbn; tauto).
    destruct (session (set_children (children s1' ++ [c]) s1')); [|exact Tc].
    eapply base_exc_eq; [|exact Tc]. unfold base_eq, emit. cbn. tauto.
  - unfold on_branch_level. destruct (registered c s && live c s) eqn:G; [|exact H].
    apply andb_true_iff in G. destruct G as [_ L].
    apply base_after_announce; [|exact L]. eapply base_exc_eq; [|exact H]. unfold base_eq, upd_peer; cbn; tauto.
  - unfold on_branch_root. destruct (live c s) eqn:L; simpl; [|exact H].
    destruct (find_peer c s) as [p|]; [|exact H].
    assert (U : forall f, base (upd_peer c f s)) by (intros f; eapply base_exc_eq; [|exact H]; unfold base_eq, upd_peer; cbn; tauto).
    destruct (proot p) as [r0|]; [destruct (Nat.eqb r0 r); [exact H|]|]; apply base_after_announce; auto.
  - apply base_close_peer; exact H.
  - eapply base_exc_eq; [|exact H]; unfold base_eq; cbn; tauto.
  - eapply base_exc_eq; [|exact H]; unfold base_eq; cbn; tauto.
  - unfold on_own_stats. destruct (session s); [|exact H].
    repeat match goal with |- base (if ?b then _ else _) => destruct b end;
      (eapply base_exc_eq; [|exact H]; unfold base_eq, emit; cbn; tauto).
  - apply base_reset; exact H.
  - eapply base_exc_eq; [|exact H]; unfold base_eq; cbn; tauto.
  - unfold release. apply base_fold_run_cont.
    destruct H as (A & B & _). unfold base, base_exc, live, closing in *. cbn. split; [exact A|split; [intros c; discriminate | intros d []]].
Qed.

Lemma base_init : base init.
Proof. unfold base, base_exc, init, closing, live. cbn. split; [intros p; discriminate|split; [intros c; discriminate|intros d []]]. Qed.

Lemma base_run : forall evs s, base s -> base (run s evs).
Proof. induction evs as [|e evs IH]; intros s H; simpl; [exact H|]. apply IH, base_step, H. Qed.

(* the parent is always a live connection (no side condition) *)
Lemma parent_live : forall evs p, parent (run init evs) = Some p -> live p (run init evs) = true.
Proof. intros evs p E. destruct (base_run evs init base_init) as (A & _). apply A; [exact E|intros []]. Qed.

(* ------------------------------------------------------------------ what the server was told *)
Lemma find_filter_other : forall p c l, p <> c ->
  find (fun q => Nat.eqb (pc q) p) (filter (fun q => negb (Nat.eqb (pc q) c)) l) = find (fun q => Nat.eqb (pc q) p) l.
Proof.
  intros p c l N. induction l as [|q l IH]; simpl; [reflexivity|].
  destruct (Nat.eqb (pc q) c) eqn:E; simpl.
  - apply Nat.eqb_eq in E. destruct (Nat.eqb (pc q) p) eqn:E2; [apply Nat.eqb_eq in E2; congruence | exact IH].
  - rewrite IH. reflexivity.
Qed.

Lemma find_map_other : forall p c f l, p <> c -> (forall q, pc (f q) = pc q) ->
  find (fun q => Nat.eqb (pc q) p) (map (fun q => if Nat.eqb (pc q) c then f q else q) l) = find (fun q => Nat.eqb (pc q) p) l.
Proof.
  intros p c f l N F. induction l as [|q l IH]; simpl; [reflexivity|].
  destruct (Nat.eqb (pc q) c) eqn:E.
  - rewrite F. apply Nat.eqb_eq in E. destruct (Nat.eqb (pc q) p) eqn:E2; [apply Nat.eqb_eq in E2; congruence | exact IH].
  - rewrite IH. reflexivity.
Qed.

Lemma find_app_other : forall p (l : list peer) q, pc q <> p ->
  find (fun q => Nat.eqb (pc q) p) (l ++ [q]) = find (fun q => Nat.eqb (pc q) p) l.
Proof.
  intros p l q N. induction l as [|x l IH]; simpl.
  - apply Nat.eqb_neq in N. rewrite N. reflexivity.
  - rewrite IH. reflexivity.
Qed.

Lemma find_filter_keep : forall p (g : peer -> bool) l, (forall q, pc q = p -> g q = true) ->
  find (fun q => Nat.eqb (pc q) p) (filter g l) = find (fun q => Nat.eqb (pc q) p) l.
Proof.
  intros p g l G. induction l as [|q l IH]; simpl; [reflexivity|].
  destruct (Nat.eqb (pc q) p) eqn:E.
  - apply Nat.eqb_eq in E. rewrite (G q E). simpl. apply Nat.eqb_eq in E. rewrite E. reflexivity.
  - destruct (g q); simpl; [rewrite E|]; exact IH.
Qed.

Lemma position_eq : forall s s', parent s' = parent s ->
  (forall p, parent s = Some p -> find_peer p s' = find_peer p s) -> position s' = position s.
Proof.
  intros s s' E F. unfold position. rewrite E. destruct (parent s) as [p|]; [|reflexivity]. rewrite (F p eq_refl). reflexivity.
Qed.

(* [kfr s s']: nothing the server-truth statement looks at has changed *)
Definition kfr (s s' : state) : Prop :=
  session s' = session s /\ parent s' = parent s /\ told_server s' = told_server s /\ position s' = position s.

Lemma kfr_refl : forall s, kfr s s.
Proof. unfold kfr; tauto. Qed.
Lemma kfr_trans : forall a b c, kfr a b -> kfr b c -> kfr a c.
Proof. unfold kfr. intros a b c H1 H2. intuition congruence. Qed.
Lemma kfr_K : forall s s', kfr s s' -> server_truthful s -> server_truthful s'.
Proof. unfold kfr, server_truthful. intros s s' (E1 & E2 & E3 & E4) H. rewrite E1, E2, E3, E4. exact H. Qed.

Lemma told_server_fold_tell : forall v cs s, told_server (fold_left (tell_child v) cs s) = told_server s.
Proof.
  intros v cs. induction cs as [|c cs IH]; intros s; simpl; [reflexivity|]. rewrite IH.
  unfold tell_child. destruct (live c s); reflexivity.
Qed.

Lemma kfr_tell_children : forall v s, kfr s (tell_children v s).
Proof.
  intros v s. pose proof (same_tree_tell_children v s) as T. unfold kfr.
  rewrite (same_tree_position _ _ T). destruct T as (E1 & E2 & _). unfold tell_children. rewrite told_server_fold_tell. tauto.
Qed.

Lemma kfr_notify_children : forall s, kfr s (notify_children s).
Proof. intros. unfold notify_children. destruct (session s); [apply kfr_tell_children | apply kfr_refl]. Qed.

Lemma parent_search_flag_spec : forall b, parent_search_flag (negb b) = b.
Proof. intros []; reflexivity. Qed.

Lemma K_tell_server : forall s, server_truthful (tell_server s).
Proof.
  intros s. unfold server_truthful. pose proof (same_tree_tell_server s) as T.
  rewrite (same_tree_position _ _ T). destruct T as (E1 & E2 & _). rewrite E1, E2.
  unfold tell_server. intros Hs. rewrite Hs. cbn. rewrite parent_search_flag_spec. reflexivity.
Qed.

Lemma kfr_finish_close : forall c s, is_parent c s = false -> kfr s (finish_close c s).
Proof.
  intros c s P. unfold kfr. split; [reflexivity|split; [reflexivity|split; [reflexivity|]]].
  apply position_eq; [reflexivity|]. intros p E. unfold find_peer, finish_close. cbn.
  apply find_filter_other. unfold is_parent in P. rewrite E in P. apply Nat.eqb_neq in P. exact P.
Qed.

Lemma kfr_fields : forall s s', session s' = session s -> parent s' = parent s -> told_server s' = told_server s ->
  peers s' = peers s -> kfr s s'.
Proof.
  intros s s' E1 E2 E3 E4. unfold kfr. repeat split; try assumption. unfold position, find_peer. rewrite E2, E4. reflexivity.
Qed.

Lemma K_on_closed : forall c s, server_truthful s -> server_truthful (on_closed c s).
Proof.
  intros c s H. unfold on_closed. destruct (is_parent c s) eqn:P.
  - destruct (session (set_parent None s)) eqn:Hs.
    + destruct (held (tell_server (set_parent None s))).
      * eapply kfr_K; [|apply K_tell_server]. apply kfr_fields; reflexivity.
      * eapply kfr_K; [|apply K_tell_server]. eapply kfr_trans; [apply kfr_tell_children|].
        apply kfr_finish_close. unfold is_parent.
        destruct (same_tree_tell_children (unset_children_level, me) (tell_server (set_parent None s))) as (_ & E1 & _).
        destruct (same_tree_tell_server (set_parent None s)) as (_ & E2 & _). rewrite E1, E2. reflexivity.
    + unfold server_truthful. cbn [session finish_close set_peers set_children] in *. rewrite Hs. discriminate.
  - eapply kfr_K; [apply kfr_finish_close; exact P | exact H].
Qed.

Lemma K_close_peer : forall c s, server_truthful s -> server_truthful (close_peer c s).
Proof.
  intros c s H. unfold close_peer. destruct (live c s); [|exact H]. apply K_on_closed.
  eapply kfr_K; [|exact H]. apply kfr_fields; reflexivity.
Qed.

Lemma K_advertise : forall s, session s = true -> server_truthful (advertise s).
Proof.
  intros s Hs. destruct (advertise_cases s) as [[E _]|[(_ & _ & E)|(_ & _ & E)]]; [congruence| |]; rewrite E.
  - eapply kfr_K; [|apply K_tell_server]. apply kfr_fields; reflexivity.
  - eapply kfr_K; [apply kfr_notify_children | apply K_tell_server].
Qed.

Lemma K_advertise_any : forall s, server_truthful (advertise s).
Proof.
  intros s. destruct (session s) eqn:Hs; [apply K_advertise; exact Hs|].
  unfold advertise. rewrite Hs. unfold server_truthful. rewrite Hs. discriminate.
Qed.

Lemma K_do_set_parent : forall c s, server_truthful (do_set_parent c s).
Proof. intros c s. unfold do_set_parent. apply K_advertise_any. Qed.

(* an update from the parent is advertised to the server as well (generated flag) *)
Lemma parent_update_flag : parent_update_tells_server = true.
Proof. reflexivity. Qed.

Lemma K_after_announce : forall c s, (is_parent c s = false -> server_truthful s) -> server_truthful (after_announce c s).
Proof.
  intros c s H. unfold after_announce. rewrite parent_update_flag. destruct (is_parent c s); [apply K_advertise_any|].
  specialize (H eq_refl).
  destruct (find_peer c s) as [p|]; [|exact H]. destruct (complete p); [|exact H].
  destruct (take_as_parent _ _); [apply K_do_set_parent | apply K_close_peer; exact H].
Qed.

Lemma kfr_upd_peer : forall c f s, is_parent c s = false -> (forall q, pc (f q) = pc q) -> kfr s (upd_peer c f s).
Proof.
  intros c f s P F. unfold kfr. split; [reflexivity|split; [reflexivity|split; [reflexivity|]]].
  apply position_eq; [reflexivity|]. intros p E. unfold find_peer, upd_peer. cbn.
  apply find_map_other; [|exact F]. unfold is_parent in P. rewrite E in P. apply Nat.eqb_neq in P. exact P.
Qed.

Lemma K_fold_on_closed : forall cs s, server_truthful s -> server_truthful (fold_left (fun a c => on_closed c a) cs s).
Proof. induction cs as [|c cs IH]; intros s H; simpl; [exact H|]. apply IH, K_on_closed, H. Qed.

Lemma K_reset : forall s, server_truthful s -> server_truthful (reset s).
Proof.
  intros s H. unfold reset.
  match goal with |- server_truthful (match parent ?s2 with _ => _ end) => set (s2' := s2) end.
  assert (H2 : server_truthful s2').
  { subst s2'. apply K_fold_on_closed. eapply kfr_K; [|exact H]. apply kfr_fields; reflexivity. }
  destruct (parent s2'); [apply K_close_peer; exact H2 | exact H2].
Qed.

Lemma K_fold_run_cont : forall ks s, server_truthful s ->
  (forall c, In (KUnset c) ks -> is_parent c s = false) -> server_truthful (fold_left run_cont ks s).
Proof.
  induction ks as [|k ks IH]; intros s H Hk; simpl; [exact H|].
  assert (Hk' : forall c, In (KUnset c) ks -> is_parent c (run_cont s k) = false).
  { intros c Hc. assert (Ep : parent (run_cont s k) = parent s).
    { destruct k as [|x]; simpl.
      - destruct (same_tree_notify_children s) as (_ & E & _). exact E.
      - unfold finish_close. cbn. destruct (same_tree_tell_children (unset_children_level, me) s) as (_ & E & _). exact E. }
    unfold is_parent. rewrite Ep. apply (Hk c). right; exact Hc. }
  apply IH; [|exact Hk'].
  destruct k as [|x]; simpl.
  - eapply kfr_K; [apply kfr_notify_children | exact H].
  - eapply kfr_K; [|exact H]. eapply kfr_trans; [apply kfr_tell_children|]. apply kfr_finish_close.
    unfold is_parent. destruct (same_tree_tell_children (unset_children_level, me) s) as (_ & E & _). rewrite E. apply (Hk x). left; reflexivity.
Qed.

Lemma closing_In : forall c s, In (KUnset c) (pend s) -> closing c s = true.
Proof.
  intros c s H. unfold closing. apply existsb_exists. exists (KUnset c). split; [exact H | apply Nat.eqb_refl].
Qed.

Lemma K_step : forall s e, base s -> server_truthful s -> server_truthful (step s e).
Proof.
  intros s0 e B0 H0.
  assert (H : server_truthful (set_outs [] s0)) by (eapply kfr_K; [|exact H0]; apply kfr_fields; reflexivity).
  assert (B : base (set_outs [] s0)) by (eapply base_exc_eq; [|exact B0]; unfold base_eq; cbn; tauto).
  unfold step. set (s := set_outs [] s0) in *. destruct e.
  - cbv zeta. destruct session_init_readvertises; [apply K_advertise_any | apply K_tell_server].
  - unfold server_truthful. cbn. discriminate.
  - eapply kfr_K; [|exact H]. apply kfr_fields; reflexivity.
  - eapply kfr_K; [|exact H]. apply kfr_fields; reflexivity.
  - (* PeerInit *)
    unfold on_peer_init. destruct (registered c s || live c s || closing c s) eqn:G; [exact H|].
    apply orb_false_iff in G. destruct G as [G _]. apply orb_false_iff in G. destruct G as [_ L].
    match goal with |- server_truthful (if requested then ?s1 else _) => set (s1' := s1) end.
    assert (K1 : server_truthful s1').
    { eapply kfr_K; [|exact H]. subst s1'. unfold kfr. cbn. split; [reflexivity|split; [reflexivity|split; [reflexivity|]]].
      apply position_eq; [reflexivity|]. intros p E. unfold find_peer. cbn. apply find_app_other. cbn.
      intro; subst p. destruct B as (A & _). specialize (A c E (fun x => x)). congruence. }
    destruct requested; [exact K1|].
    destruct (check_new_child _ _ _ _); [exact K1 | apply K_close_peer; exact K1|].
    unfold add_child. destruct (session (set_children (children s1' ++ [c]) s1'));
      (eapply kfr_K; [|exact K1]; apply kfr_fields; reflexivity).
  - (* BranchLevel *)
    unfold on_branch_level. destruct (registered c s && live c s); [|exact H].
    apply K_after_announce. intros P. eapply kfr_K; [|exact H]. apply kfr_upd_peer; [exact P | reflexivity].
  - (* BranchRoot *)
    unfold on_branch_root. destruct (negb (live c s)); [exact H|].
    destruct (find_peer c s) as [p|]; [|exact H].
    assert (U : server_truthful (after_announce c (upd_peer c (fun p0 => mkPeer (pc p0) (pname p0) (plevel p0) (Some r)) s))).
    { apply K_after_announce. intros P. eapply kfr_K; [|exact H]. apply kfr_upd_peer; [exact P | reflexivity]. }
    destruct (proot p) as [r0|]; [destruct (Nat.eqb r0 r); [exact H|]|]; exact U.
  - apply K_close_peer; exact H.
  - eapply kfr_K; [|exact H]. apply kfr_fields; reflexivity.
  - eapply kfr_K; [|exact H]. apply kfr_fields; reflexivity.
  - unfold on_own_stats. destruct (session s); [|exact H].
    repeat match goal with |- server_truthful (if ?b then _ else _) => destruct b end;
      (eapply kfr_K; [|exact H]; apply kfr_fields; reflexivity).
  - apply K_reset; exact H.
  - eapply kfr_K; [|exact H]. apply kfr_fields; reflexivity.
  - unfold release. apply K_fold_run_cont.
    + eapply kfr_K; [|exact H]. apply kfr_fields; reflexivity.
    + intros c Hc. assert (P : is_parent c s = false).
      { unfold is_parent. destruct (parent s) as [p|] eqn:E; [|reflexivity].
        apply Nat.eqb_neq. intro; subst p. destruct B as (A & C & _).
        specialize (A c E (fun x => x)). specialize (C c (closing_In c s Hc)). congruence. }
      exact P.
Qed.

Lemma K_init : server_truthful init.
Proof. unfold server_truthful, init. cbn. discriminate. Qed.

Lemma told_server_run : forall evs s, base s -> server_truthful s -> server_truthful (run s evs).
Proof.
  induction evs as [|e evs IH]; intros s B H; simpl in *; [exact H|].
  apply IH; [apply base_step; exact B | apply K_step; assumption].
Qed.

(* the history that left the server with stale values before F11 was repaired *)
Definition f11_witness : list event :=
  [SessionInit; PeerInit 1%nat 1%nat true; BranchLevel 1%nat 3; BranchRoot 1%nat 5%nat; BranchLevel 1%nat 5].

(* ------------------------------------------------------------------ the generated child limit *)
Lemma child_limit_spec : forall speed mn rt, 0 <= speed -> 0 < rt ->
  let r := child_limits speed mn rt in
  let below := fst (fst r) in let acc := snd (fst r) in let mx := snd r in
  (below = true <-> speed < mn * 1024) /\
  (below = true -> acc = false /\ mx = 0) /\
  (below = false -> acc = true /\ mx * (rt * 1024) <= speed * 10 < (mx + 1) * (rt * 1024)).
Proof.
  intros speed mn rt Hs Hr. unfold child_limits.
  destruct (Z.ltb_spec speed (Z.mul mn 1024)) as [L|L]; cbn [fst snd].
  - split; [split; [intros _; lia | reflexivity]|]. split; [intros _; split; reflexivity | discriminate].
  - split; [split; [discriminate | lia]|]. split; [discriminate|]. intros _. split; [reflexivity|].
    unfold calculate_max_children.
    replace (1 * (rt * 1 * 1024)) with (rt * 1024) by lia. replace (speed * (1 * 10 * 1)) with (speed * 10) by lia.
    assert (P : 0 < rt * 1024) by lia.
    pose proof (Z.mul_div_le (speed * 10) (rt * 1024) P). pose proof (Z.mul_succ_div_gt (speed * 10) (rt * 1024) P). lia.
Qed.

(* ------------------------------------------------------------------ what the children were told *)
(* [tellinv]: no handler is suspended unless the server write side is held; when nothing is
   suspended every live child was last told the current position; when the last suspended handler
   is an _unset_parent there is no parent (so that the level 0 / own name it will send is right) *)
Definition tellinv (s : state) : Prop :=
  (held s = false -> pend s = []) /\
  (pend s = [] -> children_truthful s) /\
  (forall c ks, pend s = ks ++ [KUnset c] -> parent s = None).

Lemma position_no_parent : forall s, parent s = None -> position s = (unset_children_level, me).
Proof. intros s E. unfold position. rewrite E. reflexivity. Qed.

Lemma lookup_cons : forall c v x s, lookup_told x (set_told_child ((c, v) :: told_child s) s)
  = if Nat.eqb c x then Some v else lookup_told x s.
Proof. intros. unfold lookup_told. cbn. destruct (Nat.eqb c x); reflexivity. Qed.

Lemma lookup_tell_child : forall v s c x,
  lookup_told x (tell_child v s c) = if Nat.eqb c x && live c s then Some v else lookup_told x s.
Proof.
  intros. unfold tell_child. destruct (live c s); [|rewrite andb_false_r; reflexivity].
  rewrite andb_true_r. unfold emit, lookup_told. cbn. destruct (Nat.eqb c x); reflexivity.
Qed.

Lemma lookup_fold_tell : forall v l s x,
  lookup_told x (fold_left (tell_child v) l s) = if memn x l && live x s then Some v else lookup_told x s.
Proof.
  intros v l. induction l as [|c l IH]; intros s x; simpl; [reflexivity|].
  rewrite IH. rewrite (same_tree_live _ _ x (same_tree_tell_child v s c)). rewrite lookup_tell_child.
  unfold memn at 2. cbn [existsb]. fold (memn x l). rewrite (Nat.eqb_sym x c).
  destruct (Nat.eqb c x) eqn:E; cbn [orb andb].
  - apply Nat.eqb_eq in E. subst c. destruct (live x s); [rewrite andb_true_r|rewrite andb_false_r]; [destruct (memn x l)|]; reflexivity.
  - reflexivity.
Qed.

Lemma truthful_tell_children : forall v s, v = position s -> children_truthful (tell_children v s).
Proof.
  intros v s E. pose proof (same_tree_tell_children v s) as T. unfold children_truthful. intros c Hc L.
  rewrite (same_tree_position _ _ T). rewrite (same_tree_live _ _ c T) in L.
  destruct T as (_ & _ & Ec & _). rewrite Ec in Hc. unfold tell_children. rewrite lookup_fold_tell.
  apply memn_In in Hc. rewrite Hc, L. cbn. congruence.
Qed.

(* frame: the truth of what the children were told is not affected *)
Definition tfr (s s' : state) : Prop :=
  incl (children s') (children s) /\
  (forall c, In c (children s') -> live c s' = true -> live c s = true) /\
  (forall c, In c (children s') -> lookup_told c s' = lookup_told c s) /\
  position s' = position s.

Lemma tfr_truthful : forall s s', tfr s s' -> children_truthful s -> children_truthful s'.
Proof.
  unfold tfr, children_truthful. intros s s' (A & B & C & D) H c Hc L. rewrite (C c Hc), D. apply H; [apply A; exact Hc | apply B; assumption].
Qed.

Definition jfr (s s' : state) : Prop := held s' = held s /\ pend s' = pend s /\ parent s' = parent s /\ tfr s s'.

Lemma jfr_tellinv : forall s s', jfr s s' -> tellinv s -> tellinv s'.
Proof.
  unfold jfr, tellinv. intros s s' (E1 & E2 & E3 & T) (J1 & J2 & J3). rewrite E1, E2, E3. split; [exact J1|split; [|exact J3]].
  intros E. eapply tfr_truthful; [exact T | apply J2; exact E].
Qed.

Lemma jfr_trans : forall a b c, jfr a b -> jfr b c -> jfr a c.
Proof.
  unfold jfr, tfr. intros a b c (A1 & A2 & A3 & A4 & A5 & A6 & A7) (B1 & B2 & B3 & B4 & B5 & B6 & B7).
  split; [congruence|split; [congruence|split; [congruence|]]]. split; [|split; [|split]].
  - intros x Hx. apply A4, B4, Hx.
  - intros x Hx L. apply A5; [apply B4; exact Hx | apply B5; assumption].
  - intros x Hx. rewrite (B6 x Hx). apply A6. apply B4; exact Hx.
  - congruence.
Qed.

(* frame from equal fields *)
Lemma jfr_fields : forall s s', held s' = held s -> pend s' = pend s -> parent s' = parent s -> children s' = children s ->
  peers s' = peers s -> told_child s' = told_child s -> (forall c, live c s' = true -> live c s = true) -> jfr s s'.
Proof.
  intros s s' E1 E2 E3 E4 E5 E6 L. unfold jfr, tfr. split; [exact E1|split; [exact E2|split; [exact E3|]]].
  split; [rewrite E4; apply incl_refl|]. split; [intros c _; apply L|]. split.
  - intros c _. unfold lookup_told. rewrite E6. reflexivity.
  - unfold position, find_peer. rewrite E3, E5. reflexivity.
Qed.

Lemma jfr_same_tree : forall s s', same_tree s s' -> told_child s' = told_child s -> jfr s s'.
Proof.
  intros s s' T E. pose proof T as (_ & E1 & E2 & E3 & E4 & _ & _ & _ & E5 & E6).
  apply jfr_fields; try assumption. intros c. unfold live. rewrite E4. tauto.
Qed.

Lemma told_child_tell_server : forall s, told_child (tell_server s) = told_child s.
Proof. intros. unfold tell_server. destruct (session s); reflexivity. Qed.

Lemma jfr_finish_close : forall c s, is_parent c s = false -> jfr s (finish_close c s).
Proof.
  intros c s P. unfold jfr. split; [reflexivity|split; [reflexivity|split; [reflexivity|]]]. unfold tfr. split; [|split; [|split]].
  - apply shrinks_finish_close.
  - intros x _ L. exact L.
  - intros x _. reflexivity.
  - destruct (kfr_finish_close c s P) as (_ & _ & _ & E). exact E.
Qed.

Lemma jfr_drop_emit : forall c o s, jfr s (drop_conn c (emit o s)).
Proof.
  intros. apply jfr_fields; try reflexivity. intros x. unfold live, drop_conn, emit. cbn. intros M. apply live_without in M. tauto.
Qed.

(* _notify_server_of_parent + children: establishes the invariant from its first clause alone *)
Lemma tellinv_advertise : forall s, session s = true -> (held s = false -> pend s = []) -> tellinv (advertise s).
Proof.
  intros s Hs J1. pose proof (same_tree_tell_server s) as T. pose proof T as (_ & _ & _ & _ & _ & _ & _ & _ & Eh & Ep).
  destruct (advertise_cases s) as [[E _]|[(_ & Hh & E)|(_ & Hh & E)]]; [congruence| |]; rewrite E.
  - unfold tellinv, push. cbn. split; [intros Hf; congruence|]. split.
    + intros Hn. apply app_eq_nil in Hn. destruct Hn; discriminate.
    + intros c ks Hk. apply app_inj_tail in Hk. destruct Hk; discriminate.
  - rewrite Eh in Hh. specialize (J1 Hh).
    pose proof (same_tree_notify_children (tell_server s)) as T2. pose proof T2 as (_ & _ & _ & _ & _ & _ & _ & _ & Eh2 & Ep2).
    unfold tellinv. rewrite Eh2, Ep2, Eh, Ep, J1. split; [reflexivity|]. split.
    + intros _. unfold notify_children. destruct T as (Es & _). rewrite Es, Hs. apply truthful_tell_children. reflexivity.
    + intros c ks Hk. destruct ks; discriminate.
Qed.

Lemma tellinv_on_closed : forall c s, tellinv s -> session s = true -> tellinv (on_closed c s).
Proof.
  intros c s J Hs. unfold on_closed. destruct (is_parent c s) eqn:P.
  - cbn [session set_parent]. rewrite Hs.
    pose proof (same_tree_tell_server (set_parent None s)) as T. pose proof T as (_ & Epar & _ & _ & _ & _ & _ & _ & Eh & Ep).
    destruct J as (J1 & _ & _).
    destruct (held (tell_server (set_parent None s))) eqn:Hh.
    + unfold tellinv, push. cbn. rewrite Hh, Epar. cbn. split; [discriminate|]. split; [|reflexivity].
      intros Hn. apply app_eq_nil in Hn. destruct Hn; discriminate.
    + symmetry in Eh. cbn in Eh. specialize (J1 Eh).
      set (s2 := tell_server (set_parent None s)) in *.
      assert (Pn : parent (tell_children (unset_children_level, me) s2) = None).
      { destruct (same_tree_tell_children (unset_children_level, me) s2) as (_ & E & _). rewrite E, Epar. reflexivity. }
      assert (TT : tellinv (tell_children (unset_children_level, me) s2)).
      { pose proof (same_tree_tell_children (unset_children_level, me) s2) as T2. pose proof T2 as (_ & _ & _ & _ & _ & _ & _ & _ & Eh2 & Ep2).
        assert (Ep' : pend s2 = []) by (rewrite Ep; exact J1).
        unfold tellinv. rewrite Eh2, Ep2, Ep'. split; [reflexivity|]. split.
        - intros _. apply truthful_tell_children. symmetry. apply position_no_parent. rewrite Epar. reflexivity.
        - intros x ks Hk. destruct ks; discriminate. }
      eapply jfr_tellinv; [|exact TT]. apply jfr_finish_close. unfold is_parent. rewrite Pn. reflexivity.
  - eapply jfr_tellinv; [apply jfr_finish_close; exact P | exact J].
Qed.

Lemma session_drop_emit : forall c o s, session (drop_conn c (emit o s)) = session s.
Proof. reflexivity. Qed.

Lemma tellinv_close_peer : forall c s, tellinv s -> session s = true -> tellinv (close_peer c s).
Proof.
  intros c s J Hs. unfold close_peer. destruct (live c s); [|exact J].
  apply tellinv_on_closed; [|exact Hs]. eapply jfr_tellinv; [apply jfr_drop_emit | exact J].
Qed.

Lemma tellinv_do_set_parent : forall c s, (held s = false -> pend s = []) -> session s = true -> tellinv (do_set_parent c s).
Proof. intros c s J1 Hs. unfold do_set_parent. apply tellinv_advertise; [exact Hs | exact J1]. Qed.

Lemma tellinv_after_announce : forall c s, (is_parent c s = false -> tellinv s) -> (held s = false -> pend s = []) ->
  session s = true -> tellinv (after_announce c s).
Proof.
  intros c s J J1 Hs. unfold after_announce. rewrite parent_update_flag. destruct (is_parent c s); [apply tellinv_advertise; assumption|].
  specialize (J eq_refl).
  destruct (find_peer c s) as [p|]; [|exact J]. destruct (complete p); [|exact J].
  destruct (take_as_parent _ _); [apply tellinv_do_set_parent; assumption | apply tellinv_close_peer; assumption].
Qed.

Lemma jfr_upd_peer : forall c f s, is_parent c s = false -> (forall q, pc (f q) = pc q) -> jfr s (upd_peer c f s).
Proof.
  intros c f s P F. unfold jfr. split; [reflexivity|split; [reflexivity|split; [reflexivity|]]]. unfold tfr.
  split; [apply incl_refl|]. split; [intros x _ L; exact L|]. split; [intros x _; reflexivity|].
  destruct (kfr_upd_peer c f s P F) as (_ & _ & _ & E). exact E.
Qed.

Lemma session_on_closed : forall c s, session (on_closed c s) = session s.
Proof.
  intros c s. unfold on_closed. destruct (is_parent c s); [|reflexivity].
  cbn [session set_parent]. destruct (session s) eqn:Hs; [|exact Hs].
  destruct (held (tell_server (set_parent None s))).
  - unfold push. cbn. destruct (same_tree_tell_server (set_parent None s)) as (E & _). rewrite E. exact Hs.
  - unfold finish_close. cbn. destruct (same_tree_tell_children (unset_children_level, me) (tell_server (set_parent None s))) as (E & _).
    destruct (same_tree_tell_server (set_parent None s)) as (E2 & _). rewrite E, E2. exact Hs.
Qed.

Lemma tellinv_fold_on_closed : forall cs s, tellinv s -> session s = true ->
  tellinv (fold_left (fun a c => on_closed c a) cs s) /\ session (fold_left (fun a c => on_closed c a) cs s) = true.
Proof.
  induction cs as [|c cs IH]; intros s J Hs; simpl; [tauto|].
  apply IH; [apply tellinv_on_closed; assumption | rewrite session_on_closed; exact Hs].
Qed.

Lemma tellinv_reset : forall s, tellinv s -> session s = true -> tellinv (reset s).
Proof.
  intros s J Hs. unfold reset.
  set (cs := filter (fun c => live c s) (children s)).
  set (s1 := emit (map OClose cs) (set_conns (filter (fun x => negb (memn x cs)) (conns s)) s)).
  assert (J1 : tellinv s1).
  { eapply jfr_tellinv; [|exact J]. subst s1. apply jfr_fields; try reflexivity.
    intros x. unfold live, emit. cbn. intros M. apply memn_filter in M. tauto. }
  destruct (tellinv_fold_on_closed cs s1 J1 Hs) as [J2 Hs2].
  destruct (parent (fold_left (fun a c => on_closed c a) cs s1)); [apply tellinv_close_peer; assumption | exact J2].
Qed.

Lemma cont_frame : forall k s, session (run_cont s k) = session s /\ pend (run_cont s k) = pend s /\
  held (run_cont s k) = held s /\ parent (run_cont s k) = parent s.
Proof.
  intros [|c] s; simpl.
  - destruct (same_tree_notify_children s) as (A & B & _ & _ & _ & _ & _ & _ & C & D). tauto.
  - unfold finish_close. cbn. destruct (same_tree_tell_children (unset_children_level, me) s) as (A & B & _ & _ & _ & _ & _ & _ & C & D). tauto.
Qed.

Lemma fold_cont_frame : forall ks s, session (fold_left run_cont ks s) = session s /\ pend (fold_left run_cont ks s) = pend s /\
  held (fold_left run_cont ks s) = held s /\ parent (fold_left run_cont ks s) = parent s.
Proof.
  induction ks as [|k ks IH]; intros s; simpl; [tauto|].
  destruct (IH (run_cont s k)) as (A & B & C & D). destruct (cont_frame k s) as (A' & B' & C' & D'). repeat split; congruence.
Qed.

Lemma tellinv_release : forall s, tellinv s -> session s = true -> tellinv (release s).
Proof.
  intros s (J1 & J2 & J3) Hs. unfold release.
  set (s0 := set_pend [] (set_held false s)).
  destruct (pend s) as [|k0 ks0] eqn:Ep.
  - simpl. unfold tellinv. cbn. split; [reflexivity|]. split; [|intros c ks Hk; destruct ks; discriminate].
    intros _. eapply tfr_truthful; [|apply J2; reflexivity]. unfold tfr. cbn.
    split; [apply incl_refl|]. split; [intros c _ L; exact L|]. split; [intros c _; reflexivity | reflexivity].
  - destruct (exists_last (l := k0 :: ks0)) as (ks & k & Ek); [discriminate|]. rewrite Ek. rewrite fold_left_app. simpl.
    set (m := fold_left run_cont ks s0).
    destruct (fold_cont_frame ks s0) as (Ms & Mp & Mh & Mpar). fold m in Ms, Mp, Mh, Mpar. cbn in Ms, Mp, Mh, Mpar.
    destruct k as [|c]; simpl.
    + pose proof (same_tree_notify_children m) as T. pose proof T as (_ & _ & _ & _ & _ & _ & _ & _ & Eh & Epd).
      unfold tellinv. rewrite Eh, Epd, Mh, Mp. split; [reflexivity|]. split; [|intros c ks' Hk; destruct ks'; discriminate].
      intros _. unfold notify_children. rewrite Ms, Hs. apply truthful_tell_children. reflexivity.
    + assert (Pn : parent m = None) by (rewrite Mpar; apply (J3 c ks); rewrite <- Ek; reflexivity).
      assert (TT : tellinv (tell_children (unset_children_level, me) m)).
      { pose proof (same_tree_tell_children (unset_children_level, me) m) as T2. pose proof T2 as (_ & _ & _ & _ & _ & _ & _ & _ & Eh2 & Ep2).
        unfold tellinv. rewrite Eh2, Ep2, Mh, Mp. split; [reflexivity|]. split.
        - intros _. apply truthful_tell_children. symmetry. apply position_no_parent. exact Pn.
        - intros x ks' Hk. destruct ks'; discriminate. }
      eapply jfr_tellinv; [|exact TT]. apply jfr_finish_close. unfold is_parent.
      destruct (same_tree_tell_children (unset_children_level, me) m) as (_ & E & _). rewrite E, Pn. reflexivity.
Qed.

Lemma lookup_filter_other : forall c x l, x <> c ->
  find (fun e : conn * (Z * name) => Nat.eqb (fst e) x) (filter (fun e => negb (Nat.eqb (fst e) c)) l)
  = find (fun e => Nat.eqb (fst e) x) l.
Proof.
  intros c x l N. induction l as [|e l IH]; simpl; [reflexivity|].
  destruct (Nat.eqb (fst e) c) eqn:E; simpl.
  - apply Nat.eqb_eq in E. destruct (Nat.eqb (fst e) x) eqn:E2; [apply Nat.eqb_eq in E2; congruence | exact IH].
  - rewrite IH. reflexivity.
Qed.

Lemma tellinv_step : forall s e, tree_inv s -> base s -> tellinv s -> session_present s e = true -> tellinv (step s e).
Proof.
  intros s0 e T0 B0 J0 Hc.
  assert (J : tellinv (set_outs [] s0)) by (eapply jfr_tellinv; [|exact J0]; apply jfr_fields; try reflexivity; tauto).
  assert (T : tree_inv (set_outs [] s0)) by (eapply tree_inv_eq; [|exact T0]; unfold tree_eq; cbn; tauto).
  assert (B : base (set_outs [] s0)) by (eapply base_exc_eq; [|exact B0]; unfold base_eq; cbn; tauto).
  unfold step. set (s := set_outs [] s0) in *.
  assert (Hss : session s = session s0) by reflexivity.
  destruct e; simpl in Hc.
  - (* SessionInit *)
    cbv zeta. destruct session_init_readvertises.
    { destruct J as (J1 & _ & _). apply tellinv_advertise; [reflexivity | exact J1]. }
    eapply jfr_tellinv; [|exact J]. eapply jfr_trans.
    + apply (jfr_fields s (set_session true s)); try reflexivity; tauto.
    + apply jfr_same_tree; [apply same_tree_tell_server | apply told_child_tell_server].
  - eapply jfr_tellinv; [|exact J]. apply jfr_fields; try reflexivity; tauto.
  - eapply jfr_tellinv; [|exact J]. apply jfr_fields; try reflexivity; tauto.
  - eapply jfr_tellinv; [|exact J]. apply jfr_fields; try reflexivity; tauto.
  - (* PeerInit *)
    rewrite <- Hss in Hc.
    unfold on_peer_init. destruct (registered c s || live c s || closing c s) eqn:G; [exact J|].
    apply orb_false_iff in G. destruct G as [G _]. apply orb_false_iff in G. destruct G as [_ L].
    match goal with |- tellinv (if requested then ?s1 else _) => set (s1' := s1) end.
    assert (Nc : ~ In c (children s)).
    { intro Hin. destruct T as (_ & T2 & _). apply T2 in Hin. congruence. }
    assert (Np : is_parent c s = false).
    { unfold is_parent. destruct (parent s) as [p|] eqn:E; [|reflexivity]. apply Nat.eqb_neq. intro; subst p.
      destruct B as (A & _). specialize (A c E (fun x => x)). congruence. }
    assert (F1 : jfr s s1').
    { subst s1'. unfold jfr. cbn. split; [reflexivity|split; [reflexivity|split; [reflexivity|]]]. unfold tfr. cbn.
      split; [apply incl_refl|]. split; [|split].
      - intros x Hx Lx. unfold live in *. cbn in Lx. apply memn_In in Lx. apply in_app_or in Lx.
        destruct Lx as [Lx|[Lx|[]]]; [apply memn_In; exact Lx | subst x; tauto].
      - intros x Hx. unfold lookup_told. cbn. rewrite lookup_filter_other; [reflexivity|]. intro; subst x; tauto.
      - apply position_eq; [reflexivity|]. intros p E. unfold find_peer. cbn. apply find_app_other. cbn.
        intro; subst p. unfold is_parent in Np. rewrite E, Nat.eqb_refl in Np. discriminate. }
    assert (J1 : tellinv s1') by (eapply jfr_tellinv; [exact F1 | exact J]).
    destruct requested; [exact J1|].
    destruct (check_new_child _ _ _ _); [exact J1 | apply tellinv_close_peer; [exact J1 | exact Hc]|].
    unfold add_child. cbn [session set_children]. change (session s1') with (session s). rewrite Hc.
    destruct J1 as (A1 & A2 & A3). unfold tellinv, emit. cbn. split; [exact A1|split; [|exact A3]].
    intros Ep. specialize (A2 Ep). unfold children_truthful in *. cbn.
    set (s2 := set_children (children s ++ [c]) s1') in *.
    assert (Pe : forall t o, position (set_outs o (set_told_child t s2)) = position s1') by reflexivity.
    intros x Hx Lx. rewrite Pe. unfold lookup_told. cbn.
    apply in_app_or in Hx. destruct Hx as [Hx|[Hx|[]]].
    + assert (Nx : Nat.eqb c x = false) by (apply Nat.eqb_neq; intro; subst x; tauto). rewrite Nx.
      apply (A2 x Hx). exact Lx.
    + subst x. rewrite Nat.eqb_refl. reflexivity.
  - (* BranchLevel *)
    rewrite <- Hss in Hc. unfold on_branch_level. destruct (registered c s && live c s); [|exact J].
    destruct J as (J1 & J2 & J3).
    apply tellinv_after_announce; [|exact J1|exact Hc].
    intros P. eapply jfr_tellinv; [apply jfr_upd_peer; [exact P | reflexivity]|]. split; [exact J1|split; assumption].
  - (* BranchRoot *)
    rewrite <- Hss in Hc. unfold on_branch_root. destruct (negb (live c s)); [exact J|].
    destruct (find_peer c s) as [p|]; [|exact J].
    assert (U : tellinv (after_announce c (upd_peer c (fun p0 => mkPeer (pc p0) (pname p0) (plevel p0) (Some r)) s))).
    { destruct J as (J1 & J2 & J3). apply tellinv_after_announce; [|exact J1|exact Hc].
      intros P. eapply jfr_tellinv; [apply jfr_upd_peer; [exact P | reflexivity]|]. split; [exact J1|split; assumption]. }
    destruct (proot p) as [r0|]; [destruct (Nat.eqb r0 r); [exact J|]|]; exact U.
  - rewrite <- Hss in Hc. apply tellinv_close_peer; assumption.
  - eapply jfr_tellinv; [|exact J]. apply jfr_fields; try reflexivity; tauto.
  - eapply jfr_tellinv; [|exact J]. apply jfr_fields; try reflexivity; tauto.
  - unfold on_own_stats. destruct (session s); [|exact J].
    repeat match goal with |- tellinv (if ?b then _ else _) => destruct b end;
      (eapply jfr_tellinv; [|exact J]; apply jfr_fields; try reflexivity; tauto).
  - rewrite <- Hss in Hc. apply tellinv_reset; assumption.
  - (* Hold *)
    destruct J as (J1 & J2 & J3). unfold tellinv. cbn. split; [discriminate|]. split; [|exact J3].
    intros E. eapply tfr_truthful; [|apply J2; exact E]. unfold tfr. cbn.
    split; [apply incl_refl|]. split; [intros c _ L; exact L|]. split; [intros c _; reflexivity | reflexivity].
  - rewrite <- Hss in Hc. apply tellinv_release; assumption.
Qed.

Lemma tellinv_init : tellinv init.
Proof.
  unfold tellinv, init. cbn. split; [reflexivity|]. split; [|intros c ks Hk; destruct ks; discriminate].
  intros _ c [].
Qed.

Lemma tellinv_run : forall evs s, tree_inv s -> base s -> tellinv s -> along session_present s evs = true -> tellinv (run s evs).
Proof.
  induction evs as [|e evs IH]; intros s T B J A; simpl in *; [exact J|].
  apply andb_true_iff in A. destruct A as [A1 A2].
  apply IH; [apply tree_inv_step; exact T | apply base_step; exact B | apply tellinv_step; assumption | exact A2].
Qed.

Lemma children_told_run : forall evs, along session_present init evs = true -> pend (run init evs) = [] ->
  children_truthful (run init evs).
Proof.
  intros evs A E. destruct (tellinv_run evs init tree_inv_init base_init tellinv_init A) as (_ & J2 & _). apply J2; exact E.
Qed.

(* F27: a child admitted while logged out is never told the position *)
Definition f27_witness : list event := [PeerInit 1%nat 1%nat false; SessionInit].
Lemma children_told_refuted : session_init_readvertises = false ->
  exists evs, pend (run init evs) = [] /\ ~ children_truthful (run init evs).
Proof.
  intros R. first [discriminate R |
    exists f27_witness; split; [reflexivity|]; unfold children_truthful; intros H;
    specialize (H 1%nat); vm_compute in H; specialize (H (or_introl eq_refl) eq_refl); discriminate ].
Qed.

(* ------------------------------------------------------------------ the source still has the shape the model was written from *)
Lemma model_follows_source :
  set_parent_effects = model_set_parent_effects /\ unset_parent_effects = model_unset_parent_effects /\
  closed_handler_effects = model_closed_handler_effects /\ session_init_effects = model_session_init_effects /\
  session_destroyed_effects = model_session_destroyed_effects /\ reset_effects = model_reset_effects /\
  remove_child_effects = model_remove_child_effects /\
  server_advert_order = [AF_level; AF_root; AF_search] /\ unset_children_level = 0 /\
  (forall b, parent_search_flag b = negb b) /\ children_send_independent = true.
Proof. repeat split; first [reflexivity | intros []; reflexivity]. Qed.

Lemma helpers_as_assumed : search_for_parent_default = true /\ 0 < BLOCKING_FLAG_SEARCHES /\ 0 < DEFAULT_LISTENER_PRIORITY.
Proof. repeat split; reflexivity. Qed.

(* ------------------------------------------------------------------ children told: full statement when a new session re-advertises *)
(* frame of session / held / pend: handlers push only while the server write side is held *)
Definition sfr (s s' : state) : Prop :=
  session s' = session s /\ held s' = held s /\ (pend s' = pend s \/ held s = true).

Lemma sfr_refl : forall s, sfr s s.
Proof. unfold sfr; tauto. Qed.
Lemma sfr_trans : forall a b c, sfr a b -> sfr b c -> sfr a c.
Proof.
  unfold sfr. intros a b c (A1 & A2 & A3) (B1 & B2 & B3). split; [congruence|split; [congruence|]].
  destruct B3 as [B3|B3]; [|right; congruence]. destruct A3 as [A3|A3]; [left; congruence | right; exact A3].
Qed.
Lemma sfr_fields : forall s s', session s' = session s -> held s' = held s -> pend s' = pend s -> sfr s s'.
Proof. unfold sfr; tauto. Qed.
Lemma sfr_same_tree : forall s s', same_tree s s' -> sfr s s'.
Proof. intros s s' (A & _ & _ & _ & _ & _ & _ & _ & B & C). apply sfr_fields; assumption. Qed.
Lemma sfr_push : forall k s, held s = true -> sfr s (push k s).
Proof. intros k s H. unfold sfr, push. cbn. tauto. Qed.

Lemma sfr_advertise : forall s, sfr s (advertise s).
Proof.
  intros s. destruct (advertise_cases s) as [[_ E]|[(_ & Hh & E)|(_ & _ & E)]]; rewrite E.
  - apply sfr_refl.
  - eapply sfr_trans; [apply sfr_same_tree, same_tree_tell_server | apply sfr_push; exact Hh].
  - apply sfr_same_tree. eapply same_tree_trans; [apply same_tree_tell_server | apply same_tree_notify_children].
Qed.

Lemma sfr_finish_close : forall c s, sfr s (finish_close c s).
Proof. intros. apply sfr_fields; reflexivity. Qed.

Lemma sfr_on_closed : forall c s, sfr s (on_closed c s).
Proof.
  intros c s. unfold on_closed. destruct (is_parent c s); [|apply sfr_finish_close].
  assert (S0 : sfr s (set_parent None s)) by (apply sfr_fields; reflexivity).
  destruct (session (set_parent None s)).
  - destruct (held (tell_server (set_parent None s))) eqn:Hh.
    + eapply sfr_trans; [exact S0|]. eapply sfr_trans; [apply sfr_same_tree, same_tree_tell_server | apply sfr_push; exact Hh].
    + eapply sfr_trans; [exact S0|]. eapply sfr_trans; [apply sfr_same_tree, same_tree_tell_server|].
      eapply sfr_trans; [apply sfr_same_tree, same_tree_tell_children | apply sfr_finish_close].
  - eapply sfr_trans; [exact S0 | apply sfr_finish_close].
Qed.

Lemma sfr_close_peer : forall c s, sfr s (close_peer c s).
Proof.
  intros c s. unfold close_peer. destruct (live c s); [|apply sfr_refl].
  eapply sfr_trans; [|apply sfr_on_closed]. apply sfr_fields; reflexivity.
Qed.

Lemma sfr_do_set_parent : forall c s, sfr s (do_set_parent c s).
Proof. intros c s. unfold do_set_parent. eapply sfr_trans; [|apply sfr_advertise]. apply sfr_fields; reflexivity. Qed.

Lemma sfr_after_announce : forall c s, sfr s (after_announce c s).
Proof.
  intros c s. unfold after_announce. destruct (is_parent c s).
  - destruct parent_update_tells_server; [apply sfr_advertise | apply sfr_same_tree, same_tree_notify_children].
  - destruct (find_peer c s) as [p|]; [|apply sfr_refl]. destruct (complete p); [|apply sfr_refl].
    destruct (take_as_parent _ _); [apply sfr_do_set_parent | apply sfr_close_peer].
Qed.

Lemma sfr_fold_on_closed : forall cs s, sfr s (fold_left (fun a c => on_closed c a) cs s).
Proof. induction cs as [|c cs IH]; intros s; simpl; [apply sfr_refl|]. eapply sfr_trans; [apply sfr_on_closed | apply IH]. Qed.

Lemma sfr_reset : forall s, sfr s (reset s).
Proof.
  intros s. unfold reset.
  match goal with |- sfr _ (match parent ?s2 with _ => _ end) => set (s2' := s2) end.
  assert (H2 : sfr s s2').
  { subst s2'. eapply sfr_trans; [|apply sfr_fold_on_closed]. apply sfr_fields; reflexivity. }
  destruct (parent s2'); [eapply sfr_trans; [exact H2 | apply sfr_close_peer] | exact H2].
Qed.

Definition plain_event (e : event) : bool :=
  match e with SessionInit | SessionDestroyed | Hold | Release => false | _ => true end.

Lemma sfr_step : forall s e, plain_event e = true -> sfr s (step s e).
Proof.
  intros s0 e P. assert (S0 : sfr s0 (set_outs [] s0)) by (apply sfr_fields; reflexivity).
  eapply sfr_trans; [exact S0|]. unfold step. set (s := set_outs [] s0). destruct e; try discriminate.
  - apply sfr_fields; reflexivity.
  - apply sfr_fields; reflexivity.
  - unfold on_peer_init. destruct (registered c s || live c s || closing c s); [apply sfr_refl|].
    match goal with |- sfr _ (if requested then ?s1 else _) => set (s1' := s1) end.
    assert (S1 : sfr s s1') by (apply sfr_fields; reflexivity).
    destruct requested; [exact S1|].
    destruct (check_new_child _ _ _ _); [exact S1 | eapply sfr_trans; [exact S1 | apply sfr_close_peer]|].
    eapply sfr_trans; [exact S1|]. unfold add_child. destruct (session (set_children (children s1' ++ [c]) s1')); apply sfr_fields; reflexivity.
  - unfold on_branch_level. destruct (registered c s && live c s); [|apply sfr_refl].
    eapply sfr_trans; [|apply sfr_after_announce]. apply sfr_fields; reflexivity.
  - unfold on_branch_root. destruct (negb (live c s)); [apply sfr_refl|]. destruct (find_peer c s) as [p|]; [|apply sfr_refl].
    assert (U : forall f, sfr s (after_announce c (upd_peer c f s))).
    { intros f. eapply sfr_trans; [|apply sfr_after_announce]. apply sfr_fields; reflexivity. }
    destruct (proot p) as [r0|]; [destruct (Nat.eqb r0 r); [apply sfr_refl|]|]; apply U.
  - apply sfr_close_peer.
  - apply sfr_fields; reflexivity.
  - apply sfr_fields; reflexivity.
  - unfold on_own_stats. destruct (session s); [|apply sfr_refl].
    repeat match goal with |- sfr _ (if ?b then _ else _) => destruct b end; apply sfr_fields; reflexivity.
  - apply sfr_reset.
Qed.

Definition tellinv2 (s : state) : Prop :=
  (held s = false -> pend s = []) /\
  (pend s = [] -> children_truthful_in_session s) /\
  (forall c ks, pend s = ks ++ [KUnset c] -> session s = true -> parent s = None).

Lemma tellinv_to2 : forall s, tellinv s -> tellinv2 s.
Proof. intros s (A & B & C). split; [exact A|]. split; [intros E _; apply B; exact E | intros c ks E _; apply (C c ks E)]. Qed.

Lemma tellinv2_to : forall s, tellinv2 s -> session s = true -> tellinv s.
Proof. intros s (A & B & C) Hs. split; [exact A|]. split; [intros E; exact (B E Hs) | intros c ks E; apply (C c ks E Hs)]. Qed.

Lemma tellinv2_no_session : forall s, session s = false -> (held s = false -> pend s = []) -> tellinv2 s.
Proof.
  intros s Hs A. split; [exact A|]. split; [intros _ Hs'; congruence | intros c ks _ Hs'; congruence].
Qed.

Lemma session_present_on : forall s e, session s = true -> session_present s e = true.
Proof. intros s e Hs. destruct e; cbn; try reflexivity; exact Hs. Qed.

Lemma tellinv2_step : forall s e, session_init_readvertises = true -> tree_inv s -> base s -> tellinv2 s -> tellinv2 (step s e).
Proof.
  intros s e R T B J. destruct (session s) eqn:Hs.
  - apply tellinv_to2. apply tellinv_step; [exact T | exact B | apply tellinv2_to; assumption | apply session_present_on; exact Hs].
  - destruct J as (J1 & _ & _).
    destruct (plain_event e) eqn:P.
    + destruct (sfr_step s e P) as (E1 & E2 & E3). apply tellinv2_no_session; [congruence|].
      intros Hh. rewrite E2 in Hh. destruct E3 as [E3|E3]; [rewrite E3; apply J1; exact Hh | congruence].
    + destruct e; try (discriminate P).
      * (* SessionInit: everything is advertised again *)
        apply tellinv_to2. unfold step. rewrite R. apply tellinv_advertise; [reflexivity | exact J1].
      * apply tellinv2_no_session; [reflexivity | exact J1].
      * apply tellinv2_no_session; [exact Hs | cbn; discriminate].
      * apply tellinv2_no_session.
        -- unfold step, release. destruct (fold_cont_frame (pend (set_outs [] s)) (set_pend [] (set_held false (set_outs [] s)))) as (E & _). rewrite E. exact Hs.
        -- intros _. unfold step, release. destruct (fold_cont_frame (pend (set_outs [] s)) (set_pend [] (set_held false (set_outs [] s)))) as (_ & E & _). rewrite E. reflexivity.
Qed.

Lemma tellinv2_run : forall evs s, session_init_readvertises = true -> tree_inv s -> base s -> tellinv2 s -> tellinv2 (run s evs).
Proof.
  induction evs as [|e evs IH]; intros s R T B J; simpl; [exact J|].
  apply IH; [exact R | apply tree_inv_step; exact T | apply base_step; exact B | apply tellinv2_step; assumption].
Qed.

Lemma children_told_full : session_init_readvertises = true ->
  forall evs, pend (run init evs) = [] -> children_truthful_in_session (run init evs).
Proof.
  intros R evs E. destruct (tellinv2_run evs init R tree_inv_init base_init (tellinv_to2 _ tellinv_init)) as (_ & J2 & _). apply J2; exact E.
Qed.
