(* Executable helpers used by the correspondence checks (checks/c01.py, checks/c02.py):
   decidable equality on bytes / values, boolean form of the in-domain predicate, finite
   oracle tables standing for zlib.compress / zlib.decompress.  Definitions only. *)
From Coq Require Import ZArith List Bool.
From Slsk Require Import C01.Types C01.Model.
Import ListNotations.
Open Scope N_scope.

Fixpoint bytes_eqb (a b : bytes) : bool :=
  match a, b with
  | [], [] => true
  | x :: a', y :: b' => andb (x =? y) (bytes_eqb a' b')
  | _, _ => false
  end.

Fixpoint value_eqb (a b : value) {struct a} : bool :=
  match a, b with
  | VInt x, VInt y => Z.eqb x y
  | VBool x, VBool y => Bool.eqb x y
  | VStr x, VStr y => bytes_eqb x y
  | VBytes x, VBytes y => bytes_eqb x y
  | VIp x, VIp y => bytes_eqb x y
  | VArr x, VArr y =>
      (fix go (x y : list value) {struct x} : bool :=
         match x, y with
         | [], [] => true
         | p :: x', q :: y' => andb (value_eqb p q) (go x' y')
         | _, _ => false
         end) x y
  | VRec x, VRec y =>
      (fix go (x y : list value) {struct x} : bool :=
         match x, y with
         | [], [] => true
         | p :: x', q :: y' => andb (value_eqb p q) (go x' y')
         | _, _ => false
         end) x y
  | VNone, VNone => true
  | _, _ => false
  end.

Fixpoint values_eqb (x y : list value) : bool :=
  match x, y with
  | [], [] => true
  | p :: x', q :: y' => andb (value_eqb p q) (values_eqb x' y')
  | _, _ => false
  end.

Definition opt_eqb {A} (e : A -> A -> bool) (a b : option A) : bool :=
  match a, b with
  | Some x, Some y => e x y
  | None, None => true
  | _, _ => false
  end.

Fixpoint lookup {B} (tbl : list (bytes * B)) (x : bytes) : option B :=
  match tbl with
  | [] => None
  | (k, v) :: r => if bytes_eqb k x then Some v else lookup r x
  end.

(* zlib oracles: what the real zlib did on the inputs that occur in the cases *)
Definition zc_of (tbl : list (bytes * bytes)) (x : bytes) : bytes :=
  match lookup tbl x with Some y => y | None => [] end.
Definition zd_of (tbl : list (bytes * option bytes)) (x : bytes) : option bytes :=
  match lookup tbl x with Some y => y | None => None end.

(* boolean form of [canonical] *)
Definition default_isb (f : field) (v : value) : bool :=
  match fdefault f with Some d => value_eqb d v | None => false end.

Fixpoint canonical_fromb (fs : list field) (all : list value) (vs : list value) : bool :=
  match fs, vs with
  | [], [] => true
  | f :: fs', v :: vs' =>
      andb (if cond_holds f all
            then if is_none v
                 then andb (fopt f) (andb (default_isb f v) (none_sent fs' all vs'))
                 else val_ok (fty f) v
            else default_isb f v)
           (canonical_fromb fs' all vs')
  | _, _ => false
  end.

Definition canonicalb (s : schema) (m : list value) : bool := canonical_fromb (sfields s) m m.

Definition indices_where {A} (p : A -> bool) (l : list (nat * A)) : list nat :=
  map fst (filter (fun c => p (snd c)) l).
